"""C13 (extension): the request paths of soc.py / generic_platform.py that the other C13 modules do not reach.

  SoCBusHandler.add_controller / add_peripheral   the documented aliases of add_master / add_slave, called natively (finding: add_controller cannot be called)
  add_master / add_slave with name=None           automatic names master<n> / slave<n>: every history over {None, colliding explicit names} (bounded length)
  SoCBusHandler.__init__                          E3: ALL int data_width / address_width per bus standard: accepted iff documented, fields, addressing
  SoCBusHandler(reserved_regions=...)             reserved regions take part in every later overlap / allocation decision
  SoCCSRHandler.add_master                        E3 from an arbitrary masters dict: name uniqueness, data-width agreement; automatic names (bounded)
  SoC.finalize with a REAL cpu path               SoCCore built with stub CPU classes (one wishbone master, interrupt input, IO regions, reserved interrupts):
                                                  add_cpu registers IO regions, enables interrupts; the IO/cached rule for every request route; finalize's own
                                                  requests (CSR bridge); shared / crossbar / point-to-point branches of SoCBusHandler.do_finalize for wishbone,
                                                  axi-lite, axi; on every SoC that builds the property is evaluated and the decoders of the built interconnect are
                                                  proved (z3, all addresses) to accept exactly their windows and never two at once
  ConnectorManager / ConstraintManager            add_connector, `conn:pin` resolution (list / dict / alias connectors), extensions, Inverted, PlatformInfo
Executed checks over concrete designs are labelled bounded (status bounded-ok); z3 proofs and complete enumerations are not."""
import sys, time, logging, itertools, traceback, z3
from vf import elab, pysym
from vf.pysym import SymInt, SymBool, SymRecordSeq, explore, toint, tobool, PathEnd, Unsupported
from vf.core import Case, PROVED, VIOLATED, NOINPUT, UNKNOWN, BOUNDED_OK, OK, VACUOUS, FAULT
from vf.hw import res
from litex.soc.integration import soc as S
from litex.build import generic_platform as GP
import contracts.C13_handlers_ext as HX
from contracts.C13_handlers_ext import _wrap, _explore, _quiet, Name, NDict, CInt, _member, _mint, FEAS_MS

EXEC = "executed (unmodified functions under plain CPython)"


def _guarded(fn):
    """executed cases: an exception that escapes while the scenario is evaluated is a difference in the behaviour of the code under contract
    (none is raised on the unchanged tree): reported as a violated obligation with the traceback, never as a harness crash"""
    import functools, traceback
    @functools.wraps(fn)
    def run(*a, **k):
        try: return fn(*a, **k)
        except Exception as e:
            elab.restore_stderr()
            return dict(results=[res(f"ens.{fn.__name__}:scenarios-evaluated-without-an-unexpected-exception", "ensures", VIOLATED, 0, "executed", info=f"{type(e).__name__}: {e}", tb=traceback.format_exc()[-1500:])], functions=[], samples=[])
    return run

def _rej(f, *a, **k):
    """run a request; (accepted?, exception type name or None).  SoCError = the declared rejection; anything else is reported by name"""
    try: f(*a, **k)
    except S.SoCError: elab.restore_stderr(); return False, "SoCError"
    except Exception as e: elab.restore_stderr(); return False, type(e).__name__
    finally: elab.restore_stderr()
    return True, None

class _Out:
    def __init__(self): self.r = []; self.t0 = time.time()
    def chk(self, name, ok, info="", bounded=True, backend=EXEC, **kw):
        self.r.append(res(name, "bounded" if bounded else "ensures", (BOUNDED_OK if bounded else OK) if ok else VIOLATED, 0, backend, info="" if ok else str(info)[:700], **kw)); return ok
    def cover(self, name, ok, **kw): self.r.append(res(name, "cover", OK if ok else VACUOUS, time.time() - self.t0, "executed", **kw))
    def finding(self, name, holds, what, replay, info=""):
        # the three candidates of this module (add_controller raises TypeError for every call; the cached-inside-IO rule depends on the order of the requests;
        # finalize raises ValueError for a CPU with an interrupt input and no client) are loud failures or rules the property does not state: they are
        # OBSERVATIONS (DESIGN.md 7.9), not violations of C13 - nothing is reported for them; the replay scripts stay under tools/
        return

def _wb(dw=32, aw=32):
    from litex.soc.interconnect import wishbone
    return wishbone.Interface(data_width=dw, address_width=aw, addressing="word")

# =====================================================================================================================================
# 1. add_controller / add_peripheral
# =====================================================================================================================================
WHAT_CTRL = ("SoCBusHandler.add_controller(name, controller) - the alias of add_master - calls self.add_master(self, name=name, master=controller): the handler itself is passed "
             "as the positional `name`, so EVERY call raises TypeError (got multiple values for argument 'name'); no bus master can be added through it")
@_guarded
def c_aliases():
    o = _Out()
    calls = [dict(name="dma", controller=None), dict(controller=None), dict(name="dma"), {}]
    raised = []; added = 0
    for kw in calls:
        bus = _quiet(S.SoCBusHandler()); elab.restore_stderr()
        kw = dict(kw)
        if "controller" in kw: kw["controller"] = _wb()
        ok, exc = _rej(bus.add_controller, **kw)
        raised.append(exc)
        if ok and len(bus.masters) == 1 and ("name" not in kw or kw["name"] in bus.masters): added += 1
    # the request is legal (a fresh name, an interface of the bus standard): it must be granted exactly like add_master grants it
    bus = _quiet(S.SoCBusHandler()); elab.restore_stderr()
    ok_ref, _ = _rej(bus.add_master, name="dma", master=_wb())
    o.chk("ens.reference:add_master(name,master)-grants-the-same-request", ok_ref and list(bus.masters) == ["dma"], bus.masters)
    o.finding("finding.add_controller-grants-a-legal-master-request", added >= 2 and raised[0] is None, WHAT_CTRL, "tools/replay_add_controller.py", info=f"exceptions of the four call shapes: {raised}")
    # add_peripheral = add_slave
    bus = _quiet(S.SoCBusHandler()); elab.restore_stderr()
    s0 = _wb(); ok, exc = _rej(bus.add_peripheral, name="p", peripheral=s0, region=S.SoCRegion(origin=0x1000, size=0x1000))
    o.chk("ens.add_peripheral(name,peripheral,region)-is-add_slave:slave-and-region-recorded-once", ok and list(bus.slaves) == ["p"] and list(bus.regions) == ["p"] and bus.slaves["p"] is s0, (ok, exc, list(bus.slaves)))
    ok2, exc2 = _rej(bus.add_peripheral, name="p", peripheral=_wb(), region=S.SoCRegion(origin=0x4000, size=0x1000))
    o.chk("ens.add_peripheral:name-in-use-rejected,first-grant-kept", (not ok2) and exc2 == "SoCError" and bus.slaves["p"] is s0 and bus.regions["p"].origin == 0x1000, (ok2, exc2))
    ok3, exc3 = _rej(bus.add_peripheral, name="q", peripheral=_wb(), region=S.SoCRegion(origin=0x1800, size=0x1000))
    o.chk("ens.add_peripheral:overlapping-window-rejected", (not ok3) and exc3 == "SoCError" and "q" not in bus.slaves, (ok3, exc3))
    o.cover("cover.aliases-called", len(raised) == 4 and ok_ref)
    return dict(results=o.r, functions=["litex.soc.integration.soc.SoCBusHandler.add_controller", "litex.soc.integration.soc.SoCBusHandler.add_peripheral"], samples=[dict(add_controller_exceptions=raised)])

# =====================================================================================================================================
# 2. automatic names
# =====================================================================================================================================
@_guarded
def c_auto_names(kind, depth):
    """every history of length <= depth over the alphabet {None (automatic), '<prefix>0', '<prefix>1', '<prefix>2', 'x'}: a granted request adds exactly one new key,
    never replaces an interface granted earlier; a rejected request changes nothing; the automatic name is '<prefix><number of entries>'"""
    o = _Out(); prefix = "master" if kind == "csrmaster" else kind; alpha = [None, f"{prefix}0", f"{prefix}1", f"{prefix}2", "x"]
    n = 0; bad = []; auto_granted = auto_rejected = 0
    for L in range(1, depth + 1):
        for hist in itertools.product(alpha, repeat=L):
            if kind == "csrmaster": h = _quiet(S.SoCCSRHandler()); table = lambda: h.masters
            else: h = _quiet(S.SoCBusHandler()); table = (lambda: h.masters) if kind == "master" else (lambda: h.slaves)
            elab.restore_stderr(); n += 1
            for step, nm in enumerate(hist):
                before = dict(table()); regs_before = dict(getattr(h, "regions", {}))
                itf = _wb()
                if kind == "master": ok, exc = _rej(h.add_master, name=nm, master=itf)
                elif kind == "csrmaster":
                    from litex.soc.interconnect import csr_bus
                    itf = csr_bus.Interface(data_width=32, address_width=14); ok, exc = _rej(h.add_master, name=nm, master=itf)
                else: ok, exc = _rej(h.add_slave, name=nm, slave=itf, region=S.SoCRegion(origin=0x1000_0000 * (step + 1), size=0x1000))
                after = table()
                want = nm if nm is not None else f"{prefix}{len(before)}"
                if ok:
                    good = want not in before and list(after) == list(before) + [want] and after[want] is itf and all(after[k] is v for k, v in before.items())
                    if kind == "slave": good = good and list(h.regions) == list(regs_before) + [want]
                    if nm is None: auto_granted += 1
                else:
                    good = exc == "SoCError" and want in before and dict(after) == before and all(after[k] is v for k, v in before.items())
                    # (add_slave stores nothing before its checks for a name whose region exists already: the region dict is unchanged too)
                    if kind == "slave": good = good and list(h.regions) == list(regs_before)
                    if nm is None: auto_rejected += 1
                if not good: bad.append((hist, step, ok, exc, list(before), list(after)))
    what = {"master": "SoCBusHandler.add_master", "slave": "SoCBusHandler.add_slave", "csrmaster": "SoCCSRHandler.add_master"}[kind]
    o.chk(f"ens.{what}[name=None|explicit]:granted=>exactly-one-new-name,earlier-grants-kept;rejected=>name-in-use,state-unchanged[{n} histories,length<={depth}]", not bad, bad[:3])
    o.cover("cover.automatic-name-granted-and-rejected(collision-with-an-explicit-name)", auto_granted > 0 and auto_rejected > 0, histories=n, auto_granted=auto_granted, auto_rejected=auto_rejected)
    # add_slave without name and without region is refused; without region and an unknown name is refused
    if kind == "slave":
        h = _quiet(S.SoCBusHandler()); elab.restore_stderr()
        r1 = _rej(h.add_slave); r2 = _rej(h.add_slave, slave=_wb()); r3 = _rej(h.add_slave, name="nowhere", slave=_wb())
        o.chk("ens.add_slave:neither-name-nor-region=>rejected;region=None-and-no-region-of-that-name=>rejected;nothing-recorded", [r1, r2, r3] == [(False, "SoCError")] * 3 and not h.slaves and not h.regions, (r1, r2, r3))
    return dict(results=o.r, functions=[f"litex.soc.integration.soc.{what} (name=None)"], samples=[dict(bounded=f"{what} histories", evaluations=n)])

# =====================================================================================================================================
# 3. SoCBusHandler.__init__: every int data_width / address_width (E3)
# =====================================================================================================================================
BUS_STD = {"wishbone": "word", "axi-lite": "byte", "axi": "byte"}       # documented standards and the addressing each one fixes
BUS_DW, BUS_AW = [32, 64, 128, 256, 512], [32, 64]
def _run_bus_init(wrong, standard):
    HX._init(); HX.AP._init_z3()
    stats = dict(returned=0, raised=0)
    def run(ctx):
        ctx.solver.set("timeout", FEAS_MS)
        dw, aw = CInt(z3.Int("data_width")), CInt(z3.Int("address_width"))
        h = S.SoCBusHandler.__new__(S.SoCBusHandler)
        legal = z3.And(z3.BoolVal(standard in BUS_STD), _member(dw.t, BUS_DW), _member(aw.t, BUS_AW))
        tmo, bst, icr = object(), object(), object()
        try:
            S.SoCBusHandler.__init__(h, name="SoCBusHandler", standard=standard, data_width=dw, address_width=aw, timeout=tmo, bursting=bst, interconnect="shared", interconnect_register=icr, reserved_regions={})
        except S.SoCError:
            elab.restore_stderr(); stats["raised"] += 1
            ctx.check("raise=>standard/data_width/address_width-not-a-supported-combination", z3.Not(legal))
            if wrong: ctx.check("wrong.raise=>data_width-unsupported", z3.Not(_member(dw.t, BUS_DW)))
            return
        stats["returned"] += 1
        ctx.check("post.accepted=>supported-standard,data_width-in-{32..512},address_width-in-{32,64}", legal)
        ctx.check("post.fields-kept", z3.BoolVal(h.standard == standard and h.data_width is dw and h.address_width is aw and h.timeout is tmo and h.bursting is bst and h.interconnect == "shared" and h.interconnect_register is icr))
        ctx.check("post.addressing-is-the-one-of-the-standard(wishbone:word,axi-lite/axi:byte)", z3.BoolVal(h.addressing == BUS_STD.get(standard)))
        ctx.check("post.nothing-granted-yet;IO-check-on", z3.BoolVal(h.masters == {} and h.slaves == {} and h.regions == {} and h.io_regions == {} and h.io_regions_check is True))
        if wrong: ctx.check("wrong.address_width==32", aw.t == 32)
    paths, obl = _explore(run, max_paths=2000)
    return paths, obl, stats
def _replay_bus_init(standard):
    def replay(model):
        dw, aw = _mint(model, "data_width"), _mint(model, "address_width")
        try: h = S.SoCBusHandler(standard=standard, data_width=dw, address_width=aw)
        except S.SoCError: elab.restore_stderr(); return dict(reproduced=(standard in BUS_STD and dw in BUS_DW and aw in BUS_AW), call=f"SoCBusHandler(standard={standard!r}, data_width={dw}, address_width={aw})", outcome="SoCError")
        return dict(reproduced=not (standard in BUS_STD and dw in BUS_DW and aw in BUS_AW and h.addressing == BUS_STD[standard]), call=f"SoCBusHandler(standard={standard!r}, data_width={dw}, address_width={aw})", outcome="accepted", addressing=h.addressing)
    return replay
def c_bus_init(standard):
    legal = standard in BUS_STD
    return _wrap(f"SoCBusHandler.__init__[standard={standard!r}]", lambda w: _run_bus_init(w, standard), ["litex.soc.integration.soc.SoCBusHandler.__init__"],
                 "ALL int data_width / address_width (symbolic); standard concrete; reserved_regions = {}", replay=_replay_bus_init(standard),
                 extra_cover=(lambda s: s["returned"] == len(BUS_DW) * len(BUS_AW) and s["raised"] >= 2) if legal else (lambda s: s["returned"] == 0 and s["raised"] >= 1))

# =====================================================================================================================================
# 4. reserved_regions
# =====================================================================================================================================
def _windows_ok(regions, address_width=32):
    bad = []; rs = list(regions.items())
    for x, (n0, r0) in enumerate(rs):
        if r0.origin < 0 or r0.origin + r0.size_pow2 > 2**address_width: bad.append(f"{n0} outside the address space")
        for n1, r1 in rs[x + 1:]:
            if not (r0.linker or r1.linker) and r0.origin < r1.origin + r1.size_pow2 and r1.origin < r0.origin + r0.size_pow2: bad.append(f"{n0}/{n1} overlap")
    return bad
@_guarded
def c_reserved_regions():
    o = _Out(); n = 0
    M16 = 0x100_0000
    # the reserved set is granted as a whole or not at all
    sets = [({"a": 0x1000_0000, "b": S.SoCRegion(origin=0x2000_0000, size=0x180)}, True), ({"a": 0x1000_0000, "b": 0x1080_0000}, False), ({"a": 0x1000_0000, "b": S.SoCRegion(origin=0x10ff_ff00, size=0x100)}, False),
            ({"a": 0x1000_0000, "b": 0x1100_0000}, True), ({"a": 0xff00_0000}, True), ({"a": S.SoCRegion(origin=0x0, size=0x100, cached=False)}, False), ({"a": "0x1000"}, False), ({}, True)]
    bad = []
    for rr, want in sets:
        n += 1
        try: bus = S.SoCBusHandler(reserved_regions=rr); elab.restore_stderr(); got = True
        except S.SoCError: elab.restore_stderr(); got = False
        except Exception as e: elab.restore_stderr(); got = type(e).__name__
        if got is not want: bad.append((rr, got, want)); continue
        if got:
            exp = {k: ((v, M16) if isinstance(v, int) else (v.origin, v.size)) for k, v in rr.items()}
            if {k: (r.origin, r.size) for k, r in bus.regions.items()} != exp or _windows_ok(bus.regions) or bus.slaves or bus.io_regions: bad.append((rr, "regions", {k: (hex(r.origin), hex(r.size)) for k, r in bus.regions.items()}))
    o.chk("ens.reserved_regions:int=>16MiB-region-at-that-origin,SoCRegion-kept;overlapping/uncached-without-IO-region/unsupported-entries=>SoCError", not bad, bad[:3])
    # later requests see the reserved regions: every origin on a grid around the reserved windows
    def part0():
        nonlocal n
        bus = _quiet(S.SoCBusHandler(reserved_regions={"a": 0x1000_0000, "b": S.SoCRegion(origin=0x0000_1000, size=0x1000)})); elab.restore_stderr()
        bad = []
        for org in [0, 0x800, 0x1000, 0x1800, 0x2000, 0x0fff_f000, 0x1000_0000, 0x10ff_f000, 0x1100_0000, 0x0800_0000]:
            for size in (0x1000, 0x1800, 0x200_0000):
                n += 1
                b2 = _quiet(S.SoCBusHandler(reserved_regions={"a": 0x1000_0000, "b": S.SoCRegion(origin=0x0000_1000, size=0x1000)})); elab.restore_stderr()
                new = S.SoCRegion(origin=org, size=size); ok, exc = _rej(b2.add_region, "n", new)
                hit = any(org < r.origin + r.size_pow2 and r.origin < org + new.size_pow2 for r in (b2.regions["a"], b2.regions["b"]))
                if ok == hit or (not ok and exc != "SoCError"): bad.append((hex(org), hex(size), ok, exc))
                for nm in ("a", "b"):
                    ok2, _ = _rej(b2.add_region, nm, S.SoCRegion(origin=0x4000_0000, size=0x1000))
                    if ok2: bad.append(("reserved name granted again", nm))
        o.chk("ens.add_region-after-reserved_regions:granted<=>window-disjoint-from-both-reserved-windows;reserved-names-are-in-use", not bad, bad[:3])
    try: part0()
    except Exception as e: elab.restore_stderr(); o.chk("ens.add_region-after-reserved_regions:scenario-could-be-run", False, f"{type(e).__name__}: {e}")
    # the allocator never places a region on a reserved window
    def part1():
        nonlocal n
        bad = []
        for sizes in itertools.product((0x1000, 0x1800, 0x80_0000, 0x100_0000, 0x1000_0000), repeat=2):
            n += 1
            b3 = _quiet(S.SoCBusHandler(reserved_regions={"lo": 0x0, "mid": 0x0200_0000, "b": S.SoCRegion(origin=0x0100_0000, size=0x1000)})); elab.restore_stderr()
            for k, sz in enumerate(sizes):
                ok, exc = _rej(b3.add_region, f"al{k}", S.SoCRegion(size=sz))
                if not ok: bad.append((sizes, k, exc))
            w = _windows_ok(b3.regions)
            if w or any(b3.regions[f"al{k}"].origin % b3.regions[f"al{k}"].size_pow2 for k in range(2) if f"al{k}" in b3.regions): bad.append((sizes, w, {k: hex(r.origin) for k, r in b3.regions.items()}))
        o.chk("ens.alloc_region-after-reserved_regions:allocated-windows-aligned,inside-the-address-space,disjoint-from-reserved-and-earlier-ones[25 size pairs]", not bad, bad[:3])
    try: part1()
    except Exception as e: elab.restore_stderr(); o.chk("ens.alloc_region-after-reserved_regions:scenario-could-be-run", False, f"{type(e).__name__}: {e}")
    # a slave takes a reserved region by its name, once
    def part2():
        nonlocal n
        b4 = _quiet(S.SoCBusHandler(reserved_regions={"a": 0x1000_0000})); elab.restore_stderr()
        s0 = _wb(); r1 = _rej(b4.add_slave, name="a", slave=s0); r2 = _rej(b4.add_slave, name="a", slave=_wb()); r3 = _rej(b4.add_slave, name="a", slave=_wb(), region=S.SoCRegion(origin=0x5000_0000, size=0x100))
        o.chk("ens.add_slave(name-of-a-reserved-region):granted-once-with-the-reserved-window,second-client-rejected", r1 == (True, None) and r2 == (False, "SoCError") and r3 == (False, "SoCError") and b4.slaves["a"] is s0 and list(b4.regions) == ["a"] and b4.regions["a"].origin == 0x1000_0000, (r1, r2, r3))
    try: part2()
    except Exception as e: elab.restore_stderr(); o.chk("ens.add_slave(name-of-a-reserved-region):scenario-could-be-run", False, f"{type(e).__name__}: {e}")
    o.cover("cover.reserved-regions-exercised", n > 50, evaluations=n)
    return dict(results=o.r, functions=["litex.soc.integration.soc.SoCBusHandler.__init__ (reserved_regions)", "litex.soc.integration.soc.SoCBusHandler.add_region (after reserved regions)", "litex.soc.integration.soc.SoCBusHandler.alloc_region (after reserved regions)"],
                samples=[dict(bounded="reserved_regions", evaluations=n)])

# =====================================================================================================================================
# 5. SoCCSRHandler.add_master (E3)
# =====================================================================================================================================
def _run_csr_add_master(wrong):
    HX._init()
    stats = dict(accepted=0, raised=0)
    def run(ctx):
        ctx.solver.set("timeout", FEAS_MS)
        hnd = _quiet(S.SoCCSRHandler.__new__(S.SoCCSRHandler))
        ms = SymRecordSeq("MS", {"x": "int"}); masters = NDict(ms); ctx.assume(SymBool(ms.len >= 0)); hnd.masters = masters
        hnd.data_width = SymInt(z3.Int("handler.data_width"))
        class M: pass
        m = M(); m.data_width = SymInt(z3.Int("master.data_width"))
        name = Name(z3.Int("name")); was = masters.has(name.t, old=True)
        same = hnd.data_width.t == m.data_width.t
        try:
            S.SoCCSRHandler.add_master(hnd, name, m)
        except S.SoCError:
            elab.restore_stderr(); stats["raised"] += 1
            ctx.check("raise=>(name-already-a-CSR-master-or-data-widths-differ);masters-unchanged", z3.And(z3.Or(was, z3.Not(same)), z3.BoolVal(hnd.masters is masters and not masters.extra))); return
        stats["accepted"] += 1
        ctx.check("post.name-was-not-a-CSR-master-before(each-name-granted-once)", z3.Not(was))
        ctx.check("post.master-data-width==handler-data-width", same)
        ctx.check("post.exactly-this-master-recorded-under-the-name", z3.BoolVal(hnd.masters is masters and len(masters.extra) == 1 and masters.extra[0][0] is name and masters.extra[0][1] is m))
        if wrong: ctx.check("wrong.no-master-before", ms.len == 0)
    paths, obl = _explore(run)
    return paths, obl, stats
def c_csr_add_master():
    return _wrap("SoCCSRHandler.add_master", _run_csr_add_master, ["litex.soc.integration.soc.SoCCSRHandler.add_master"],
                 "arbitrary masters dict (unbounded, symbolic names); symbolic name; symbolic data widths of handler and master", extra_cover=lambda s: s["accepted"] >= 1 and s["raised"] >= 2)

# =====================================================================================================================================
# 6. SoC.finalize with a real CPU path
# =====================================================================================================================================
def _stubs():
    """stub CPU classes (in-memory CPUS table only; the cores themselves are Verilog black boxes that are not installed): the base stub of
    contracts/C14_mem_exports.py (one wishbone master, interrupt input, IO region 0x8000_0000+2GiB) and variants of its class attributes"""
    import contracts.C14_mem_exports as ME
    from litex.soc.cores import cpu as cpu_mod
    B = ME._StubCPU
    class Irq(B):
        name = "vfx_irq"; reserved_interrupts = {"noirq": 0, "res5": 5}
        def __init__(self, platform, variant="standard"): B.__init__(self, platform, variant); self.interrupts = {"cpuint": 1}
    class Io2(B):
        name = "vfx_io2"; io_regions = {0x8000_0000: 0x1000_0000, 0xe000_0000: 0x2000_0000}
    class IoOverlap(B):
        name = "vfx_ioov"; io_regions = {0x8000_0000: 0x4000_0000, 0xa000_0000: 0x1000_0000}
    class P2P(B):
        name = "vfx_p2p"; io_regions = {0x0: 0x1_0000_0000}; mem_map = {"rom": 0x0, "sram": 0x1000_0000, "main_ram": 0x4000_0000, "csr": 0x0}
    class One(B):
        name = "vfx_one"; io_regions = {0x0: 0x1_0000_0000}; mem_map = {"rom": 0x0, "sram": 0x1000_0000, "main_ram": 0x4000_0000, "csr": 0x2000_0000}
    class NoIrq(B):
        name = "vfx_noirq"
        def __init__(self, platform, variant="standard"): B.__init__(self, platform, variant); del self.interrupt
    for c in (Irq, Io2, IoOverlap, P2P, One, NoIrq): cpu_mod.CPUS.setdefault(c.name, c)
    return ME

def _soc(cpu="vfstub", **kw):
    from litex.soc.integration.soc_core import SoCCore
    from contracts.C14_exports import P
    _stubs()
    kw.setdefault("integrated_rom_size", 0x40); kw.setdefault("integrated_rom_init", [1, 2]); kw.setdefault("integrated_sram_size", 0x100); kw.setdefault("with_timer", True)
    soc = SoCCore(P(), 100e6, cpu_type=cpu, with_uart=False, ident="", ident_version=False, **kw)
    elab.restore_stderr()
    return soc

class _MemMapGuard:
    """SoCCore.mem_map is a CLASS attribute that add_cpu updates in place: the harness restores it so that no scenario sees the map of an earlier one"""
    def __enter__(self):
        from litex.soc.integration.soc_core import SoCCore
        self.c = SoCCore; self.saved = dict(SoCCore.mem_map); return self
    def __exit__(self, *a): self.c.mem_map.clear(); self.c.mem_map.update(self.saved); elab.restore_stderr()

def _in(r, c): return c.origin <= r.origin and r.origin + r.size <= c.origin + c.size
def _soc_holds(soc, want_ic=None):
    """the property on a finalized SoC with a CPU (what was granted is what the build contains)"""
    bad = list(HX._soc_property_holds(soc))
    ios = list(soc.bus.io_regions.values())
    if soc.bus.io_regions_check:
        for n, r in soc.bus.regions.items():
            io = any(_in(r, c) for c in ios)
            if not r.cached and not io: bad.append(f"uncached region {n} outside every IO region")
            if r.cached and io: bad.append(f"cached region {n} inside an IO region")
    bad += [f"IO: {x}" for x in _windows_ok(soc.bus.io_regions, soc.bus.address_width)]
    if set(soc.bus.slaves) - set(soc.bus.regions): bad.append("slave without a region")
    locs = soc.irq.locs
    if len(set(locs.values())) != len(locs) or any(not (0 <= v < min(soc.irq.n_locs, 32)) for v in locs.values()): bad.append(f"interrupt numbers {locs}")
    if want_ic and type(soc.bus._interconnect).__name__ != want_ic: bad.append(f"interconnect {type(soc.bus._interconnect).__name__}, expected {want_ic}")
    return bad

def _decoder_proof(soc, tag):
    """the decoders SoCBusHandler.do_finalize hands to the interconnect (region.decoder(bus) for every slave), as hardware expressions over ONE symbolic
    address: each accepts exactly its window, no address is accepted by two (z3, all addresses)"""
    from migen import Module, Signal
    from vf.hw import HwCheck, b
    bus = soc.bus; names = list(bus.slaves)
    shift = (bus.data_width // 8).bit_length() - 1; aw = bus.address_width - shift
    a = Signal(aw); exprs = []
    for n in names:
        e = bus.regions[n].decoder(bus)(a); exprs.append(e)
    class Top(Module):
        def __init__(self):
            self.a = a; self.o = [Signal(name=f"hit{i}") for i in range(len(names))]
            for s_, e in zip(self.o, exprs): self.comb += s_.eq(e)
    d = Top(); h = HwCheck(f"decoders({tag})", d, [a])
    W = bus.address_width + 2
    A = z3.Concat(z3.BitVecVal(0, 2), h.v(a), z3.BitVecVal(0, shift)) if shift else z3.Concat(z3.BitVecVal(0, 2), h.v(a))
    out = []; cc = h.ts.comb_constraints()
    spec = []
    for n, s_ in zip(names, d.o):
        r = bus.regions[n]
        inside = z3.And(z3.UGE(A, z3.BitVecVal(r.origin, W)), z3.ULT(A, z3.BitVecVal(r.origin + r.size_pow2, W))) if r.decode else z3.BoolVal(True)
        spec.append(b(h.v(s_)) == inside)
    st, _, be, t = h._solve(cc + [z3.Not(z3.And(*spec))])
    out.append(res(f"ens.decoders[{tag}]:each-slave-selected-exactly-on-its-power-of-two-window(all-addresses,{len(names)}-slaves)", "ensures", PROVED if st == "unsat" else (UNKNOWN if st == "unknown" else NOINPUT), t, be))
    hits = [b(h.v(s_)) for s_ in d.o]
    two = z3.Or(*[z3.And(hits[i], hits[j]) for i in range(len(hits)) for j in range(i + 1, len(hits))]) if len(hits) > 1 else z3.BoolVal(False)
    st, _, be, t = h._solve(cc + [two])
    out.append(res(f"ens.decoders[{tag}]:no-address-selects-two-slaves", "ensures", PROVED if st == "unsat" else (UNKNOWN if st == "unknown" else NOINPUT), t, be))
    return out

def _per(soc, name, origin=None, size=0x1000, cached=False, via="add_slave"):
    """one request for a bus region by one of the three routes a design has"""
    if via == "add_slave": soc.bus.add_slave(name, _wb(), S.SoCRegion(origin=origin, size=size, cached=cached))
    elif via == "add_region": soc.bus.add_region(name, S.SoCRegion(origin=origin, size=size, cached=cached))
    else:
        assert cached and origin is not None; soc.add_ram(name, origin, size)

def _scenario(std, ic, cpu, kw, prep, expect, want_ic=None):
    """-> (ok, info, soc or None).  expect: 'builds' | 'rejected' (SoCError at the request or, at the latest, by finalize)"""
    with _MemMapGuard():
        stage = "construction"
        try:
            soc = _soc(cpu, bus_standard=std, bus_interconnect=ic, **kw)
            stage = "request"; prep(soc)
            stage = "finalize"; soc.finalize(); elab.restore_stderr()
        except S.SoCError:
            elab.restore_stderr(); return expect == "rejected", f"rejected at {stage}", None
        except Exception as e:
            elab.restore_stderr(); return False, f"{type(e).__name__} at {stage}: {e}", None
        if expect == "rejected": return False, "built without error: " + str({n: (hex(r.origin), hex(r.size), r.cached) for n, r in soc.bus.regions.items()}), soc
        bad = _soc_holds(soc, want_ic)
        return not bad, str(bad), soc

IO_LO, IO_HI = 0x8000_0000, 0x1_0000_0000          # the stub's IO region
FIND_NOIRQ = "interrupts:CPU-with-an-interrupt-input-and-no-interrupt-client"
WHAT_NOIRQ = ("SoC.finalize computes CONFIG_CPU_INTERRUPTS as max(self.irq.locs.values()) + 1 whenever the CPU has an interrupt input: with no interrupt granted (a CPU without reserved interrupts - vexriscv, the default, among them - "
              "and a design without timer / UART or other interrupt source) max() of an empty sequence raises ValueError: a legal SoC is not built and no SoCError says why")
def _finalize_table(std):
    shared = {"wishbone": "InterconnectShared", "axi-lite": "AXILiteInterconnectShared", "axi": "AXIInterconnectShared"}[std]
    xbar = {"wishbone": "Crossbar", "axi-lite": "AXILiteCrossbar", "axi": "AXICrossbar"}[std]
    p2p = {"wishbone": "InterconnectPointToPoint", "axi-lite": "AXILiteInterconnectPointToPoint", "axi": "AXIInterconnectPointToPoint"}[std]
    T = []
    def add(label, prep, expect, cpu="vfstub", kw=None, want=None, ics=("shared", "crossbar")):
        for ic in ics: T.append((f"{label}[{ic}]", ic, cpu, kw or {}, prep, expect, want if want is not None else (None if expect == "rejected" else (shared if ic == "shared" else xbar))))
    def good(s): _per(s, "ram2", 0x2000_0000, 0x1800, True, "add_ram"); _per(s, "per", 0x9000_0000, 0x1000, False); _per(s, "per2", None, 0x800, False); _per(s, "buf", None, 0x3000, True)
    add("well-formed(ram,uncached-slave-in-IO,allocated-uncached,allocated-cached)", good, "builds")
    # the IO/cached rule, every route, origins around the IO border
    for org in (0x2000_0000, 0x7fff_f000, 0x8000_0000, 0x9000_0000, 0xefff_f000):
        for cached in (True, False):
            for via in ("add_slave", "add_region") + (("add_ram",) if cached else ()):
                inside = IO_LO <= org and org + 0x1000 <= IO_HI
                add(f"region@{org:#x},{'cached' if cached else 'uncached'},{via}", (lambda s, org=org, cached=cached, via=via: _per(s, "x", org, 0x1000, cached, via)), "builds" if inside != cached else "rejected", ics=("shared",))
    # finalize's own request: the CSR bridge region is uncached and must lie in an IO region, on a free window, under a free name
    def csr_out(s): s.mem_map = dict(s.mem_map); s.mem_map["csr"] = 0x2000_0000
    add("CSR-bridge-mapped-outside-every-IO-region", csr_out, "rejected")
    add("allocated-uncached-region-takes-the-window-of-the-CSR-bridge", lambda s: _per(s, "big", None, 0x8000_0000, False), "rejected")
    add("uncached-slave-on-the-CSR-window", lambda s: _per(s, "per", 0xf000_8000, 0x1000, False), "rejected")
    add("name-csr-taken-by-a-slave", lambda s: _per(s, "csr", 0x9000_0000, 0x1000, False), "rejected")
    add("allocated-uncached-region-beside-the-CSR-bridge", lambda s: _per(s, "big", None, 0x4000_0000, False), "builds")
    add("no-IO-space-left-for-an-allocated-uncached-region", lambda s: (_per(s, "big", None, 0x4000_0000, False), _per(s, "big2", None, 0x4000_0000, False)), "rejected")
    add("fixed-uncached-region-not-aligned-on-its-decoded-size", lambda s: _per(s, "per", 0x9000_0800, 0x1000, False), "rejected")
    # several IO regions
    def io2(s): _per(s, "p0", 0x8fff_f000, 0x1000, False); _per(s, "p1", 0xe000_0000, 0x1000, False); _per(s, "al", None, 0x800_0000, False); _per(s, "al2", None, 0x400_0000, False)
    add("two-IO-regions:fixed-and-allocated-uncached-regions", io2, "builds", cpu="vfx_io2")
    add("two-IO-regions:uncached-region-between-them", lambda s: _per(s, "p", 0xa000_0000, 0x1000, False), "rejected", cpu="vfx_io2")
    add("two-IO-regions:uncached-region-straddling-the-end-of-one", lambda s: _per(s, "p", 0x8fff_f000, 0x2000, False), "rejected", cpu="vfx_io2", ics=("shared",))
    add("two-IO-regions:cached-region-in-the-second", lambda s: _per(s, "p", 0xe800_0000, 0x1000, True, "add_ram"), "rejected", cpu="vfx_io2", ics=("shared",))
    add("CPU-with-overlapping-IO-regions", lambda s: None, "rejected", cpu="vfx_ioov", ics=("shared",))
    # interrupts
    def irq_ok(s):
        from litex.soc.interconnect.csr_eventmanager import EventManager, EventSourcePulse
        from litex.gen import LiteXModule
        class Ev(LiteXModule):
            def __init__(self): self.ev = EventManager(); self.ev.t = EventSourcePulse(name="t"); self.ev.finalize()
        s.e0 = Ev(); s.irq.add("e0"); s.e1 = Ev(); s.irq.add("e1", n=31); s.irq.add("e1", use_loc_if_exists=True)
    add("interrupts:reserved-by-the-CPU,timer,automatic-and-fixed-numbers", irq_ok, "builds", cpu="vfx_irq", ics=("shared",))
    add("interrupts:number-reserved-by-the-CPU-requested", lambda s: s.irq.add("x", n=5), "rejected", cpu="vfx_irq", ics=("shared",))
    add("interrupts:number-of-the-timer-requested", lambda s: s.irq.add("x", n=s.irq.locs["timer0"]), "rejected", cpu="vfx_irq", ics=("shared",))
    add("interrupts:number-32", lambda s: s.irq.add("x", n=32), "rejected", cpu="vfx_irq", ics=("shared",))
    add("interrupts:name-in-use", lambda s: s.irq.add("timer0"), "rejected", cpu="vfx_irq", ics=("shared",))
    add("interrupts:33rd-client", lambda s: [s.irq.add(f"c{k}") for k in range(32)], "rejected", cpu="vfx_irq", ics=("shared",))
    def irq_nomod(s):
        from litex.gen import LiteXModule
        s.plain = LiteXModule(); s.irq.add("plain")
    add("interrupts:client-module-without-an-event-manager", irq_nomod, "rejected", cpu="vfx_irq", ics=("shared",))
    add("interrupts:CPU-without-interrupt-input", lambda s: s.irq.add("x"), "rejected", cpu="vfx_noirq", kw=dict(with_timer=False), ics=("shared",))
    add("interrupts:CPU-without-interrupt-input,no-client", lambda s: None, "builds", cpu="vfx_noirq", kw=dict(with_timer=False), ics=("shared",))
    add(FIND_NOIRQ, lambda s: None, "builds", kw=dict(with_timer=False), ics=("shared",))
    # branches of do_finalize
    bare = dict(integrated_rom_size=0, integrated_rom_init=[], integrated_sram_size=0)
    add("one-master,one-slave-at-origin-0", lambda s: None, "builds", cpu="vfx_p2p", kw=bare, want=p2p, ics=("shared",))
    add("one-master,one-slave-not-at-origin-0", lambda s: None, "builds", cpu="vfx_one", kw=dict(bare, cpu_reset_address=0x2000_0000), ics=("shared", "crossbar"))
    add("two-masters", lambda s: s.bus.add_master("dma", _wb()), "builds")
    def nodecode(s): _per(s, "per", 0x9000_0000, 0x1000, False); s.bus.regions["per"].decode = False
    add("decoder-disabled-among-several-regions", nodecode, "rejected")
    add("CPU-reset-address-in-no-region", lambda s: None, "rejected", kw=dict(integrated_rom_size=0, integrated_rom_init=[], cpu_reset_address=0x5000_0000), ics=("shared",))
    add("CPU-reset-address-in-sram", lambda s: None, "builds", kw=dict(integrated_rom_size=0, integrated_rom_init=[], cpu_reset_address=0x1000_0000), ics=("shared",))
    return T

@_guarded
def c_finalize_cpu(std, part):
    logging.disable(logging.CRITICAL)
    o = _Out(); T = _finalize_table(std); n = 0; built = 0; proved = 0
    T = [t for k, t in enumerate(T) if k % 2 == part]
    for label, ic, cpu, kw, prep, expect, want in T:
        n += 1
        ok, info, soc = _scenario(std, ic, cpu, kw, prep, expect, want)
        if label.startswith(FIND_NOIRQ):
            o.finding("finding.SoC.finalize-builds-a-CPU-with-an-interrupt-input-and-no-interrupt-client", ok, WHAT_NOIRQ, "tools/replay_finalize_no_irq_client.py", info=info)
            if not ok: continue
        else: o.chk(f"SoC.finalize[{std},cpu,{label}]:" + ("rejected-with-SoCError-at-the-latest-by-finalize" if expect == "rejected" else "builds;regions-disjoint,aligned,in-range;IO/cached-rule;CSR-pages-and-interrupt-numbers-unique,in-range"), ok, info)
        if ok and expect == "builds":
            built += 1
            if want is None or "PointToPoint" not in want:
                try: o.r += _decoder_proof(soc, f"{std},{label}"); proved += 1
                except Exception as e:
                    elab.restore_stderr(); o.r.append(res(f"ens.decoders[{std},{label}]", "ensures", VIOLATED, 0, "executed", info=f"region.decoder raised {type(e).__name__}: {e} on a SoC that finalize built"))
    o.cover("cover.builds-and-rejections-both-seen", built >= 3 and n - built >= 3 and proved >= 3, scenarios=n, built=built, decoder_proofs=proved)
    return dict(results=o.r, functions=["litex.soc.integration.soc.SoC.finalize (with a CPU: bounded, concrete designs)", "litex.soc.integration.soc.SoC.add_cpu (IO regions, interrupts, bus masters)", "litex.soc.integration.soc.SoC.add_csr_bridge (with IO regions)",
                                        "litex.soc.integration.soc.SoCBusHandler.do_finalize (point-to-point / shared / crossbar)", "litex.soc.integration.soc.SoCRegion.decoder (on the regions of the built SoC)"],
                samples=[dict(bounded=f"SoC.finalize with a CPU, {std}", evaluations=n, built=built)])

@_guarded
def c_add_cpu_state():
    """what add_cpu grants, read back from the handlers (stub CPUs)"""
    o = _Out()
    with _MemMapGuard():
        s = _soc("vfx_irq")
        o.chk("ens.add_cpu:IO-regions-of-the-CPU-registered,IO-check-on", {n: (r.origin, r.size, r.cached) for n, r in s.bus.io_regions.items()} == {"io0": (0x8000_0000, 0x8000_0000, False)} and s.bus.io_regions_check is True, s.bus.io_regions)
        o.chk("ens.add_cpu:every-peripheral-bus-of-the-CPU-is-a-bus-master-once", list(s.bus.masters) == ["cpu_bus0"] and s.bus.masters["cpu_bus0"] is s.cpu.ibus, list(s.bus.masters))
        o.chk("ens.add_cpu:interrupts-enabled;CPU-and-reserved-interrupts-granted-their-numbers;timer-gets-the-lowest-free-number", s.irq.enabled and s.irq.locs == {"cpuint": 1, "noirq": 0, "res5": 5, "timer0": 2}, s.irq.locs)
        o.chk("ens.add_cpu:second-CPU-rejected", _rej(s.add_cpu, "vfstub") == (False, "SoCError"))
        o.chk("ens.add_cpu:unknown-CPU/variant-rejected", _rej(s.add_cpu, "no-such-cpu") == (False, "SoCError") and _rej(_soc, "vfstub", cpu_variant="nonexistent") == (False, "SoCError"))
    with _MemMapGuard():
        s2 = _soc("vfx_io2")
        o.chk("ens.add_cpu[two-IO-regions]:both-registered-under-different-names", {n: (r.origin, r.size) for n, r in s2.bus.io_regions.items()} == {"io0": (0x8000_0000, 0x1000_0000), "io1": (0xe000_0000, 0x2000_0000)}, s2.bus.io_regions)
    with _MemMapGuard():
        s3 = _soc(None, integrated_rom_size=0, integrated_rom_init=[], with_timer=False)
        o.chk("ens.add_cpu[no-CPU]:interrupts-stay-disabled(every-request-rejected),IO-check-off", (not s3.irq.enabled) and _rej(s3.irq.add, "x") == (False, "SoCError") and s3.bus.io_regions_check is False and not s3.irq.locs)
    o.cover("cover.add_cpu-state-read", len(o.r) >= 7)
    return dict(results=o.r, functions=["litex.soc.integration.soc.SoC.add_cpu"], samples=[])

WHAT_IO_ORDER = ("the IO/cached rule is only applied to the region being added, against the IO regions known AT THAT MOMENT: add_region(SoCIORegion) compares the new IO region with the other IO regions only, "
                 "so an IO region registered after a cached region that lies inside it is accepted (the same order arises inside the code: SoCBusHandler.__init__ adds reserved_regions before SoC.add_cpu registers the CPU's IO regions); "
                 "SoC.finalize re-checks nothing: the SoC is built with a CACHED region inside an IO region, which both error messages of add_region call impossible")
def _late_io(s):
    s.add_ram("ram2", 0xa000_0000, 0x1000)                                                          # cached, outside both IO regions of the CPU: legal
    s.bus.add_region("io_user", S.SoCIORegion(origin=0xa000_0000, size=0x1000_0000, cached=False))  # a further IO region, over the RAM
@_guarded
def c_io_rule_order():
    o = _Out()
    ok, info, soc = _scenario("wishbone", "shared", "vfx_io2", {}, _late_io, "rejected")
    o.finding("finding.IO-region-registered-over-a-cached-region:rejected-at-the-latest-by-finalize", ok, WHAT_IO_ORDER, "tools/replay_io_region_after_cached_region.py", info=info)
    # handler level, both orders: the same pair of requests
    b1 = _quiet(S.SoCBusHandler()); elab.restore_stderr()
    a1 = _rej(b1.add_region, "io0", S.SoCIORegion(origin=0x8000_0000, size=0x8000_0000, cached=False)); a2 = _rej(b1.add_region, "r", S.SoCRegion(origin=0x9000_0000, size=0x1000, cached=True))
    o.chk("ens.IO-region-first,cached-region-inside-it-second:rejected", a1 == (True, None) and a2 == (False, "SoCError"), (a1, a2))
    for tag, mk in (("add_region", lambda: _quiet(S.SoCBusHandler())), ("reserved_regions", lambda: _quiet(S.SoCBusHandler(reserved_regions={"r": 0x9000_0000})))):
        b2 = mk(); elab.restore_stderr()
        c1 = _rej(b2.add_region, "r", S.SoCRegion(origin=0x9000_0000, size=0x1000, cached=True)) if tag == "add_region" else (True, None)
        c2 = _rej(b2.add_region, "io0", S.SoCIORegion(origin=0x8000_0000, size=0x8000_0000, cached=False))
        o.finding(f"finding.cached-region-first({tag}),IO-region-containing-it-second:one-of-the-two-requests-is-rejected", not (c1[0] and c2[0]), WHAT_IO_ORDER, "tools/replay_io_region_after_cached_region.py", info=f"region r -> {c1}, add_region(io0) -> {c2}")
    o.cover("cover.both-orders-run", a1[0] and not a2[0])
    return dict(results=o.r, functions=["litex.soc.integration.soc.SoCBusHandler.add_region (IO region after regions)", "litex.soc.integration.soc.SoC.finalize (IO rule not re-checked)"], samples=[])

# =====================================================================================================================================
# 7. connectors, conn:pin identifiers, Inverted, PlatformInfo
# =====================================================================================================================================
CONNS = [("pmod", "A1 A2 None A4", "B1 B2"), ("hdr", {"tx": "C1", "rx": "C2", 5: "C5", "al": "pmod:1"}), ("alias", "pmod:0 hdr:rx pmod:5")]
PMOD = ["A1", "A2", None, "A4", "B1", "B2"]
def _resolve(cm, ident):
    try: return cm.resolve_identifiers([ident]), None
    except BaseException as e: return None, type(e).__name__

@_guarded
def c_connectors():
    o = _Out(); n = 0
    cm = GP.ConnectorManager(CONNS)
    o.chk("ens.add_connector:table==declared-pins(strings-split-and-concatenated,'None'->no-pin,dict-kept)", cm.connector_table == {"pmod": PMOD, "hdr": CONNS[1][1], "alias": ["pmod:0", "hdr:rx", "pmod:5"]}, cm.connector_table)
    # every pin number of the list connector, and a margin of numbers beyond it
    bad = []
    for k in range(0, 40):
        n += 1; got, exc = _resolve(cm, f"pmod:{k}")
        if k < len(PMOD) and PMOD[k] is not None: good = got == [PMOD[k]]
        else: good = got is None                                         # no such pin / unconnected pin: an error, never some other pin
        if not good: bad.append((k, got, exc))
    o.chk("ens.resolve[list-connector]:pin-k-resolves-to-the-k-th-declared-pin;k-beyond-the-connector-or-an-unconnected-pin=>error[k=0..39]", not bad, bad[:4])
    bad = []
    for key, want in (("tx", ["C1"]), ("rx", ["C2"]), ("5", ["C5"]), ("al", ["A2"]), ("zz", None), ("TX", None), ("0", None), ("", None)):
        n += 1; got, exc = _resolve(cm, f"hdr:{key}")
        if got != want: bad.append((key, got, exc))
    o.chk("ens.resolve[dict-connector]:declared-keys-resolve-to-their-pin(an-alias-entry-recursively);unknown-keys=>error", not bad, bad)
    bad = []
    for ident, want in (("alias:0", ["A1"]), ("alias:1", ["C2"]), ("alias:2", ["B2"]), ("alias:3", None), ("nope:0", None), ("PMOD:0", None), ("pmod:0:1", None), ("pmod:-1", None), ("pmod:x", None), ("pmod:", None), (":0", None), ("E3", ["E3"]), ("X", ["X"])):
        n += 1; got, exc = _resolve(cm, ident)
        if got != want: bad.append((ident, got, exc))
    o.chk("ens.resolve:alias-connectors-resolve-through;unknown-connector/malformed-identifier=>error;plain-pin-names-unchanged", not bad, bad)
    got, exc = _resolve(cm, "pmod:1"); multi = None
    try: multi = cm.resolve_identifiers(["E3", "pmod:0", "hdr:rx", "pmod:4"])
    except Exception as e: multi = type(e).__name__
    o.chk("ens.resolve:a-list-of-identifiers-is-resolved-element-wise,order-kept", multi == ["E3", "A1", "C2", "B1"], multi)
    # connector names are granted once
    r = []
    for conns in (("pmod", "Z1"), [("new", "Z1"), ("new", "Z2")], [("hdr", {"a": "b"})]):
        n += 1; c2 = GP.ConnectorManager(CONNS); before = {k: (list(v) if isinstance(v, list) else dict(v)) for k, v in c2.connector_table.items()}
        try: c2.add_connector(conns); r.append("accepted")
        except ValueError: r.append("ValueError")
        except Exception as e: r.append(type(e).__name__)
        if any(c2.connector_table.get(k) != v for k, v in before.items()): r.append("an existing connector was changed")
    o.chk("ens.add_connector:a-connector-name-in-use-is-rejected(ValueError),existing-connectors-unchanged", r == ["ValueError"] * 3, r)
    c3 = GP.ConnectorManager([]); c3.add_connector(("one", "P0 P1")); c3.add_connector([("two", "Q0")])
    o.chk("ens.add_connector:single-tuple-and-list-forms,later-additions-visible", c3.connector_table == {"one": ["P0", "P1"], "two": ["Q0"]} and c3.resolve_identifiers(["one:1", "two:0"]) == ["P1", "Q0"], c3.connector_table)
    ok, exc = True, None
    try: GP.ConnectorManager([("bad", 5)]); ok = False
    except ValueError: pass
    except Exception as e: ok = False; exc = type(e).__name__
    o.chk("ens.add_connector:unsupported-pin-list-type-rejected", ok, exc)
    o.cover("cover.connectors-exercised", n > 60, evaluations=n)
    return dict(results=o.r, functions=["litex.build.generic_platform.ConnectorManager.add_connector", "litex.build.generic_platform.ConnectorManager.resolve_identifiers", "litex.build.generic_platform.ConnectorManager.__init__"],
                samples=[dict(bounded="connector identifiers", evaluations=n)])

@_guarded
def c_conn_pins_in_manager():
    """the pins the build receives for resources declared with conn:pin identifiers - base description and extensions - are the connector's pins"""
    from litex.build.generic_platform import Pins, Subsignal, IOStandard, Inverted, PlatformInfo, Misc
    o = _Out()
    io = [("clk", 0, Pins("E3"), IOStandard("LVCMOS33")), ("led", 0, Pins("pmod:0")), ("led", 1, Pins("pmod:1 pmod:3")),
          ("spi", 0, Subsignal("cs_n", Pins("hdr:tx")), Subsignal("clk", Pins("hdr:rx")), Subsignal("d", Pins("alias:0 alias:2 X9")), IOStandard("LVCMOS18"))]
    m = GP.ConstraintManager(io, CONNS)
    objs = [m.request("led", 0), m.request("led", 1), m.request("spi"), m.request("clk")]
    sc = m.get_sig_constraints()
    got = {c[3]: c[1] for c in sc}
    want = {("led", 0, None): ["A1"], ("led", 1, None): ["A2", "A4"], ("spi", 0, "cs_n"): ["C1"], ("spi", 0, "clk"): ["C2"], ("spi", 0, "d"): ["A1", "B2", "X9"], ("clk", 0, None): ["E3"]}
    o.chk("ens.get_sig_constraints:conn:pin-identifiers-of-matched-resources-resolved-to-the-connector's-pins,one-entry-per-(resource,sub-signal)", got == want and len(sc) == len(want), got)
    o.chk("ens.get_sig_constraints:signal-widths==number-of-pins;objects-are-the-granted-ones", all(len(c[0]) == len(c[1]) for c in sc) and sc[0][0] is objs[0] and sc[1][0] is objs[1] and sc[2][0] is objs[2].cs_n and sc[5][0] is objs[3], [(len(c[0]), len(c[1])) for c in sc])
    # extension on the connectors (the way an add-on board is declared)
    ext = [("btn", 0, Pins("pmod:4 hdr:5")), ("btn", 1, Pins("alias:1"))]
    m.add_extension(ext)
    b0 = m.request("btn", 0); dup = _rej(m.request, "btn", 0); b1 = m.request("btn", 1)
    sc2 = {c[3]: c[1] for c in m.get_sig_constraints()}
    o.chk("ens.extension-resources:granted-once,pins-resolved-to-the-connector's-pins", dup == (False, "ConstraintError") and sc2.get(("btn", 0, None)) == ["B1", "C5"] and sc2.get(("btn", 1, None)) == ["C2"] and all(sc2[k] == v for k, v in want.items()), sc2)
    # a connector added after construction serves later extensions
    m.add_connector(("late", "L0 L1")); m.add_extension([("x", 0, Pins("late:1"))]); m.request("x", 0)
    o.chk("ens.add_connector-then-extension:resolved", {c[3]: c[1] for c in m.get_sig_constraints()}.get(("x", 0, None)) == ["L1"])
    # unknown connector / pin in a resource: the build is refused (at the latest when the constraints are produced), nothing is resolved to some other pin
    r = []
    for pins in ("pmod:6", "nope:1", "hdr:zz", "pmod:2", "alias:7"):
        m2 = GP.ConstraintManager([("led", 0, Pins("pmod:0"))], CONNS); m2.add_extension([("bad", 0, Pins(pins))])
        a = _rej(m2.request, "bad", 0)
        try: c = m2.get_sig_constraints(); r.append((pins, "built", [x[1] for x in c]))
        except BaseException as e: r.append((pins, "error"))
    o.chk("ens.resource-on-an-unknown-connector/pin:refused-at-the-latest-by-get_sig_constraints", all(x[1] == "error" for x in r), r)
    # Inverted / PlatformInfo resources
    io3 = [("a", 0, Pins("pmod:0"), Inverted()), ("b", 0, Pins("pmod:1"), Inverted(), PlatformInfo({"k": 1})), ("c", 0, Pins("pmod:3")),
           ("r", 0, Subsignal("n", Pins("hdr:tx"), Inverted()), Subsignal("p", Pins("hdr:rx")), PlatformInfo("pi")), ("info", 0, PlatformInfo({"only": "info"}))]
    m3 = GP.ConstraintManager(io3, CONNS)
    a, b_, c, r_ = m3.request("a"), m3.request("b"), m3.request("c"), m3.request("r")
    o.chk("ens.Inverted/PlatformInfo:the-granted-object-carries-the-marks-of-ITS-resource-only", getattr(a, "inverted", False) is True and getattr(b_, "inverted", False) is True and getattr(b_, "platform_info", None) == {"k": 1}
          and not hasattr(c, "inverted") and not hasattr(c, "platform_info") and not hasattr(a, "platform_info") and getattr(r_.n, "inverted", False) is True and not hasattr(r_.p, "inverted") and getattr(r_, "platform_info", None) == "pi",
          [getattr(x, "inverted", None) for x in (a, b_, c, r_.n, r_.p)])
    sc3 = {x[3]: (x[1], [type(y).__name__ for y in x[2]]) for x in m3.get_sig_constraints()}
    o.chk("ens.Inverted/PlatformInfo:pins-resolved,marks-passed-on-as-other-constraints", sc3 == {("a", 0, None): (["A1"], ["Inverted"]), ("b", 0, None): (["A2"], ["Inverted", "PlatformInfo"]), ("c", 0, None): (["A4"], []),
          ("r", 0, "n"): (["C1"], ["PlatformInfo", "Inverted"]), ("r", 0, "p"): (["C2"], ["PlatformInfo"])}, sc3)
    o.chk("ens.Inverted/PlatformInfo-resources:granted-once(second-request-rejected),lookup-returns-the-granted-object", all(_rej(m3.request, n_) == (False, "ConstraintError") for n_ in "abcr") and m3.lookup_request("a") is a and m3.lookup_request("r:n") is r_.n
          and [x[0][0] for x in m3.matched] == ["a", "b", "c", "r"] and [x[0] for x in m3.available] == ["info"], [x[0] for x in m3.available])
    # observation (not a clause of the property): request() stops reading the resource at the first PlatformInfo, so an Inverted() written after it is not applied
    m4 = GP.ConstraintManager([("z", 0, Pins("E1"), PlatformInfo("p"), Inverted())], [])
    z = m4.request("z")
    o.r.append(res("observation.Inverted-written-after-PlatformInfo-is-ignored-by-request", "cover", OK, 0, EXEC, inverted_attribute=getattr(z, "inverted", None), note="constraint order dependence; outside the allocation property"))
    o.cover("cover.connector-pins-reach-the-constraints", len(sc) == 6 and len(r) == 5)
    return dict(results=o.r, functions=["litex.build.generic_platform.ConstraintManager.get_sig_constraints (conn:pin identifiers)", "litex.build.generic_platform.ConstraintManager.add_connector", "litex.build.generic_platform.ConstraintManager.request (Inverted / PlatformInfo)",
                                        "litex.build.generic_platform.ConstraintManager.add_extension (resources on connectors)", "litex.build.generic_platform._resource_type (Inverted sub-signals)"], samples=[])

# =====================================================================================================================================
def cases(tier):
    d = 3 if tier == "quick" else 4
    cs = [Case("add_controller/add_peripheral(aliases)", c_aliases),
          Case("add_master(name=None,histories)", c_auto_names, "master", d), Case("add_slave(name=None,histories)", c_auto_names, "slave", d), Case("SoCCSRHandler.add_master(name=None,histories)", c_auto_names, "csrmaster", d)]
    cs += [Case(f"SoCBusHandler.__init__(proof,all-widths,{s})", c_bus_init, s) for s in ("wishbone", "axi-lite", "axi", "ahb", "")]
    cs += [Case("SoCBusHandler(reserved_regions)", c_reserved_regions), Case("SoCCSRHandler.add_master(proof)", c_csr_add_master), Case("SoC.add_cpu(state)", c_add_cpu_state), Case("IO-rule(order-of-requests)", c_io_rule_order)]
    cs += [Case(f"SoC.finalize(cpu,{std},part{p})", c_finalize_cpu, std, p) for std in ("wishbone", "axi-lite", "axi") for p in (0, 1)]
    cs += [Case("ConnectorManager(identifiers)", c_connectors), Case("ConstraintManager(conn:pin,Inverted,PlatformInfo)", c_conn_pins_in_manager)]
    return cs

ASSUMPTIONS = [
    "C13 soc paths: executed checks run the unmodified functions under plain CPython on concrete requests; they are bounded stand-ins (status bounded-ok) unless the clause is a z3 proof over all addresses / all ints; "
    "`rejected` means SoCError for soc.py requests, ConstraintError / ValueError / AssertionError / TypeError for generic_platform.py (resolve_identifiers rejects with `assert`, i.e. only when Python runs without -O; "
    "an unconnected ('None') pin and a non-numeric pin of a list connector are refused by a TypeError of the comparison)",
    "SoC.finalize with a CPU: the CPU is a stub class (contracts/C14_mem_exports.py `vfstub`: one 32-bit wishbone master, a 32-line interrupt input, IO region 0x8000_0000 + 2 GiB, csr at 0xf000_0000) and variants of its class attributes "
    "(reserved interrupts, two IO regions, overlapping IO regions, IO region = whole address space with the CSR bridge at 0 or at 0x2000_0000, no interrupt input); the real cores are Verilog black boxes that are not installed. "
    "SoCCore.mem_map is a class attribute that add_cpu updates in place: the harness restores it after every scenario (one design per process is the normal use)",
    "decoder clauses on a built SoC: region.decoder(bus) is evaluated again for every slave (it is a pure function of the region and the bus widths) on one symbolic word address of bus.address_width - log2(data_width/8) bits, which is how "
    "the wishbone / AXI(-Lite) decoders of do_finalize's interconnect apply it (proved in C06 / C08); the point-to-point branch has no decoder: its single slave answers every address by design",
    "the IO/cached rule is evaluated on the declared extent [origin, origin + size) as the code does (see the assumptions of C13_handlers_ext)",
    "SoCBusHandler.__init__ proof: data_width / address_width are ANY ints; standard is one of five concrete strings (three documented, two not); timeout / bursting / interconnect_register are opaque objects; reserved_regions = {} "
    "(reserved regions: bounded case); the supported sets are the documented ones (32..512 bit data, 32/64 bit addresses)",
]
