"""C06: read data through wishbone.Crossbar with registered decoders (Decoder(register=True) inside the crossbar).  Contracts in contracts/C08_ic_ext.py."""
from contracts import C08_ic_ext as M
def cases(tier): return M.cases_for("C06", tier)
ASSUMPTIONS = [a for a in M.ASSUMPTIONS if "wishbone" in a]
