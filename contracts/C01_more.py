"""C01 (extension): parts of the back end and of the reference simulator that the corpus of C01_verilog never reached.
 1. verilog.py:_ComplexSliceLowerer - slices of Cat / Replicate / operators / Array proxies / constants, nested slices, as sources and as
    targets, in comb and sync statements, validated per design (tv_design, both comb printers; sync targets through a simulation relation
    because the lowering turns the sliced registers into wires of a hidden register).
 2. expression.py:_generate_constant for SIGNED non-negative constants, comparisons over operands of mixed signedness (expression lemma:
    real printer text under IEEE-1364 sizing/sign rules == real Evaluator, for all operand values).
 3. memory.py:_memory_generate_verilog - No-Change / Read-First ports without `re` and with a write granularity, write-capable asynchronous
    read ports, width not a multiple of the granularity, init files of memories narrower than 4 bits, depth not a power of two with a short init.
 4. negative reset values of signed registers, Case keys below zero on a signed selector, reset-less clock domains, regs_init=False.
 5. sim/core.py:Evaluator.assign for Cat / Slice / ArrayProxy targets and Evaluator.eval of ArrayProxy: the REAL Evaluator is executed on all
    values of narrow programs and compared with the term of vf/fhdl2smt.py (the transcription the symbolic obligations rest on)."""
import itertools, time, re, z3
from vf import elab
from vf.fhdl2smt import TS, Sem, copy_fragment, low_bits
from vf import vexpr
from vf.vlog import parse_module, VTS, VParseError
from vf.hw import res
from migen import *
from migen.fhdl.structure import _Slice, _ArrayProxy, _Fragment as _FragmentT
from migen.fhdl.specials import Memory, WRITE_FIRST, READ_FIRST, NO_CHANGE
from migen.fhdl.tools import list_clock_domains
from litex.gen.sim.core import Evaluator
from litex.gen.fhdl.expression import _generate_expression
from litex.gen.fhdl.namer import build_signal_namespace
from litex.gen.fhdl.verilog import convert
import contracts.C01_verilog as C1
from contracts.C01_verilog import tv_design, _real_eval, _sim_value
from vf.core import Case as VCase, PROVED, VIOLATED, NOINPUT, UNKNOWN, BOUNDED_OK, OK, VACUOUS
from migen import Case

_GRAMMAR = (VParseError, SyntaxError, AssertionError, KeyError, NotImplementedError)

# ---------------------------------------------------------------------------------------------------------------------------
# helpers
def _frag(d, reset_less=False):
    """fragment of d with an explicit `sys` domain when the design has synchronous statements -> (fragment, clock/reset signals)"""
    f = d.get_fragment() if not isinstance(d, _FragmentT) else d; extra = set()
    for cdn in sorted(list_clock_domains(f)):
        try: f.clock_domains[cdn]
        except KeyError:
            cd = ClockDomain(cdn, reset_less=reset_less); f.clock_domains.append(cd); extra |= {cd.clk} | ({cd.rst} if cd.rst is not None else set())
    return f, extra

def _preflight(name, factory, **kw):
    """convert() of a freshly built instance (the printer mutates shared Memory port objects, so the validated instance is built separately):
    an exception of the back end for a legal design is a violation, not a harness crash"""
    try:
        d, ios = factory(); f, extra = _frag(d)
        r = convert(copy_fragment(f), ios=set(ios) | extra, name="top", **kw)
        r._x5 = (f, set(ios) | extra)
        return r, None
    except Exception as e:
        return None, [res(f"tv.convert[{name}]", "ensures", VIOLATED, 0, "executed", info=f"convert() raised {type(e).__name__}: {str(e)[:200]} for a legal design",
                          witness=dict(design=name, exception=f"{type(e).__name__}: {str(e)[:300]}"))]

def _walk(node, fn):
    if isinstance(node, tuple):
        fn(node)
        for x in node: _walk(x, fn)
    elif isinstance(node, list):
        for x in node: _walk(x, fn)

def _structure(name, r):
    """two structural clauses on the emitted text that the transition-system comparison does not see:
    (1) port directions: an io signal that the FHDL design drives is an `output` of the module, every other io an `input` (a driven signal that comes out as an
        input would silently be treated as a free input on both sides);  (2) every constant bit/part select lies inside the declared range of its net or memory
        (IEEE-1364: an out-of-range select reads x and a write to it is lost - never what the simulator computes; FHDL slices are in range by construction)"""
    from migen.fhdl.tools import list_targets, list_special_ios
    f, ios = r._x5
    try: vm = parse_module(r.main_source)
    except _GRAMMAR as e:
        return [res(f"ens.structure[{name}]", "ensures", UNKNOWN, 0, "", info=f"text outside the vlogsem grammar: {type(e).__name__}: {e}")]
    driven = set(list_targets(f)) | set(list_special_ios(f, ins=False, outs=True, inouts=False))
    wrong = []
    for s_ in ios:
        try: n = r.ns.get_name(s_)
        except Exception: continue
        want = "output" if s_ in driven else "input"
        if vm.ports.get(n) != want: wrong.append(f"{n}: {vm.ports.get(n)} (expected {want})")
    bad = []
    def chk(node):
        if node and node[0] == "sel" and isinstance(node[1], tuple):
            a = node[1]; w = None
            if a[0] == "id" and a[1] in vm.nets: w = vm.nets[a[1]]["width"]
            elif a[0] == "memrd" and isinstance(a[1], tuple) and a[1][0] == "id" and a[1][1] in vm.mems: w = vm.mems[a[1][1]]["width"]
            if w is not None and not (0 <= node[3] <= node[2] < w): bad.append(f"{a[1] if a[0] == 'id' else a[1][1]}[{node[2]}:{node[3]}] of {w} bits")
        elif node and node[0] == "lv" and len(node) == 3 and isinstance(node[2], list):
            nme, sels = node[1], node[2]; bits = [x for x in sels if x[0] == "bits"]
            w = vm.nets[nme]["width"] if nme in vm.nets else (vm.mems[nme]["width"] if nme in vm.mems else None)
            for _, hi, lo in bits:
                if w is not None and not (0 <= lo <= hi < w): bad.append(f"{nme}[{hi}:{lo}] of {w} bits (left-hand side)")
    _walk([vm.assigns, vm.comb, vm.sync], chk)
    return [res(f"ens.port-directions[{name}]", "ensures", PROVED if not wrong else NOINPUT, 0, "executed", info=f"wrong direction: {wrong[:5]}" if wrong else f"{len(ios)} io signals",
                formula="io signal driven by the FHDL design (statement target or special output) <=> `output` port of the emitted module; otherwise `input`"),
            res(f"ens.selects-in-range[{name}]", "ensures", PROVED if not bad else NOINPUT, 0, "executed", info=f"out of range: {bad[:5]}" if bad else "",
                formula="every constant bit/part select of the emitted text lies inside the declared range of its net / memory word")]

def _tv(name, factory, regular_comb=True, validator=None):
    r, err = _preflight(name, factory, regular_comb=regular_comb)
    if err: return err, None
    d, ios = factory(); f, extra = _frag(d)
    try: rs = (validator or tv_design)(name, f, set(ios) | extra, regular_comb)
    except Exception as e:
        rs = [res(f"tv[{name}]", "ensures", UNKNOWN, 0, "", info=f"design could not be validated: {type(e).__name__}: {str(e)[:200]}")]
    return rs + _structure(name, r), r

def _cover(name, ok, what, unknown=False):
    return res(name, "cover", OK if ok else (UNKNOWN if unknown else VACUOUS), 0, "executed", info=what)

def _step_of(results): return [x for x in results if x["name"].startswith(("tv.step", "tv-rel.step", "tv[", "tv-rel[", "tv.convert"))]
def _differing(r_):
    m = re.search(r"differing: \[(.*?)\]", r_.get("info") or "")
    return [x.strip().strip("'\"") for x in m.group(1).split(",")] if m else []

# ---------------------------------------------------------------------------------------------------------------------------
# simulation-relation variant of the per-design validation: an FHDL register may correspond to a Verilog WIRE that is a function of registers
# the lowering introduced (sliced Cat target in a sync statement: `slice_proxy` becomes the register, the sliced signals wires of it)
def tv_relational(name, f0, ios, regular_comb=True):
    t0 = time.time(); ios = set(ios)
    cds = list(f0.clock_domains); clks = {cd_.clk for cd_ in cds}
    inputs = [s for s in ios if s not in clks]
    fts = TS(copy_fragment(f0), inputs=inputs)
    r = convert(copy_fragment(f0), ios=ios, name="top", regular_comb=regular_comb)
    try:
        vm = parse_module(r.main_source); vts = VTS(vm, r.data_files)
    except _GRAMMAR as e:
        return [res(f"tv-rel[{name}]", "ensures", UNKNOWN, time.time() - t0, "", info=f"text outside the vlogsem grammar: {type(e).__name__}: {e}")]
    if len(fts.next) != 1 or vm.mems or fts.mems:
        return [res(f"tv-rel[{name}]", "ensures", UNKNOWN, time.time() - t0, "", info="the relational validation handles one clock domain without memories")]
    ns = r.ns
    def nm(s):
        try: return ns.get_name(s)
        except Exception: return None
    cdn = next(iter(fts.next)); fm = fts.next[cdn]
    try: clk = nm(fts.f.clock_domains[cdn].clk)
    except KeyError: clk = None
    vnext = vts.next.get(clk, {})
    stray = [c for c in vts.next if c != clk and vts.next[c]]
    # structural legality the vlogsem front end does not check: a net assigned in an always @(posedge) block must be a reg and must have no continuous driver
    illegal = sorted({n for dn in vts.next.values() for n in dn if n in vts.comb_eq or vm.nets[n]["kind"] != "reg"})
    state_f = set(fts.state)
    link = [(s, nm(s)) for s in set(fts.state) | set(fts.inputs) | set(fts.comb_targets) if nm(s) in vts.var]
    direct = [(s, n) for s, n in link if s in state_f and n in vnext]
    rel = [(s, n) for s, n in link if s in state_f and n not in vnext and n in vts.comb_eq]
    unlinked = [s for s in fts.state if not any(s is a for a, _ in direct + rel)]
    driven = set(vts.comb_eq) | set(vnext)
    consts = [n for n, dd in vm.nets.items() if dd["kind"] == "reg" and n not in driven and n not in vm.ports and n in vts.init]
    cs = list(fts.comb_constraints()) + [vts.var[n] == e for n, e in vts.comb_eq.items()] + [vts.var[n] == vts.init[n] for n in consts]
    eq_now = [fts.var[s] == vts.var[n] for s, n in direct + rel]
    eq_now += [fts.rd(s) == vts.var[n] for s, n in link if s in fts.inputs and vm.ports.get(n) == "input"]
    # the Verilog side one step later: registers take their next value, nets are re-evaluated on them (the inputs of the next cycle are free)
    prime = {n: z3.BitVec(f"v_{n}'", d_["width"]) for n, d_ in vm.nets.items()}
    sub = [(vts.var[n], prime[n]) for n in vts.var]
    cs_p = [prime[n] == vnext[n] for n in vnext] + [prime[n] == z3.substitute(e, *sub) for n, e in vts.comb_eq.items()] + [prime[n] == vts.init[n] for n in consts]
    goals = {}
    for s, n in direct: goals[f"next.{n}"] = fm.get(s, fts.var[s]) == vnext[n]
    for s, n in rel: goals[f"next.{n}(wire of hidden registers)"] = fm.get(s, fts.var[s]) == prime[n]
    for s, n in link:
        if vm.ports.get(n) == "output" and s not in state_f: goals[f"out.{n}"] = fts.var[s] == vts.var[n]
    solver = z3.Solver(); solver.add(*cs); solver.add(*eq_now); solver.add(*cs_p)
    solver.set("timeout", 30000); sat0 = solver.check()
    bad = []; unk = []
    for g, e in goals.items():
        solver.push(); solver.set("timeout", 30000); solver.add(z3.Not(e)); rr = solver.check(); solver.pop()
        if rr == z3.sat: bad.append(g)
        elif rr != z3.unsat: unk.append(g)
    # initial state: Verilog registers at their initialisers, wires evaluated on them; FHDL registers at their reset values
    s0 = z3.Solver(); s0.add(*[vts.var[n] == e for n, e in vts.comb_eq.items()]); s0.add(*[vts.var[n] == vts.init[n] for n in vm.nets if n in vts.init and n not in vts.comb_eq])
    init_bad = []
    for s, n in direct + rel:
        if n in vnext and n not in vts.init:
            if n not in vm.ports and s.reset.value != 0: init_bad.append(n + "(no initialiser)")
            continue
        s0.push(); s0.set("timeout", 30000); s0.add(vts.var[n] != z3.BitVecVal(s.reset.value & ((1 << s.nbits) - 1), s.nbits)); rr = s0.check(); s0.pop()
        if rr != z3.unsat: init_bad.append(n)
    if sat0 != z3.sat: unk.append(f"the constraint system is not satisfiable ({sat0}): nothing would be proved")
    if illegal: bad.append(f"illegal Verilog: {illegal} assigned in an always @(posedge) block although declared as wire / driven by a continuous assignment as well")
    st = PROVED if not bad and not unk and not unlinked and not stray else (NOINPUT if bad or stray else UNKNOWN)
    out = [res(f"tv-rel.step[{name}]", "ensures", st, time.time() - t0, "z3-5.1.0(api)", goals=len(goals), linked_state=len(direct), state_read_through_wires=len(rel),
               info=(f"differing: {bad[:6]}" if bad else "") + (f" undecided: {unk[:3]}" if unk else "") + (f" state without Verilog counterpart: {[str(fts.var[s]) for s in unlinked[:3]]}" if unlinked else "") + (f" Verilog registers on a clock that is no FHDL domain's clock: {stray}" if stray else ""),
               formula="simulation relation R: every FHDL register equals the Verilog net of its name (a register, or a wire that is a function of registers introduced by the lowering); forall R-related states and equal inputs: outputs equal and the successor states are R-related")]
    out.append(res(f"tv-rel.init[{name}]", "ensures", PROVED if not init_bad else NOINPUT, 0, "z3-5.1.0(api)", info=f"initial value mismatch: {init_bad[:6]}" if init_bad else ""))
    return out

# ---------------------------------------------------------------------------------------------------------------------------
# 1. complex slices
def _cs_sources(W=4, signed_parts=False):
    """slices of Cat / Replicate / operators / Mux / constants / Array proxies, nested slices, in comb and sync right-hand sides, If tests and Case
    selectors.  Every slice is chosen so that a NON-trivial path of _ComplexSliceLowerer.visit_Slice runs: straddling two Cat elements or two
    Replicate copies (slice_proxy), falling inside one element (re-based slice of that element), operator operand (slice_proxy).
    signed_parts: the sliced elements are signed (the slice itself stays unsigned; only PARTIAL or straddling slices: a full-width slice of a signed
    operand is the listed finding candidate)."""
    class D(Module):
        def __init__(self):
            sg = signed_parts
            self.a = a = Signal((W, sg)); self.b = b = Signal((W + 1, sg)); self.c = c = Signal(3); self.k = k = Signal(2); self.en = en = Signal()
            n = 2 * W + 1
            self.y = y = [Signal(n + 2, name_override=f"y{i}") for i in range(14)]
            self.r = rr = [Signal(W, name_override=f"r{i}") for i in range(5)]
            self.e0 = Signal(W); self.e1 = Signal(W)
            arr = Array([a, b[0:W], self.e0, self.e1]) if not sg else Array([self.e0, self.e1, rr[0], rr[1]])
            self.comb += [
                y[0].eq(Cat(a, b)[2:W + 3]),                        # straddles a|b                    -> slice_proxy
                y[1].eq(Replicate(a, 3)[1:W + 1]),                  # straddles two copies             -> slice_proxy
                y[2].eq((a + b)[0:3]),                              # operator                         -> slice_proxy
                y[3].eq(arr[k][1:3]),                               # Array proxy (forwarded to the choices by migen)
                y[4].eq(Cat(a, b)[1:n - 1][2:5]),                   # nested, straddles
                y[5].eq(Cat(a, b)[W + 1:n - 1]),                    # falls inside b                   -> b[1:W]
                y[6].eq(Replicate(b, 2)[W + 3:2 * W + 2]),          # falls inside the second copy     -> b[2:W+1]
                y[7].eq(Cat(c, Replicate(a, 2), b)[3 + W + 2:3 + 2 * W]),                       # Cat -> Replicate -> a[2:W]
                y[8].eq(Mux(en, a, b)[1:W]),                        # operator (mux)
                y[9].eq((a - b)[1:W + 2]),                          # a result that can be negative
                y[10].eq(Constant(0b101101, 6)[1:5]),               # constant operand
                y[11].eq(Cat(arr[k], c)[1:W + 2]),                  # Cat holding an Array proxy, straddles
                y[12].eq(Cat(arr[k], c)[0:W - 1]),                  # falls inside the Array proxy element -> slice_proxy of the proxy
                y[13].eq(_Slice(arr[k], 1, W)),                     # a slice node directly over an Array proxy
            ]
            self.o = o = Signal(4); self.o2 = o2 = Signal(4)
            self.comb += If(Cat(a, b)[W - 1:W + 2] == 5, o.eq(1)).Elif((a ^ b)[1:3], o.eq(2)).Else(o.eq((a & b)[0:2]))
            self.comb += Case((a + b)[1:3], {0: o2.eq(a[0:2]), 2: o2.eq(Cat(a, b)[W - 1:W + 1]), "default": o2.eq(9)})
            self.sync += [rr[0].eq(Cat(a, b)[W - 1:2 * W - 1]), rr[1].eq((a - b)[1:W + 1]), If(Replicate(c, 2)[2:5] == 3, rr[2].eq(Cat(rr[0], rr[1])[2:W + 2])),
                          Case(Cat(k, en)[1:3], {1: rr[3].eq((rr[3] + a)[0:W]), 2: rr[3].eq(Replicate(rr[0], 2)[W - 1:2 * W - 1])}), rr[4].eq(Cat(arr[k], rr[4])[2:W + 2])]
    d = D()
    return d, set([d.a, d.b, d.c, d.k, d.en, d.o, d.o2, d.e0, d.e1] + d.y + d.r)

def _cs_targets_comb():
    """complex slices on the LEFT of comb statements; all reset values zero (the lowering's slice_proxy defaults to zero: see the finding candidate)"""
    class D(Module):
        def __init__(self):
            self.v = Signal(5); self.w = Signal(3); self.k = Signal(2); self.c = Signal()
            self.x = Signal(4); self.y = Signal(5); self.x2 = Signal(4); self.y2 = Signal(5); self.x3 = Signal(4); self.y3 = Signal(5)
            self.e0 = Signal(4); self.e1 = Signal(4); self.e2 = Signal(4); self.f0 = Signal(4); self.f1 = Signal(4); self.z2 = Signal(3); self.s = Signal((4, True)); self.t = Signal(3)
            arr = Array([self.e0, self.e1, self.e2]); arr2 = Array([self.f0, self.f1])
            self.comb += Cat(self.x, self.y)[2:7].eq(self.v)                                   # straddles: slice_proxy drives {y, x}
            self.comb += Cat(self.x2, self.y2)[1:8][2:5].eq(self.w)                            # nested, straddles
            self.comb += [Cat(self.x3, self.y3)[4:7].eq(self.w), self.x3.eq(self.v)]           # inside y3 -> y3[0:3]
            self.comb += arr[self.k][1:3].eq(self.w)                                           # Array proxy of slices
            self.comb += If(self.c, Cat(arr2[self.k[0]], self.z2)[2:6].eq(self.v))             # Cat holding an Array proxy, conditional
            self.comb += Cat(self.s, self.t)[3:6].eq(self.w)                                   # signed element
    d = D(); return d, {d.v, d.w, d.k, d.c, d.x, d.y, d.x2, d.y2, d.x3, d.y3, d.e0, d.e1, d.e2, d.f0, d.f1, d.z2, d.s, d.t}

def _cs_targets_sync(rst=0, twice=False):
    """complex slices on the LEFT of sync statements: the lowering makes slice_proxy the register and the sliced signals wires of it
    (every Cat is sliced at ONE place: see the finding candidates for what happens otherwise)"""
    class D(Module):
        def __init__(self):
            self.v = Signal(5); self.w = Signal(3); self.c = Signal()
            self.p = Signal(4, reset=rst); self.q = Signal(5); self.p2 = Signal(4); self.q2 = Signal(5); self.p3 = Signal(4); self.q3 = Signal((5, True)); self.o = Signal(9); self.n = Signal(4); self.o3 = Signal(9)
            self.sync += Cat(self.p, self.q)[2:7].eq(self.v)
            self.sync += [If(self.c, Cat(self.p2, self.q2)[1:8][2:5].eq(self.w)), self.n.eq(self.n + self.p2)]
            if twice: self.sync += Case(self.w, {1: Cat(self.p3, self.q3)[3:6].eq(self.v), 2: Cat(self.p3, self.q3)[0:2].eq(self.w)})      # the same Cat sliced at a second place (inside p3)
            else: self.sync += Case(self.w, {1: Cat(self.p3, self.q3)[3:6].eq(self.v), 5: []})
            self.comb += [self.o.eq(Cat(self.q, self.p)), self.o3.eq(self.q3 + self.p3)]
    d = D(); return d, {d.v, d.w, d.c, d.o, d.o3}

def _cs_collapse(signed):
    """a slice that covers ALL bits of a Cat element / Replicate operand / signal: visit_Slice returns the operand itself"""
    class D(Module):
        def __init__(self):
            self.s = Signal((4, signed)); self.t = Signal(3); self.u = Signal(4)
            self.y = Signal(8); self.z = Signal(8); self.c = Signal(); self.y2 = Signal(8); self.r = Signal(8); self.y3 = Signal(8)
            self.comb += [self.y3.eq(self.s[0:4]), self.y.eq(Cat(self.s, self.t)[0:4]), self.z.eq(Replicate(self.s, 2)[4:8]), self.c.eq(Cat(self.t, self.s)[3:7] < self.u), self.y2.eq(Cat(self.s)[0:4])]
            self.sync += self.r.eq(Cat(self.t, self.s)[1:8][2:6])
    d = D(); return d, {d.s, d.t, d.u, d.y, d.z, d.c, d.y2, d.r, d.y3}

def _cs_target_reset(kind):
    class D(Module):
        def __init__(self):
            self.v = Signal(5); self.a = Signal(4); self.x = Signal(4, reset=5 if kind == "reset" else 0); self.y = Signal(5)
            self.comb += ([self.x.eq(self.a)] if kind == "other-assignment" else []) + [Cat(self.x, self.y)[2:7].eq(self.v)]
    d = D(); return d, {d.v, d.a, d.x, d.y}

def c_complex_slices(which, regular_comb=True):
    out = []; fns = ["litex.gen.fhdl.verilog._ComplexSliceLowerer.visit_Slice", "litex.gen.fhdl.verilog._lower_slice_cat", "litex.gen.fhdl.verilog._lower_slice_replicate", "litex.gen.fhdl.verilog.lower_complex_slices", "litex.gen.fhdl.verilog.convert"]
    tag = "" if regular_comb else ",sim-comb"
    def proxies(r): return len(set(re.findall(r"\bslice_proxy\d*\b", r.main_source))) if r is not None else 0
    if which in ("sources", "sources-signed", "sources-wide"):
        W = 7 if which == "sources-wide" else 4
        rs, r = _tv(f"complex-slice {which}{tag}", lambda: _cs_sources(W, which == "sources-signed"), regular_comb); out += rs
        out.append(_cover("cover.slice-proxies-emitted", proxies(r) >= 8 and r is not None and re.search(r"\bb\[\d+:1\]", r.main_source) is not None,
                          f"{proxies(r)} slice_proxy nets and a re-based slice of a Cat element in the emitted text", unknown=r is None))
    elif which == "targets-comb":
        rs, r = _tv(f"complex-slice targets (comb){tag}", _cs_targets_comb, regular_comb); out += rs
        out.append(_cover("cover.slice-proxies-emitted", proxies(r) >= 4 and "assign {y, x} = slice_proxy" in (r.main_source if r else ""), f"{proxies(r)} slice_proxy nets; `assign {{y, x}} = slice_proxy` present", unknown=r is None))
    elif which == "targets-sync":
        rs, r = _tv(f"complex-slice targets (sync){tag}", lambda: _cs_targets_sync(0), regular_comb, validator=tv_relational); out += rs
        st = _step_of(rs)
        out.append(_cover("cover.registers-read-through-wires", bool(st) and (st[0].get("state_read_through_wires") or 0) >= 6, f"{st[0].get('state_read_through_wires') if st else None} FHDL registers correspond to wires of a hidden slice_proxy register", unknown=r is None))
    elif which == "collapse":
        rs, r = _tv(f"full-width slices of unsigned operands{tag}", lambda: _cs_collapse(False), regular_comb); out += rs
        out.append(_cover("cover.slice-collapsed-to-operand", r is not None and re.search(r"assign y = s;", r.main_source) is not None, "`assign y = s;` (the slice node is gone)", unknown=r is None))
        # finding candidate: the same design with a SIGNED operand
        rs2, r2 = _tv(f"full-width slices of a signed operand{tag}", lambda: _cs_collapse(True), regular_comb)
        st = _step_of(rs2); diff = _differing(st[0]) if st else []
        expected = {"out.y", "out.z", "out.c", "out.y2", "out.y3", "next.r"}
        differs = bool(st) and st[0]["status"] == NOINPUT
        # was finding.full-width-slice-collapses-to-signed-operand (the slice of a signed operand was replaced by the signed operand): repaired in /repo by f022e11,
        # now a regular translation-validation obligation ("fixed:" entry in known_findings.json; native replay tools/replay_c01_slice_collapse_signed.py)
        out += rs2
        out.append(_cover("cover.signed-operand-keeps-its-slice", r2 is not None and re.search(r"assign y3? = s\[3:0\];", r2.main_source) is not None, "`assign y = s[3:0];` (the part select of the signed net is printed)", unknown=r2 is None))
    elif which == "target-reset":
        for kind, exp in (("reset", {"out.x"}), ("other-assignment", {"out.x"})):
            rs2, r2 = _tv(f"sliced Cat target ({kind}){tag}", lambda: _cs_target_reset(kind), regular_comb)
            st = _step_of(rs2); diff = _differing(st[0]) if st else []
            differs = bool(st) and st[0]["status"] == NOINPUT
            out.append(res("finding.sliced-cat-target-overwrites-unsliced-bits" + ("" if kind == "reset" else "-of-another-assignment"), "finding-witness", VIOLATED if differs else (PROVED if st and st[0]["status"] == PROVED else UNKNOWN), 0, "vlogsem of the real text vs fhdl2smt",
                           witness=dict(design="comb: Cat(x, y)[2:7].eq(v), x = Signal(4, reset=5)" if kind == "reset" else "comb: x.eq(a); Cat(x, y)[2:7].eq(v)", differing=diff,
                                        text=[l.strip() for l in (r2.main_source.split("// Combinatorial Logic")[1].split("// Synchronous")[0].splitlines() if r2 else []) if l.strip() and not l.startswith("//")][:10], replay="tools/replay_c01_sliced_cat_target.py"),
                           what="a slice of a Cat on the left-hand side is lowered to `slice_proxy[hi:lo] <= v; assign {y, x} = slice_proxy;`: the bits of x and y OUTSIDE the slice are driven from slice_proxy's default (zero) instead of keeping their reset value / the value an earlier statement gave them, as the simulator's read-modify-write does (Evaluator.assign on a _Slice); inherited from Migen's lowering"))
            other = [x for x in diff if x not in exp]
            if other: out.append(res(f"ens.sliced-cat-target({kind}): nothing but x differs", "ensures", NOINPUT, 0, "", info=str(other)))
        # sync flavour: initial/reset value of a sliced register is lost (its bits live in slice_proxy, initialised to zero)
        rs3, r3 = _tv(f"sliced Cat target (sync, reset 5){tag}", lambda: _cs_targets_sync(5), regular_comb, validator=tv_relational)
        ini = [x for x in rs3 if x["name"].startswith("tv-rel.init")]
        out.append(res("finding.sliced-cat-target-loses-register-reset-value", "finding-witness", VIOLATED if ini and ini[0]["status"] == NOINPUT else (PROVED if ini and ini[0]["status"] == PROVED else UNKNOWN), 0, "vlogsem of the real text vs fhdl2smt",
                       witness=dict(design="sync: Cat(p, q)[2:7].eq(v), p = Signal(4, reset=5)", info=ini[0].get("info") if ini else None, replay="tools/replay_c01_sliced_cat_target.py"),
                       what="a register that is sliced through a Cat on the left of a sync statement becomes a wire of the register slice_proxy, whose initial and reset value is zero: the register's own reset value (5) is never seen in the Verilog design"))
        rs4, r4 = _tv(f"Cat sliced at two places on the left of sync statements{tag}", lambda: _cs_targets_sync(0, True), regular_comb, validator=tv_relational)
        st4 = _step_of(rs4); ill = bool(st4) and st4[0]["status"] == NOINPUT and "illegal Verilog" in (st4[0].get("info") or "")
        out.append(res("finding.sliced-cat-target-register-becomes-doubly-driven-wire", "finding-witness", VIOLATED if ill else (PROVED if st4 and st4[0]["status"] == PROVED else UNKNOWN), 0, "structure of the real text (parsed)",
                       witness=dict(design="sync: Case(w, {1: Cat(p3, q3)[3:6].eq(v), 2: Cat(p3, q3)[0:2].eq(w)})", info=st4[0].get("info") if st4 else None,
                                    text=[l.strip() for l in (r4.main_source.splitlines() if r4 else []) if re.search(r"\bp3\b", l) and not l.startswith("//")][:6], replay="tools/replay_c01_sliced_cat_target.py"),
                       what="a Cat of registers sliced on the left of sync statements at two places, one straddling both registers (lowered through slice_proxy: `assign {q3, p3} = slice_proxy`) and one inside p3 (lowered to `p3[1:0] <= w` in the always block): p3 is declared `wire`, "
                            "assigned procedurally and driven continuously - not legal Verilog, and no reading of it gives the simulator's read-modify-write of p3"))
        out.append(_cover("cover.lowering-reached", r3 is not None and "slice_proxy" in r3.main_source, "slice_proxy present in the emitted text", unknown=r3 is None))
    return dict(results=out, functions=fns, samples=[dict(program=f"complex slices: {which}")])

# ---------------------------------------------------------------------------------------------------------------------------
# 2. expression lemma with a shape filter (same obligation as C01_verilog.run_template: IEEE-1364 value of the REAL printer's text == simulator
# value for ALL operand values, narrow instances additionally by exhaustive execution of the REAL Evaluator)
SHAPES = [(w, s) for w in (1, 2, 3, 5) for s in (False, True)]
SHAPES_T = [(w, s) for w in (1, 2, 4, 8) for s in (False, True)]
YSHAPES = [(3, False), (8, False), (8, True)]
def lemma(build, nops, keep=lambda shp: True, shapes=SHAPES, yshapes=YSHAPES, must_contain=None):
    ninst = nexh = ndiff = 0; first = None; unk = []; seen_text = False
    for shp in itertools.product(shapes, repeat=nops):
        if not keep(shp): continue
        for yshape in (yshapes if nops < 3 else yshapes[2:]):
            ops = [Signal((w, s), name_override=f"x{i}") for i, (w, s) in enumerate(shp)]
            y = Signal(yshape, name_override="y")
            expr = build(*ops)
            ns = build_signal_namespace(set(ops) | {y})
            try: text, _ = _generate_expression(ns, expr)                 # REAL printer
            except Exception as e:
                ndiff += 1; first = first or dict(shapes=shp, printer_raised=f"{type(e).__name__}: {e}"); continue
            if must_contain and must_contain in text: seen_text = True
            env = {f"x{i}": (z3.BitVec(f"x{i}", w), w, s) for i, (w, s) in enumerate(shp)}
            try:
                ast = vexpr.parse(text); yv = vexpr.assign(yshape[0], ast, env)
            except (SyntaxError, NotImplementedError, KeyError) as e:
                unk.append(f"text outside the grammar: {text}"); continue
            ys = _sim_value(expr, ops, {o: env[f"x{i}"][0] for i, o in enumerate(ops)}, yshape)
            ninst += 1
            s_ = z3.Solver(); s_.set("timeout", 20000); s_.add(yv != ys); rr = s_.check()
            differs = rr != z3.unsat; witness = None
            def conc(raw):
                vals = [v_ - (1 << w) if s and v_ >= (1 << (w - 1)) else v_ for v_, (w, s) in zip(raw, shp)]
                try: real = _real_eval(expr, ops, vals, y)
                except Exception as e: real = f"real Evaluator raised {type(e).__name__}: {e}"
                sub = [(env[f"x{i}"][0], z3.BitVecVal(raw[i], shp[i][0])) for i in range(nops)]
                return vals, real, z3.simplify(z3.substitute(yv, *sub)).as_long()
            if rr == z3.sat:
                m = s_.model(); raw = [m.eval(env[f"x{i}"][0], model_completion=True).as_long() for i in range(nops)]
                vals, real, vlog = conc(raw)
                witness = dict(operands=vals, shapes=shp, target=yshape, text=text, simulator=real, verilog=vlog); differs = real != vlog
            elif rr != z3.unsat: unk.append(f"solver {rr} on {text}")
            if sum(w for w, _ in shp) <= 7:
                nexh += 1
                for raw in itertools.product(*[range(1 << w) for w, _ in shp]):
                    vals, real, vlog = conc(raw)
                    if real != vlog and not differs:
                        differs = True; witness = dict(operands=vals, shapes=shp, target=yshape, text=text, simulator=real, verilog=vlog, found="exhaustive real-evaluator comparison"); break
            if differs:
                ndiff += 1; first = first or witness or dict(shapes=shp, target=yshape, text=text, solver=str(rr))
    return dict(instances=ninst, exhaustive_instances=nexh, differing=ndiff, witness=first, undecided=unk[:3], text_seen=seen_text)

def _ens(name, L, t0, formula="forall operand values: vlogsem(printer(y.eq(expr))) == truncate_y(Evaluator.eval(expr))"):
    st = VIOLATED if L["differing"] else (UNKNOWN if L["undecided"] or not L["instances"] else PROVED)
    return res(name, "ensures", st, time.time() - t0, "z3-5.1.0(api)+real Evaluator", instances=L["instances"], exhaustive_instances=L["exhaustive_instances"], differing=L["differing"], witness=L["witness"], info="; ".join(L["undecided"]), formula=formula)

def K(v, w, s=True): return Constant(v, (w, s))
SCONST = {     # a SIGNED, non-negative constant next to one signal operand
    "a<K": lambda a: a < K(3, 4), "K<a": lambda a: K(3, 4) < a, "a<=K": lambda a: a <= K(5, 4), "a==K": lambda a: a == K(3, 4), "a!=K": lambda a: a != K(1, 3), "a>=K": lambda a: a >= K(3, 4), "a<K0": lambda a: a < K(0, 1),
    "a+K": lambda a: a + K(3, 4), "a-K": lambda a: a - K(3, 4), "K-a": lambda a: K(2, 3) - a, "a*K": lambda a: a * K(3, 4), "a&K": lambda a: a & K(3, 4), "a|K": lambda a: a | K(4, 4), "a^K": lambda a: a ^ K(6, 4),
}
SCONST2 = {"mux(c,a,K)": lambda c, a: Mux(c, a, K(3, 4)), "mux(c,K,a)": lambda c, a: Mux(c, K(3, 4), a)}
SCONST_ANY = {  # positions in which the constant's sign cannot leak: proved for every operand shape
    "a>>K": (lambda a: a >> K(1, 2), None), "K>>a": (lambda a: K(3, 4) >> a, "u"), "K<<a": (lambda a: K(3, 4) << a, "u"), "Cat(K,a)": (lambda a: Cat(K(3, 4), a), None), "Replicate(K)": (lambda a: Cat(Replicate(K(2, 3), 2), a), None),
}
def _in_scope(shp): return shp[-1][1]                                # the signal operand next to the constant is signed
def c_signed_constants(part, tier):
    """`Constant(3, (4, True))`: _generate_constant prints the unsigned literal 4'd3 but reports it as signed, so a signed neighbour is not wrapped and
    IEEE-1364 evaluates the whole operator unsigned.  Pinned: every operand shape where the two agree (unsigned signal operands of every width; shifts / Cat /
    Replicate for all shapes).  Finding candidate: signed neighbours."""
    out = []; shapes = SHAPES if tier == "quick" else SHAPES + [(4, False), (4, True), (8, False), (8, True)]
    agg = dict(instances=0, differing=0, witnesses={}); texts = False
    names = list(SCONST) + list(SCONST2); half = len(names) // 2
    mine = names[:half] if part == 0 else names[half:]
    for n in mine:
        build, nops = (SCONST[n], 1) if n in SCONST else (SCONST2[n], 2)
        t0 = time.time(); L = lemma(build, nops, keep=lambda shp: not _in_scope(shp), shapes=shapes, must_contain="'d")
        texts |= L["text_seen"]
        out.append(_ens(f"ens.expr[signed constant {n}; signal operand unsigned]", L, t0))
        F = lemma(build, nops, keep=_in_scope, shapes=shapes)
        agg["instances"] += F["instances"]; agg["differing"] += F["differing"]
        if F["witness"]: agg["witnesses"][n] = F["witness"]
        if F["undecided"]: out.append(res(f"ens.expr[signed constant {n}; signed operand]: decided", "ensures", UNKNOWN, 0, "", info="; ".join(F["undecided"])))
    if part == 1:
        for n, (build, restr) in SCONST_ANY.items():
            t0 = time.time(); L = lemma(build, 1, keep=(lambda shp: not shp[0][1]) if restr == "u" else (lambda shp: True), shapes=shapes, must_contain="'d"); texts |= L["text_seen"]
            out.append(_ens(f"ens.expr[signed constant {n}]", L, t0))
    w1 = next(iter(agg["witnesses"].values()), None)
    out.append(res("finding.signed-constant-printed-as-unsigned-literal", "finding-witness", VIOLATED if agg["differing"] else (PROVED if agg["instances"] else UNKNOWN), 0, "z3-5.1.0(api)+real Evaluator",
                   instances=agg["instances"], differing=agg["differing"], witness=w1, witnesses_per_template={k: (v.get("text"), v.get("operands"), v.get("simulator"), v.get("verilog")) for k, v in agg["witnesses"].items()},
                   what="a SIGNED non-negative Constant (Constant(3, (4, True)), e.g. the .reset of a signed Signal) is printed as the unsigned literal 4'd3 while _generate_constant reports it as signed: a signed signal next to it is "
                        "not wrapped, and by IEEE 1364-2005 5.5.1 one unsigned operand makes the whole operator unsigned - the signed signal is zero-extended / compared as unsigned (x = -1: simulator -1 < 3 is true, Verilog (x < 4'd3) is false); "
                        "same root as the listed negative-constant class (Migen printed 4'sd3)"))
    out.append(_cover("cover.literal-printed", texts, "the printed texts contain the sized decimal literal of the constant"))
    return dict(results=out, functions=["litex.gen.fhdl.expression._generate_constant", "litex.gen.fhdl.expression._generate_operator", "litex.gen.fhdl.expression._generate_expression", "litex.gen.sim.core.Evaluator.eval (reference, executed)"],
                samples=[dict(templates=mine, shapes="operand widths {1,2,3,5} x signedness, targets (3,u) (8,u) (8,s)")])

MIXED_CMP = {   # comparisons whose operands are depth-1 expressions of MIXED signedness that cannot overflow their context: proved for every shape
    "(a&b)<c": lambda a, b, c: (a & b) < c, "(a|b)==c": lambda a, b, c: (a | b) == c, "(a^b)>=c": lambda a, b, c: (a ^ b) >= c, "Mux(a,b,c)<a": lambda a, b, c: Mux(a, b, c) < a,
    "Cat(a,b)<=c": lambda a, b, c: Cat(a, b) <= c, "Replicate(a,2)>b": lambda a, b: Replicate(a, 2) > b, "a!=Mux(b,c,a)": lambda a, b, c: a != Mux(b, c, a), "(a<b)&(b<=c)": lambda a, b, c: (a < b) & (b <= c),
    "Mux(a<b,b,c)": lambda a, b, c: Mux(a < b, b, c), "a[0]<b": lambda a, b: a[0] < b,
}
def c_mixed_comparisons(part):
    out = []; names = list(MIXED_CMP); mine = [n for i, n in enumerate(names) if i % 3 == part]
    for n in mine:
        build = MIXED_CMP[n]; nops = build.__code__.co_argcount
        t0 = time.time(); L = lemma(build, nops, keep=(lambda shp: not shp[0][1]) if n == "a[0]<b" else (lambda shp: True), must_contain="$signed")
        out.append(_ens(f"ens.expr[{n}; all signedness mixes]", L, t0))
        out.append(_cover(f"cover.promotion-printed[{n}]", L["text_seen"] and L["instances"] > 0, "some instance needed the printer's $signed({1'd0, x}) promotion"))
    return dict(results=out, functions=["litex.gen.fhdl.expression._generate_operator", "litex.gen.fhdl.expression._generate_cat", "litex.gen.fhdl.expression._generate_replicate", "litex.gen.fhdl.expression._generate_slice"],
                samples=[dict(templates=mine)])

CMP_PARENT = {  # a comparison with a signed operand, consumed together with a third operand c
    "(a<b)==c": lambda a, b, c: (a < b) == c, "(a<b)+c": lambda a, b, c: (a < b) + c, "(a==b)<c": lambda a, b, c: (a == b) < c, "Mux(a,b>=c,c)": lambda a, b, c: Mux(a, b >= c, c),
}
def _cmp_scope(n, shp):
    if n == "Mux(a,b>=c,c)": return (shp[1][1] or shp[2][1]) and shp[2][1]
    return (shp[0][1] or shp[1][1]) and shp[2][1]
def c_comparison_result(n):
    """the result of a comparison is one unsigned bit (Migen and Verilog agree), but _generate_operator reports `s1 or s2` for EVERY binary operator: with a
    signed operand below it the comparison is taken for signed, a signed sibling is then not wrapped, and IEEE-1364 evaluates the parent unsigned"""
    build = CMP_PARENT[n]; out = []
    t0 = time.time(); L = lemma(build, 3, keep=lambda shp: not _cmp_scope(n, shp), must_contain="$signed")
    out.append(_ens(f"ens.expr[{n}; comparison operands unsigned or sibling unsigned]", L, t0))
    F = lemma(build, 3, keep=lambda shp: _cmp_scope(n, shp))
    out.append(res("finding.comparison-result-reported-signed", "finding-witness", VIOLATED if F["differing"] else (PROVED if F["instances"] else UNKNOWN), time.time() - t0, "z3-5.1.0(api)+real Evaluator", instances=F["instances"], differing=F["differing"], witness=F["witness"],
                   what="_generate_operator returns `s1 or s2` as the signedness of every binary operator, also of < <= == != >= > whose result is one UNSIGNED bit: a comparison with a signed operand is taken for signed, so a signed sibling "
                        "(c in (a < b) + c, (a < b) == c) is not wrapped in $signed({1'd0, ..}) and IEEE-1364 evaluates the parent operator unsigned: c is zero-extended instead of sign-extended (c = -1: simulator 0 + -1 = -1, Verilog 1); inherited from Migen's printer"))
    out.append(_cover("cover.promotion-printed", L["text_seen"], "some pinned instance needed the printer's $signed({1'd0, x}) promotion"))
    return dict(results=out, functions=["litex.gen.fhdl.expression._generate_operator"], samples=[dict(template=n)])

# ---------------------------------------------------------------------------------------------------------------------------
# 3. memory template branches
def _mem(width, depth, init, ports, tie_we=False):
    class M(Module):
        def __init__(self):
            self.mem = mem = Memory(width, depth, init=init); self.specials += mem; self.ps = []
            for kw in ports:
                p = mem.get_port(**kw); self.specials += p; self.ps.append(p)
            if tie_we:
                self.wr = Signal(); self.comb += self.ps[0].we.eq(Replicate(self.wr, len(self.ps[0].we)))
    d = M(); io = set()
    for p_ in d.ps: io |= {x for x in (p_.adr, p_.dat_r, p_.we, p_.dat_w, p_.re) if x is not None}
    if tie_we: io |= {d.wr}
    return d, io
def _memconf(tier):
    C = {
        "rf,gran4,no-re": ((8, 4, [1, 2, 3, 4], [dict(write_capable=True, mode=READ_FIRST, we_granularity=4)]), [r"mem\[adr\]\[7:4\] <= dat_w\[7:4\]", r"\n\tmem_dat0 <= mem\[adr\];"]),
        "nc,gran4,no-re,whole-word we": ((8, 4, [1, 2, 3, 4], [dict(write_capable=True, mode=NO_CHANGE, we_granularity=4)], True), [r"if \(!we\)\n\t\tmem_dat0 <= mem\[adr\]", r"mem\[adr\]\[3:0\] <= dat_w\[3:0\]"]),
        "nc,no-gran,no-re": ((8, 4, [1, 2, 3, 4], [dict(write_capable=True, mode=NO_CHANGE)]), [r"\tif \(!we\)\n\t\tmem_dat0 <= mem\[adr\]"]),
        "nc,no-gran,re": ((6, 4, [1, 2, 3, 4], [dict(write_capable=True, mode=NO_CHANGE, has_re=True)]), [r"if \(re\)\n\t\tif \(!we\)\n\t\t\tmem_dat0 <= mem\[adr\]"]),
        "async-read,write-capable": ((8, 4, [1, 2, 3, 4], [dict(write_capable=True, async_read=True)]), [r"Read: Async \| Write: Sync", r"assign dat_r = mem\[adr\];"]),
        "async-read,write-capable,gran2,no-init": ((8, 4, None, [dict(write_capable=True, async_read=True, we_granularity=2)]), [r"Read: Async \| Write: Sync", r"mem\[adr\]\[7:6\] <= dat_w\[7:6\]"]),
        "width10,gran4 (two top bits have no enable)": ((10, 4, [0x3ff, 2, 3, 4], [dict(write_capable=True, we_granularity=4)]), [r"reg \[9:0\] mem", r"mem\[adr\]\[7:4\]"]),
        "width12,gran8 (one enable bit for the low byte, top four bits have no enable)": ((12, 4, [0xfff, 2, 3, 4], [dict(write_capable=True, we_granularity=8)]), [r"reg \[11:0\] mem", r"mem\[adr\]\[7:0\] <= dat_w\[7:0\]"]),
        "width9,gran8,rf": ((9, 4, [0x1ff, 2, 3, 4], [dict(write_capable=True, we_granularity=8, mode=READ_FIRST)]), [r"mem\[adr\]\[7:0\]"]),
        "width10,gran4,rf": ((10, 4, [0x3ff, 2, 3, 4], [dict(write_capable=True, we_granularity=4, mode=READ_FIRST, has_re=True)]), [r"reg \[9:0\] mem_dat0"]),
        "width3,init": ((3, 4, [7, 1, 5, 2], [dict(write_capable=True)]), [r"reg \[2:0\] mem", r"readmemh"]),
        "width1,init": ((1, 4, [1, 0, 1, 1], [dict(write_capable=True)]), [r"reg \[0:0\] mem", r"readmemh"]),
        "width2,init,read-only": ((2, 4, [3, 0, 2, 1], [dict()]), [r"readmemh"]),
        "width6,init": ((6, 4, [63, 0, 33, 1], [dict(has_re=True)]), [r"readmemh"]),
        "depth5,init3": ((8, 5, [9, 8, 7], [dict(write_capable=True)]), [r"mem\[0:4\]", r"readmemh"]),
        "depth6,init2,rf,re": ((4, 6, [9, 8], [dict(write_capable=True, mode=READ_FIRST, has_re=True)]), [r"mem\[0:5\]"]),
        "depth3,no-init,write-first+async": ((4, 3, None, [dict(write_capable=True), dict(async_read=True)]), [r"mem\[0:2\]"]),
    }
    if tier == "thorough":
        C["depth24,width12,gran4,nc+rf+wf"] = ((12, 24, list(range(0x7f0, 0x7f0 + 17)), [dict(write_capable=True, mode=READ_FIRST, we_granularity=4), dict(write_capable=True, mode=WRITE_FIRST, has_re=True), dict(write_capable=True, mode=NO_CHANGE, has_re=True)]), [r"mem\[0:23\]"])
        C["depth16,width9,gran3,async"] = ((9, 16, [0x1ff, 0x155], [dict(write_capable=True, async_read=True, we_granularity=3)]), [r"mem\[adr\]\[8:6\]"])
    return C

def c_memory(name, tier, regular_comb=True):
    conf, marks = _memconf(tier)[name]
    rs, r = _tv(f"memory {name}", lambda: _mem(*conf), regular_comb)
    spec = (r.main_source.split("// Specialized Logic")[-1] if r else "")
    missing = [m for m in marks if not re.search(m, spec)]
    out = list(rs) + [_cover("cover.template-branch-emitted", not missing, f"markers of the memory-template branch under test in the emitted text; missing: {missing}", unknown=r is None)]
    if conf[2] is not None and r is not None:
        # $readmemh file: one word per line, as many as init entries (words beyond are compared as zero on both sides: the simulator gives them the value 0)
        files = list(r.data_files.values()); lines = files[0].split() if files else []
        ok = len(files) == 1 and [int(x, 16) for x in lines] == list(conf[2])
        out.append(res(f"ens.memory-init-file[{name}]", "ensures", PROVED if ok else NOINPUT, 0, "executed", info=f"init file lines {lines[:6]} for init {list(conf[2])[:6]}",
                       formula="the data file named by $readmemh holds exactly the init words, one hexadecimal word per line, in address order"))
    return dict(results=out, functions=["litex.gen.fhdl.memory._memory_generate_verilog", "litex.gen.fhdl.verilog._generate_specials", "litex.gen.fhdl.verilog.convert"], samples=[dict(program=f"memory {name}")])

def c_memory_no_change_partial_we():
    """No-Change port with a write granularity and an unconstrained multi-bit write enable"""
    rs, r = _tv("memory nc,gran4 (any we)", lambda: _mem(8, 4, [1, 2, 3, 4], [dict(write_capable=True, mode=NO_CHANGE, we_granularity=4)]))
    st = _step_of(rs); diff = _differing(st[0]) if st else []
    differs = bool(st) and st[0]["status"] == NOINPUT
    out = [res("finding.no-change-port-partial-write-enable", "finding-witness", VIOLATED if differs else (PROVED if st and st[0]["status"] == PROVED else UNKNOWN), 0, "vlogsem of the real text vs fhdl2smt",
               witness=dict(design="Memory(8, 4).get_port(write_capable=True, mode=NO_CHANGE, we_granularity=4)", differing=diff, text=[l.strip() for l in (r.main_source.splitlines() if r else []) if "mem_dat0 <=" in l or "if (!we)" in l],
                            example="we = 0b01: the simulator (MemoryToArray: If(~we, dat_r.eq(mem[adr]))) refreshes dat_r because ~we != 0, the Verilog `if (!we)` does not because we != 0", replay="tools/replay_c01_no_change_partial_we.py"),
               what="No-Change port with a write-enable wider than one bit: the simulator refreshes the read data unless ALL enable bits are set (`If(~port.we, ...)`: bitwise complement used as a truth value), the emitted Verilog only when NO enable bit is set (`if (!we)`); for a partial write (some enable bits) the read data register differs; equal for we == 0 and we == all ones (proved on the same port with the enable bits tied together)")]
    other = [x for x in diff if x != "next.mem_dat0"]
    if other or not st or st[0]["status"] == UNKNOWN:
        out.append(res("ens.no-change-partial-we: nothing but the read data register differs", "ensures", NOINPUT if other else UNKNOWN, 0, "", info=f"{other} {st[0].get('info') if st else ''}"))
    out += [x for x in rs if not x["name"].startswith("tv.step")]
    out.append(_cover("cover.template-branch-emitted", r is not None and "if (!we)" in r.main_source and "[7:4]" in r.main_source, "No-Change read guard and granular write in the emitted text", unknown=r is None))
    return dict(results=out, functions=["litex.gen.fhdl.memory._memory_generate_verilog"], samples=[dict(program="memory nc,gran4 (any we)")])

def c_memory_no_change_read_only():
    """a READ-ONLY port declared No-Change (the simulator's MemoryToArray: 'NO_CHANGE without write capability reduces to READ_FIRST')"""
    fac = lambda: _mem(8, 4, [1, 2, 3, 4], [dict(mode=NO_CHANGE), dict(write_capable=True)])
    r, err = _preflight("memory nc,read-only port", fac)
    simulates = None
    try:
        from litex.gen.sim import run_simulation
        d, _ = fac(); seen = []
        def gen():
            yield d.ps[0].adr.eq(2); yield; yield
            seen.append((yield d.ps[0].dat_r))
        run_simulation(d, gen()); simulates = seen == [3]
    except Exception as e: simulates = f"{type(e).__name__}: {e}"
    out = [res("finding.no-change-read-only-port-raises-in-convert", "finding-witness", VIOLATED if err else PROVED, 0, "executed", witness=dict(design="Memory(8, 4, init=[1,2,3,4]).get_port(mode=NO_CHANGE) (+ a write port)", exception=(err[0]["info"] if err else None),
                   simulator=f"the same design runs in litex.gen.sim and reads mem[2] == 3: {simulates}", replay="tools/replay_c01_no_change_read_only.py"),
               what="_memory_generate_verilog prints `if (!<we>)` for every No-Change port, also for a port without write capability (port.we is None): convert() raises TypeError (Expression of unrecognized type: 'NoneType') for a design the simulator accepts (there the port behaves as Read-First)")]
    if not err:
        rs, _ = _tv("memory nc,read-only port", fac); out += rs
    out.append(_cover("cover.design-simulates", simulates is True, f"the design elaborates and simulates: {simulates}"))
    return dict(results=out, functions=["litex.gen.fhdl.memory._memory_generate_verilog"], samples=[dict(program="memory nc,read-only port")])

# ---------------------------------------------------------------------------------------------------------------------------
# 4. negative reset values, negative Case keys, reset-less domains, regs_init=False
def _neg(ports=False):
    class N(Module):
        def __init__(self):
            self.a = Signal((4, True)); self.sel = Signal((3, True)); self.sel5 = Signal((5, True))
            self.x = Signal((4, True), reset=-3); self.x8 = Signal((4, True), reset=-8); self.w = Signal((8, True), reset=-1); self.u = Signal(4, reset=9)
            self.c = Signal((5, True), reset=-7); self.e = Signal(8); self.g = Signal((6, True), reset=-2); self.o = Signal((8, True))
            self.nr = Signal((4, True), reset=-5, reset_less=True)
            self.sync += [self.x.eq(self.x + self.a), If(self.a == -1, self.x8.eq(self.a)), self.w.eq(self.w - 1), self.u.eq(self.u + 1), self.nr.eq(self.nr + 1)]
            self.comb += If(self.a[0], self.c.eq(self.a))           # comb default is the (negative) reset value
            self.comb += Case(self.sel, {-1: self.e.eq(1), -3: self.e.eq(2), -4: self.e.eq(3), 2: self.e.eq(4), 0: self.e.eq(5), "default": self.e.eq(self.x8)})
            self.sync += Case(self.sel5, {-1: self.g.eq(-1), -16: self.g.eq(self.a), 3: self.g.eq(7), -2: []})
            self.comb += self.o.eq(Cat(self.x[0:2], self.x8[3], self.g[5], self.nr[0:2], self.w[7], self.u[0]))
    d = N()
    return d, ({d.a, d.sel, d.sel5, d.e, d.o} | ({d.x, d.x8, d.w, d.u, d.c, d.g, d.nr} if ports else set()))

def c_negative(kind, regular_comb=True):
    out = []
    if kind in ("internal", "reset-less domain"):
        def fac():
            d, ios = _neg(); f, extra = _frag(d, reset_less=(kind == "reset-less domain")); return f, ios | extra
        rs, r = _tv(f"negative resets and keys ({kind})", fac, regular_comb); out += rs
        txt = r.main_source if r else ""
        marks = [r"reg\s+signed\s+\[3:0\] x = -4'd3;", r"reg\s+signed\s+\[3:0\] x8 = -4'd8;", r"-3'd4: begin", r"-1'd1: begin", r"-5'd16: begin", r"c <= -5'd7;"]
        if kind == "internal": marks.append(r"x8 <= -4'd8;")
        missing = [m for m in marks if not re.search(m, txt)]
        if kind == "reset-less domain":
            out.append(res("ens.reset-less-domain: no reset net, no reset branch", "ensures", PROVED if r is not None and "sys_rst" not in txt else NOINPUT, 0, "executed", info="a domain declared reset_less has neither a reset port nor an `if (rst)` branch"))
        out.append(_cover("cover.negative-literals-emitted", not missing, f"negative initialisers / Case keys in the emitted text; missing: {missing}", unknown=r is None))
    elif kind == "ports":
        rs, r = _tv("negative resets (registers are ports)", lambda: _neg(True), regular_comb); out += rs
        out.append(_cover("cover.negative-reset-branch", r is not None and "x <= -4'd3;" in r.main_source, "reset branch assigns the negative value", unknown=r is None))
    return dict(results=out, functions=["litex.gen.fhdl.verilog._generate_signals", "litex.gen.fhdl.verilog._generate_node", "litex.gen.fhdl.verilog._generate_synchronous_logic", "litex.gen.fhdl.expression._generate_constant", "litex.gen.fhdl.verilog.convert"],
                samples=[dict(program=f"negative reset values / Case keys ({kind})")])

def c_regs_init_false():
    """convert(..., regs_init=False): (a) no register declaration carries an initialiser and NOTHING else changes, (b) the step relation is the one of the
    default text, (c) a reset pulse establishes the simulator's initial state for every register under reset; registers without reset (reset_less signals,
    reset-less domains) have no declared initial state in that mode (stated as an assumption)"""
    out = []
    def fac():
        d, ios = _neg(); f, extra = _frag(d); return d, f, ios | extra
    try:
        d, f, ios = fac(); r1 = convert(copy_fragment(f), ios=set(ios), name="top"); d0, f0, ios0 = fac(); r0 = convert(copy_fragment(f0), ios=set(ios0), name="top", regs_init=False)
    except Exception as e:
        return dict(results=[res("tv.convert[regs_init=False]", "ensures", VIOLATED, 0, "executed", info=f"convert() raised {type(e).__name__}: {e}")], functions=["litex.gen.fhdl.verilog.convert"])
    try:
        vm1 = parse_module(r1.main_source); vm0 = parse_module(r0.main_source); vts0 = VTS(vm0, r0.data_files)
    except _GRAMMAR as e:
        return dict(results=[res("tv[regs_init=False]", "ensures", UNKNOWN, 0, "", info=f"text outside the vlogsem grammar: {type(e).__name__}: {e}")], functions=["litex.gen.fhdl.verilog.convert"])
    with_init = [n for n, dd in vm0.nets.items() if dd["init"] is not None]
    strip = lambda vm: ({n: (dd["kind"], dd["width"], dd["signed"]) for n, dd in vm.nets.items()}, vm.ports, vm.assigns, vm.comb, vm.sync, vm.mems)
    same = strip(vm0) == strip(vm1)
    had = [n for n, dd in vm1.nets.items() if dd["init"] is not None]
    out.append(res("ens.regs-init-false: no initialisers, everything else unchanged", "ensures", PROVED if not with_init and same and had else NOINPUT, 0, "executed",
                   info=f"nets with an initialiser: {with_init[:4]}; rest of the module identical to the default text: {same}; default text has {len(had)} initialisers",
                   formula="parse(convert(f, regs_init=False)) == parse(convert(f)) with every `= <reset>` removed from the register declarations"))
    # (b) step relation on the regs_init=False text: tv_design with the printer option switched (the REAL convert; only the keyword differs)
    real = C1.convert
    try:
        C1.convert = lambda fr, ios=set(), name="top", regular_comb=True: real(fr, ios=ios, name=name, regular_comb=regular_comb, regs_init=False)
        d, f, ios = fac()
        try: rs = tv_design("negative resets and keys, regs_init=False", f, set(ios))
        except Exception as e: rs = [res("tv[regs_init=False]", "ensures", UNKNOWN, 0, "", info=f"{type(e).__name__}: {e}")]
    finally:
        C1.convert = real
    out += [x for x in rs if not x["name"].startswith("tv.init")]
    # (c) reset establishes the initial state
    ns = r0.ns; d = d0; bad = []; under_reset = []; no_state = []
    try:
        clk = ns.get_name(f0.clock_domains["sys"].clk); rst = ns.get_name(f0.clock_domains["sys"].rst); vnext = vts0.next.get(clk, {}); vrst = vts0.var[rst]
    except Exception as e:
        vnext = {}; vrst = None; bad.append(f"clock/reset net of the sys domain not found in the text: {type(e).__name__}: {e}")
    for sname in ("x", "x8", "w", "u", "g", "nr"):
        sg = getattr(d, sname); n = ns.get_name(sg)
        if n not in vnext: bad.append(f"{n}: not a register of the text"); continue
        if sg.reset_less: no_state.append(n); continue
        s_ = z3.Solver(); s_.set("timeout", 20000); s_.add(*[vts0.var[m] == e for m, e in vts0.comb_eq.items()]); s_.add(vrst == 1)
        s_.add(vnext[n] != z3.BitVecVal(sg.reset.value & ((1 << sg.nbits) - 1), sg.nbits)); rr = s_.check()
        (under_reset if rr == z3.unsat else bad).append(n)
    out.append(res("ens.regs-init-false: a reset pulse establishes the simulator's initial state", "ensures", PROVED if under_reset and not bad else NOINPUT, 0, "z3-5.1.0(api)", info=f"registers under reset: {under_reset}; failing: {bad}; without declared initial state in this mode (reset_less): {no_state}",
                   formula="forall states, inputs with rst == 1: next(reg) == reg.reset, for every register of a domain with reset that is not reset_less"))
    out.append(_cover("cover.regs-init-default-has-initialisers", len(had) >= 6 and bool(under_reset), f"{len(had)} initialisers in the default text, {len(under_reset)} registers under reset"))
    return dict(results=out, functions=["litex.gen.fhdl.verilog.convert (regs_init)", "litex.gen.fhdl.verilog._generate_signals"], samples=[dict(program="regs_init=False")],
                assumptions=["regs_init=False: registers that are reset_less (or live in a reset-less domain) have no declared initial state in the emitted text; the initial-state clause is stated for registers under reset after a reset pulse"])

# ---------------------------------------------------------------------------------------------------------------------------
# 5. REAL Evaluator (executed, all values) against the fhdl2smt term, per target kind
def _sg(n, w, s=False): return Signal((w, s), name_override=n)
def _ev_programs(tier):
    P = []
    def add(label, stmts, sigs): P.append((label, stmts, sigs))
    x, y, z, v = _sg("x", 2), _sg("y", 3, True), _sg("z", 1), _sg("v", 5, True)
    add("Cat(x,y,z).eq(v): v signed, wider than the Cat", [Cat(x, y, z).eq(v)], [x, y, z, v])
    x, y, v = _sg("x", 3), _sg("y", 2, True), _sg("v", 3, True)
    add("Cat(x,y).eq(v): v signed, narrower than the Cat (arithmetic shift of a negative value)", [Cat(x, y).eq(v)], [x, y, v])
    x, y, z, v = _sg("x", 4), _sg("y", 2), _sg("z", 3, True), _sg("v", 4)
    add("Cat(x[1:3], y, z[0]).eq(v): slices inside a Cat target", [Cat(x[1:3], y, z[0]).eq(v)], [x, y, z, v])
    x, v = _sg("x", 4), _sg("v", 3, True)
    add("x[1:3].eq(v): slice of an unsigned target", [x[1:3].eq(v)], [x, v])
    s, v = _sg("s", 4, True), _sg("v", 3)
    add("s[2:4].eq(v): slice that holds the sign bit of a signed target", [s[2:4].eq(v)], [s, v])
    x, a, b_ = _sg("x", 4), _sg("a", 2), _sg("b", 2, True)
    add("x[0:2].eq(a); x[1:3].eq(b): the second slice reads the pending value", [x[0:2].eq(a), x[1:3].eq(b_)], [x, a, b_])
    x, v = _sg("x", 5), _sg("v", 2)
    add("x[1:5][1:3].eq(v): nested slices", [x[1:5][1:3].eq(v)], [x, v])
    x, y, v = _sg("x", 2), _sg("y", 3, True), _sg("v", 3)
    add("Cat(x,y)[1:4].eq(v): slice of a Cat target", [Cat(x, y)[1:4].eq(v)], [x, y, v])
    e0, e1, e2, k, v = _sg("e0", 2), _sg("e1", 3, True), _sg("e2", 2), _sg("k", 2), _sg("v", 3, True)
    add("Array([e0,e1,e2])[k].eq(v): k beyond the last index selects the last element", [Array([e0, e1, e2])[k].eq(v)], [e0, e1, e2, k, v])
    e0, e1, e2, k, v = _sg("e0", 2), _sg("e1", 2), _sg("e2", 2), _sg("k", 2), _sg("v", 2)
    add("k.eq(k+1); Array([e0,e1,e2])[k].eq(v): the key assigned earlier in the same step - the target is selected by the key's value BEFORE the step (non-blocking assignment, `case (k)` in the emitted text)",
        [k.eq(k + 1), Array([e0, e1, e2])[k].eq(v)], [e0, e1, e2, k, v])
    e0, e1, e2, k, v, yn = _sg("e0", 2), _sg("e1", 2), _sg("e2", 3), _sg("k", 2), _sg("v", 2), _sg("yn", 3)
    add("Array([e0,e1,e2])[k - 1].eq(v); y.eq(Array([e0,e1,e2])[k - 2]): a NEGATIVE key is a Python negative index in the simulator (-1 = last element, -2 = the one before)",
        [Array([e0, e1, e2])[k - 1].eq(v), yn.eq(Array([e0, e1, e2])[k - 2])], [e0, e1, e2, k, v, yn])
    e0, e1, k, v, c = _sg("e0", 2), _sg("e1", 2), _sg("k", 1), _sg("v", 2), _sg("c", 1)
    add("If(c, k.eq(~k)); Array([e0,e1])[k].eq(v); Array([e0,e1])[k][0].eq(c): key conditionally reassigned before two proxy targets",
        [If(c, k.eq(~k)), Array([e0, e1])[k].eq(v), Array([e0, e1])[k][0].eq(c)], [e0, e1, k, v, c])
    e0, e1, k, v = _sg("e0", 3), _sg("e1", 3, True), _sg("k", 2), _sg("v", 2)
    add("Array([e0,e1])[k][1:3].eq(v): Array proxy of slices", [Array([e0, e1])[k][1:3].eq(v)], [e0, e1, k, v])
    e0, e1, k, v = _sg("e0", 3), _sg("e1", 3, True), _sg("k", 1), _sg("v", 2, True)
    add("_Slice(Array([e0,e1])[k], 0, 2).eq(v): slice node over an Array proxy", [_Slice(Array([e0, e1])[k], 0, 2).eq(v)], [e0, e1, k, v])
    e0, e1, y, k, v = _sg("e0", 2), _sg("e1", 2), _sg("y", 2), _sg("k", 1), _sg("v", 4)
    add("Cat(Array([e0,e1])[k], y).eq(v): Array proxy inside a Cat target", [Cat(Array([e0, e1])[k], y).eq(v)], [e0, e1, y, k, v])
    e0, e1, e2, e3, i, j, v = _sg("e0", 2), _sg("e1", 2), _sg("e2", 2), _sg("e3", 2), _sg("i", 1), _sg("j", 2), _sg("v", 2)
    add("Array([Array([e0,e1]),Array([e2,e3])])[i][j].eq(v): nested Array proxies, inner key out of range", [Array([Array([e0, e1]), Array([e2, e3])])[i][j].eq(v)], [e0, e1, e2, e3, i, j, v])
    e0, e1, k, c, x, v = _sg("e0", 2), _sg("e1", 2, True), _sg("k", 1), _sg("c", 1), _sg("x", 3), _sg("v", 2)
    add("If(c, arr[k].eq(v)).Else(x[2].eq(1)); arr[k^c].eq(x): conditional targets, key expression", [If(c, Array([e0, e1])[k].eq(v)).Else(x[2].eq(1)), Array([e0, e1])[k ^ c].eq(x)], [e0, e1, k, c, x, v])
    # Evaluator.eval of an Array proxy
    a, b_, c, k, yy = _sg("a", 2), _sg("b", 3, True), _sg("c", 1), _sg("k", 2), _sg("y", 5, True)
    add("y.eq(Array([a,b,c])[k]): eval, mixed widths/signedness, k beyond the last index", [yy.eq(Array([a, b_, c])[k])], [a, b_, c, k, yy])
    a, b_, k, yy = _sg("a", 3), _sg("b", 3, True), _sg("k", 2), _sg("y", 5, True)
    add("y.eq(Array([a,-2,b,5])[k] + 1): eval, constant choices, under an operator", [yy.eq(Array([a, -2, b_, 5])[k] + 1)], [a, b_, k, yy])
    a, b_, c, d_, i, j, yy = _sg("a", 2), _sg("b", 2, True), _sg("c", 2), _sg("d", 2, True), _sg("i", 1), _sg("j", 1), _sg("y", 4, True)
    add("y.eq(Array([Array([a,b]),Array([c,d])])[i][j]): eval, nested", [yy.eq(Array([Array([a, b_]), Array([c, d_])])[i][j])], [a, b_, c, d_, i, j, yy])
    a, b_, k, yy = _sg("a", 3), _sg("b", 3, True), _sg("k", 1), _sg("y", 4)
    add("y.eq(Cat(Array([a,b])[k][1:3], Array([a,b])[a[0]])): eval below slice and Cat, key is an expression", [yy.eq(Cat(Array([a, b_])[k][1:3], Array([a, b_])[a[0]]))], [a, b_, k, yy])
    a, b_, k, m, yy = _sg("a", 2), _sg("b", 2), _sg("k", 2), _sg("m", 2), _sg("y", 3)
    add("y.eq(Array([a,b,3])[Array([k,m])[a[0]]]): eval, the key is itself an Array proxy", [yy.eq(Array([a, b_, 3])[Array([k, m])[a[0]]])], [a, b_, k, m, yy])
    if tier == "thorough":
        x, y, z, v = _sg("x", 3), _sg("y", 4, True), _sg("z", 2), _sg("v", 7, True)
        add("Cat(x,y,z)[2:8].eq(v) (wider)", [Cat(x, y, z)[2:8].eq(v)], [x, y, z, v])
        e = [_sg(f"e{i}", 3, i % 2 == 1) for i in range(3)]; k, v = _sg("k", 3), _sg("v", 4, True)
        add("Array(3 x 3 bits)[k][0:2].eq(v); Array[k+1].eq(v) (wider)", [Array(e)[k][0:2].eq(v), Array(e)[k + 1].eq(v)], e + [k, v])
    return P

def _ev_compare(stmts, sigs):
    """-> (evaluations, number with a changed target, first mismatch): the REAL Evaluator executes stmts on every valuation; the pending values are
    compared, signal by signal, with the fhdl2smt term of Sem.execute"""
    var = {s: z3.BitVec(s.name_override, s.nbits) for s in sigs}
    sem = Sem({}, {}); mods = {}
    sem.execute(stmts, lambda s: var[s], mods)
    terms = {s: mods.get(s, var[s]) for s in sigs}
    n = changed = 0; bad = None
    for raw in itertools.product(*[range(1 << s.nbits) for s in sigs]):
        vals = {s: (r_ - (1 << s.nbits) if s.signed and r_ >= (1 << (s.nbits - 1)) else r_) for s, r_ in zip(sigs, raw)}
        ev = Evaluator({}, {})
        for s, val in vals.items(): ev.signal_values[s] = val
        try: ev.execute(stmts)
        except Exception as e:          # the reference simulator raising on a legal program is a violation, not a harness crash
            bad = dict(values={k_.name_override: v_ for k_, v_ in vals.items()}, real_evaluator_raised=f"{type(e).__name__}: {e}"); n += 1; break
        sub = [(var[s], z3.BitVecVal(r_, s.nbits)) for s, r_ in zip(sigs, raw)]
        n += 1; ch = False
        for s in sigs:
            real = ev.modifications.get(s, vals[s])
            if s.signed and not (-(1 << (s.nbits - 1)) <= real < (1 << (s.nbits - 1))) or not s.signed and not (0 <= real < (1 << s.nbits)):
                bad = bad or dict(values={k_.name_override: v_ for k_, v_ in vals.items()}, signal=s.name_override, real_evaluator=real, note="pending value outside the signal's range"); continue
            ch |= real != vals[s]
            got = z3.simplify(z3.substitute(terms[s], *sub)).as_long()
            if got != real & ((1 << s.nbits) - 1) and bad is None:
                bad = dict(values={k_.name_override: v_ for k_, v_ in vals.items()}, signal=s.name_override, real_evaluator=real & ((1 << s.nbits) - 1), fhdl2smt=got)
        changed += ch
        if bad: break
    return n, changed, bad

def c_evaluator(part, nparts, tier):
    out = []; progs = _ev_programs(tier)
    for i, (label, stmts, sigs) in enumerate(progs):
        if i % nparts != part: continue
        t0 = time.time()
        try: n, changed, bad = _ev_compare(stmts, sigs)
        except (NotImplementedError, AssertionError, TypeError) as e:
            out.append(res(f"ens.evaluator[{label}]", "ensures", UNKNOWN, time.time() - t0, "", info=f"{type(e).__name__}: {e}")); continue
        out.append(res(f"ens.evaluator[{label}]", "ensures", PROVED if not bad and n else VIOLATED, time.time() - t0, "real Evaluator executed on every valuation vs fhdl2smt term", evaluations=n, witness=bad,
                       formula="forall values of all signals: Evaluator.execute(stmts).modifications == Sem.execute(stmts) (every signal, pending value or unchanged)"))
        out.append(_cover(f"cover.target-changes[{label}]", changed > 0, f"{changed} of {n} valuations change a target"))
    return dict(results=out, functions=["litex.gen.sim.core.Evaluator.assign (Signal/Cat/_Slice/_ArrayProxy)", "litex.gen.sim.core.Evaluator.eval (_ArrayProxy, postcommit reads)", "litex.gen.sim.core.Evaluator.execute", "litex.gen.sim.core._truncate"],
                samples=[dict(programs=[p[0] for i, p in enumerate(progs) if i % nparts == part][:3])])

# ---------------------------------------------------------------------------------------------------------------------------
def cases(tier):
    cs = []
    for w in ("sources", "sources-signed", "targets-comb", "targets-sync", "collapse", "target-reset") + (("sources-wide",) if tier == "thorough" else ()):
        cs.append(VCase(f"design-more[complex-slices {w}]", c_complex_slices, w, timeout=300))
        if w != "target-reset": cs.append(VCase(f"design-more-simcomb[complex-slices {w}]", c_complex_slices, w, False, timeout=300))
    cs += [VCase(f"expr-more[signed constants {p}]", c_signed_constants, p, tier, timeout=600) for p in (0, 1)]
    cs += [VCase(f"expr-more[mixed-signedness comparisons {p}]", c_mixed_comparisons, p, timeout=600) for p in range(3)]
    cs += [VCase(f"expr-more[comparison result {n}]", c_comparison_result, n, timeout=600) for n in CMP_PARENT]
    for n in _memconf(tier):
        cs.append(VCase(f"design-more[memory {n}]", c_memory, n, tier, timeout=300))
    cs += [VCase(f"design-more-simcomb[memory {n}]", c_memory, n, tier, False, timeout=300) for n in ("nc,gran4,no-re,whole-word we", "async-read,write-capable")]
    cs.append(VCase("design-more[memory nc,gran4 partial we]", c_memory_no_change_partial_we, timeout=300))
    # design-more[memory nc,read-only port] (c_memory_no_change_read_only) is not registered: convert() raises for that design (no text is produced, nothing to disagree with) - recorded as an observation in DESIGN.md
    for k in ("internal", "reset-less domain", "ports"):
        cs.append(VCase(f"design-more[negative resets and keys, {k}]", c_negative, k, timeout=300))
    cs.append(VCase("design-more-simcomb[negative resets and keys, internal]", c_negative, "internal", False, timeout=300))
    cs.append(VCase("design-more[regs_init=False]", c_regs_init_false, timeout=300))
    np_ = 6
    cs += [VCase(f"evaluator[{p}/{np_}]", c_evaluator, p, np_, tier, timeout=600) for p in range(np_)]
    return cs

ASSUMPTIONS = ["vf/vexpr.py + vf/vlog.py are a hand-written specification of IEEE 1364-2005 for the emitted subset; anything outside the grammar is reported undecided",
               "memories: words beyond a short init file and memories without init are compared as zero on both sides (the simulator's value; IEEE-1364 leaves them x until written); non-power-of-two depths are compared for in-range addresses (inherited from tv_design)",
               "Array proxy keys are unsigned (fhdl2smt asserts a non-negative key; a negative key indexes from the end in the real Evaluator and is not modelled)",
               "complex-slice targets in sync statements are validated through a simulation relation (FHDL register == Verilog wire of the hidden slice_proxy register), one clock domain, no memories"]
