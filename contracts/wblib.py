"""Wishbone environment contracts (any classic-cycle master, any legal slave) shared by C06/C07/C11."""
import z3
from vf.elab import L, locals_of, mk
from vf.hw import *
from migen import *
from litex.soc.interconnect import wishbone

M2S = ["adr", "dat_w", "sel", "cyc", "stb", "we", "cti", "bte"]
S2M = ["dat_r", "ack", "err"]
def m_inputs(m): return [getattr(m, n) for n in M2S]
def s_inputs(s): return [getattr(s, n) for n in S2M]
def req(h, m): return z3.And(b(h.v(m.cyc)), b(h.v(m.stb)))
def m2s_tok(h, m, names=("adr", "dat_w", "sel", "we", "cti", "bte")): return cat(*[h.v(getattr(m, n)) for n in names])

class Held:
    """previous-cycle copies of a master's request fields (ghosts): hints must use these, not the raw inputs"""
    pass

def master_holds(h, m, name="", term=None, fields=("adr", "dat_w", "sel", "we", "cti", "bte")):
    """Wishbone classic master: once cyc&stb is raised, cyc, stb, adr, we, sel, dat_w (and tags) are held until the
    cycle is terminated (ack or err as seen by this master)"""
    term = term if term is not None else z3.Or(b(h.v(m.ack)), b(h.v(m.err)))
    p_pend = h.prev("wbpend" + name, bv1(z3.And(req(h, m), z3.Not(term))))
    held = Held(); eqs = [req(h, m)]
    for f in fields:
        g = h.prev(f"wb{f}" + name, h.v(getattr(m, f))); setattr(held, f, g); eqs.append(h.v(getattr(m, f)) == g)
    h.assume(z3.Implies(b(p_pend), z3.And(*eqs)),
             "Wishbone master holds cyc/stb/adr/we/sel/dat_w/cti/bte until its cycle is terminated by ack or err")
    held.pend = p_pend
    h.held = getattr(h, "held", {}); h.held[name] = held
    return p_pend

def slave_legal(h, s, name=""):
    """a slave answers (ack or err) only a pending cyc&stb presented to it"""
    h.assume(z3.Implies(z3.Or(b(h.v(s.ack)), b(h.v(s.err))), req(h, s)), "Wishbone slave raises ack/err only while cyc&stb are presented to it")
