"""C12 (memory windows): csr_bus.SRAM maps a Memory into the CSR address space; towards software it must behave like a bank of
registers, one per memory word: a bus write changes exactly the addressed word, a bus read returns the current value of the
addressed word one cycle later, accesses to other addresses / banks have no effect, and a window that is not addressed drives
zero.  Memories larger than one CSR page are reached through a page register (a CSRStorage the SoC maps into a CSRBank).

Device under contract: the composition the SoC builds (CSRBankArray.scan): master bus -> csr_bus.Interconnect ->
[csr_bus.SRAM at bank address A, csr_bus.CSRBank([page register]) at bank address A+1].  All postconditions are stated at
the MASTER bus, over the real memory cells, for an arbitrary tracked memory word gw (rigid constant).

Address spec (from the CSR map): the bank number is adr[log2(paging/4):], the offset inside the bank is idx = adr[:log2(paging/4)];
with csrw = ceil(mem.width/bus width) bus words per memory word (big-endian: sub-word 0 is the most significant), offset idx
addresses sub-word idx % csrw of memory word  (page register . idx // csrw)  - the page register supplies the upper address bits
when the memory does not fit one page; a window smaller than the page repeats (address modulo depth)."""
import z3
from vf.elab import L, locals_of, mk
from vf.hw import *
from migen import *
from litex.soc.interconnect import csr_bus
from vf.core import Case

def c_csr_sram(depth, busw=32, memw=None, read_only=False, init=None, paging=0x800, address=5, via_array=False):
    memw = memw or busw
    class Periph(Module):
        """a peripheral with a CSR-mapped memory, as CSRBankArray.scan collects it (get_memories)"""
        def __init__(self): self.mem = Memory(memw, depth, init=init, name="win")
        def get_memories(self): return [(read_only, self.mem)]
    class TopArray(Module):
        """the same composition built by the REAL CSRBankArray.scan (memory at location `address`, its page register bank at `address`+1)"""
        def __init__(self):
            self.bus = csr_bus.Interface(data_width=busw, address_width=14)
            self.submodules.periph = Periph(); self.mem = self.periph.mem
            self.submodules.array = csr_bus.CSRBankArray(self, lambda name, mem: (address if mem is not None else address + 1) if name == "periph" else None,
                                                         data_width=busw, address_width=14, paging=paging)
            self.sram = self.array.srams[0][3]
            self.submodules.ic = csr_bus.Interconnect(self.bus, self.array.get_buses())
    class Top(Module):
        def __init__(self):
            self.bus = csr_bus.Interface(data_width=busw, address_width=14)
            self.b1 = csr_bus.Interface(data_width=busw, address_width=14); self.b2 = csr_bus.Interface(data_width=busw, address_width=14)
            self.mem = Memory(memw, depth, init=init, name="win")
            self.submodules.sram = csr_bus.SRAM(self.mem, address, read_only=read_only, bus=self.b1, paging=paging)
            slaves = [self.b1]
            if self.sram._page is not None:
                self.submodules.pbank = csr_bus.CSRBank(self.sram.get_csrs(), address=address + 1, bus=self.b2, paging=paging)
                slaves.append(self.b2)
            self.submodules.ic = csr_bus.Interconnect(self.bus, slaves)
    d = mk(TopArray if via_array else Top); bus = d.bus; page = d.sram._page
    h = HwCheck(f"csr_bus.SRAM({depth}x{memw},bus={busw},ro={read_only},paging={paging:#x},page_reg={'yes' if page is not None else 'no'}{',via CSRBankArray' if via_array else ''})", d, [bus.adr, bus.we, bus.re, bus.dat_w])
    V = h.v
    ap = paging // 4; pb = ap.bit_length() - 1; assert 1 << pb == ap
    csrw = (memw + busw - 1) // busw; wb = csrw.bit_length() - 1; assert 1 << wb == csrw
    AWm = max(1, (depth - 1).bit_length())
    PBITS = len(page.storage) if page is not None else 0
    adr = V(bus.adr); idx = z3.Extract(pb - 1, 0, adr); bank = z3.Extract(13, pb, adr)
    we = b(V(bus.we))
    sel_s = bank == K(address, 14 - pb)                                           # the memory window is addressed
    sel_p = z3.And(bank == K(address + 1, 14 - pb), idx == K(0, pb)) if page is not None else z3.BoolVal(False)     # the page register is addressed
    pv = V(page.storage) if page is not None else None
    # ---- address spec -------------------------------------------------------------------------------------------------------
    # a page holds 2**WOFF memory words; word (page register * 2**WOFF + offset // csrw) is addressed.  Every word of the memory must be
    # reachable: the page register (if any) together with the window offset must span the memory's address range.
    sub = z3.Extract(wb - 1, 0, idx) if wb else None                              # sub-word of the memory word (big-endian)
    WOFF = pb - wb
    FNS = (["litex.soc.interconnect.csr_bus.CSRBankArray.scan/get_buses"] if via_array else []) + ["litex.soc.interconnect.csr_bus.SRAM.__init__/get_csrs", "litex.soc.interconnect.csr_bus.Interconnect.__init__", "litex.gen.genlib.misc.chooser"]
    if PBITS + WOFF < AWm:
        return dict(results=[res("ens.window.every-word-reachable", "ensures", VIOLATED, 0, "executed (elaboration)", replayed=True,
                                 witness=dict(memory=f"{depth} x {memw}", bus=busw, paging=hex(paging), words_per_page=1 << WOFF, page_register_bits=PBITS,
                                              what=f"page register ({PBITS} bits) and window offset ({WOFF} bits) address {1 << (PBITS + WOFF)} words: word {(1 << (PBITS + WOFF))} of the memory cannot be selected"))],
                    functions=FNS, samples=[])
    if page is None: maddr = z3.Extract(wb + AWm - 1, wb, idx)                    # a memory smaller than the page repeats inside it
    else: maddr = cat(pv, z3.Extract(pb - 1, wb, idx)) if WOFF else pv            # memory word addressed by (page register, offset)
    MW = maddr.size()
    inr = (lambda a: ult(a, depth)) if depth < (1 << MW) else (lambda a: z3.BoolVal(True))      # depth not a power of two: addresses beyond the last word are not constrained
    cells = h.ts.mems[d.mem]
    def memrd(a):
        r = V(cells[depth - 1])
        for j in reversed(range(depth - 1)): r = z3.If(a == K(j, a.size()), V(cells[j]), r)
        return r
    gw = h.const("gw", MW)
    if depth < (1 << MW): h.assume(ult(gw, depth), "the tracked word gw is a word of the memory")
    EW = csrw * busw
    def chunk(word, s):
        """bus word s (big-endian: 0 = most significant) of a memory word, zero-extended to csrw bus words"""
        wexp = zx(word, EW)
        if not wb: return wexp
        r = z3.Extract(busw - 1, 0, wexp)
        for j in range(csrw - 1): r = z3.If(s == K(j, wb), z3.Extract(EW - 1 - j * busw, EW - (j + 1) * busw, wexp), r)
        return r
    # ---- write spec ---------------------------------------------------------------------------------------------------------
    cur = memrd(gw); nxt = h.primed(memrd(gw))
    last = (sub == K(csrw - 1, wb)) if wb else z3.BoolVal(True)
    hit = z3.And(sel_s, we, maddr == gw, last)
    if wb:
        # memory words wider than the bus are written atomically (like a CSRStorage with atomic_write): the upper sub-words are staged,
        # the write of the last (least significant) sub-word commits all of them; ghost st[i] = last value written to sub-word i of the window
        st = []
        for i in range(csrw - 1):
            g = h.ghost(f"staged{i}", busw); h.ghost_next(g, z3.If(z3.And(sel_s, we, sub == K(i, wb)), V(bus.dat_w), g)); st.append(g)
        if not read_only:
            wregs = L(d.sram, "wregs") or []                       # staging registers of the SRAM (local list of __init__)
            for i, g in enumerate(st):
                if i < len(wregs): h.hint(f"wreg{i}", V(wregs[i]) == g)
        neww = z3.Extract(memw - 1, 0, cat(*st, V(bus.dat_w)))
    else:
        neww = z3.Extract(memw - 1, 0, V(bus.dat_w)) if memw <= busw else None
    if read_only:
        h.ensure("ens.ro", nxt == cur)                                            # read-only window: bus writes have no effect
    else:
        h.ensure("ens.write", z3.Implies(hit, nxt == neww))                       # the addressed word takes the written value ...
        oob_write = z3.And(sel_s, we, z3.Not(inr(maddr)))      # beyond the last word of a memory whose depth is not a power of two: not an addressed word (Verilog: no effect; the simulator's MemoryToArray clamps to the last word - C01's memory note)
        h.ensure("ens.frame", z3.Implies(z3.And(z3.Not(hit), z3.Not(oob_write)), nxt == cur))               # ... and no other access (other word, other bank, read, staging write) changes a word
    if page is not None:
        h.ensure("ens.page.write", z3.Implies(z3.And(sel_p, we), h.n(page.storage) == z3.Extract(PBITS - 1, 0, V(bus.dat_w))))
        h.ensure("ens.page.frame", z3.Implies(z3.Not(z3.And(sel_p, we)), h.n(page.storage) == pv))   # accesses to the window never move the page
    # ---- read spec: one cycle later, exactly the addressed word (of the page selected when the address was presented); zero when nothing is addressed ----
    rd_word = chunk(memrd(maddr), sub)
    rd_word = z3.Extract(busw - 1, 0, rd_word) if rd_word.size() > busw else zx(rd_word, busw)
    spec_rd = z3.If(sel_s, rd_word, z3.If(sel_p, zx(pv, busw), K(0, busw)) if page is not None else K(0, busw))
    h.ensure("ens.read", z3.Implies(z3.And(z3.Not(we), z3.Or(z3.Not(sel_s), inr(maddr))), h.n(bus.dat_r) == spec_rd))
    h.ensure("ens.zero", z3.Implies(z3.Not(z3.Or(sel_s, sel_p)), h.n(bus.dat_r) == K(0, busw)))    # a window (and page bank) that is not addressed drives zero
    # a read in the cycle after a write sees the written word (the write is complete in one cycle)
    if not read_only:
        def raw(at):
            w = chunk(at(neww, 0), at(sub, 1) if wb else None)             # the word written in cycle 0, sub-word addressed in cycle 1
            w = z3.Extract(busw - 1, 0, w) if w.size() > busw else zx(w, busw)
            return z3.Implies(z3.And(at(hit, 0), at(z3.And(sel_s, z3.Not(we), maddr == gw), 1)), at(V(bus.dat_r), 2) == w)
        h.ensure_seq("ens.read-after-write", raw, steps=3)
    # ---- covers ---------------------------------------------------------------------------------------------------------------
    p_rd = h.prev("rd_g", bv1(z3.And(sel_s, z3.Not(we), maddr == gw)))
    h.cover("cover.read-nonzero", z3.And(b(p_rd), V(bus.dat_r) != K(0, busw)), depth=2 + csrw)
    if not read_only: h.cover("cover.write", hit, depth=csrw)
    if page is not None: h.cover("cover.paged-read", z3.And(b(p_rd), V(bus.dat_r) != K(0, busw), pv != K(0, PBITS)), depth=4 + csrw)
    h.functions = FNS
    h.cosim_cycles = 16
    return h

def cases(tier):
    I8 = [0x11223344, 0xa5a5a5a5, 0x01020304, 0xdeadbeef, 0x55aa55aa, 0x0badf00d, 0x8badf00d, 0xfeedface]
    cs = [Case("csr.SRAM(8x32,bus=32)", c_csr_sram, 8, 32),
          Case("csr.SRAM(8x32,bus=32,ro,init)", c_csr_sram, 8, 32, None, True, I8),
          Case("csr.SRAM(32x32,bus=32,paged:4x8)", c_csr_sram, 32, 32, None, False, None, 0x20),
          Case("csr.SRAM(16x8,bus=8,paged:2x8,ro,init)", c_csr_sram, 16, 8, None, True, [(37 * i + 1) & 0xff for i in range(16)], 0x20, 9),
          Case("csr.SRAM(20x32,bus=32,paged:3x8 - last page partly filled)", c_csr_sram, 20, 32, None, False, None, 0x20),
          Case("csr.SRAM(12x32,bus=32,paged:2x8 - last page half filled)", c_csr_sram, 12, 32, None, False, None, 0x20, 5),
          Case("csr.SRAM(8x32,bus=8,wide)", c_csr_sram, 8, 8, 32),
          Case("csr.SRAM(16x12,bus=8,wide,paged:4x8)", c_csr_sram, 16, 8, 12, False, None, 0x20, 3),
          Case("csr.SRAM(8x5,bus=8,narrow)", c_csr_sram, 8, 8, 5),
          Case("CSRBankArray.scan(mem 8x32,paging=0x800)", c_csr_sram, 8, 32, None, False, None, 0x800, 2, True),
          Case("CSRBankArray.scan(mem 64x8,bus=8,paging=0x400)", c_csr_sram, 64, 8, None, False, None, 0x400, 2, True),
          Case("CSRBankArray.scan(mem 32x32,paged:4x8,paging=0x20)", c_csr_sram, 32, 32, None, False, None, 0x20, 3, True),
          Case("CSRBankArray.scan(mem 16x32,ro,paging=0x1000)", c_csr_sram, 16, 32, None, True, list(range(1, 17)), 0x1000, 1, True)]
    if tier == "thorough":
        cs += [Case("csr.SRAM(64x32,bus=32,paged:4x16)", c_csr_sram, 64, 32, None, False, None, 0x40), Case("csr.SRAM(16x64,bus=8,wide)", c_csr_sram, 16, 8, 64)]
    return cs

ASSUMPTIONS = ["csr_bus.SRAM on a memory whose depth is not a power of two: window accesses beyond the last word (page/offset combinations past the end) are outside the contract",
               "csr_bus.SRAM: a window smaller than its CSR page repeats inside the page (the addressed word is the offset modulo the memory depth)",
               "csr_bus.SRAM with memory words wider than the bus: multi-word atomic-write semantics per memory word (upper sub-words staged, the least significant sub-word commits), as for CSRStorage(atomic_write=True)",
               "csr_bus.SRAM: the page register is mapped by a CSRBank at the next bank address, as CSRBankArray.scan does (get_csrs)"]
