"""C17: 8b/10b coding is invertible, DC-balanced and comma-safe.
Real Encoder/Decoder/StreamEncoder/StreamDecoder; multi-cycle postconditions from an ARBITRARY register state (no invariant
needed: the pipelines flush in 2+1 cycles; the only state carried between symbols is the 1-bit running disparity)."""
import z3
from vf.elab import L, locals_of, mk
from vf.hw import *
from migen import *
from litex.gen import LiteXModule
from litex.soc.cores import code_8b10b as c8
from vf.core import Case

# the 12 control symbols defined by the standard (IEEE 802.3 cl.36 / Widmer-Franaszek): K28.0-K28.7, K23.7, K27.7, K29.7, K30.7
KCTL = [28 | (y << 5) for y in range(8)] + [23 | (7 << 5), 27 | (7 << 5), 29 | (7 << 5), 30 | (7 << 5)]
def legal(d, k): return z3.Or(k == K(0, 1), z3.Or(*[d == K(c, 8) for c in KCTL]))
def ones(bv): return sum([z3.ZeroExt(4, z3.Extract(i, i, bv)) for i in range(bv.size())])

def c_codec(nwords, lsb_first, triples=False):
    class Top(LiteXModule):
        def __init__(self):
            self.enc = c8.Encoder(nwords, lsb_first)
            self.decs = [c8.Decoder(lsb_first) for _ in range(nwords)]
            self.submodules += self.decs
            for i, dec in enumerate(self.decs): self.comb += dec.input.eq(self.enc.output[i])
    d = mk(Top); enc = d.enc
    ins = []
    for i in range(nwords): ins += [enc.d[i], enc.k[i]]
    h = HwCheck(f"Encoder+Decoder(nwords={nwords},lsb_first={lsb_first})", d, ins + [enc.ce] + [dec.ce for dec in d.decs])
    h.assume(z3.And(b(h.v(enc.ce)), *[b(h.v(dec.ce)) for dec in d.decs]), "clock enables held high in the multi-cycle windows (stalls are covered by the frame obligation ens.stall)")
    for i in range(nwords): h.assume(legal(h.v(enc.d[i]), h.v(enc.k[i])), "only the 256 data symbols and the 12 defined control symbols are presented to the encoder")
    D = [h.v(x) for x in enc.d]; Kk = [h.v(x) for x in enc.k]; O = [h.v(x) for x in enc.output]
    encs = [m for _, m in enc._submodules] if hasattr(enc, "_submodules") else []
    singles = [m for m in encs if hasattr(m, "disp_in")]
    def tx(w):           # bits in transmission order, first transmitted bit leftmost (msb-first word: bit 9 first; lsb-first word: bit 0 first)
        return w if not lsb_first else z3.Concat(*[z3.Extract(i, i, w) for i in range(10)])
    # --- round trip: symbol at cycle 0 -> encoder output at cycle 2 -> decoder at cycle 3
    def roundtrip(at):
        return z3.And(*[z3.And(at(h.v(d.decs[i].d), 3) == at(D[i], 0), at(h.v(d.decs[i].k), 3) == at(Kk[i], 0), at(h.v(d.decs[i].invalid), 3) == K(0, 1)) for i in range(nwords)])
    h.ensure_seq("ens.roundtrip", roundtrip, steps=4)
    # --- disparity: every code word has 4, 5 or 6 ones; 6 only from negative running disparity, 4 only from positive; RD follows
    if len(singles) == nwords:
        def disp(at):
            cl = []
            for i in range(nwords):
                w = at(O[i], 2); n1 = ones(w)
                din = at(h.v(singles[i].disp_in), 1); dout = at(h.v(enc.disparity[i]), 2)
                cl.append(z3.Or(z3.And(n1 == 5, dout == din), z3.And(n1 == 6, din == K(0, 1), dout == K(1, 1)), z3.And(n1 == 4, din == K(1, 1), dout == K(0, 1))))
            # chaining: lane i+1 starts from lane i's disparity; the registered running disparity is the last lane's
            for i in range(nwords - 1): cl.append(at(h.v(singles[i + 1].disp_in), 1) == at(h.v(singles[i].disp_out), 1))
            cl.append(at(h.v(singles[0].disp_in), 2) == at(h.v(singles[-1].disp_out), 1))
            return z3.And(*cl)
        h.ensure_seq("ens.disp", disp, steps=3)
    # --- run length and comma freedom over consecutive symbols from an arbitrary disparity state
    nsym = 3 if triples else 2
    ncyc = (nsym + nwords - 1) // nwords + 1 if nwords > 1 else nsym
    def serial(at, ncycles):
        parts = []
        for c in range(ncycles):
            for i in range(nwords): parts.append(tx(at(O[i], 2 + c)))
        return z3.Concat(*parts)
    ncy = 2 if not triples else (3 if nwords == 1 else 2)
    def run5(at):
        ser = serial(at, ncy); n = ser.size(); cl = []
        for i in range(n - 5):
            win = z3.Extract(n - 1 - i, n - 6 - i, ser); cl.append(z3.And(win != K(0, 6), win != K(63, 6)))
        return z3.And(*cl)
    h.ensure_seq("ens.run5", run5, steps=2 + ncy)
    def comma(at):
        ser = serial(at, ncy); n = ser.size(); cl = []
        for i in range(n - 6):
            win = z3.Extract(n - 1 - i, n - 7 - i, ser); cl.append(z3.And(win != K(0b0011111, 7), win != K(0b1100000, 7)))
        alldata = z3.And(*[at(Kk[i], c) == K(0, 1) for i in range(nwords) for c in range(ncy)])
        return z3.Implies(alldata, z3.And(*cl))
    h.ensure_seq("ens.comma", comma, steps=2 + ncy)
    # non-vacuity: a control symbol and a data symbol can be presented and a comma does appear with K28.5
    h.cover("cover.k28_5", z3.And(D[0] == K(0xBC, 8), Kk[0] == K(1, 1)), depth=0)
    h.cosim_cycles = 12
    h.functions = ["litex.soc.cores.code_8b10b.SingleEncoder.__init__", "litex.soc.cores.code_8b10b.Encoder.__init__", "litex.soc.cores.code_8b10b.Decoder.__init__", "code_8b10b tables (table_5b6b, table_3b4b, table_6b5b, table_4b3b*)"]
    return h

def c_stall(nwords, lsb_first):
    """frame: with ce low every register of encoder and decoder holds (stall patterns are stutterings of the ce=1 machine)"""
    class Top(LiteXModule):
        def __init__(self):
            self.enc = c8.Encoder(nwords, lsb_first); self.dec = c8.Decoder(lsb_first)
    d = mk(Top); enc = d.enc
    ins = []
    for i in range(nwords): ins += [enc.d[i], enc.k[i]]
    h = HwCheck(f"stall(nwords={nwords},lsb_first={lsb_first})", d, ins + [enc.ce, d.dec.ce, d.dec.input])
    encregs = [s for s in h.ts.state]
    decmems = set()
    for arr in h.ts.mems.values(): decmems |= set(arr)
    for s in encregs:
        if s in decmems: continue
    # which registers belong to which clock enable: determined from the next-state functions (hold under ce=0)
    h.ensure("ens.stall.enc", z3.Implies(z3.Not(b(h.v(enc.ce))), z3.And(*[h.n(o) == h.v(o) for o in enc.output] + [h.n(x) == h.v(x) for x in enc.disparity])))
    allhold = z3.And(*[h.n(s) == h.v(s) for s in h.ts.state if s not in decmems])
    h.ensure("ens.stall.all", z3.Implies(z3.And(z3.Not(b(h.v(enc.ce))), z3.Not(b(h.v(d.dec.ce)))), allhold))
    h.ensure("ens.stall.dec", z3.Implies(z3.Not(b(h.v(d.dec.ce))), z3.And(h.n(d.dec.k) == h.v(d.dec.k), h.inline_next(d.dec.d) == h.v(d.dec.d), h.inline_next(d.dec.invalid) == h.v(d.dec.invalid))))
    h.cover("cover.stall", z3.Not(b(h.v(enc.ce))), depth=0)
    h.functions = ["litex.soc.cores.code_8b10b.Encoder.__init__ (CEInserter)", "litex.soc.cores.code_8b10b.Decoder.__init__"]
    return h

def c_invalid(lsb_first):
    d = mk(c8.Decoder, lsb_first)
    h = HwCheck(f"Decoder.invalid(lsb_first={lsb_first})", d, [d.input, d.ce])
    h.assume(b(h.v(d.ce)))
    def inv(at):
        n1 = ones(at(h.v(d.input), 0))
        return b(at(h.v(d.invalid), 1)) == z3.And(n1 != 4, n1 != 5, n1 != 6)
    h.ensure_seq("ens.invalid", inv, steps=2)
    h.functions = ["litex.soc.cores.code_8b10b.Decoder.__init__"]
    return h

def c_stream(nwords):
    """StreamEncoder -> StreamDecoder under arbitrary stalls: a PipelinedActor chain; token queue refinement (C03 schema)"""
    from contracts.streamlib import fifo_like, select
    from litex.soc.interconnect import stream
    class Top(LiteXModule):
        def __init__(self):
            self.enc = c8.StreamEncoder(nwords); self.dec = c8.StreamDecoder(nwords)
            self.comb += self.enc.source.connect(self.dec.sink)
            self.sink, self.source = self.enc.sink, self.dec.source
    d = mk(Top)
    h = fifo_like(f"StreamEncoder+StreamDecoder({nwords})", d, 3, None, latency=3, N=5, auto=True)
    for i in range(nwords): h.assume(legal(z3.Extract(8 * i + 7, 8 * i, h.v(d.sink.d)), z3.Extract(i, i, h.v(d.sink.k))))
    h.auto_width = 4
    h.functions = ["litex.soc.cores.code_8b10b.StreamEncoder.__init__", "litex.soc.cores.code_8b10b.StreamDecoder.__init__", "litex.soc.interconnect.stream.PipelinedActor.build_binary_control"]
    return h

def cases(tier):
    cs = []
    for lsb in (False, True):
        cs += [Case(f"codec(1,lsb_first={lsb})", c_codec, 1, lsb), Case(f"invalid(lsb_first={lsb})", c_invalid, lsb), Case(f"stall(1,lsb_first={lsb})", c_stall, 1, lsb)]
    cs += [Case("codec(2,lsb_first=True)", c_codec, 2, True), Case("codec(4,lsb_first=True)", c_codec, 4, True, timeout=1200), Case("codec(2,lsb_first=False)", c_codec, 2, False), Case("stall(2,lsb_first=True)", c_stall, 2, True)]
    if tier == "thorough":
        cs += [Case("codec(1,triples,lsb_first=False)", c_codec, 1, False, True), Case("codec(3,lsb_first=True)", c_codec, 3, True), Case("codec(4,lsb_first=False)", c_codec, 4, False)]
    return cs

ASSUMPTIONS = ["run-length and comma obligations are two-symbol obligations from an arbitrary running-disparity state; a run of 6 or a 7-bit comma window touches at most two consecutive 10-bit code words, so this covers every sequence (paper argument)",
               "control symbols restricted to the 12 defined ones",
               "StreamEncoder/StreamDecoder wrappers: stalls covered by the clock-enable frame obligations (ens.stall.*); the valid/ready pipeline of the wrappers is under the ghost-queue schema in C17_stream_wrappers.py"]
