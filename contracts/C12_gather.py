"""C12 (collection and whole-array addressing): the mechanisms of the property that sit ABOVE a single bank.

 A. csr._make_gatherer / AutoCSR.get_csrs / get_memories / get_constants, csrprefix / memprefix (engine E3, vf/pysym.py): the REAL function
    bodies run on proxies for an object with an UNBOUNDED number of attributes, each of which is a register, a child that offers the
    gatherer method (unbounded result list, its call replaced by the contract that is being proved = induction over the tree) or
    anything else; the attribute loop and the loop of the prefix helpers are cut around sidecar invariants.
 B. "no two registers share an address" for the whole array (engine E1): real composed designs (nested AutoCSR modules, several banks, a CSR
    memory, fixed locations, excluded attributes) are collected by the real CSRBankArray.scan with the real SoCCSRHandler.address_map as the
    callback and wired by the real Interconnect / InterconnectShared; every clause is stated at the MASTER port against a layout that is computed
    from the design DESCRIPTION by a specification function written from the property (never from what scan returned).
 C. CSRField / CSRFieldAggregate for ALL offset / size / reset values (E3, unbounded field list) and pulse / multi-word field registers (E1).
"""
import ast, builtins, inspect, textwrap, time, logging, itertools
import z3
from vf import elab, pysym
from vf.elab import L, locals_of, mk
from vf.hw import *
from migen import *
from litex.soc.interconnect import csr_bus
from litex.soc.interconnect import csr as CSRMOD
from litex.soc.interconnect.csr import *
from litex.soc.integration import soc as SOC
from vf.core import Case as VCase
from vf.pysym import SymInt, SymBool, VC, Rewriter, explore, toint, tobool, PathEnd, Unsupported as PUnsupported

# =====================================================================================================================================
# B. composed designs: description -> real modules, description -> expected layout (specification function)
# =====================================================================================================================================
# A module description is a list of entries IN CREATION ORDER:
#   ("storage", attr, size, opts)   opts: n=fixed location, atomic=bool, dev=bool (write_from_dev), reset=int
#   ("status",  attr, size, opts) | ("csr", attr, size, opts)
#   ("mem",     attr, depth, width, read_only)
#   ("child",   attr, [entries], excluded_attrs)       nested AutoCSR module stored under attribute attr
# excluded_attrs (set of attribute names listed in autocsr_exclude of that module)
def _mkmod(entries, exclude, reg, path, litex=False):
    from litex.gen import LiteXModule
    class Node(*((LiteXModule,) if litex else (Module, AutoCSR))):          # litex=True: the class real LiteX peripherals derive from (attributes that are Modules become submodules)
        def __init__(self):
            if exclude: self.autocsr_exclude = set(exclude)
            for e in entries:
                kind, attr = e[0], e[1]
                if kind == "child":
                    sub = _mkmod(e[2], e[3] if len(e) > 3 else (), reg, path + (attr,), litex)
                    setattr(self, attr, sub)
                    if not litex: self.submodules += sub
                elif kind == "mem":
                    m = Memory(e[3], e[2], name=attr); setattr(self, attr, m); reg[path + (attr,)] = m
                else:
                    o = e[3] if len(e) > 3 else {}
                    if kind == "storage": c = CSRStorage(e[2], name=attr, n=o.get("n"), atomic_write=o.get("atomic", False), write_from_dev=o.get("dev", False), reset=o.get("reset", 0))
                    elif kind == "status": c = CSRStatus(e[2], name=attr, n=o.get("n"))
                    else: c = CSR(e[2], name=attr, n=o.get("n"))
                    setattr(self, attr, c); reg[path + (attr,)] = c
    return Node()

def spec_gather(entries, exclude, prefix="", path=()):
    """SPEC (property text + docstring of AutoCSR): every register of the module and of every non-excluded child exactly once, in creation
    order, each name prefixed once per hierarchy level with the attribute name of the child it was reached through.  -> [(name, path, entry)]"""
    out = []
    for e in entries:
        if e[1] in exclude: continue
        if e[0] == "child": out += spec_gather(e[2], e[3] if len(e) > 3 else (), prefix + e[1] + "_", path + (e[1],))
        elif e[0] != "mem": out.append((prefix + e[1], path + (e[1],), e))
    return out
def spec_mems(entries, exclude, prefix="", path=()):
    out = []
    for e in entries:
        if e[1] in exclude: continue
        if e[0] == "child": out += spec_mems(e[2], e[3] if len(e) > 3 else (), prefix + e[1] + "_", path + (e[1],))
        elif e[0] == "mem": out.append((prefix + e[1], path + (e[1],), e))
    return out
def spec_place(regs):
    """SPEC: a register with a fixed location n is the n-th register of its bank; the others fill the lowest free locations in creation order;
    unused locations below the last one hold a reserved one-word register"""
    fixed = {}
    for r in regs:
        n = (r[2][3] if len(r[2]) > 3 else {}).get("n")
        if n is not None:
            assert n not in fixed; fixed[n] = r
    total = max([len(regs)] + [n + 1 for n in fixed])
    slots = [fixed.get(i) for i in range(total)]
    free = [r for r in regs if (r[2][3] if len(r[2]) > 3 else {}).get("n") is None]
    for i in range(total):
        if slots[i] is None and free: slots[i] = free.pop(0)
    assert not free
    return [s if s is not None else (f"reserved{i}", None, ("csr", f"reserved{i}", 1, {})) for i, s in enumerate(slots)]
def spec_words(slots, busw, ordering):
    """SPEC: a register of S bits occupies ceil(S/busw) consecutive word addresses, most significant word first under big ordering;
    -> [(register index in slots, lo bit, hi bit (exclusive), is the last address of the register)]"""
    words = []
    for ri, (_, _, e) in enumerate(slots):
        S = e[2]; nw = 1 if e[0] == "csr" else (S + busw - 1) // busw
        for k in range(nw):
            i = (nw - 1 - k) if ordering == "big" else k
            words.append((ri, i * busw, min(S, (i + 1) * busw), k == nw - 1))
    return words

def c_composed(design, busw, ordering, paging, handler="soc", shared=False, reserved=None, aw=14, litex=False):
    """design: {top attribute name: (entries, excluded)}"""
    reg = {}
    calls = []
    class Top(Module):
        def __init__(self):
            for name, (entries, excl) in design.items():
                sub = _mkmod(entries, excl, reg, (name,), litex); setattr(self, name, sub); self.submodules += sub
            self.m = csr_bus.Interface(data_width=busw, address_width=aw)
            if handler == "soc":
                self.hnd = SOC.SoCCSRHandler(data_width=busw, address_width=aw, alignment=32, paging=paging, ordering=ordering, reserved_csrs=dict(reserved or {}))
                elab.restore_stderr()
                amap = self.hnd.address_map
            else:
                table = dict(handler)
                amap = lambda name, memory: table.get(name if memory is None else name + "/" + memory.name_override)
            def logged(name, memory):
                r = amap(name, memory); calls.append((name, None if memory is None else id(memory), r)); return r
            self.submodules.array = csr_bus.CSRBankArray(self, logged, data_width=busw, address_width=aw, paging=paging, ordering=ordering)
            if shared:
                self.m2 = csr_bus.Interface(data_width=busw, address_width=aw)
                self.submodules.ic = csr_bus.InterconnectShared([self.m, self.m2], self.array.get_buses())
            else:
                self.submodules.ic = csr_bus.Interconnect(self.m, self.array.get_buses())
    d = mk(Top); m = d.m; arr = d.array
    ap = paging // 4; pb = ap.bit_length() - 1; assert 1 << pb == ap
    PW = aw - pb
    # ---- expected structure from the description -------------------------------------------------------------------------------------
    pre = []; ok_all = True
    def struct(name, ok, **info):
        nonlocal ok_all
        ok_all = ok_all and bool(ok)
        pre.append(res(name, "struct", PROVED if ok else VIOLATED, 0, "elaboration of the real CSRBankArray.scan vs specification function", **info))
    banks = {name: (csrs, mapaddr, rmap) for name, csrs, mapaddr, rmap in arr.banks}
    srams = {(name, mem.name_override): (mem, mapaddr, mmap) for name, mem, mapaddr, mmap in arr.srams}
    exp = {}; exp_mems = {}
    for name, (entries, excl) in design.items():
        regs = spec_gather(entries, set(excl)); mems = spec_mems(entries, set(excl))
        slots = spec_place(regs) if regs else []
        for mn, mp, me in mems: exp_mems[(name, mn)] = (mp, me)
        exp[name] = (slots, mems)
    # page registers of paged memories are appended to the module's bank (scan: csrs += mmap.get_csrs())
    page_regs = {}
    for (name, mn), (mem, mapaddr, mmap) in srams.items():
        if mmap._page is not None: page_regs.setdefault(name, []).append((mn, mmap._page))
    exp_banks = {n for n, (slots, mems) in exp.items() if slots or n in page_regs}
    struct("struct.banks==modules-with-registers", set(banks) == exp_banks and len(arr.banks) == len(banks), got=sorted(banks), want=sorted(exp_banks))
    struct("struct.srams==memories-of-the-tree", set(srams) == set(exp_mems) and len(arr.srams) == len(srams), got=sorted(map(str, srams)), want=sorted(map(str, exp_mems)))
    names_ok = True; ident_ok = True; info = {}
    for n in sorted(set(banks) & exp_banks):
        csrs = banks[n][0]; slots = exp[n][0]
        want = [s[0] for s in slots] + [p.name for _, p in page_regs.get(n, [])]
        got = [c.name for c in csrs]
        if got != want: names_ok = False; info[n] = dict(got=got, want=want)
        for c, s in zip(csrs, slots):
            if s[1] is not None and c is not reg[(n,) + s[1]]: ident_ok = False
    struct("struct.gathered:every-register-once,prefixed-once-per-level,creation-order,fixed-locations,excluded-absent", names_ok, **info)
    struct("struct.gathered-objects-are-the-declared-registers", ident_ok)
    # the map handed to the exporters: (bank name | memory name) -> page.  Injective, inside the address space, what the callback returned, one call per object
    pages = [(n, banks[n][1]) for n in banks] + [(f"{n}_{mn}", srams[(n, mn)][1]) for (n, mn) in srams]
    struct("struct.address-map:name->page-injective", len({p for _, p in pages}) == len(pages) and len({k for k, _ in pages}) == len(pages), pages=pages)
    struct("struct.address-map:pages-inside-the-bus-address-space", all(isinstance(p, int) and 0 <= p < (1 << PW) for _, p in pages), pages=pages)
    struct("struct.address-map:callback-called-once-per-object", len({(a, b_) for a, b_, _ in calls}) == len(calls) and len(calls) == len(pages), calls=len(calls))
    if handler == "soc":
        locs = d.hnd.locs
        struct("struct.address-map:pages==SoCCSRHandler.locs(published-map)", all(locs.get(k) == p for k, p in pages) and all(0 <= p < d.hnd.n_locs for _, p in pages)
               and all(locs.get(k) == v for k, v in (reserved or {}).items()), locs=dict(locs))
    struct("struct.every-bank-fits-its-page", all(len(rmap.simple_csrs) <= ap for _, _, rmap in banks.values()))
    FUNCS = ["litex.soc.interconnect.csr_bus.CSRBankArray.__init__/scan/get_rmaps/get_mmaps/get_buses", "litex.soc.interconnect.csr.AutoCSR.get_csrs/get_memories (concrete trees)",
             "litex.soc.interconnect.csr._make_gatherer.gatherer (concrete trees)", "litex.soc.interconnect.csr.csrprefix/memprefix (concrete trees)", "litex.soc.interconnect.csr._sort_gathered_items (concrete lists)",
             "litex.soc.interconnect.csr_bus.InterconnectShared.__init__" if shared else "litex.soc.interconnect.csr_bus.Interconnect.__init__", "litex.soc.interconnect.csr_bus.CSRBank.__init__", "litex.soc.interconnect.csr_bus.SRAM.__init__/get_csrs"] + \
            (["litex.soc.integration.soc.SoCCSRHandler.__init__/address_map", "litex.soc.integration.soc.SoCLocHandler.add/alloc"] if handler == "soc" else [])
    if not ok_all:
        # the collected structure differs from the specification: that IS the violation (the bus-level clauses cannot even be stated for a different register set)
        pre.append(res("cover.structure-elaborated", "cover", OK, 0, "elaboration"))
        return dict(results=pre, functions=FUNCS, assumptions=[], samples=[])
    # ---- E1 ----------------------------------------------------------------------------------------------------------------------------
    ins = [m.adr, m.we, m.re, m.dat_w] + ([d.m2.adr, d.m2.we, d.m2.re, d.m2.dat_w] if shared else [])
    objs = {}          # (bank, slot index) -> real object
    for n in banks:
        slots = exp[n][0]
        for i, s in enumerate(slots):
            o = reg[(n,) + s[1]] if s[1] is not None else banks[n][0][i]
            objs[(n, i)] = o
            e = s[2]; opts = e[3] if len(e) > 3 else {}
            if s[1] is None: ins.append(o.w)                      # reserved filler: a raw CSR whose read value nobody drives
            elif e[0] == "status": ins.append(o.status)
            elif e[0] == "csr": ins.append(o.w)
            elif opts.get("dev"): ins += [o.we, o.dat_w]
    hname = f"composed(bus={busw},{ordering},paging={paging:#x},aw={aw},{'LiteXModule,' if litex else ''}{'SoCCSRHandler' if handler == 'soc' else 'table'}{',shared' if shared else ''})"
    h = HwCheck(hname, d, ins); h.pre_results = pre
    V = h.v
    if shared:
        h.assume(z3.And(V(d.m2.adr) == 0, V(d.m2.we) == 0, V(d.m2.re) == 0, V(d.m2.dat_w) == 0), "csr_bus.InterconnectShared ORs its masters: all masters but one are idle (drive zero)")
    adr = V(m.adr); idx = z3.Extract(pb - 1, 0, adr); page = z3.Extract(aw - 1, pb, adr)
    we, re = b(V(m.we)), b(V(m.re)); dw = V(m.dat_w)
    def at(P, a): return z3.And(page == K(P, PW), idx == K(a, pb))
    # word table of the whole array: address -> (bank, slot, lo, hi, last)
    table = []          # (P, a, bank, slot index | ("page", sram key), lo, hi, last)
    for n in sorted(banks):
        P = banks[n][1]; slots = exp[n][0]
        words = spec_words(slots, busw, ordering)
        a = 0
        for (ri, lo, hi, last) in words: table.append((P, a, n, ri, lo, hi, last)); a += 1
        for mn, preg in page_regs.get(n, []):
            assert len(preg.storage) <= busw
            table.append((P, a, n, ("page", mn), 0, len(preg.storage), True)); a += 1
    addrs = [(P, a) for P, a, *_ in table]
    pre.append(res("struct.no-two-register-words-share-an-address", "struct", PROVED if len(set(addrs)) == len(addrs) else VIOLATED, 0, "specification layout"))
    mem_pages = {srams[k][1] for k in srams}
    pre.append(res("struct.memory-windows-and-banks-on-different-pages", "struct", PROVED if not (mem_pages & {P for P, _ in addrs}) and len(mem_pages) == len(srams) else VIOLATED, 0, "specification layout"))
    def value_of(n, ri):
        if isinstance(ri, tuple): return V(srams[(n, ri[1])][2]._page.storage)
        o = objs[(n, ri)]; e = exp[n][0][ri][2]
        if exp[n][0][ri][1] is None or e[0] == "csr": return V(o.w)
        return V(o.storage) if e[0] == "storage" else V(o.status)
    # ---- reads: one cycle later exactly the addressed word; zero where there is no register; every unselected bank contributes zero -----
    spec_rd = K(0, busw)
    for (P, a, n, ri, lo, hi, last) in reversed(table):
        spec_rd = z3.If(at(P, a), zx(z3.Extract(hi - 1, lo, value_of(n, ri)), busw), spec_rd)
    memrd_terms = []
    for (n, mn), (mem, P, mmap) in sorted(srams.items(), key=lambda kv: str(kv[0])):
        cells = h.ts.mems[mem]; depth = mem.depth; AW = (depth - 1).bit_length(); assert 1 << AW == depth and mem.width == busw, "composed designs use bus-wide memories (other shapes: C12_csr_sram.py)"
        pg = mmap._page
        PB = len(pg.storage) if pg is not None else 0
        low = AW - PB
        maddr = cat(V(pg.storage) if pg is not None else None, z3.Extract(low - 1, 0, idx) if low else None)
        r = V(cells[depth - 1])
        for j in reversed(range(depth - 1)): r = z3.If(maddr == K(j, AW), V(cells[j]), r)
        memrd_terms.append((P, r))
        hitm = z3.And(we, page == K(P, PW))
        ro = False      # memories gathered by AutoCSR.get_memories are writable windows (scan passes read_only=False for a bare Memory)
        for j in range(depth):
            # a memory word changes only by a bus write to its own address in its own window (no register write of any bank touches it)
            h.ensure(f"ens.mem.{n}.{mn}[{j}].exact-update", h.n(cells[j]) == (V(cells[j]) if ro else z3.If(z3.And(hitm, maddr == K(j, AW)), dw, V(cells[j]))))
        h.cover(f"cover.mem.{n}.{mn}.write", z3.And(hitm, maddr == K(depth - 1, AW)), depth=3)
    full_rd = spec_rd
    for P, r in memrd_terms: full_rd = z3.If(page == K(P, PW), r, full_rd)
    h.ensure("ens.read.master(addressed-word|0)", z3.Implies(z3.Not(we), h.n(m.dat_r) == full_rd))
    h.ensure("ens.read.registers-also-during-writes", z3.Implies(z3.Not(z3.Or(*[page == K(P, PW) for P in mem_pages])) if mem_pages else z3.BoolVal(True), h.n(m.dat_r) == spec_rd))
    if shared: h.ensure("ens.read.second-master-sees-the-same-data", h.n(d.m2.dat_r) == h.n(m.dat_r))
    for n in sorted(banks):
        P = banks[n][1]
        h.ensure(f"ens.zero.bank[{n}]-unselected-drives-zero", z3.Implies(page != K(P, PW), h.n(banks[n][2].bus.dat_r) == K(0, busw)))
    for (n, mn), (mem, P, mmap) in srams.items():
        h.ensure(f"ens.zero.mem[{n}.{mn}]-unselected-drives-zero", z3.Implies(page != K(P, PW), h.n(mmap.bus.dat_r) == K(0, busw)))
    # ---- strobes: each (page, offset) selects exactly one register word -------------------------------------------------------------------
    all_re = []; all_we = []
    k = 0
    for n in sorted(banks):
        P = banks[n][1]; rmap = banks[n][2]
        rows = [t for t in table if t[2] == n]
        assert len(rows) == len(rmap.simple_csrs)
        for (P_, a, _, ri, lo, hi, last), sc in zip(rows, rmap.simple_csrs):
            h.ensure(f"ens.select[{n}+{a}]", z3.And(b(V(sc.re)) == z3.And(we, at(P, a)), b(V(sc.we)) == z3.And(re, at(P, a)), V(sc.r) == z3.Extract(hi - lo - 1, 0, dw)))
            all_re.append(b(V(sc.re))); all_we.append(b(V(sc.we)))
    for (n, mn), (mem, P, mmap) in srams.items():
        if L(mmap, "port") is not None and hasattr(L(mmap, "port"), "we") and L(mmap, "port").we is not None: all_re.append(b(V(L(mmap, "port").we)))
    h.ensure("ens.unique.at-most-one-register-word-of-ANY-bank-selected", z3.And(z3.AtMost(*all_re, 1), z3.AtMost(*all_we, 1)))
    # ---- writes: exact next value of every storage of every bank (write to its own words, device update, else unchanged) --------------------
    for n in sorted(banks):
        P = banks[n][1]; slots = exp[n][0]
        for ri, (rname, rpath, e) in enumerate(slots):
            rows = [t for t in table if t[2] == n and t[3] == ri]
            o = objs[(n, ri)]; opts = e[3] if len(e) > 3 else {}
            if rpath is None or e[0] == "csr": continue
            lastrow = [t for t in rows if t[6]][0]
            if e[0] == "status":
                h.ensure(f"ens.we[{rname}]", b(V(o.we)) == z3.And(re, at(P, lastrow[1])))
                continue
            S = e[2]; cur = V(o.storage); nxt = h.n(o.storage)
            other = z3.If(b(V(o.we)), V(o.dat_w), cur) if opts.get("dev") else cur
            h.ensure(f"ens.re[{rname}]", b(h.n(o.re)) == z3.And(we, at(P, lastrow[1])))
            if opts.get("atomic") and len(rows) > 1:
                back = None
                for s in h.ts.state:
                    nm_ = s.name_override or (s.backtrace[-1][0] if getattr(s, "backtrace", None) else "")
                    if (nm_ or "") == f"{rname}_backstore": back = s
                if back is None: raise RuntimeError(f"atomic register {rname}: staging register not found")
                commit = [t for t in rows if t[4] == 0][0]
                h.ensure(f"ens.storage[{rname}].exact-update(atomic)", nxt == z3.If(z3.And(we, at(P, commit[1])), z3.Concat(V(back), z3.Extract(min(busw, S) - 1, 0, dw)), other))
                bexp = V(back)
                for (P_, a, _, _, lo, hi, last) in rows:
                    if lo == 0: continue
                    upd = z3.Extract(hi - lo - 1, 0, dw); parts = []
                    if hi - busw < S - busw: parts.append(z3.Extract(S - busw - 1, hi - busw, V(back)))
                    parts.append(upd)
                    if lo - busw > 0: parts.append(z3.Extract(lo - busw - 1, 0, V(back)))
                    bexp = z3.If(z3.And(we, at(P, a)), cat(*parts), bexp)
                h.ensure(f"ens.stage[{rname}].exact-update", h.n(back) == bexp)
            else:
                val = other
                for (P_, a, _, _, lo, hi, last) in rows:
                    parts = []
                    if hi < S: parts.append(z3.Extract(S - 1, hi, other))
                    parts.append(z3.Extract(hi - lo - 1, 0, dw))
                    if lo: parts.append(z3.Extract(lo - 1, 0, other))
                    val = z3.If(z3.And(we, at(P, a)), cat(*parts), val)
                h.ensure(f"ens.storage[{rname}].exact-update", nxt == val)
            h.cover(f"cover.write[{rname}]", z3.And(we, at(P, lastrow[1])), depth=2)
        for mn, preg in page_regs.get(n, []):
            row = [t for t in table if t[2] == n and t[3] == ("page", mn)][0]
            h.ensure(f"ens.storage[{preg.name}].exact-update", h.n(preg.storage) == z3.If(z3.And(we, at(P, row[1])), z3.Extract(len(preg.storage) - 1, 0, dw), V(preg.storage)))
    h.cover("cover.read-nonzero", h.v(m.dat_r) != K(0, busw), depth=3)
    h.functions = FUNCS
    h.cosim_cycles = 12
    return h

# designs -----------------------------------------------------------------------------------------------------------------------------------
def design_a(busw):
    """three peripherals; creation order differs from attribute (alphabetical) order; two levels of nesting; a fixed location; an excluded
    register and an excluded child; a device-writable and an atomic multi-word storage; a CSR memory"""
    return {
        "alpha": ([("status", "stat", 20), ("storage", "ctrl", 12, dict(reset=0x123)),
                   ("child", "inner", [("storage", "deep", 9, dict(reset=0x155)), ("child", "core", [("storage", "zz", 3, dict(reset=5))]), ("csr", "raw", 5)]),
                   ("storage", "aa_last", 8, dict(reset=0x5a))], ()),
        "beta":  ([("storage", "wide", 40, dict(atomic=True, reset=0x1234567)), ("storage", "devw", 10, dict(dev=True)), ("mem", "buf", 8, busw, False),
                   ("storage", "fix", 8, dict(n=0, reset=0x77)), ("storage", "hidden", 4), ("child", "ghost", [("storage", "never", 4)])], ("hidden", "ghost")),
        "gamma": ([("storage", "late", 7, dict(n=2, reset=0x41)), ("status", "one", 1)], ()),
    }
def design_paged(busw):
    """small pages: a memory larger than its page (page register in the owner's bank), banks on neighbouring pages"""
    return {
        "pa": ([("storage", "x", 2 * busw + 3, dict(reset=0x9)), ("mem", "win", 16, busw, False), ("status", "s", busw)], ()),
        "pb": ([("child", "sub", [("storage", "y", busw - 1, dict(reset=0x33))]), ("storage", "z", 5, dict(n=3)), ("mem", "rom", 4, busw, False)], ()),
    }

# =====================================================================================================================================
# A. the gatherer (E3).  Objects are identified by their duid (DUID contract of migen: a different number for every object), so "x.duid" is the
# object itself; the heap holds the mutable name of every object (CSR.name / Memory.name_override) as a z3 array Int -> String.
# =====================================================================================================================================
BACKEND = "pysym(loop-cut)+z3-%s(api)" % z3.get_version_string()
FEAS_MS = 400        # path-feasibility queries only: `unknown` KEEPS the path (sound), so a short limit never decides an obligation
def zs(x):
    if isinstance(x, SymStr): return x.t
    if isinstance(x, str): return z3.StringVal(x)
    if z3.is_expr(x): return x
    raise PUnsupported(f"string operand {type(x).__name__}")
class SymStr:
    def __init__(self, t): self.t = t
    def __add__(self, o): return SymStr(z3.Concat(self.t, zs(o)))
    def __radd__(self, o): return SymStr(z3.Concat(zs(o), self.t))
    def __eq__(self, o): return SymBool(self.t == zs(o))
    def __ne__(self, o): return SymBool(self.t != zs(o))
    def __hash__(self): return id(self)
    def __format__(self, spec): return f"<str {self.t}>"
    __str__ = __repr__ = lambda self: f"<str {self.t}>"
def _c(): return pysym.CTX
PORTFOLIO = (dict(mbqi=False, timeout=10000), dict(timeout=20000), dict(mbqi=False, random_seed=11, timeout=20000))
def _robust(ctx):
    """obligations of this module are quantified: discharge them with a small portfolio of solver configurations (pure E-matching first, then with
    model-based instantiation, then other seeds) so that a verdict does not depend on one run's instantiation order; `sat` is only accepted with a model"""
    def check(name, cond):
        cond = tobool(cond); status, model = "unknown", None
        for cfg in PORTFOLIO:
            sv = z3.Solver()
            for k_, v_ in cfg.items(): sv.set(k_, v_)
            sv.add(*ctx.pc); sv.add(z3.Not(cond)); r = sv.check()
            if r == z3.unsat: status = "proved"; break
            if r == z3.sat: status, model = "FAILED", sv.model(); break
        ctx.obligations.append((name, status, model))
    ctx.check = check
def _is_model(axioms, consts, funs):
    """the given interpretation (constants -> values, functions -> bodies over Var(i)) satisfies every axiom: each axiom, with the interpretation
    substituted, is a closed linear-arithmetic formula that is proved valid"""
    for ax in axioms:
        e = z3.substitute_funs(ax, *funs) if funs else ax
        e = z3.substitute(e, *consts) if consts else e
        sv = z3.Solver(); sv.set("timeout", 60000); sv.add(z3.Not(e)); r = sv.check()
        if r != z3.unsat: return "unknown" if r == z3.unknown else "no"
    return "yes"
class Heap:
    """mutable state reachable only through proxies: name of every object, ghost call counter of every child method"""
    def __init__(self, name, calls=None): self.name = name; self.calls = calls
    COMPONENTS = ("name", "calls")
class PItem:
    """a register / memory / constant: duid is the identity; `name` (CSR, CSRConstant) and `name_override` (Memory) live in the heap"""
    def __init__(self, heap, t): object.__setattr__(self, "_h", heap); object.__setattr__(self, "t", t)
    duid = property(lambda s: SymInt(s.t))
    def __getattr__(self, a):
        if a in ("name", "name_override"): return SymStr(z3.Select(self._h.name, self.t))
        raise AttributeError(a)
    def __setattr__(self, a, v):
        if a in ("name", "name_override"): self._h.name = z3.Store(self._h.name, self.t, zs(v)); return
        raise PUnsupported(f"assignment to .{a}")
class SetProxy:
    """Python set of duids: content = z3 array Int -> Bool"""
    COMPONENTS = ("D",)
    def __init__(self, D): self.D = D
    def __contains__(self, x): return bool(SymBool(z3.Select(self.D, toint(x))))
    def add(self, x): self.D = z3.Store(self.D, toint(x), z3.BoolVal(True))
class Seq:
    """immutable sequence of unknown length of objects: element i is el(i)"""
    def __init__(self, heap, n, el): self.heap, self.n, self.el = heap, n, el
    def __getitem__(self, i): it = toint(i); _c().assume(z3.And(it >= 0, it < self.n)); return PItem(self.heap, self.el(it))
    def __iter__(self): raise PUnsupported("uncut iteration")
class RList:
    """Python list of unknown length of objects (the result list r)"""
    COMPONENTS = ("arr", "len")
    def __init__(self, arr, ln): self.arr, self.len = arr, ln
    def sel(self, i): return z3.Select(self.arr, i)
    def append(self, x):
        if not isinstance(x, (PItem, Val)): raise PUnsupported("append of a non-object")
        self.arr = z3.Store(self.arr, self.len, x.t if isinstance(x, PItem) else x.obj()); self.len = self.len + 1
    def __iadd__(self, o):
        if not isinstance(o, Seq): raise PUnsupported("list += non-sequence")
        p = z3.Int("p!ext"); a0, l0 = self.arr, self.len
        self.arr = z3.Lambda([p], z3.If(z3.And(p >= l0, p < l0 + o.n), o.el(p - l0), z3.Select(a0, p))); self.len = l0 + o.n
        return self
    def __iter__(self): raise PUnsupported("uncut iteration")
I_ = z3.IntSort()
class HVC(VC):
    """loop cutting with havoc of proxy state: spec['state'](L) -> list of (object, components) that the loop body may change"""
    def __init__(self, loops, tag): VC.__init__(self, loops); self.tag = tag
    def len(self, x):
        if isinstance(x, Seq): return SymInt(x.n)
        if isinstance(x, RList): return SymInt(x.len)
        if builtins.hasattr(x, "symlen"): return SymInt(x.symlen)
        return VC.len(self, x)
    def newlist(self): return RList(z3.K(I_, z3.IntVal(-1)), z3.IntVal(0))
    def listcomp(self, f, it): return [f(x) for x in it]
    def _sort(self, obj, comp):
        cur = getattr(obj, comp)
        return cur.sort()
    def for_begin(self, lid, iterable, L):
        sp = self.loops[lid]; c = _c(); pos = sp["pos"]
        L0 = dict(L); L0[pos] = SymInt(z3.IntVal(0))
        c.check(f"{self.tag}.loop{lid}.init", sp["inv"](L0))
        for obj, comps in sp["state"](L):
            for comp in comps: setattr(obj, comp, c.fresh(f"{type(obj).__name__}.{comp}", self._sort(obj, comp)))
        hv = {pos: SymInt(c.fresh(pos))}
        for n_, kind in sp.get("havoc", {}).items(): hv[n_] = kind(c) if builtins.callable(kind) else SymInt(c.fresh(n_))     # locals assigned in the loop body
        L2 = dict(L); L2.update(hv)
        c.assume(z3.And(hv[pos].t >= 0, hv[pos].t <= toint(self.len(iterable))))
        c.assume(sp["inv"](L2))
        return {"it": iterable, "hv": hv, "pos": hv[pos]}
    def for_end(self, lid, st, L):
        sp = self.loops[lid]; L2 = dict(L); L2[sp["pos"]] = st["pos"] + 1
        _c().check(f"{self.tag}.loop{lid}.step", sp["inv"](L2)); raise PathEnd()
def _rewrite(fn, loops, vc):
    from contracts.C12_sort_proof import Rewriter2          # the mechanical loop-cut rewrite (+ `[]` -> __vc.newlist()) used for _sort_gathered_items
    src = textwrap.dedent(inspect.getsource(fn)); tree = ast.parse(src)
    tree = Rewriter2(loops).visit(tree); ast.fix_missing_locations(tree)
    g = dict(fn.__globals__); g["__vc"] = vc
    exec(compile(tree, f"<pysym:{fn.__qualname__}>", "exec"), g)
    return g[fn.__name__], ast.unparse(tree)
def _collect(prefix, paths, obl, t0, extra_ok=True, **info):
    by = {}
    for n_, s_, m in obl: by.setdefault(n_, []).append((s_, m))
    out = []
    for n_, l in by.items():
        st = NOINPUT if any(s_ == "FAILED" for s_, _ in l) else (UNKNOWN if any(s_ != "proved" for s_, _ in l) else PROVED)
        inf = {}
        bad = [m for s_, m in l if s_ == "FAILED" and m is not None]
        if bad: inf["model"] = {str(d_): str(bad[0][d_])[:200] for d_ in bad[0].decls() if d_.arity() == 0}
        out.append(res(f"{prefix}.{n_}", "pysym", st, 0, BACKEND, paths=len(l), **inf))
    return out, by

# ---- csrprefix / memprefix: contract  D' = D + members ;  name'(x) = prefix + name(x) iff x is a member that was not in D ; all other names unchanged ----
def _run_prefix(fn, wrong=None):
    stats = dict(done=0)
    x, q = z3.Ints("x q")
    def run(ctx):
        ctx.solver.set("timeout", FEAS_MS); _robust(ctx)
        n = z3.Int("n"); ctx.assume(n >= 0)
        EL = z3.Function("csrs.el", I_, I_); MEM = z3.Function("member", I_, z3.BoolSort()); FIRST = z3.Function("first_index", I_, I_)
        # definition of membership / first occurrence for the fixed argument list (conservative: every finite sequence has them)
        ctx.assume(z3.ForAll([q], z3.Implies(z3.And(0 <= q, q < n), z3.And(MEM(EL(q)), FIRST(EL(q)) <= q))))
        ctx.assume(z3.ForAll([x], z3.Implies(MEM(x), z3.And(0 <= FIRST(x), FIRST(x) < n, EL(FIRST(x)) == x))))
        NAME0 = z3.Array("name0", I_, z3.StringSort()); D0 = z3.Array("done0", I_, z3.BoolSort()); pre = z3.String("prefix")
        heap = Heap(NAME0); done = SetProxy(D0); csrs = Seq(heap, n, EL)
        def inv(L):
            i = toint(L["i0"]); proc = lambda y: z3.And(MEM(y), FIRST(y) < i)
            return z3.And(z3.ForAll([x], z3.Select(done.D, x) == z3.Or(z3.Select(D0, x), proc(x))),
                          z3.ForAll([x], z3.Select(heap.name, x) == z3.If(z3.And(proc(x), z3.Not(z3.Select(D0, x))), z3.Concat(pre, z3.Select(NAME0, x)), z3.Select(NAME0, x))))
        loops = {0: dict(pos="i0", inv=inv, state=lambda L: [(heap, ("name",)), (done, ("D",))])}
        vc = HVC(loops, fn.__name__)
        f2, src = _rewrite(fn, loops, vc)
        assert src.count("__vc.for_begin") == 1, "loop structure changed"
        r = f2(SymStr(pre), csrs, done)
        stats["done"] += 1
        ctx.check("post.returns-None", z3.BoolVal(r is None))
        ctx.check("post.done'=done+members", z3.ForAll([x], z3.Select(done.D, x) == z3.Or(z3.Select(D0, x), MEM(x))))
        ctx.check("post.prefixed-exactly-once:name'=prefix+name-iff-member-and-not-done-before", z3.ForAll([x], z3.Select(heap.name, x) == z3.If(z3.And(MEM(x), z3.Not(z3.Select(D0, x))), z3.Concat(pre, z3.Select(NAME0, x)), z3.Select(NAME0, x))))
        ctx.check("post.second-application-changes-nothing(members-done=>names-unchanged)", z3.Implies(z3.ForAll([x], z3.Implies(MEM(x), z3.Select(D0, x))), z3.ForAll([x], z3.Select(heap.name, x) == z3.Select(NAME0, x))))
        if wrong == "twice": ctx.check("wrong.members-always-prefixed", z3.ForAll([x], z3.Implies(MEM(x), z3.Select(heap.name, x) == z3.Concat(pre, z3.Select(NAME0, x)))))
        if wrong == "nomember": ctx.check("wrong.no-name-changes", z3.ForAll([x], z3.Select(heap.name, x) == z3.Select(NAME0, x)))
    paths, obl = explore(run, max_paths=200)
    return paths, obl, stats
def c_prefix(which):
    t0 = time.time(); fn = getattr(CSRMOD, which)
    paths, obl, stats = _run_prefix(fn)
    out, by = _collect(which, paths, obl, t0)
    # vacuity: two deliberately wrong postconditions must be refuted (path condition satisfiable, both branches of the `not in done` test live)
    refuted = 0
    for w in ("twice", "nomember"):
        _, o2, _ = _run_prefix(fn, wrong=w)
        refuted += any(n_.startswith("wrong.") and s_ == "FAILED" for n_, s_, _ in o2)
    # bounded native cross-check of the same contract on the real function (plain CPython; gives a concrete witness when the proof fails)
    import random
    rnd = random.Random(3); badn = []; attr = "name" if which == "csrprefix" else "name_override"
    class Obj:
        def __init__(s, duid): s.duid = duid; setattr(s, attr, f"n{duid}")
    for trial in range(300):
        pool = [Obj(i) for i in range(5)]; lst = [rnd.choice(pool) for _ in range(rnd.randint(0, 6))]; done0 = {o.duid for o in pool if rnd.random() < 0.4}; done = set(done0)
        fn("p_", lst, done)
        for o in pool:
            wantn = ("p_" if (o in lst and o.duid not in done0) else "") + f"n{o.duid}"
            if getattr(o, attr) != wantn: badn.append(dict(list=[x.duid for x in lst], done_before=sorted(done0), object=o.duid, name=getattr(o, attr), want=wantn))
        if done != done0 | {o.duid for o in lst}: badn.append(dict(list=[x.duid for x in lst], done_before=sorted(done0), done_after=sorted(done)))
    out.append(res(f"{which}.native(300 random lists with duplicates)", "bounded", BOUNDED_OK if not badn else VIOLATED, 0, "plain CPython", info=str(badn[:2]) if badn else ""))
    want = {f"{which}.loop0.init", f"{which}.loop0.step"}
    ok = stats["done"] > 0 and want <= set(by) and refuted == 2
    out.append(res(f"{which}.cover.exit-path-reached;loop-obligations-generated;wrong-postconditions-refuted", "cover", OK if ok else VACUOUS, time.time() - t0, "pysym", paths=paths, refuted=refuted))
    return dict(results=out, functions=[f"litex.soc.interconnect.csr.{which}"], samples=[dict(function=which, paths=paths, state="list of unknown length (duplicates allowed), arbitrary done set, arbitrary names and prefix (z3 strings)")])

# ---- the gatherer -------------------------------------------------------------------------------------------------------------------------
class Key:
    """attribute name k of position a"""
    def __init__(self, w, a): self.w, self.a = w, a
    def __add__(self, o): return SymStr(z3.Concat(self.w.KEY(self.a), zs(o)))
    def __hash__(self): return hash(("key", id(self.w)))
    def __eq__(self, o): raise PUnsupported("comparison of attribute names")
class ExclProxy:
    def __init__(self, w): self.w = w
    def __contains__(self, k):
        if not isinstance(k, Key): raise PUnsupported("exclude test")
        return bool(SymBool(self.w.EXCL(k.a)))
class Val:
    """attribute value v of position a"""
    def __init__(self, w, a): self.w, self.a = w, a
    def obj(self): return self.w.OBJ(self.a)
class ChildMethod:
    """CONTRACT of the child's gatherer method (= the contract proved here for `self`: induction over the tree): returns the child's list
    (the same sequence at every call: every register of its subtree once, ascending duid); changes names of objects of its own list only"""
    def __init__(self, w, a): self.w, self.a = w, a
    def __call__(self, *args, **kw):
        if args or kw: raise PUnsupported("child method called with arguments")
        w, a = self.w, self.a; x = z3.Int("x!c"); h = w.heap
        n0, c0 = h.name, h.calls
        h.calls = z3.Store(c0, a, z3.Select(c0, a) + 1)
        h.name = z3.Lambda([x], z3.If(z3.And(w.INCH(x), w.OA(x) == a), w.CNAME(x), z3.Select(n0, x)))
        return Seq(h, w.CLEN(a), lambda j: w.CEL(a, j))
class World:
    pass
def _run_gather(method, prefix_name, sort, has_exclude, first_call, wrong=None):
    stats = dict(returned=0)
    x, y, a, j, p, q = z3.Ints("x y a j p q")
    def run(ctx):
        ctx.solver.set("timeout", FEAS_MS); _robust(ctx)
        w = World(); N = z3.Int("N"); ctx.assume(N >= 0)
        w.KEY = z3.Function("attr.name", I_, z3.StringSort()); w.KIND = z3.Function("attr.kind", I_, I_); w.EXCL = z3.Function("attr.excluded", I_, z3.BoolSort())
        w.OBJ = z3.Function("attr.object", I_, I_); w.CLEN = z3.Function("child.len", I_, I_); w.CEL = z3.Function("child.el", I_, I_, I_)
        w.OA = z3.Function("owner.attr", I_, I_); w.OJ = z3.Function("owner.index", I_, I_); w.CNAME = z3.Function("name_after_child_call", I_, z3.StringSort())
        OFF = z3.Function("offset", I_, I_)
        ITEM, CHILD = 1, 2
        w.INCH = lambda o: z3.And(0 <= w.OA(o), w.OA(o) < N, w.KIND(w.OA(o)) == CHILD, 0 <= w.OJ(o), w.OJ(o) < w.CLEN(w.OA(o)), w.CEL(w.OA(o), w.OJ(o)) == o)
        OWN = lambda o: z3.And(0 <= w.OA(o), w.OA(o) < N, w.KIND(w.OA(o)) == ITEM, w.OJ(o) == -1, w.OBJ(w.OA(o)) == o)
        inc = lambda o: z3.Not(w.EXCL(w.OA(o)))
        # environment: a TREE - every object is reachable through exactly one attribute path (owner functions are the inverse of the enumeration)
        ctx.assume(z3.ForAll([a], w.CLEN(a) >= 0))
        ctx.assume(z3.ForAll([a], z3.Implies(z3.And(0 <= a, a < N, w.KIND(a) == ITEM), z3.And(w.OA(w.OBJ(a)) == a, w.OJ(w.OBJ(a)) == -1, w.OBJ(a) >= 0))))
        ctx.assume(z3.ForAll([a, j], z3.Implies(z3.And(0 <= a, a < N, w.KIND(a) == CHILD, 0 <= j, j < w.CLEN(a)), z3.And(w.OA(w.CEL(a, j)) == a, w.OJ(w.CEL(a, j)) == j, w.CEL(a, j) >= 0))))
        if not has_exclude: ctx.assume(z3.ForAll([a], z3.Not(w.EXCL(a))))
        contrib = lambda a_: z3.If(w.EXCL(a_), 0, z3.If(w.KIND(a_) == ITEM, 1, z3.If(w.KIND(a_) == CHILD, w.CLEN(a_), 0)))
        # ghost: offset(a) = number of list entries contributed by the attributes before a (definition by recursion)
        ctx.assume(OFF(z3.IntVal(0)) == 0); ctx.assume(z3.ForAll([a], z3.Implies(a >= 0, OFF(a + 1) == OFF(a) + contrib(a))))
        NAME0 = z3.Array("name0", I_, z3.StringSort()); D0 = z3.Array("prefixed0", I_, z3.BoolSort()) if not first_call else z3.K(I_, z3.BoolVal(False))
        heap = Heap(NAME0, z3.K(I_, z3.IntVal(0))); w.heap = heap
        if "world" not in stats:
            # vacuity guard: ONE concrete tree (own register 10; child `1` with registers 20, 21; (excluded) child `2` with register 30) satisfies every environment
            # assumption and ghost definition made above (checked by the solver in c_gatherer): the assumption set is consistent
            ite = z3.If; v0, v1 = z3.Var(0, I_), z3.Var(1, I_)
            stats["world"] = ([(N, z3.IntVal(3))],
                              [(w.KIND, ite(v0 == 0, z3.IntVal(ITEM), ite(z3.Or(v0 == 1, v0 == 2), z3.IntVal(CHILD), z3.IntVal(0)))), (w.EXCL, (v0 == 2) if has_exclude else z3.BoolVal(False)),
                               (w.OBJ, z3.IntVal(10)), (w.CLEN, ite(v0 == 1, z3.IntVal(2), ite(v0 == 2, z3.IntVal(1), z3.IntVal(0)))), (w.CEL, ite(v0 == 1, 20 + v1, 30 + v1)),
                               (w.OA, ite(v0 == 10, z3.IntVal(0), ite(z3.Or(v0 == 20, v0 == 21), z3.IntVal(1), ite(v0 == 30, z3.IntVal(2), z3.IntVal(-1))))),
                               (w.OJ, ite(v0 == 10, z3.IntVal(-1), ite(v0 == 20, z3.IntVal(0), ite(v0 == 21, z3.IntVal(1), ite(v0 == 30, z3.IntVal(0), z3.IntVal(-5)))))),
                               (OFF, ite(v0 <= 0, z3.IntVal(0), ite(v0 == 1, z3.IntVal(1), z3.IntVal(3) if has_exclude else ite(v0 == 2, z3.IntVal(3), z3.IntVal(4)))))])
            stats["axioms"] = list(ctx.pc)
        class PSelf: pass
        slf = PSelf()
        if has_exclude: slf.autocsr_exclude = ExclProxy(w)
        if not first_call: setattr(slf, "__prefixed", SetProxy(D0))
        class AttrSeq:
            symlen = N
            def __getitem__(s, i): it = toint(i); ctx.assume(z3.And(it >= 0, it < N)); return (Key(w, it), Val(w, it))
        attrs = AttrSeq()
        pos_of = lambda o: OFF(w.OA(o)) + z3.If(w.OJ(o) == -1, 0, w.OJ(o))
        def inv(L):
            pos = toint(L["i0"]); r = L["r"]; D = L["prefixed"].D
            before = lambda o: z3.And(w.OA(o) < pos, inc(o))
            return z3.And(
                r.len == OFF(pos), z3.ForAll([a], z3.Implies(z3.And(0 <= a, a <= pos), OFF(a) >= 0)), z3.ForAll([a], z3.Implies(z3.And(0 <= a, a < pos), OFF(a + 1) <= OFF(pos))),
                z3.ForAll([a], z3.Implies(z3.And(0 <= a, a < pos, z3.Not(w.EXCL(a)), w.KIND(a) == ITEM), r.sel(OFF(a)) == w.OBJ(a))),
                z3.ForAll([a, j], z3.Implies(z3.And(0 <= a, a < pos, z3.Not(w.EXCL(a)), w.KIND(a) == CHILD, 0 <= j, j < w.CLEN(a)), r.sel(OFF(a) + j) == w.CEL(a, j))),
                z3.ForAll([p], z3.Implies(z3.And(0 <= p, p < r.len), z3.And(z3.Or(OWN(r.sel(p)), w.INCH(r.sel(p))), before(r.sel(p)), pos_of(r.sel(p)) == p))),
                z3.ForAll([x], z3.Select(D, x) == z3.Or(z3.Select(D0, x), z3.And(w.INCH(x), before(x)))),
                z3.ForAll([x], z3.Select(heap.name, x) == z3.If(z3.And(w.INCH(x), before(x)), z3.If(z3.Select(D0, x), w.CNAME(x), z3.Concat(w.KEY(w.OA(x)), z3.StringVal("_"), w.CNAME(x))), z3.Select(NAME0, x))),
                z3.ForAll([a], z3.Select(heap.calls, a) == z3.If(z3.And(0 <= a, a < pos, z3.Not(w.EXCL(a)), w.KIND(a) == CHILD), 1, 0)))
        loops = {0: dict(pos="i0", inv=inv, state=lambda L: [(heap, ("name", "calls")), (L["prefixed"], ("D",)), (L["r"], ("arr", "len"))])}
        vc = HVC(loops, "gatherer")
        mk2, src = _rewrite(CSRMOD._make_gatherer, loops, vc)
        assert src.count("__vc.for_begin") == 1 and "__vc.newlist()" in src, "loop structure of _make_gatherer changed"
        def m_prefix(prefix, items, done):
            """CONTRACT of csrprefix / memprefix (proved by the case `csrprefix` / `memprefix` of this module)"""
            if isinstance(prefix, Key): prefix = SymStr(w.KEY(prefix.a))
            if isinstance(prefix, str): prefix = SymStr(z3.StringVal(prefix))
            if not (isinstance(items, Seq) and builtins.hasattr(items, "attr") and isinstance(done, SetProxy) and isinstance(prefix, SymStr)): raise PUnsupported("prefix_cb arguments")
            a_ = items.attr; MEMB = lambda o: z3.And(w.INCH(o), w.OA(o) == a_)
            d0, n0 = done.D, heap.name
            done.D = z3.Lambda([x], z3.Or(z3.Select(d0, x), MEMB(x)))
            heap.name = z3.Lambda([x], z3.If(z3.And(MEMB(x), z3.Not(z3.Select(d0, x))), z3.Concat(prefix.t, z3.Select(n0, x)), z3.Select(n0, x)))
        gat = mk2(method, PItem, m_prefix)
        ghost = {}
        def m_sorted(lst, key=None):
            """contract of builtin sorted(list, key=f): a NEW list, a permutation of the argument, ascending in f"""
            if not isinstance(lst, RList): return builtins.sorted(lst, key=key)
            S = RList(ctx.fresh("sorted.arr", z3.ArraySort(I_, I_)), lst.len); pi, pinv = ctx.fresh("perm", z3.ArraySort(I_, I_)), ctx.fresh("perm_inv", z3.ArraySort(I_, I_))
            keyt = lambda t: toint(key(PItem(heap, t)))
            ctx.assume(z3.ForAll([p], z3.Implies(z3.And(0 <= p, p < lst.len), z3.And(0 <= z3.Select(pi, p), z3.Select(pi, p) < lst.len, z3.Select(pinv, z3.Select(pi, p)) == p,
                                                                                 0 <= z3.Select(pinv, p), z3.Select(pinv, p) < lst.len, z3.Select(pi, z3.Select(pinv, p)) == p, S.sel(p) == lst.sel(z3.Select(pi, p))))))
            ctx.assume(z3.ForAll([p, q], z3.Implies(z3.And(0 <= p, p < q, q < lst.len), keyt(S.sel(p)) <= keyt(S.sel(q)))))
            ghost["pinv"] = pinv; ghost["unsorted"] = RList(lst.arr, lst.len); ghost["S"] = S
            return S
        def m_isinstance(v, cls):
            if isinstance(v, Val): return bool(SymBool(w.KIND(v.a) == ITEM)) if cls is PItem else False
            return builtins.isinstance(v, cls)
        def m_hasattr(v, name):
            if isinstance(v, Val): return bool(SymBool(w.KIND(v.a) == CHILD)) if name == method else False
            return builtins.hasattr(v, name)
        def m_getattr(v, name, *dflt):
            if isinstance(v, Val) and name == method:
                cm = ChildMethod(w, v.a)
                def wrapped(*aa, **kk):
                    s = cm(*aa, **kk); s.attr = v.a; return s
                return wrapped
            return builtins.getattr(v, name, *dflt)
        def m_xdir(obj, return_values=False):
            if obj is not slf or not return_values: raise PUnsupported("xdir")
            return attrs
        def m_sort_gathered(items):
            """CONTRACT of _sort_gathered_items (proved for all lists in C12_sort_proof.py): every item occurs exactly once, every other slot holds a new reserved CSR"""
            if not isinstance(items, RList): raise PUnsupported("_sort_gathered_items argument")
            ctx.check("pre(_sort_gathered_items).items-pairwise-different", z3.ForAll([p, q], z3.Implies(z3.And(0 <= p, p < q, q < items.len), items.sel(p) != items.sel(q))))
            T = RList(ctx.fresh("placed.arr", z3.ArraySort(I_, I_)), toint(SymInt(ctx.fresh("placed.len")))); PO = ctx.fresh("placed.pos", z3.ArraySort(I_, I_)); SRC = ctx.fresh("placed.src", z3.ArraySort(I_, I_))
            ctx.assume(T.len >= items.len)
            ctx.assume(z3.ForAll([p], z3.Implies(z3.And(0 <= p, p < items.len), z3.And(0 <= z3.Select(PO, p), z3.Select(PO, p) < T.len, T.sel(z3.Select(PO, p)) == items.sel(p)))))
            ctx.assume(z3.ForAll([q], z3.Implies(z3.And(0 <= q, q < T.len), z3.Or(T.sel(q) == -2 - q, z3.And(0 <= z3.Select(SRC, q), z3.Select(SRC, q) < items.len, T.sel(q) == items.sel(z3.Select(SRC, q)), z3.Select(PO, z3.Select(SRC, q)) == q)))))
            ghost["PO"] = PO; ghost["items_to_place"] = items
            return T
        gat.__globals__.update(sorted=m_sorted, isinstance=m_isinstance, hasattr=m_hasattr, getattr=m_getattr, callable=lambda f: True if getattr(f, "__name__", "") == "wrapped" else builtins.callable(f),
                               xdir=m_xdir, set=lambda: SetProxy(z3.K(I_, z3.BoolVal(False))), _sort_gathered_items=m_sort_gathered)
        out = gat(slf, sort=sort) if sort else gat(slf)
        stats["returned"] += 1
        Dn = getattr(slf, "__prefixed").D
        if "S" not in ghost:
            # builtin sorted() was never applied to the gathered list: the ordering clause is false as stated; the other clauses are evaluated on the list as returned
            ctx.check("post.gathered-list-is-passed-through-sorted(key=duid)", z3.BoolVal(False))
            base_ = ghost.get("items_to_place", out if isinstance(out, RList) else None)
            if base_ is None: return
            pid = z3.Int("p!id"); ghost["S"] = base_; ghost["unsorted"] = base_; ghost["pinv"] = z3.Lambda([pid], pid)
        S = ghost["S"]; U = ghost["unsorted"]; pinv = ghost["pinv"]
        want = lambda o: z3.And(z3.Or(OWN(o), w.INCH(o)), inc(o))                    # o is a register of self or of a non-excluded child
        RS = lambda o: z3.Select(pinv, pos_of(o))                                     # its index in the sorted list
        ctx.check("post.result-is-the-sorted-list" if not sort else "post.result-is-the-placed-list", z3.BoolVal(isinstance(out, RList) and (sort or out is S)))
        ctx.check("post.length==number-of-registers-of-the-non-excluded-attributes", z3.And(S.len == OFF(N), U.len == OFF(N)))
        def lemma(name, f):
            """proved first, then available to the later obligations (a failed lemma is reported like any other obligation)"""
            ctx.check(name, f); ctx.pc.append(tobool(f))
        lemma("lemma.sorted-list-holds-the-unsorted-entries(permutation)", z3.ForAll([p], z3.Implies(z3.And(0 <= p, p < U.len), z3.And(0 <= z3.Select(pinv, p), z3.Select(pinv, p) < S.len, S.sel(z3.Select(pinv, p)) == U.sel(p)))))
        lemma("lemma.child-entries-inside-the-list", z3.ForAll([a, j], z3.Implies(z3.And(0 <= a, a < N, z3.Not(w.EXCL(a)), w.KIND(a) == CHILD, 0 <= j, j < w.CLEN(a)),
              z3.And(0 <= OFF(a) + j, OFF(a) + j < U.len, U.sel(OFF(a) + j) == w.CEL(a, j), pos_of(w.CEL(a, j)) == OFF(a) + j))))
        ctx.check("post.every-own-register-occurs", z3.ForAll([a], z3.Implies(z3.And(0 <= a, a < N, z3.Not(w.EXCL(a)), w.KIND(a) == ITEM), z3.And(0 <= RS(w.OBJ(a)), RS(w.OBJ(a)) < S.len, S.sel(RS(w.OBJ(a))) == w.OBJ(a)))))
        ctx.check("post.every-register-of-every-non-excluded-child-occurs", z3.ForAll([a, j], z3.Implies(z3.And(0 <= a, a < N, z3.Not(w.EXCL(a)), w.KIND(a) == CHILD, 0 <= j, j < w.CLEN(a)),
                  z3.And(0 <= RS(w.CEL(a, j)), RS(w.CEL(a, j)) < S.len, S.sel(RS(w.CEL(a, j))) == w.CEL(a, j)))))
        ctx.check("post.nothing-else-occurs(excluded-attributes-absent)", z3.ForAll([p], z3.Implies(z3.And(0 <= p, p < S.len), want(S.sel(p)))))
        lemma("post.exactly-once(no-two-positions-hold-the-same-object)", z3.ForAll([p, q], z3.Implies(z3.And(0 <= p, p < q, q < S.len), S.sel(p) != S.sel(q))))
        ctx.check("post.ascending-duid(creation-order)", z3.ForAll([p, q], z3.Implies(z3.And(0 <= p, p < q, q < S.len), S.sel(p) < S.sel(q))))
        ctx.check("post.before-sorting:entries-in-attribute-order(each-attribute's-registers-contiguous)", z3.ForAll([p], z3.Implies(z3.And(0 <= p, p < U.len), pos_of(U.sel(p)) == p)))
        chl = lambda o: z3.And(w.INCH(o), inc(o))
        ctx.check("post.prefix-exactly-once-per-level:child-register-not-yet-prefixed-here=>name=attr_+name-left-by-child", z3.ForAll([x], z3.Implies(z3.And(chl(x), z3.Not(z3.Select(D0, x))),
                  z3.Select(heap.name, x) == z3.Concat(w.KEY(w.OA(x)), z3.StringVal("_"), w.CNAME(x)))))
        ctx.check("post.never-prefixed-twice:child-register-already-prefixed-here=>name-left-by-child-unchanged", z3.ForAll([x], z3.Implies(z3.And(chl(x), z3.Select(D0, x)), z3.Select(heap.name, x) == w.CNAME(x))))
        ctx.check("post.frame:names-of-own-registers,excluded-subtrees-and-foreign-objects-unchanged", z3.ForAll([x], z3.Implies(z3.Not(chl(x)), z3.Select(heap.name, x) == z3.Select(NAME0, x))))
        ctx.check("post.bookkeeping:prefixed'=prefixed+registers-of-non-excluded-children", z3.ForAll([x], z3.Select(Dn, x) == z3.Or(z3.Select(D0, x), chl(x))))
        ctx.check("post.each-non-excluded-child-asked-exactly-once,excluded-never", z3.ForAll([a], z3.Select(heap.calls, a) == z3.If(z3.And(0 <= a, a < N, z3.Not(w.EXCL(a)), w.KIND(a) == CHILD), 1, 0)))
        # second call (induction hypothesis for the children: their second call returns the same list and renames nothing, i.e. CNAME2 = current name):
        # this call's contract with prefixed0 := prefixed' gives name'' = name'
        ctx.check("post.second-call-renames-nothing(contract instance: every child register is in prefixed')", z3.ForAll([x], z3.Implies(chl(x), z3.Select(Dn, x))))
        if sort:
            T = out; PO = ghost["PO"]
            RT = lambda o: z3.Select(PO, RS(o))
            ctx.check("post(sort).every-register-occurs-in-the-placed-list", z3.ForAll([x], z3.Implies(want(x), z3.And(0 <= RT(x), RT(x) < T.len, T.sel(RT(x)) == x))))
            ctx.check("post(sort).exactly-once", z3.ForAll([p, q], z3.Implies(z3.And(0 <= p, p < q, q < T.len), T.sel(p) != T.sel(q))))
            ctx.check("post(sort).other-slots-hold-new-reserved-registers-only", z3.ForAll([p], z3.Implies(z3.And(0 <= p, p < T.len), z3.Or(T.sel(p) == -2 - p, want(T.sel(p))))))
        if wrong == "excluded": ctx.check("wrong.every-child-register-occurs-even-if-excluded", z3.ForAll([a, j], z3.Implies(z3.And(0 <= a, a < N, w.KIND(a) == CHILD, 0 <= j, j < w.CLEN(a)), S.sel(RS(w.CEL(a, j))) == w.CEL(a, j))))
        if wrong == "always": ctx.check("wrong.child-registers-always-prefixed", z3.ForAll([x], z3.Implies(chl(x), z3.Select(heap.name, x) == z3.Concat(w.KEY(w.OA(x)), z3.StringVal("_"), w.CNAME(x)))))
        if wrong == "own": ctx.check("wrong.own-registers-prefixed", z3.ForAll([x], z3.Implies(z3.And(OWN(x), inc(x)), z3.Select(heap.name, x) != z3.Select(NAME0, x))))
    paths, obl = explore(run, max_paths=400)
    return paths, obl, stats
def c_gatherer(method, prefix_name, sort, has_exclude, first_call):
    t0 = time.time()
    paths, obl, stats = _run_gather(method, prefix_name, sort, has_exclude, first_call)
    out, by = _collect("gatherer", paths, obl, t0)
    consts, funs = stats.pop("world"); consistent = _is_model(stats.pop("axioms"), consts, funs)
    nsteps = len(by.get("gatherer.loop0.step", []))          # one per kind of attribute: excluded / register / child with the method / anything else
    ok = stats["returned"] > 0 and "gatherer.loop0.init" in by and nsteps >= (4 if has_exclude else 3) and consistent == "yes"
    out.append(res("gatherer.cover.returns;one-loop-step-per-attribute-kind;assumptions-satisfied-by-a-concrete-tree", "cover", OK if ok else (UNKNOWN if consistent == "unknown" else VACUOUS), time.time() - t0, "pysym+z3",
                   paths=paths, loop_steps=nsteps, assumptions=str(consistent), **stats))
    return dict(results=out, functions=["litex.soc.interconnect.csr._make_gatherer", f"litex.soc.interconnect.csr.AutoCSR.{method}"],
                samples=[dict(function=f"AutoCSR.{method}", paths=paths, state="object with an unbounded attribute sequence; children with unbounded result lists replaced by the contract; names as z3 strings")])

# ---- native cross-check of the induction argument (bounded): real AutoCSR trees, whole-path names, call orders -------------------------------------
def c_gather_native(ntrees=150, seed=1):
    import random
    t0 = time.time(); rnd = random.Random(seed); bad = []; kinds = set(); checked = 0
    def mktree(depth, reg, path):
        n = rnd.randint(0, 4); entries = []; excl = set()
        for i in range(n):
            nm = rnd.choice(["a", "b", "c", "r", "x_y", "m"]) + str(i); k = rnd.random()
            if depth < 3 and k < 0.35: entries.append(("child", nm, *mktree(depth + 1, reg, path + (nm,))))
            elif k < 0.55: entries.append(("status", nm, rnd.randint(1, 40)))
            elif k < 0.65: entries.append(("csr", nm, rnd.randint(1, 8)))
            else: entries.append(("storage", nm, rnd.randint(1, 70)))
            if rnd.random() < 0.2: excl.add(nm)
        return entries, tuple(sorted(excl))
    for t in range(ntrees):
        entries, excl = mktree(0, {}, ()); reg = {}
        top = _mkmod(entries, excl, reg, ())
        top.plain_attribute = 5; top.some_list = [1, 2]                     # attributes that are neither registers nor gatherers
        want = spec_gather(entries, set(excl))
        order = rnd.choice(["top", "child-first"])
        if order == "child-first":                                          # a child is asked directly before the parent: each level still prefixes exactly once
            for e in entries:
                if e[0] == "child" and e[1] not in excl: getattr(top, e[1]).get_csrs(); break
        got1 = top.get_csrs(); names1 = [c.name for c in got1]
        got2 = top.get_csrs(); names2 = [c.name for c in got2]
        checked += 1
        for e in entries:
            kinds.add("excluded" if e[1] in excl else e[0])
        ok = [c for c in got1] == [reg[pth] for _, pth, _ in want] and names1 == [nm for nm, _, _ in want] and all(x is y for x, y in zip(got1, got2)) and len(got1) == len(got2) and names2 == names1 \
             and [c.duid for c in got1] == sorted(c.duid for c in got1)
        if not ok: bad.append(dict(tree=str(entries)[:300], excluded=excl, got=names1, second=names2, want=[nm for nm, _, _ in want]))
    cov = {"child", "storage", "status", "csr", "excluded"} <= kinds
    return dict(results=[res("native.trees:whole-path-prefix-once-per-level,every-register-once,creation-order,second-call-identical", "bounded", BOUNDED_OK if not bad else VIOLATED, time.time() - t0,
                             "real AutoCSR.get_csrs on random trees (plain CPython)", evaluations=checked, info=str(bad[:2]) if bad else ""),
                         res("cover.native-trees-exercise-every-attribute-kind", "cover", OK if cov and checked else VACUOUS, 0, "plain CPython", kinds=sorted(kinds))],
                functions=["litex.soc.interconnect.csr.AutoCSR.get_csrs (bounded cross-check of the induction over the tree)"], samples=[dict(bounded="AutoCSR.get_csrs", trees=checked)])

# =====================================================================================================================================
# B'. the address map handed to the exporters: SoCCSRHandler.address_map with symbolic names (E3) + the two findings of the array level
# =====================================================================================================================================
class _StrLocs:
    """dict proxy keyed by z3 strings: present[name], val[name]"""
    def __init__(self, pres, val): self.pres, self.val = pres, val
    def get(self, name, default=None):
        if bool(SymBool(z3.Select(self.pres, zs(name)))): return SymInt(z3.Select(self.val, zs(name)))
        return default
    def __getitem__(self, name):
        if not bool(SymBool(z3.Select(self.pres, zs(name)))): raise KeyError(str(name))
        return SymInt(z3.Select(self.val, zs(name)))
    def __setitem__(self, name, n): self.pres = z3.Store(self.pres, zs(name), z3.BoolVal(True)); self.val = z3.Store(self.val, zs(name), toint(n))
def c_address_map():
    """two objects handed to the real SoCCSRHandler.address_map one after the other, handler state arbitrary (injective, in range).  SoCLocHandler.add is replaced
    by its contract (proved in C13_alloc.py: SoCLocHandler.add(reuse): either SoCError or name granted, invariant kept, other names untouched)."""
    t0 = time.time(); stats = dict(done=0, raised=0)
    k1, k2 = z3.Strings("k1 k2")
    def run(ctx):
        ctx.solver.set("timeout", 2000); _robust(ctx)
        NL = 32
        pres = z3.Array("present", z3.StringSort(), z3.BoolSort()); val = z3.Array("loc", z3.StringSort(), I_)
        def inv(P, Vv): return z3.And(z3.ForAll([k1, k2], z3.Implies(z3.And(z3.Select(P, k1), z3.Select(P, k2), k1 != k2), z3.Select(Vv, k1) != z3.Select(Vv, k2))),
                                      z3.ForAll([k1], z3.Implies(z3.Select(P, k1), z3.And(z3.Select(Vv, k1) >= 0, z3.Select(Vv, k1) < NL))))
        ctx.assume(inv(pres, val))
        hnd = SOC.SoCCSRHandler.__new__(SOC.SoCCSRHandler); locs = _StrLocs(pres, val); hnd.locs = locs; hnd.n_locs = NL
        def add_contract(name, n=None, use_loc_if_exists=False):
            if n is not None or not use_loc_if_exists: raise PUnsupported("add() called differently from address_map's use")
            if bool(SymBool(ctx.fresh("add.raises", z3.BoolSort()))): stats["raised"] += 1; raise SOC.SoCError()
            P2 = ctx.fresh("present", pres.sort()); V2 = ctx.fresh("loc", val.sort()); nm = zs(name)
            ctx.assume(z3.And(inv(P2, V2), z3.Select(P2, nm), z3.ForAll([k1], z3.Implies(k1 != nm, z3.And(z3.Select(P2, k1) == z3.Select(locs.pres, k1), z3.Select(V2, k1) == z3.Select(locs.val, k1))))))
            locs.pres, locs.val = P2, V2
        hnd.add = add_contract
        class PMem:
            def __init__(s, nm): s.name_override = SymStr(nm)
        objs = []
        for i in (1, 2):
            ismem = z3.Bool(f"o{i}.is_memory"); objs.append((SymStr(z3.String(f"o{i}.name")), ismem, z3.String(f"o{i}.memory_name")))
        rs = []
        try:
            for nm, ismem, mn in objs:
                mem = PMem(mn) if bool(SymBool(ismem)) else None
                rs.append(toint(SOC.SoCCSRHandler.address_map(hnd, nm, mem)))
        except SOC.SoCError:
            elab.restore_stderr(); return
        stats["done"] += 1
        (n1, m1, mn1), (n2, m2, mn2) = objs
        key = lambda n_, m_, mn_: z3.If(m_, z3.Concat(n_.t, z3.StringVal("_"), mn_), n_.t)
        different = z3.Or(m1 != m2, n1.t != n2.t, z3.And(m1, mn1 != mn2))
        ctx.check("ens.in-range", z3.And(rs[0] >= 0, rs[0] < NL, rs[1] >= 0, rs[1] < NL))
        ctx.check("ens.published:locs[key]==returned-page", z3.And(z3.Select(locs.val, key(n2, m2, mn2)) == rs[1], z3.Select(locs.pres, key(n1, m1, mn1)), z3.Select(locs.val, key(n1, m1, mn1)) == rs[0]))
        ctx.check("ens.different-keys=>different-pages", z3.Implies(key(n1, m1, mn1) != key(n2, m2, mn2), rs[0] != rs[1]))
        ctx.check("ens.two-register-banks-with-different-names=>different-pages", z3.Implies(z3.And(z3.Not(m1), z3.Not(m2), n1.t != n2.t), rs[0] != rs[1]))
        ctx.check("ens.handler-invariant-kept", inv(locs.pres, locs.val))
        ctx.check("finding.different-objects=>different-pages(one object is a memory: key = owner + '_' + memory name)", z3.Implies(different, rs[0] != rs[1]))
    paths, obl = explore(run, max_paths=200)
    elab.restore_stderr()
    out, by = _collect("address_map", paths, obl, t0)
    for r in out:
        if ".finding." in r["name"]:
            r["kind"] = "finding-witness"; r["what"] = "SoCCSRHandler.address_map keys a memory by owner name + '_' + memory name: bank 'a_b' and memory 'b' of module 'a' (or memories a/b_c and a_b/c) get the SAME page"
            rp = replay_addrmap_collision()
            r["status"] = VIOLATED if rp["reproduced"] else (PROVED if r["status"] == PROVED else r["status"]); r["replay_info"] = rp
    out.append(res("address_map.cover.both-calls-return", "cover", OK if stats["done"] >= 4 else VACUOUS, time.time() - t0, "pysym", paths=paths, **stats))
    return dict(results=out, functions=["litex.soc.integration.soc.SoCCSRHandler.address_map"], assumptions=["address_map proof: SoCLocHandler.add(name, use_loc_if_exists=True) replaced by its contract (C13_alloc.py, SoCLocHandler.add(reuse)); names are arbitrary z3 strings"],
                samples=[dict(function="SoCCSRHandler.address_map", paths=paths, state="arbitrary injective name->location map over z3 strings")])

def replay_addrmap_collision():
    """native: module `a` owns a memory named `b`, module `a_b` owns a register; real SoCCSRHandler + CSRBankArray + Interconnect on the real simulator:
    one bus write to the register's published address also changes the memory word"""
    from litex.gen.sim import run_simulation
    class ModA(Module, AutoCSR):
        def __init__(self): self.b = Memory(8, 16, name="b")
    class ModAB(Module, AutoCSR):
        def __init__(self): self.reg = CSRStorage(8, name="reg")
    class Top(Module):
        def __init__(self):
            self.submodules.a = ModA(); self.submodules.a_b = ModAB()
            self.hnd = SOC.SoCCSRHandler(data_width=8, address_width=14, alignment=32, paging=0x800, ordering="big"); elab.restore_stderr()
            self.bus = csr_bus.Interface(data_width=8, address_width=14)
            self.submodules.array = csr_bus.CSRBankArray(self, self.hnd.address_map, data_width=8, address_width=14, paging=0x800)
            self.submodules.ic = csr_bus.Interconnect(self.bus, self.array.get_buses())
    d = Top(); obs = {}
    pages = dict(bank=[m for n, c, m, r in d.array.banks], memory=[m for n, mem, m, r in d.array.srams])
    def gen():
        yield from d.bus.write((pages["bank"][0] << 9) | 0, 0xA5)
        yield
        obs["reg"] = (yield d.a_b.reg.storage); obs["mem0"] = (yield d.a.b[0])
        yield from d.bus.read((pages["bank"][0] << 9) | 0)
        yield
    run_simulation(d, gen())
    return dict(pages=pages, locs=dict(d.hnd.locs), after_one_write_of_0xA5=obs, reproduced=pages["bank"] == pages["memory"] and obs.get("mem0") == 0xA5 and obs.get("reg") == 0xA5)

def replay_bank_overflow(busw=8, paging=0x400, nregs=9, regbits=256):
    """native: a peripheral whose registers need more words than one page (9 x 256 bit on an 8-bit bus = 288 words, page = 256 words): accepted silently; the words
    beyond the page cannot be selected, and the address the SoC publishes for them (page base + 4*index) is word 0.. of the NEXT bank"""
    from litex.gen.sim import run_simulation
    class Big(Module, AutoCSR):
        def __init__(self):
            for i in range(nregs): setattr(self, f"r{i}", CSRStorage(regbits, name=f"r{i}"))
    class Small(Module, AutoCSR):
        def __init__(self): self.v = CSRStorage(8, name="v", reset=0x11)
    class Top(Module):
        def __init__(self):
            self.submodules.big = Big(); self.submodules.small = Small()
            self.hnd = SOC.SoCCSRHandler(data_width=busw, address_width=14, alignment=32, paging=paging, ordering="big"); elab.restore_stderr()
            self.bus = csr_bus.Interface(data_width=busw, address_width=14)
            self.submodules.array = csr_bus.CSRBankArray(self, self.hnd.address_map, data_width=busw, address_width=14, paging=paging)
            self.submodules.ic = csr_bus.Interconnect(self.bus, self.array.get_buses())
    d = Top(); ap = paging // 4; obs = {}
    banks = {n: (m, r) for n, c, m, r in d.array.banks}
    nwords = len(banks["big"][1].simple_csrs)
    # word index `ap` of bank `big` is the most significant byte of r8 (big ordering): published at page_base(big) + 4*ap = bus word address (page<<8) + ap
    target = (banks["big"][0] * ap) + ap
    def gen():
        yield from d.bus.write(target, 0xEE)
        yield
        obs["big.r8"] = (yield d.big.r8.storage); obs["small.v"] = (yield d.small.v.storage)
    run_simulation(d, gen())
    return dict(pages={n: m for n, (m, r) in banks.items()}, words_in_bank_big=nwords, words_per_page=ap, written_word_address=target, after_write_of_0xEE=obs,
                reproduced=nwords > ap and banks["small"][0] == banks["big"][0] + 1 and obs["small.v"] == 0xEE and obs["big.r8"] == 0)
def c_bank_overflow():
    t0 = time.time(); rp = replay_bank_overflow()
    return dict(results=[res("finding.every-register-word-of-a-bank-is-selectable(bank larger than one page: more than paging/4 words)", "finding-witness", VIOLATED if rp["reproduced"] else PROVED, time.time() - t0, "real CSRBankArray + litex.gen.sim",
                             what="CSRBank / CSRBankArray / SoC accept a bank with more words than one page; the excess words are unreachable and their published addresses alias the next bank", replay_info=rp),
                         res("cover.bank-overflow-design-elaborates", "cover", OK, 0, "elaboration")],
                functions=["litex.soc.interconnect.csr_bus.CSRBank.__init__ (page capacity)"], samples=[])

# =====================================================================================================================================
# C. fields
# =====================================================================================================================================
def _run_overlap(wrong=None):
    """CSRFieldAggregate.check_ordering_overlap for a field list of unknown length, arbitrary sizes (>= 1: migen's Signal rejects other widths) and arbitrary
    declared / missing offsets (any integer)"""
    stats = dict(accepted=0, rejected=0)
    k, l = z3.Ints("k l")
    def run(ctx):
        ctx.solver.set("timeout", FEAS_MS); _robust(ctx)
        n = z3.Int("n"); ctx.assume(n >= 0)
        SIZE = z3.Function("field.size", I_, I_); HAS0 = z3.Function("field.offset_declared", I_, z3.BoolSort()); OFF0 = z3.Function("field.declared_offset", I_, I_)
        ctx.assume(z3.ForAll([k], SIZE(k) >= 1))
        st = World(); st.off = z3.Lambda([k], OFF0(k)); st.has = z3.Lambda([k], HAS0(k)); st.COMPONENTS = ("off", "has")
        class PField:
            def __init__(s, i): object.__setattr__(s, "i", i)
            def __getattr__(s, a):
                if a == "offset": return SymInt(z3.Select(st.off, s.i)) if bool(SymBool(z3.Select(st.has, s.i))) else None
                if a == "size": return SymInt(SIZE(s.i))
                if a == "name": return f"<field {s.i}>"
                raise AttributeError(a)
            def __setattr__(s, a, v):
                if a != "offset" or toint(v) is None: raise PUnsupported(f"assignment to .{a}")
                st.off = z3.Store(st.off, s.i, toint(v)); st.has = z3.Store(st.has, s.i, z3.BoolVal(True))
        class FSeq:
            symlen = n
            def __getitem__(s, i): it = toint(i); ctx.assume(z3.And(it >= 0, it < n)); return PField(it)
        O = lambda i: z3.Select(st.off, i); H = lambda i: z3.Select(st.has, i)
        end = lambda i: O(i) + SIZE(i)
        def placed(upto):
            return z3.And(z3.ForAll([k], z3.Implies(z3.And(0 <= k, k < upto), z3.And(H(k), O(k) >= 0, z3.Implies(HAS0(k), O(k) == OFF0(k)), z3.Implies(z3.Not(HAS0(k)), O(k) == z3.If(k == 0, 0, end(k - 1)))))),
                          z3.ForAll([k, l], z3.Implies(z3.And(0 <= k, k < l, l < upto), end(k) <= O(l))),
                          z3.ForAll([k], z3.Implies(k >= upto, z3.And(H(k) == HAS0(k), O(k) == OFF0(k)))))
        def inv(L):
            i = toint(L["i0"]); off = toint(L["offset"])
            return z3.And(placed(i), off == z3.If(i == 0, 0, end(i - 1)), off >= 0, z3.ForAll([k], z3.Implies(z3.And(0 <= k, k < i), end(k) <= off)))
        loops = {0: dict(pos="i0", inv=inv, state=lambda L: [(st, ("off", "has"))], havoc={"offset": "int"})}
        vc = HVC(loops, "check_ordering_overlap")
        f2, src = _rewrite(CSRFieldAggregate.check_ordering_overlap, loops, vc)
        assert src.count("__vc.for_begin") == 1 and 'offset = __st0["hv"]["offset"]' in src.replace("'", '"'), "loop structure changed"
        try:
            f2(FSeq())
        except ValueError:
            stats["rejected"] += 1
            tb = sys_exc_frame("check_ordering_overlap"); i = tb["field"].i; off = toint(tb["offset"])
            # no false rejection: the rejected field declares an offset below the end of the field before it (overlap / out of order) or a negative offset
            ctx.check("ValueError=>declared-offset-overlaps-the-previous-field-or-is-negative", z3.And(0 <= i, i < n, HAS0(i), z3.If(i == 0, OFF0(i) < 0, OFF0(i) < end(i - 1)), placed(i)))
            return
        stats["accepted"] += 1
        ctx.check("accepted=>every-field-has-an-offset>=0", z3.ForAll([k], z3.Implies(z3.And(0 <= k, k < n), z3.And(H(k), O(k) >= 0))))
        ctx.check("accepted=>fields-pairwise-disjoint-and-ascending", z3.ForAll([k, l], z3.Implies(z3.And(0 <= k, k < l, l < n), end(k) <= O(l))))
        ctx.check("accepted=>declared-offsets-kept", z3.ForAll([k], z3.Implies(z3.And(0 <= k, k < n, HAS0(k)), O(k) == OFF0(k))))
        ctx.check("accepted=>automatic-offset-right-after-the-previous-field", z3.ForAll([k], z3.Implies(z3.And(0 <= k, k < n, z3.Not(HAS0(k))), O(k) == z3.If(k == 0, 0, end(k - 1)))))
        ctx.check("accepted=>get_size(end-of-last-field)-covers-every-field", z3.Implies(n > 0, z3.ForAll([k], z3.Implies(z3.And(0 <= k, k < n), end(k) <= end(n - 1)))))
        if wrong == "gapless": ctx.check("wrong.fields-adjacent", z3.ForAll([k], z3.Implies(z3.And(0 < k, k < n), O(k) == end(k - 1))))
    paths, obl = explore(run, max_paths=200)
    return paths, obl, stats
def sys_exc_frame(fname):
    import sys
    tb = sys.exc_info()[2]; fl = None
    while tb is not None:
        if tb.tb_frame.f_code.co_name == fname: fl = tb.tb_frame.f_locals
        tb = tb.tb_next
    return fl
def c_field_overlap():
    t0 = time.time()
    paths, obl, stats = _run_overlap()
    out, by = _collect("check_ordering_overlap", paths, obl, t0)
    _, o2, _ = _run_overlap(wrong="gapless")
    refuted = any(n_.startswith("wrong.") and s_ == "FAILED" for n_, s_, _ in o2)
    # migen rejects non-positive widths (precondition SIZE >= 1 of the proof)
    rej = 0
    for sz in (0, -1, -7):
        try: CSRField("f", size=sz)
        except (TypeError, ValueError, AssertionError): rej += 1
    out.append(res("CSRField.size<=0-rejected-at-construction(migen Signal)", "struct", PROVED if rej == 3 else VIOLATED, 0, "plain CPython"))
    # bounded native cross-check (3 fields, sizes 1..3, offsets None / -1..7): accepted iff every declared offset >= end of the previous field; offsets / size / reset as specified
    badn = []; evals = 0
    import random
    rnd = random.Random(5); grid = [(sz_, of_) for sz_ in itertools.product((1, 2, 3), repeat=3) for of_ in itertools.product((None, -1, 0, 1, 2, 3, 5, 7), repeat=3)]
    for sizes, offs in rnd.sample(grid, 400) + [((1, 2, 3), (0, 1, 3)), ((2, 2, 2), (0, 1, None)), ((1, 1, 1), (None, None, 0)), ((3, 1, 2), (-1, None, None))]:
        if True:
            evals += 1; run_ = 0; exp_ = []; legal = True
            for sz, of in zip(sizes, offs):
                o = run_ if of is None else of
                if o < run_: legal = False; break
                exp_.append(o); run_ = o + sz
            fl = [CSRField(f"f{i}", size=sz, offset=of, reset=(1 << sz) - 1) for i, (sz, of) in enumerate(zip(sizes, offs))]
            try: agg = CSRFieldAggregate(fl, CSRAccess.ReadWrite); acc = True
            except ValueError: acc = False
            if acc != legal: badn.append(dict(sizes=sizes, offsets=offs, accepted=acc, legal=legal)); continue
            if acc and ([f.offset for f in fl] != exp_ or agg.get_size() != run_ or agg.get_reset() != sum(((1 << sz) - 1) << o for sz, o in zip(sizes, exp_))):
                badn.append(dict(sizes=sizes, offsets=offs, got=[f.offset for f in fl], want=exp_, size=agg.get_size(), reset=agg.get_reset()))
    out.append(res("CSRFieldAggregate.native(404 lists of 3 fields: sizes 1..3, offsets None/-1..7)", "bounded", BOUNDED_OK if not badn else VIOLATED, 0, "plain CPython", evaluations=evals, info=str(badn[:2]) if badn else ""))
    ok = stats["accepted"] > 0 and stats["rejected"] > 0 and {"check_ordering_overlap.loop0.init", "check_ordering_overlap.loop0.step"} <= set(by) and refuted
    out.append(res("check_ordering_overlap.cover.accepts-and-rejects;wrong-postcondition-refuted", "cover", OK if ok else VACUOUS, time.time() - t0, "pysym", paths=paths, refuted=refuted, **stats))
    return dict(results=out, functions=["litex.soc.interconnect.csr.CSRFieldAggregate.check_ordering_overlap", "litex.soc.interconnect.csr.CSRFieldAggregate.get_size"],
                samples=[dict(function="check_ordering_overlap", paths=paths, state="field list of unknown length; sizes >= 1, declared offsets arbitrary integers or missing")])

# ---- get_reset: bit b of the register's reset value is bit (b - offset) of the reset value of the field that owns b; 0 outside every field -------------------
def _run_get_reset(wrong=None):
    stats = dict(returned=0)
    k, l, bb, x, y = z3.Ints("k l b x y")
    def run(ctx):
        ctx.solver.set("timeout", FEAS_MS); _robust(ctx)
        n = z3.Int("n"); ctx.assume(n >= 0)
        SIZE = z3.Function("field.size", I_, I_); OFS = z3.Function("field.offset", I_, I_); RV = z3.Function("field.reset_value", I_, I_); FOF = z3.Function("field_of_bit", I_, I_)
        BIT = z3.Function("bit", I_, I_, z3.BoolSort()); OR_ = z3.Function("int.or", I_, I_, I_); SHL = z3.Function("int.lshift", I_, I_, I_)
        # Python int semantics of | and << (bit level), assumed
        ctx.assume(z3.ForAll([x, y, bb], z3.Implies(bb >= 0, BIT(OR_(x, y), bb) == z3.Or(BIT(x, bb), BIT(y, bb)))))
        ctx.assume(z3.ForAll([x, y, bb], z3.Implies(z3.And(bb >= 0, y >= 0), BIT(SHL(x, y), bb) == z3.And(bb >= y, BIT(x, bb - y)))))
        ctx.assume(z3.ForAll([bb], z3.Not(BIT(z3.IntVal(0), bb))))
        # what check_ordering_overlap established (proved above) and what Signal() enforces
        ctx.assume(z3.ForAll([k], SIZE(k) >= 1)); ctx.assume(z3.ForAll([k], z3.Implies(z3.And(0 <= k, k < n), OFS(k) >= 0)))
        ctx.assume(z3.ForAll([k, l], z3.Implies(z3.And(0 <= k, k < l, l < n), OFS(k) + SIZE(k) <= OFS(l))))
        # scenario restriction (see the finding): every field's reset value fits the field
        ctx.assume(z3.ForAll([k, bb], z3.Implies(z3.And(0 <= k, k < n, bb >= SIZE(k)), z3.Not(BIT(RV(k), bb)))))
        # ghost: the field that owns bit b (well defined because the fields are pairwise disjoint)
        ctx.assume(z3.ForAll([k, bb], z3.Implies(z3.And(0 <= k, k < n, OFS(k) <= bb, bb < OFS(k) + SIZE(k)), FOF(bb) == k)))
        ctx.assume(z3.ForAll([bb], z3.Or(FOF(bb) == -1, z3.And(0 <= FOF(bb), FOF(bb) < n, OFS(FOF(bb)) <= bb, bb < OFS(FOF(bb)) + SIZE(FOF(bb))))))
        class BInt(SymInt):
            def __lshift__(s, o): return BInt(SHL(s.t, toint(o)))
            def __or__(s, o): return BInt(OR_(s.t, toint(o)))
            def __ror__(s, o): return BInt(OR_(toint(o), s.t))
        class PField:
            def __init__(s, i): s.i = i
            reset_value = property(lambda s: BInt(RV(s.i))); offset = property(lambda s: SymInt(OFS(s.i))); size = property(lambda s: SymInt(SIZE(s.i)))
        class FSeq:
            symlen = n
            def __getitem__(s, i): it = toint(i); ctx.assume(z3.And(it >= 0, it < n)); return PField(it)
        def inv(L):
            i = toint(L["i0"]); r = toint(L["reset"])
            return z3.ForAll([bb], z3.Implies(bb >= 0, BIT(r, bb) == z3.And(0 <= FOF(bb), FOF(bb) < i, BIT(RV(FOF(bb)), bb - OFS(FOF(bb))))))
        loops = {0: dict(pos="i0", inv=inv, state=lambda L: [], havoc={"reset": lambda c: BInt(c.fresh("reset"))})}
        vc = HVC(loops, "get_reset")
        f2, src = _rewrite(CSRFieldAggregate.get_reset, loops, vc)
        assert src.count("__vc.for_begin") == 1, "loop structure changed"
        agg = World(); agg.fields = FSeq()
        r = toint(f2(agg)); stats["returned"] += 1
        ctx.check("post.every-field-slice-of-the-register-reset==the-field's-reset-value", z3.ForAll([k, bb], z3.Implies(z3.And(0 <= k, k < n, 0 <= bb, bb < SIZE(k)), BIT(r, OFS(k) + bb) == BIT(RV(k), bb))))
        ctx.check("post.bits-outside-every-field-reset-to-0", z3.ForAll([bb], z3.Implies(z3.And(bb >= 0, FOF(bb) == -1), z3.Not(BIT(r, bb)))))
        if wrong == "zero": ctx.check("wrong.reset-is-zero", z3.ForAll([bb], z3.Implies(bb >= 0, z3.Not(BIT(r, bb)))))
    paths, obl = explore(run, max_paths=100)
    return paths, obl, stats
def c_field_reset():
    t0 = time.time()
    paths, obl, stats = _run_get_reset()
    out, by = _collect("get_reset", paths, obl, t0)
    # finding (native witness): a reset value wider than its field is neither rejected nor masked: it lands in the neighbour's bits
    try:
        st = CSRStorage(name="x", fields=[CSRField("a", size=1, reset=5), CSRField("b", size=3, reset=0)]); rv = st.storage.reset.value
        rp = dict(fields="a: size 1 reset 5; b: size 3 reset 0", register_reset=rv, field_b_reset_bits=(rv >> 1) & 7, reproduced=((rv >> 1) & 7) != 0)
    except (ValueError, AssertionError, TypeError) as e:
        rp = dict(rejected=f"{type(e).__name__}: {e}", reproduced=False)
    # (observation only - an over-wide reset value is an ill-formed declaration the property says nothing about: not stated as a clause; DESIGN.md records it)
    ok = stats["returned"] > 0 and {"get_reset.loop0.init", "get_reset.loop0.step"} <= set(by)
    # consistency of the assumption set: the concrete aggregate [size 2 @0 reset 3, size 3 @4 reset 5] with the real bit function of Python ints is a model (checked on a finite window natively)
    agg = CSRFieldAggregate([CSRField("p", size=2, reset=3), CSRField("q", size=3, offset=4, reset=5)], CSRAccess.ReadWrite)
    ok = ok and agg.get_reset() == (3 | (5 << 4)) and agg.get_size() == 7
    out.append(res("get_reset.cover.returns;loop-obligations-generated;concrete-aggregate-agrees", "cover", OK if ok else VACUOUS, time.time() - t0, "pysym", paths=paths, **stats))
    return dict(results=out, functions=["litex.soc.interconnect.csr.CSRFieldAggregate.get_reset"],
                assumptions=["get_reset proof: Python ints at bit level: bit(x|y,b) = bit(x,b) or bit(y,b); bit(x<<k,b) = (b>=k and bit(x,b-k)) for k >= 0; bit(0,b) = false; "
                             "preconditions taken from the proved post-state of check_ordering_overlap (offsets >= 0, fields pairwise disjoint, ascending) and from migen's Signal (size >= 1); "
                             "scenario restriction: every field's reset value fits the field (0 <= reset < 2**size, stated as: no bit at or above `size`) - outside it see finding.field-reset-value-fits-its-field-or-is-rejected"],
                samples=[dict(function="get_reset", paths=paths, state="field list of unknown length; offsets, sizes, reset values symbolic; bit-level model of | and <<")])

# ---- E1: registers built from field lists (pulse fields in any word, multi-bit pulse, both orderings, atomic write) -------------------------------------------
def spec_fields(fields):
    """SPEC: a field with a declared offset sits there; otherwise right after the previous field; -> {name: (offset, size, reset, pulse)}"""
    out = {}; run = 0
    for (nm, size, offset, reset, pulse) in fields:
        o = run if offset is None else offset
        assert o >= run; out[nm] = (o, size, reset, pulse); run = o + size
    return out, run
def c_field_regs(sfields, tfields, busw, ordering, atomic):
    class Top(Module, AutoCSR):
        def __init__(self):
            self.ctrl = CSRStorage(name="ctrl", atomic_write=atomic, fields=[CSRField(nm, size=sz, offset=of, reset=rs, pulse=pl, values=[("0", "off"), ("1", "on")] if nm == "en" else None) for nm, sz, of, rs, pl in sfields])
            self.stat = CSRStatus(name="stat", fields=[CSRField(nm, size=sz, offset=of) for nm, sz, of, rs, pl in tfields])
            self.bus = csr_bus.Interface(data_width=busw, address_width=14)
            self.submodules.bank = csr_bus.CSRBank([self.ctrl, self.stat], address=2, bus=self.bus, ordering=ordering)
    d = mk(Top); bus = d.bus
    ss, ssize = spec_fields(sfields); ts_, tsize = spec_fields(tfields)
    h = HwCheck(f"fields({len(sfields)}+{len(tfields)},bus={busw},{ordering},atomic={atomic})", d, [bus.adr, bus.we, bus.re, bus.dat_w] + [getattr(d.stat.fields, nm) for nm in ts_])
    V = h.v; pre = []
    def struct(name, ok, **info): pre.append(res(name, "struct", PROVED if ok else VIOLATED, 0, "elaboration", **info))
    struct("struct.register-size==end-of-last-field", d.ctrl.size == ssize and d.stat.size == tsize and len(d.ctrl.storage) == ssize and len(d.stat.status) == tsize, got=(d.ctrl.size, d.stat.size), want=(ssize, tsize))
    struct("struct.field-offsets-as-declared-or-right-after-the-previous-field", all(getattr(d.ctrl.fields, nm).offset == ss[nm][0] for nm in ss) and all(getattr(d.stat.fields, nm).offset == ts_[nm][0] for nm in ts_))
    rv = d.ctrl.storage.reset.value
    struct("struct.reset-composition:every-field-slice-of-the-reset==declared-reset,gaps-0", all(((rv >> o) & ((1 << sz) - 1)) == rs for (o, sz, rs, pl) in ss.values()) and rv == sum(rs << o for (o, sz, rs, pl) in ss.values()), reset=hex(rv))
    struct("struct.values-documentation-kept", d.ctrl.fields.en.values == [("0", "off"), ("1", "on")] if "en" in ss else True)
    h.pre_results = pre
    pb = 9; adr = V(bus.adr); idx = z3.Extract(pb - 1, 0, adr); sel = z3.Extract(13, pb, adr) == K(2, 14 - pb)
    we = b(V(bus.we)); nw = (ssize + busw - 1) // busw
    hit_last = z3.And(sel, we, idx == K(nw - 1, pb))          # the register's last address (ctrl is the first register of the bank)
    st = V(d.ctrl.storage); nst = h.n(d.ctrl.storage); re = b(V(d.ctrl.re))
    h.ensure("ens.re:one-cycle-after-a-write-to-the-last-address-only", b(h.n(d.ctrl.re)) == hit_last)
    for nm, (o, sz, rs, pl) in ss.items():
        F = getattr(d.ctrl.fields, nm); sl = z3.Extract(o + sz - 1, o, st)
        if not pl:
            h.ensure(f"ens.field[{nm}]@{o}", V(F) == sl)
        elif rs != 0:
            # a pulse field declared with a non-zero reset value: expressed as a finding (the comb default of the field signal is its reset value)
            h.finding(f"finding.pulse({nm}).idles-at-0-and-lasts-one-cycle(pulse field with non-zero reset value)", V(F) == z3.If(re, sl, K(0, sz)),
                      "CSRField(pulse=True, reset!=0): the field signal idles at its reset value (high all the time, low for one cycle when 0 is written) instead of pulsing for one cycle")
            h.cover(f"cover.pulse[{nm}].written", z3.And(re, sl != K(0, sz)), depth=nw + 3)
        else:
            h.ensure(f"ens.pulse[{nm}]@{o}:field-bits-while-the-write-strobe-is-high,else-0", V(F) == z3.If(re, sl, K(0, sz)))
            h.ensure(f"ens.pulse[{nm}].exactly-the-cycle-after-a-write-access", h.n(F) == z3.If(hit_last, z3.Extract(o + sz - 1, o, nst), K(0, sz)))
            h.ensure_seq(f"ens.pulse[{nm}].lasts-one-cycle-per-write", lambda at, F=F, sz=sz: z3.Implies(z3.Not(at(hit_last, 1)), at(V(F), 2) == K(0, sz)), steps=3)
            h.cover(f"cover.pulse[{nm}]", V(F) != K(0, sz), depth=nw + 3)
    parts = []; top = tsize
    for nm, (o, sz, rs, pl) in sorted(ts_.items(), key=lambda kv: -kv[1][0]):
        if o + sz < top: parts.append(K(0, top - (o + sz)))
        parts.append(V(getattr(d.stat.fields, nm))); top = o
    if top: parts.append(K(0, top))
    h.ensure("ens.status==fields-at-their-offsets,gaps-0", V(d.stat.status) == cat(*parts))
    h.cover("cover.write", hit_last, depth=2)
    h.functions = ["litex.soc.interconnect.csr.CSRFieldAggregate.__init__/check_names/check_ordering_overlap/get_size/get_reset", "litex.soc.interconnect.csr.CSRField.__init__",
                   "litex.soc.interconnect.csr.CSRStorage.__init__/do_finalize (fields)", "litex.soc.interconnect.csr.CSRStatus.__init__/do_finalize (fields)"]
    return h
SF1 = [("en", 1, None, 1, False), ("go", 1, None, 0, True), ("mode", 3, 4, 5, False), ("len", 6, None, 9, False), ("kick", 1, 14, 0, True), ("hi", 5, 17, 0x15, False)]
SF2 = [("burst", 3, 2, 0, True), ("cfg", 9, None, 0x101, False), ("last", 1, 33, 0, True)]
SF3 = [("cfg", 4, None, 3, False), ("fire", 1, None, 1, True), ("tail", 2, 9, 2, False)]
TF1 = [("busy", 1, None, 0, False), ("code", 4, 3, 0, False), ("cnt", 10, 8, 0, False), ("top", 3, 30, 0, False)]

# =====================================================================================================================================
def cases(tier):
    cs = [VCase("composed(A,bus=8,big,paging=0x400,SoCCSRHandler)", c_composed, design_a(8), 8, "big", 0x400),
          VCase("composed(A,bus=32,little,paging=0x800,SoCCSRHandler,shared)", c_composed, design_a(32), 32, "little", 0x800, "soc", True),
          VCase("composed(A,bus=32,big,paging=0x1000,SoCCSRHandler,reserved locations)", c_composed, design_a(32), 32, "big", 0x1000, "soc", False, {"beta": 5, "gamma": 0}),
          VCase("composed(paged,bus=8,little,paging=0x20,table)", c_composed, design_paged(8), 8, "little", 0x20, {"pa": 6, "pa/win": 2, "pb": 7, "pb/rom": 3}),
          VCase("composed(paged,bus=32,big,paging=0x20,table)", c_composed, design_paged(32), 32, "big", 0x20, {"pa": 1, "pa/win": 0, "pb": 2, "pb/rom": 511})]
    if tier == "thorough":
        for busw in (8, 32):
            for ordering in ("big", "little"):
                for paging, aw in ((0x400, 14), (0x800, 15), (0x2000, 16), (0x4000, 18)):
                    cs.append(VCase(f"composed(A,bus={busw},{ordering},paging={paging:#x},aw={aw},SoCCSRHandler,thorough)", c_composed, design_a(busw), busw, ordering, paging, "soc", busw == 32, None, aw))
        cs.append(VCase("AutoCSR.get_csrs(native trees,2000)", c_gather_native, 2000, 7))
    cs += [VCase("AutoCSR.get_csrs(native trees)", c_gather_native), VCase("SoCCSRHandler.address_map(proof)", c_address_map), VCase("CSRBank(bank larger than a page)", c_bank_overflow),
           VCase("CSRFieldAggregate.check_ordering_overlap(proof)", c_field_overlap), VCase("CSRFieldAggregate.get_reset(proof)", c_field_reset)]
    for sf, tf, busw, ordering, atomic, tag in ((SF1, TF1, 8, "big", False, "ctl"), (SF1, TF1, 8, "little", False, "ctl"), (SF1, TF1, 8, "big", True, "ctl"), (SF1, TF1, 32, "big", False, "ctl"),
                                                (SF2, TF1, 32, "little", True, "wide-pulse"), (SF2, TF1, 8, "little", False, "wide-pulse"), (SF2, TF1, 32, "big", False, "wide-pulse"), (SF3, TF1, 8, "big", False, "pulse-with-reset")):
        cs.append(VCase(f"field-registers({tag},bus={busw},{ordering},atomic={atomic})", c_field_regs, sf, tf, busw, ordering, atomic))
    cs.append(VCase("composed(paged,bus=32,little,paging=0x20,table,LiteXModule peripherals)", c_composed, design_paged(32), 32, "little", 0x20, {"pa": 4, "pa/win": 9, "pb": 5, "pb/rom": 1}, False, None, 14, True))
    cs += [VCase("csrprefix(proof)", c_prefix, "csrprefix"), VCase("memprefix(proof)", c_prefix, "memprefix")]
    for method, pf in (("get_csrs", "csrprefix"), ("get_memories", "memprefix"), ("get_constants", "csrprefix")):
        cs.append(VCase(f"AutoCSR.{method}(proof,first call,exclude)", c_gatherer, method, pf, False, True, True))
    cs += [VCase("AutoCSR.get_csrs(proof,later call,exclude)", c_gatherer, "get_csrs", "csrprefix", False, True, False),
           VCase("AutoCSR.get_csrs(proof,first call,no exclude attribute)", c_gatherer, "get_csrs", "csrprefix", False, False, True),
           VCase("AutoCSR.get_csrs(proof,sort=True,first call,exclude)", c_gatherer, "get_csrs", "csrprefix", True, True, True),
           VCase("AutoCSR.get_csrs(proof,sort=True,later call,exclude)", c_gatherer, "get_csrs", "csrprefix", True, True, False)]
    return cs

ASSUMPTIONS = [
    "gatherer proof (E3): the object is a TREE - every register / memory / constant is reachable through exactly one attribute path (an object stored under two attribute names, or a child shared by two parents, is outside the contract: "
    "natively such an object is returned twice); migen's DUID gives every object a different duid (objects are identified with their duid); xdir(obj, True) enumerates (name, value) of every attribute once; "
    "attribute kinds: an instance of the gathered class | a value with a callable attribute of the method's name | anything else (ignored); a child's method obeys the contract proved here (induction over the tree): it returns the same "
    "duplicate-free list at every call and changes names of objects of that list only; builtin sorted(list, key) returns a new ascending permutation; _sort_gathered_items replaced by the contract proved in C12_sort_proof.py; "
    "csrprefix/memprefix replaced inside the gatherer by the contract proved in the cases csrprefix(proof)/memprefix(proof); Python list/set semantics assumed for the proxies ([] new empty list, append, +=, set(), in, add); "
    "`exclude` membership is an arbitrary predicate on attribute names; termination not proved",
    "gatherer proof: ghost functions defined by recursion / as inverse maps (offset(a) = number of list entries of the attributes before a; owner attribute and index of an object; first occurrence in csrprefix's list) are conservative "
    "definitions; the assumption set is shown consistent by verifying one concrete tree against every assumed formula",
    "composed designs (E1): CSR names given explicitly; all masters but one of InterconnectShared idle (drive zero); CSR memories as wide as the bus (other shapes in C12_csr_sram.py); designs, bus widths, orderings, pagings from a grid; "
    "all bus / device input valuations and all register / memory states",
    "address_map proof: SoCLocHandler.add(name, use_loc_if_exists=True) replaced by its contract (C13_alloc.py); names arbitrary z3 strings",
    "field proofs: field sizes >= 1 (migen Signal rejects other widths; checked natively); offsets arbitrary integers or None; get_reset under the scenario restriction 'every reset value fits its field' (finding outside it)",
]
