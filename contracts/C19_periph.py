"""C19: serial peripherals and timers produce exact waveforms and always finish.
Timer / Watchdog (ghost elapsed counters behind a real CSRBank), RS232 phase accumulator and TX framing (symbolic 32-bit tuning word),
SPIMaster (pulse count, MSB-first data, chip-select framing, termination by a ranking function)."""
import z3
from vf.elab import L, locals_of, mk
from vf.hw import *
from migen import *
from litex.gen import LiteXModule
from litex.soc.cores.timer import Timer
from litex.soc.cores.watchdog import Watchdog
from litex.soc.cores.uart import RS232PHYTX, RS232ClkPhaseAccum
from litex.soc.cores.spi import SPIMaster
from litex.soc.interconnect import csr_bus
from vf.core import Case

def c_timer(width=8):
    class Top(LiteXModule):
        def __init__(self):
            self.t = Timer(width)
            self.bus = csr_bus.Interface(data_width=32, address_width=14)
            self.bank = csr_bus.CSRBank(self.t.get_csrs(), address=0, bus=self.bus)
    d = mk(Top); t = d.t
    h = HwCheck(f"Timer({width})", d, [d.bus.adr, d.bus.we, d.bus.re, d.bus.dat_w])
    value = L(t, "value")
    if value is None or value not in h.ts.var:
        value = [s for s in h.ts.state if s.nbits == width and s not in (t._load.storage, t._reload.storage, t._value.status)][0]
    en = h.v(t._en.storage); load = h.v(t._load.storage); reload_ = h.v(t._reload.storage)
    V = h.v(value)
    h.ensure("ens.disabled", z3.Implies(z3.Not(b(en)), h.n(value) == load))                             # disabled: value follows load
    h.ensure("ens.count",    z3.Implies(z3.And(b(en), V != K(0, width)), h.n(value) == V - 1))         # one step per enabled cycle
    h.ensure("ens.reload",   z3.Implies(z3.And(b(en), V == K(0, width)), h.n(value) == reload_))       # reload at zero (stays 0 if reload==0: one-shot)
    h.ensure("ens.trigger",  b(h.v(t.ev.zero.trigger)) == (V == K(0, width)))                          # event exactly when the count is zero
    h.ensure("ens.latch",    z3.Implies(b(h.v(t._update_value.re)), h.n(t._value.status) == V))
    GW = width + 1
    el = h.ghost("elapsed", GW); gl = h.ghost("gload", width); run = h.ghost("running", 1)
    h.ghost_next(run, z3.If(z3.Not(b(h.n(t._en.storage))), K(0, 1), z3.If(z3.And(z3.Not(b(en)), b(h.n(t._en.storage))), K(1, 1), z3.If(V == K(0, width), K(0, 1), run))))
    h.ghost_next(gl, z3.If(z3.Not(b(en)), load, gl))
    h.ghost_next(el, z3.If(z3.Not(b(en)), K(0, GW), z3.If(b(run), el + 1, el)))
    h.hint("oneshot", z3.Implies(z3.And(b(en), b(run)), z3.And(zx(V, GW) + el == zx(gl, GW), z3.ULE(el, zx(gl, GW)))))
    h.hint("run->en", z3.Implies(b(run), b(en)))
    h.hint("idle", z3.Implies(z3.Not(b(en)), el == K(0, GW)))
    h.ensure("ens.oneshot", z3.Implies(z3.And(b(en), b(run)), (V == K(0, width)) == (el == zx(gl, GW))))     # first zero exactly `load` cycles after enable
    h.cover("cover.zero", z3.And(b(en), b(run), V == K(0, width), el == K(3, GW)), depth=12)
    h.bmc_depth = 12
    h.functions = ["litex.soc.cores.timer.Timer.__init__"]
    return h

def c_watchdog(width=8):
    class Top(LiteXModule):
        def __init__(self):
            self.halt = Signal()
            self.w = Watchdog(width, halted=self.halt)
            self.bus = csr_bus.Interface(data_width=32, address_width=14)
            self.bank = csr_bus.CSRBank(self.w.get_csrs(), address=0, bus=self.bus)
    d = mk(Top); w = d.w
    h = HwCheck(f"Watchdog({width})", d, [d.bus.adr, d.bus.we, d.bus.re, d.bus.dat_w, d.halt])
    rem = w._remaining.status; R = h.v(rem); cyc = h.v(w._cycles.storage)
    feed, en = b(h.v(w.feed)), b(h.v(w.enable))
    h.ensure("ens.feed", z3.Implies(feed, h.n(rem) == cyc))                                             # feed reloads
    h.ensure("ens.count", z3.Implies(z3.And(z3.Not(feed), en, R != K(0, width)), h.n(rem) == R - 1))   # one step per enabled cycle
    h.ensure("ens.saturate", z3.Implies(z3.And(z3.Not(feed), en, R == K(0, width)), h.n(rem) == R))     # saturates at zero
    h.ensure("ens.stop", z3.Implies(z3.And(z3.Not(feed), z3.Not(en)), h.n(rem) == R))                   # paused/disabled: holds
    h.ensure("ens.execute", z3.Implies(z3.And(z3.Not(feed), en), b(h.n(w.execute)) == (R == K(0, width))))  # time-out flagged exactly when the count has reached zero
    h.ensure("ens.enable", en == z3.And(b(h.v(w._control.fields.enable)), z3.Not(z3.And(b(h.v(d.halt)), b(h.v(w._control.fields.pause_halted))))))
    h.ensure("ens.trigger", b(h.v(w.ev.wdt.trigger)) == z3.And(en, b(h.v(w.execute))))
    h.cover("cover.execute", b(h.v(w.execute)), depth=8)
    h.functions = ["litex.soc.cores.watchdog.Watchdog.__init__"]
    return h

def c_phase_accum():
    class Top(LiteXModule):
        def __init__(self):
            self.tw = Signal(32); self.acc = RS232ClkPhaseAccum(self.tw, "tx")
    d = mk(Top); a = d.acc
    h = HwCheck("RS232ClkPhaseAccum(tx)", d, [d.tw, a.enable])
    phase = [s for s in h.ts.state if s.nbits == 32][0]
    P = h.v(phase); tw = h.v(d.tw)
    s33 = zx(P, 33) + zx(tw, 33)
    h.ensure("ens.accumulate", z3.Implies(b(h.v(a.enable)), z3.And(h.n(phase) == z3.Extract(31, 0, s33), h.n(a.tick) == z3.Extract(32, 32, s33))))   # tick == carry of the 32-bit accumulation
    h.ensure("ens.idle", z3.Implies(z3.Not(b(h.v(a.enable))), z3.And(h.n(phase) == tw, h.n(a.tick) == K(0, 1))))
    # period: with a constant tuning word the ticks are separated by floor(2^32/tw) or ceil(2^32/tw) cycles  <=>  exact accumulation above
    h.functions = ["litex.soc.cores.uart.RS232ClkPhaseAccum.__init__"]
    return h

def c_uart_tx():
    class Pads:
        def __init__(self): self.tx = Signal(); self.rx = Signal()
    pads = Pads()
    class Top(LiteXModule):
        def __init__(self):
            self.tw = Signal(32)
            self.tx = RS232PHYTX(pads, self.tw)
    d = mk(Top); tx = d.tx; sink = tx.sink
    h = HwCheck("RS232PHYTX", d, [d.tw, sink.valid, sink.data])
    st, enc = tx.fsm.state, tx.fsm.encoding
    count, data = L(tx, "count"), L(tx, "data"); tick = tx.clk_phase_accum.tick
    p_off = h.prev("offer", bv1(z3.And(b(h.v(sink.valid)), z3.Not(b(h.v(sink.ready)))))); p_dat = h.prev("dat", h.v(sink.data))
    h.assume(z3.Implies(b(p_off), z3.And(b(h.v(sink.valid)), h.v(sink.data) == p_dat)), "producer holds valid/data until ready")
    gb = h.ghost("byte", 8); nt = h.ghost("nticks", 4)
    idle = eqc(h.v(st), enc["IDLE"]); run = eqc(h.v(st), enc["RUN"])
    begin = z3.And(idle, b(h.v(sink.valid)))
    h.ghost_next(gb, z3.If(begin, h.v(sink.data), gb))
    h.ghost_next(nt, z3.If(idle, K(0, 4), z3.If(z3.And(run, b(h.v(tick))), nt + 1, nt)))
    frame = z3.Concat(K(1, 1), gb, K(0, 1))          # bit 0 = start, 1..8 = data LSB first, 9 = stop
    def fbit(i): return z3.Extract(i, i, frame)
    spec_tx = fbit(9)
    for i in reversed(range(9)): spec_tx = z3.If(nt == K(i, 4), fbit(i), spec_tx)
    h.hint("st", ult(h.v(st), 2)); h.hint("nt<=9", z3.Implies(run, ule(nt, 9)))
    if count is not None and count in h.ts.var: h.hint("cnt", z3.Implies(run, h.v(count) == nt))
    h.hint("idle nt", z3.Implies(idle, z3.Or(nt == K(0, 4), nt == K(10, 4))))
    if data is not None and data in h.ts.var: h.hint("shift", z3.Implies(run, h.v(data) == z3.Extract(7, 0, z3.LShR(z3.Concat(K(0x3FF, 10), gb), zx(nt, 18)))))
    h.hint("line", z3.Implies(run, h.v(pads.tx) == spec_tx))
    h.hint("line_idle", z3.Implies(idle, h.v(pads.tx) == K(1, 1)))
    h.use_auto = True
    h.ensure("ens.line", z3.Implies(run, h.v(pads.tx) == spec_tx))               # start, d0..d7 LSB first, stop - one bit per accumulator tick
    h.ensure("ens.idle_high", z3.Implies(idle, h.v(pads.tx) == K(1, 1)))
    h.ensure("ens.ready", b(h.v(sink.ready)) == z3.And(run, b(h.v(tick)), nt == K(9, 4)))  # byte acknowledged exactly once, at the end of the stop bit
    h.ensure("ens.done", z3.Implies(z3.And(run, b(h.v(tick)), nt == K(9, 4)), eqc(h.n(st), enc["IDLE"])))   # back to idle
    h.ensure("ens.accum-enabled", b(h.v(tx.clk_phase_accum.enable)) == run)        # bit period = accumulator ticks while running
    h.respond("resp.start", b(h.v(sink.valid)), run, 2)
    h.cover("cover.frame", b(h.v(sink.ready)), depth=24)
    h.bmc_depth = 24
    h.functions = ["litex.soc.cores.uart.RS232PHYTX.__init__", "litex.soc.cores.uart.RS232ClkPhaseAccum.__init__"]
    return h

def c_spi(dw=8, mode="raw", ncs=1):
    pads_in = None if ncs == 1 else Record([("clk", 1), ("cs_n", ncs), ("mosi", 1), ("miso", 1)])          # several chip selects: the framing clause is per line
    d = mk(SPIMaster, pads_in, dw, 100e6, 25e6, with_csr=False, mode=mode)
    pads = d.pads
    h = HwCheck(f"SPIMaster(dw={dw},{mode}{',cs=' + str(ncs) if ncs > 1 else ''})", d, [d.start, d.length, d.mosi, d.cs, d.cs_mode, d.loopback, d.clk_divider, pads.miso])
    st, enc = d.fsm.state, d.fsm.encoding
    idle, sstart, run, stop = [eqc(h.v(st), enc[n]) for n in ("IDLE", "START", "RUN", "STOP")]
    busy = z3.Not(idle)
    pdiv = h.const("div", 16); plen = h.const("len", 8)
    h.assume(z3.And(h.v(d.clk_divider) == pdiv, uge(pdiv, 2)), "the clock divider is configuration: constant and >= 2")
    h.assume(z3.And(h.v(d.length) == plen, uge(plen, 1), ule(plen, dw)), "transfer length constant during a transfer, 1..data_width (modelled as a rigid constant)")
    p_busy = h.prev("busy", bv1(busy))
    np_ = h.ghost("npulses", 9)
    rise = z3.And(z3.Not(b(h.v(pads.clk))), b(h.n(pads.clk)))
    h.ghost_next(np_, z3.If(idle, K(0, 9), z3.If(rise, np_ + 1, np_)))
    count = L(d, "count"); cdiv = L(d, "clk_divider")
    W = 32
    div = zx(pdiv, W); cnt = zx(h.v(cdiv), W); ln = zx(plen, W); c_ = zx(h.v(count), W)
    half = z3.LShR(div, 1)
    h.hint("cnt<div", z3.ULT(cnt, div))
    h.hint("clk", b(h.v(pads.clk)) == z3.And(run, z3.UGE(cnt, half)))
    h.hint("np", z3.Implies(run, np_ == zx(h.v(count), 9) + zx(h.v(pads.clk), 9)))
    h.hint("np0", z3.Implies(sstart, np_ == K(0, 9)))
    h.hint("npstop", z3.Implies(stop, np_ == zx(plen, 9)))
    h.hint("count<len", z3.Implies(run, z3.ULT(c_, ln)))
    h.hint("st", ult(h.v(st), 4))
    h.hint("stop-phase", z3.Implies(stop, z3.ULT(cnt, half)))
    h.ensure("ens.pulse-only-in-run", z3.Implies(rise, run))
    h.ensure("ens.pulses", z3.Implies(z3.And(run, eqc(h.n(st), enc["STOP"])), np_ == zx(plen, 9)))        # exactly `length` clock pulses per transfer
    h.ensure("ens.pulses.stop", z3.Implies(stop, np_ == zx(plen, 9)))
    h.ensure("ens.done", b(h.v(d.done)) == z3.And(idle, z3.Not(b(h.v(d.start)))))
    h.ensure("ens.clk-idle-low", z3.Implies(z3.Not(run), z3.Not(b(h.v(pads.clk)))))                      # clock idles low (mode 0)
    # chip-select framing: asserted (low) one cycle after every cycle of the transfer proper, for the selected chip only
    xfer = z3.Or(run, stop, z3.And(sstart, cnt == div - 1))
    ncs_ = h.v(d.cs).size()
    h.ensure("ens.cs", h.n(pads.cs_n) == ~(h.v(d.cs) & z3.If(z3.Or(xfer, b(h.v(d.cs_mode))), K((1 << ncs_) - 1, ncs_), K(0, ncs_))))       # every selected line, and only those, framed by the transfer (or held in manual mode)
    # MSB-first data: during the k-th clock period of the transfer MOSI carries bit (top - k) of the word latched at start
    gd = h.ghost("gdata", dw); h.ghost_next(gd, z3.If(z3.And(idle, b(h.v(d.start))), h.v(d.mosi), gd))
    md = L(d, "mosi_data"); ms = L(d, "mosi_sel")
    top = (zx(plen, 9) - 1) if mode == "aligned" else K(dw - 1, 9)
    def bit_at(word, idx9):
        r = z3.Extract(dw - 1, dw - 1, word)
        for j in reversed(range(dw - 1)): r = z3.If(idx9 == K(j, 9), z3.Extract(j, j, word), r)
        return r
    if md is not None and ms is not None and md in h.ts.var and ms in h.ts.var:
        h.hint("md", z3.Implies(busy, h.v(md) == gd))
        h.hint("ms.start", z3.Implies(sstart, zx(h.v(ms), 9) == top))
        MW = h.v(ms).size()
        h.hint("ms.run", z3.Implies(run, z3.Extract(MW - 1, 0, zx(h.v(ms), 9) + zx(h.v(count), 9) + 1) == z3.Extract(MW - 1, 0, top)))
        h.hint("mosi.run", z3.Implies(run, h.v(pads.mosi) == bit_at(gd, top - zx(h.v(count), 9))))
    h.ensure("ens.mosi", z3.Implies(z3.And(run, rise), h.v(pads.mosi) == bit_at(gd, top - zx(h.v(count), 9))))      # sampled at the rising edge
    # termination ("always finishes"): a ranking function strictly decreases in every busy cycle
    # lexicographic ranking (periods still to go, cycles to the end of the current divider period): well-founded on naturals
    def periods(stx, cx):
        return z3.If(eqc(stx, enc["START"]), ln + 2, z3.If(eqc(stx, enc["RUN"]), ln - cx + 1, z3.If(eqc(stx, enc["STOP"]), K(1, W), K(0, W))))
    p0 = periods(h.v(st), c_); p1 = periods(h.n(st), zx(h.n(count), W))
    q0 = div - cnt; q1 = div - zx(h.n(cdiv), W)
    h.ensure("ens.rank", z3.Implies(busy, z3.Or(eqc(h.n(st), enc["IDLE"]), z3.ULT(p1, p0), z3.And(p1 == p0, z3.ULT(q1, q0)))))
    h.cover("cover.stop", stop, depth=14)
    h.bmc_depth = 14
    h.functions = ["litex.soc.cores.spi.spi_master.SPIMaster.__init__"]
    return h

def c_waittimer(t):
    from contracts.C11_timeout import c_waittimer as w
    return w(t)

def cases(tier):
    cs = [Case(f"WaitTimer({t})", c_waittimer, t) for t in (1, 3, 8, 100)] + [Case("Timer(8)", c_timer, 8), Case("Timer(32)", c_timer, 32), Case("Watchdog(8)", c_watchdog, 8), Case("Watchdog(32)", c_watchdog, 32),
          Case("RS232ClkPhaseAccum", c_phase_accum), Case("RS232PHYTX", c_uart_tx),
          Case("SPIMaster(8,raw)", c_spi, 8, "raw"), Case("SPIMaster(8,aligned)", c_spi, 8, "aligned"), Case("SPIMaster(8,raw,cs=4)", c_spi, 8, "raw", 4)]
    if tier == "thorough": cs += [Case("SPIMaster(16,raw)", c_spi, 16, "raw"), Case("SPIMaster(32,aligned)", c_spi, 32, "aligned")]
    return cs

ASSUMPTIONS = ["WaitTimer: done exactly after t consecutive wait cycles and held (saturating) while wait stays high (same contract as in C11); timeline is in C19_serial_ext.py, PWM in C19_pwm.py",
               "UART: transmitter framing and bit period (accumulator carry) proved for every 32-bit tuning word; the receiver (RS232PHYRX: frame recovery, phase offsets, +-2% rate mismatch) is NOT covered",
               "SPI master: divider and length are configuration constants during a transfer; SPISlave and the I2C master are in C19_serial_ext.py",
               "'always finishes' is proved for the SPI master by a ranking function that strictly decreases in every busy cycle, for the UART TX by the tick-counting invariant (10 ticks per frame; tick liveness needs tuning word != 0)"]
