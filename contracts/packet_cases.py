"""Contract builders for litex/soc/interconnect/packet.py (C16 data/framing clauses; C04 hold/progress clauses)."""
import z3
from .streamlib import *
from litex.gen import LiteXModule
from litex.soc.interconnect.packet import *
from litex.soc.interconnect import packet as pk

LAY = [("data", 4)]
def holds(h, ep, name): producer_holds(h, ep, name=name)

def spec_header_bits(fields, length, swap, getf):
    """independent spec of the header word (from the header definition): bit (byte*8+offset+i) of the header is bit i of the
    field, with the field's bytes reversed when swap_field_bytes is set (network byte order)"""
    bits = {}
    for name, f in fields.items():
        val = getf(name); w = f.width
        if swap:
            nb = (w + 7) // 8; chunks = [z3.Extract(min((i + 1) * 8, w) - 1, i * 8, val) for i in range(nb)]
            val = z3.Concat(*chunks) if nb > 1 else chunks[0]
        for i in range(w): bits[f.byte * 8 + f.offset + i] = z3.Extract(i, i, val)
    return bits

FIELDS = {"a": HeaderField(0, 0, 8), "b": HeaderField(1, 0, 16), "c": HeaderField(3, 4, 4), "d": HeaderField(3, 0, 3), "e": HeaderField(4, 0, 32)}
FIELDS3 = {"a": HeaderField(0, 0, 8), "b": HeaderField(1, 0, 16)}
FIELDS_ODD = {"x": HeaderField(0, 1, 5), "y": HeaderField(1, 0, 24), "z": HeaderField(4, 3, 13), "w": HeaderField(6, 0, 48)}

def c_header(fields, length, swap):
    hdr = Header(fields, length, swap_field_bytes=swap)
    class Top(Module):
        def __init__(self):
            self.src = Record(hdr.get_layout()); self.dst = Record(hdr.get_layout()); self.word = Signal(length * 8); self.word_in = Signal(length * 8)
            self.rt = Record(hdr.get_layout())
            self.comb += hdr.encode(self.src, self.word)
            self.comb += hdr.decode(self.word_in, self.dst)
            self.comb += hdr.decode(self.word, self.rt)
    try:
        d = mk(Top); h = HwCheck(f"Header(len={length},swap={swap},fields={''.join(fields)})", d, [getattr(d.src, n) for n in fields] + [d.word_in])
    except Exception as e:
        # Header.encode/decode (or a helper they use, e.g. reverse_bytes) raised / built an ill-formed expression for a LEGAL header definition:
        # that is a verdict about the code under contract, not a harness fault
        return dict(results=[res("ens.layout", "ensures", VIOLATED, 0, "executed", info=f"Header(len={length}, swap={swap}) with fields {sorted(fields)}: encode/decode could not be elaborated: {type(e).__name__}: {e}")],
                    functions=["litex.soc.interconnect.packet.Header.encode", "litex.soc.interconnect.packet.Header.decode"], samples=[])
    bits = spec_header_bits(fields, length, swap, lambda n: h.v(getattr(d.src, n)))
    h.ensure("ens.layout", z3.And(*[z3.Extract(p, p, h.v(d.word)) == t for p, t in bits.items()]))
    h.ensure("ens.unused0", z3.And(*[z3.Extract(p, p, h.v(d.word)) == K(0, 1) for p in range(length * 8) if p not in bits]))
    bits_in = spec_header_bits(fields, length, swap, lambda n: h.v(getattr(d.dst, n)))
    # decode is the inverse on the same layout, field by field.  Scenario of the listed known finding: byte-swapped field wider than
    # 8 bits whose width is not a multiple of 8 (reverse_bytes is not an involution there); every other field must be proved.
    overlapped = set()
    seen = {}
    for n, f in sorted(fields.items()):
        for i in range(f.width):
            pz = f.byte * 8 + f.offset + i
            if pz in seen: overlapped |= {n, seen[pz]}
            seen[pz] = n
    for n, f in fields.items():
        fb = spec_header_bits({n: f}, length, swap, lambda nn: h.v(getattr(d.dst, nn)))
        odd = swap and f.width > 8 and f.width % 8 != 0
        dec = z3.And(*[z3.Extract(p, p, h.v(d.word_in)) == t for p, t in fb.items()])
        rt = h.v(getattr(d.rt, n)) == h.v(getattr(d.src, n))
        if odd:
            h.finding(f"finding.roundtrip.{n}", rt, "Header.decode is not the inverse of Header.encode for a swapped field of width > 8 and not a multiple of 8")
        else:
            h.ensure(f"ens.decode.{n}", dec)
            if n not in overlapped: h.ensure(f"ens.roundtrip.{n}", rt)
    h.functions = ["litex.soc.interconnect.packet.Header.encode", "litex.soc.interconnect.packet.Header.decode", "litex.soc.interconnect.packet.Header.get_field", "litex.soc.interconnect.packet.Header.get_layout", "litex.gen.common.reverse_bytes"]
    return h

def c_packetizer(dw, fields, length, swap=True):
    hdr = Header(fields, length, swap_field_bytes=swap)
    sink_desc = stream.EndpointDescription([("data", dw)], hdr.get_layout()); src_desc = stream.EndpointDescription([("data", dw)])
    d = mk(Packetizer, sink_desc, src_desc, hdr); sink, source = d.sink, d.source
    hw = (length * 8) // dw; assert length * 8 % dw == 0
    h = HwCheck(f"Packetizer(dw={dw},hdr={length}B)", d, ep_inputs(sink, source))
    producer_holds(h, sink)
    PW = max(2, (hw + 1).bit_length())
    ph = h.ghost("phase", PW); ghdr = h.ghost("hdr", length * 8)
    in_fire, out_fire = fire(h, sink), fire(h, source)
    bits = spec_header_bits(fields, length, swap, lambda n: h.v(getattr(sink, n)))
    spec_now = z3.Concat(*[bits.get(p, K(0, 1)) for p in reversed(range(length * 8))])
    in_hdr = ult(ph, hw)
    h.ghost_next(ph, z3.If(out_fire, z3.If(in_hdr, ph + 1, z3.If(b(h.v(source.last)), K(0, PW), ph)), ph))
    h.ghost_next(ghdr, z3.If(z3.And(out_fire, ph == K(0, PW)), spec_now, ghdr))
    def word(p, hv): return z3.Extract(dw * (p + 1) - 1, dw * p, hv)
    spec_word = word(0, spec_now)
    for p in range(1, hw): spec_word = z3.If(ph == K(p, PW), word(p, ghdr), spec_word)
    try:
        st, enc = d.fsm.state, d.fsm.encoding; sr, count = L(d, "sr"), L(d, "count")
        h.hint("idle", eqc(h.v(st), enc["IDLE"]) == (ph == K(0, PW)))
        if hw > 1:
            h.hint("hs", eqc(h.v(st), enc["HEADER-SEND"]) == z3.And(ugt(ph, 0), in_hdr))
            h.hint("cnt", z3.Implies(z3.And(ugt(ph, 0), in_hdr), zx(h.v(count), PW) == ph))
            for p in range(1, hw):
                h.hint(f"sr@{p}", z3.Implies(ph == K(p, PW), z3.Extract(dw * 2 - 1, dw, h.v(sr)) == word(p, ghdr)))
                for q in range(p + 1, hw):
                    h.hint(f"sr@{p}.{q}", z3.Implies(ph == K(p, PW), z3.Extract(dw * (q - p + 2) - 1, dw * (q - p + 1), h.v(sr)) == word(q, ghdr)))
        h.hint("copy", eqc(h.v(st), enc["ALIGNED-DATA-COPY"]) == (ph == K(hw, PW)))
        h.hint("st", ult(h.v(st), len(enc)))
    except (AttributeError, KeyError, TypeError): pass
    h.hint("ph<=hw", ule(ph, hw))
    h.hint("busy->offer", z3.Implies(ph != K(0, PW), z3.Or(b(h.ghosts["prev_offer"][0]), ph == K(hw, PW))))
    h.use_auto = True
    h.ensure("ens.hdr", z3.Implies(in_hdr, z3.And(b(h.v(source.valid)) == z3.Or(b(h.v(sink.valid)), ph != K(0, PW)), z3.Implies(b(h.v(source.valid)), z3.And(h.v(source.data) == spec_word, z3.Not(b(h.v(source.last))))), z3.Not(in_fire))))
    h.ensure("ens.payload", z3.Implies(z3.Not(in_hdr), z3.And(h.v(source.valid) == h.v(sink.valid), z3.Implies(b(h.v(source.valid)), z3.And(h.v(source.data) == h.v(sink.data), h.v(source.last) == h.v(sink.last))), in_fire == out_fire)))
    hold_clause(h, source)
    h.respond("resp.move", z3.And(b(h.v(sink.valid)), b(h.v(source.ready))), out_fire, 1)
    h.cover("cover.payload", z3.And(out_fire, z3.Not(in_hdr)), depth=hw + 3)
    h.functions = ["litex.soc.interconnect.packet.Packetizer.__init__", "litex.soc.interconnect.packet.Header.encode"]
    return h

def c_depacketizer(dw, fields, length, swap=True):
    hdr = Header(fields, length, swap_field_bytes=swap)
    sink_desc = stream.EndpointDescription([("data", dw)]); src_desc = stream.EndpointDescription([("data", dw)], hdr.get_layout())
    d = mk(Depacketizer, sink_desc, src_desc, hdr); sink, source = d.sink, d.source
    hw = (length * 8) // dw; assert length * 8 % dw == 0
    h = HwCheck(f"Depacketizer(dw={dw},hdr={length}B)", d, ep_inputs(sink, source))
    producer_holds(h, sink)
    PW = max(2, (hw + 1).bit_length())
    ph = h.ghost("phase", PW)                       # header words received so far (hw = in payload)
    gw = [h.ghost(f"hw{p}", dw) for p in range(hw)]  # the received header words
    in_fire, out_fire = fire(h, sink), fire(h, source)
    in_hdr = ult(ph, hw)
    h.ghost_next(ph, z3.If(z3.And(in_hdr, in_fire), ph + 1, z3.If(z3.And(z3.Not(in_hdr), out_fire, b(h.v(source.last))), K(0, PW), ph)))
    for p in range(hw): h.ghost_next(gw[p], z3.If(z3.And(in_fire, ph == K(p, PW)), h.v(sink.data), gw[p]))
    ghdr = cat(*reversed(gw))                          # header word 0 is received first and holds header bytes 0..dw/8-1
    bits = spec_header_bits(fields, length, swap, lambda n: h.v(getattr(source, n)))
    try:
        st, enc = d.fsm.state, d.fsm.encoding; sr, count = L(d, "sr"), L(d, "count")
        h.hint("idle", eqc(h.v(st), enc["IDLE"]) == (ph == K(0, PW)))
        if hw > 1:
            h.hint("hr", eqc(h.v(st), enc["HEADER-RECEIVE"]) == z3.And(ugt(ph, 0), in_hdr))
            h.hint("cnt", z3.Implies(z3.And(ugt(ph, 0), in_hdr), zx(h.v(count), PW) == ph))
        h.hint("copy", eqc(h.v(st), enc["ALIGNED-DATA-COPY"]) == (ph == K(hw, PW)))
        h.hint("st", ult(h.v(st), len(enc)))
        # shift register: after p words, word q (q<p) sits at position hw - p + q
        for p in range(1, hw + 1):
            for q in range(p):
                pos = hw - p + q
                h.hint(f"sr@{p}.{q}", z3.Implies(ph == K(p, PW), z3.Extract(dw * (pos + 1) - 1, dw * pos, h.v(sr)) == gw[q]))
    except (AttributeError, KeyError, TypeError): pass
    h.hint("ph<=hw", ule(ph, hw))
    h.use_auto = True
    h.ensure("ens.hdr", z3.Implies(in_hdr, z3.And(b(h.v(sink.ready)), z3.Not(b(h.v(source.valid))))))          # header words are consumed, nothing emitted
    h.ensure("ens.payload", z3.Implies(z3.Not(in_hdr), z3.And(h.v(source.valid) == h.v(sink.valid), z3.Implies(b(h.v(source.valid)), z3.And(h.v(source.data) == h.v(sink.data), h.v(source.last) == h.v(sink.last))), h.v(sink.ready) == h.v(source.ready))))
    h.ensure("ens.fields", z3.Implies(z3.Not(in_hdr), z3.And(*[z3.Extract(p, p, ghdr) == t for p, t in bits.items()])))    # decoded fields == the prescribed bits of the received header
    hold_clause(h, source)
    h.respond("resp.move", z3.And(b(h.v(sink.valid)), b(h.v(source.ready))), z3.Or(in_fire, out_fire), 1)
    h.cover("cover.payload", z3.And(out_fire, z3.Not(in_hdr)), depth=hw + 3)
    h.functions = ["litex.soc.interconnect.packet.Depacketizer.__init__", "litex.soc.interconnect.packet.Header.decode"]
    return h

def mkfields(length):
    """a header definition filling `length` bytes: 8-bit, 16-bit, sub-byte and wide fields"""
    f = {"a": HeaderField(0, 0, 8)}
    if length >= 3: f["b"] = HeaderField(1, 0, 16)
    if length >= 4: f["c"] = HeaderField(3, 4, 4); f["d"] = HeaderField(3, 0, 3)
    if length >= 5: f["e"] = HeaderField(4, 0, min(64, (length - 4) * 8))
    if length >= 13: f["g"] = HeaderField(12, 0, (length - 12) * 8)
    return f

def c_packetizer_unaligned(dw, fields, length, swap=True):
    """header length not a multiple of the data width: the last `lo` header bytes share a beat with the first payload bytes and every
    later beat is the previous payload beat's upper `lo` bytes followed by the next beat's lower bytes; one flush beat ends the packet.
    Byte-stream view: output bytes == header bytes ++ payload bytes (++ B-lo don't-care bytes in the flush beat)."""
    hdr = Header(fields, length, swap_field_bytes=swap)
    sink_desc = stream.EndpointDescription([("data", dw)], hdr.get_layout()); src_desc = stream.EndpointDescription([("data", dw)])
    d = mk(Packetizer, sink_desc, src_desc, hdr); sink, source = d.sink, d.source
    B = dw // 8; hw = length // B; lo = length % B; assert lo != 0 and hw >= 1
    h = HwCheck(f"Packetizer(dw={dw},hdr={length}B,unaligned)", d, ep_inputs(sink, source))
    producer_holds(h, sink)
    PW = max(2, (hw + 2).bit_length())
    ph = h.ghost("phase", PW)                 # output beats sent so far, saturating at hw+1 (0..hw-1: full header words, hw: merge beat, hw+1: body)
    ghdr = h.ghost("hdr", length * 8); resd = h.ghost("res", lo * 8); pend = h.ghost("pend", 1)
    in_fire, out_fire = fire(h, sink), fire(h, source)
    bits = spec_header_bits(fields, length, swap, lambda n: h.v(getattr(sink, n)))
    spec_now = z3.Concat(*[bits.get(p, K(0, 1)) for p in reversed(range(length * 8))])
    in_hdr = ult(ph, hw); merge = ph == K(hw, PW); body = ph == K(hw + 1, PW)
    flush_fire = z3.And(out_fire, b(pend))
    h.ghost_next(ph, z3.If(flush_fire, K(0, PW), z3.If(z3.And(out_fire, z3.Not(body)), ph + 1, ph)))
    h.ghost_next(ghdr, z3.If(z3.And(out_fire, ph == K(0, PW)), spec_now, ghdr))
    h.ghost_next(resd, z3.If(in_fire, z3.Extract(dw - 1, dw - lo * 8, h.v(sink.data)), resd))
    h.ghost_next(pend, z3.If(flush_fire, K(0, 1), z3.If(in_fire, h.v(sink.last), pend)))
    hdr_eff = z3.If(ph == K(0, PW), spec_now, ghdr)
    def word(p, hv): return z3.Extract(dw * (p + 1) - 1, dw * p, hv)
    spec_word = word(0, spec_now)
    for p in range(1, hw): spec_word = z3.If(ph == K(p, PW), word(p, ghdr), spec_word)
    tail = z3.Extract(length * 8 - 1, hw * dw, ghdr)                     # the lo header bytes that do not fill a word
    lowpay = z3.Extract(dw - lo * 8 - 1, 0, h.v(sink.data))              # the payload bytes that fit next to them
    sdat = h.v(source.data); s_lo = z3.Extract(lo * 8 - 1, 0, sdat); s_hi = z3.Extract(dw - 1, lo * 8, sdat)
    sv, sl = b(h.v(source.valid)), b(h.v(source.last))
    h.ensure("ens.hdr", z3.Implies(in_hdr, z3.And(sv == z3.Or(b(h.v(sink.valid)), ph != K(0, PW)), z3.Implies(sv, z3.And(sdat == spec_word, z3.Not(sl))), z3.Not(in_fire))))
    h.ensure("ens.merge", z3.Implies(z3.And(merge, sv), z3.And(b(h.v(sink.valid)), s_lo == tail, s_hi == lowpay, z3.Not(sl), in_fire == out_fire)))
    h.ensure("ens.body", z3.Implies(z3.And(body, z3.Not(b(pend)), sv), z3.And(b(h.v(sink.valid)), s_lo == resd, s_hi == lowpay, z3.Not(sl), in_fire == out_fire)))
    h.ensure("ens.flush", z3.Implies(b(pend), z3.And(sv, s_lo == resd, sl, z3.Not(in_fire))))
    h.ensure("ens.no-consume", z3.Implies(z3.Not(sv), z3.Not(in_fire)))
    # C04: stalled beat held - over valid/first/last and the bytes that carry packet content
    content = lambda which: cat((h.v if which == "v" else h.n)(source.first), (h.v if which == "v" else h.n)(source.last), z3.Extract(lo * 8 - 1, 0, (h.v if which == "v" else h.n)(source.data)))
    stalled = z3.And(sv, z3.Not(b(h.v(source.ready))))
    h.ensure_seq("ens.hold", lambda at: z3.Implies(at(stalled, 0), z3.And(at(sv, 1), at(sl, 1) == at(sl, 0), at(s_lo, 1) == at(s_lo, 0), z3.Implies(z3.Not(at(b(pend), 0)), at(s_hi, 1) == at(s_hi, 0)))))
    h.respond("resp.move", z3.And(b(h.v(sink.valid)), b(h.v(source.ready))), out_fire, 1)
    h.respond("resp.flush", b(h.v(source.ready)), flush_fire, 1, start=b(pend))
    try:
        st, enc = d.fsm.state, d.fsm.encoding; sr, count = L(d, "sr"), L(d, "count"); ffi = L(d, "fsm_from_idle"); sd = L(d, "sink_d")
        S = lambda n: eqc(h.v(st), enc[n])
        h.hint("st", ult(h.v(st), len(enc)))
        h.hint("idle", S("IDLE") == (ph == K(0, PW)))
        if hw > 1:
            h.hint("hs", S("HEADER-SEND") == z3.And(ugt(ph, 0), in_hdr))
            h.hint("cnt", z3.Implies(z3.And(ugt(ph, 0), in_hdr), zx(h.v(count), PW) == ph))
        h.hint("copy", S("UNALIGNED-DATA-COPY") == z3.Or(merge, body))
        h.hint("ffi", z3.Implies(ph != K(0, PW), b(h.v(ffi)) == z3.Not(body)))
        for p in range(1, hw + 1):
            sh = 0 if hw == 1 else min(p - 1, hw - 2)
            h.hint(f"sr@{p}", z3.Implies(ph == K(p, PW), h.v(sr) == z3.LShR(ghdr, K(sh * dw, length * 8))))
        h.hint("res", z3.Implies(body, z3.Extract(dw - 1, dw - lo * 8, h.v(sd.data)) == resd))
        h.hint("pend", h.v(sd.last) == pend)
        h.hint("pend->body", z3.Implies(b(pend), body))
    except (AttributeError, KeyError, TypeError): pass
    h.hint("ph<=hw+1", ule(ph, hw + 1))
    h.hint("busy->offer", z3.Implies(z3.And(ph != K(0, PW), z3.Not(body)), b(h.ghosts["prev_offer"][0])))
    h.use_auto = True
    h.cover("cover.flush", flush_fire, depth=hw + 5)
    h.cover("cover.one-beat", z3.And(flush_fire, b(h.prev("merge_fire", bv1(z3.And(merge, out_fire))))), depth=hw + 5)
    h.bmc_depth = 2 * hw + 10
    h.functions = ["litex.soc.interconnect.packet.Packetizer.__init__", "litex.soc.interconnect.packet.Header.encode"]
    return h

def c_depacketizer_unaligned(dw, fields, length, swap=True):
    """header length not a multiple of the data width: the beat that carries the last `lo` header bytes also carries the first payload
    bytes; every output beat is the upper bytes of one raw beat followed by the lower `lo` bytes of the next; a raw packet that ends
    in the merge beat (payload inside the realignment residue) is flushed as one beat."""
    hdr = Header(fields, length, swap_field_bytes=swap)
    sink_desc = stream.EndpointDescription([("data", dw)]); src_desc = stream.EndpointDescription([("data", dw)], hdr.get_layout())
    d = mk(Depacketizer, sink_desc, src_desc, hdr); sink, source = d.sink, d.source
    B = dw // 8; hw = length // B; lo = length % B; hi = B - lo; assert lo != 0 and hw >= 1
    h = HwCheck(f"Depacketizer(dw={dw},hdr={length}B,unaligned)", d, ep_inputs(sink, source))
    producer_holds(h, sink)
    PW = max(2, (hw + 2).bit_length())
    ph = h.ghost("phase", PW)                        # raw beats accepted so far, saturating at hw+1 (hw: merge beat awaited, hw+1: body)
    gw = [h.ghost(f"hw{p}", dw) for p in range(hw)]; gtail = h.ghost("tail", lo * 8); resd = h.ghost("res", hi * 8); pend = h.ghost("pend", 1)
    in_fire, out_fire = fire(h, sink), fire(h, source)
    in_hdr = ult(ph, hw); merge = ph == K(hw, PW); body = ph == K(hw + 1, PW)
    sv, sl = b(h.v(source.valid)), b(h.v(source.last))
    end_fire = z3.And(out_fire, sl)
    h.assume(z3.Implies(z3.And(in_hdr, b(h.v(sink.valid))), z3.Not(b(h.v(sink.last)))), "a raw packet is at least as long as its header (no last flag on a full header word)")
    h.ghost_next(ph, z3.If(end_fire, K(0, PW), z3.If(z3.And(in_fire, z3.Not(body)), ph + 1, ph)))
    for p in range(hw): h.ghost_next(gw[p], z3.If(z3.And(in_fire, ph == K(p, PW)), h.v(sink.data), gw[p]))
    h.ghost_next(gtail, z3.If(z3.And(in_fire, merge), z3.Extract(lo * 8 - 1, 0, h.v(sink.data)), gtail))
    h.ghost_next(resd, z3.If(in_fire, z3.Extract(dw - 1, lo * 8, h.v(sink.data)), resd))
    h.ghost_next(pend, z3.If(end_fire, K(0, 1), z3.If(z3.And(in_fire, merge), h.v(sink.last), pend)))
    ghdr = cat(gtail, *reversed(gw))
    bits = spec_header_bits(fields, length, swap, lambda n: h.v(getattr(source, n)))
    sdat = h.v(source.data); s_lo = z3.Extract(hi * 8 - 1, 0, sdat); s_hi = z3.Extract(dw - 1, hi * 8, sdat)
    h.ensure("ens.hdr", z3.Implies(z3.Or(in_hdr, merge), z3.And(b(h.v(sink.ready)), z3.Not(sv))))                 # header beats are consumed, nothing emitted
    h.ensure("ens.body", z3.Implies(z3.And(body, z3.Not(b(pend))), z3.And(z3.Implies(sv, z3.And(b(h.v(sink.valid)), s_lo == resd, s_hi == z3.Extract(lo * 8 - 1, 0, h.v(sink.data)), sl == b(h.v(sink.last)))), in_fire == out_fire)))
    h.ensure("ens.flush", z3.Implies(b(pend), z3.And(sv, sl, s_lo == resd, z3.Not(in_fire))))                       # payload that ended inside the merge beat; the next packet's first beat is not swallowed
    h.ensure("ens.fields", z3.Implies(body, z3.And(*[z3.Extract(p, p, ghdr) == t for p, t in bits.items()])))
    stalled = z3.And(sv, z3.Not(b(h.v(source.ready))))
    par = lambda f: cat(*[f(s_) for s_, _ in source.param.iter_flat()])
    h.ensure_seq("ens.hold", lambda at: z3.Implies(at(stalled, 0), z3.And(at(sv, 1), at(sl, 1) == at(sl, 0), at(s_lo, 1) == at(s_lo, 0), at(par(h.v), 1) == at(par(h.v), 0),
                                                                          z3.Implies(z3.Not(at(b(pend), 0)), at(s_hi, 1) == at(s_hi, 0)))))
    h.respond("resp.move", z3.And(b(h.v(sink.valid)), b(h.v(source.ready))), z3.Or(in_fire, out_fire), 1)
    h.respond("resp.flush", b(h.v(source.ready)), end_fire, 1, start=b(pend))
    try:
        st, enc = d.fsm.state, d.fsm.encoding; sr, count = L(d, "sr"), L(d, "count"); ffi = L(d, "fsm_from_idle"); sd = L(d, "sink_d")
        S = lambda n: eqc(h.v(st), enc[n])
        h.hint("st", ult(h.v(st), len(enc)))
        h.hint("idle", S("IDLE") == (ph == K(0, PW)))
        if hw > 1:
            h.hint("hr", S("HEADER-RECEIVE") == z3.And(ugt(ph, 0), in_hdr))
            h.hint("cnt", z3.Implies(z3.And(ugt(ph, 0), in_hdr), zx(h.v(count), PW) == ph))
        h.hint("copy", S("UNALIGNED-DATA-COPY") == z3.Or(merge, body))
        h.hint("ffi", z3.Implies(ph != K(0, PW), b(h.v(ffi)) == z3.Not(body)))
        for p in range(1, hw + 1):
            for q in range(p):
                pos = length * 8 - (p - q) * dw
                h.hint(f"sr@{p}.{q}", z3.Implies(ph == K(p, PW), z3.Extract(pos + dw - 1, pos, h.v(sr)) == gw[q]))
        h.hint("sr@body", z3.Implies(body, h.v(sr) == ghdr))
        h.hint("res", z3.Implies(body, z3.Extract(dw - 1, lo * 8, h.v(sd.data)) == resd))
        h.hint("sd.last", z3.Implies(ph != K(0, PW), h.v(sd.last) == z3.If(body, pend, K(0, 1))))
        h.hint("pend->body", z3.Implies(b(pend), body))
    except (AttributeError, KeyError, TypeError): pass
    h.hint("ph<=hw+1", ule(ph, hw + 1))
    h.use_auto = True
    h.cover("cover.payload", z3.And(out_fire, z3.Not(b(pend))), depth=hw + 5)
    h.cover("cover.flush", z3.And(out_fire, b(pend)), depth=hw + 5)
    h.bmc_depth = 2 * hw + 10
    h.functions = ["litex.soc.interconnect.packet.Depacketizer.__init__", "litex.soc.interconnect.packet.Header.decode"]
    return h

SHORT_WHAT = ("header shorter than one data word (header.length < data_width/8, header_words == 0): the FSMs compare count with header_words-1 == -1 and never "
              "leave HEADER-SEND / HEADER-RECEIVE - the Packetizer sends the zero-extended header alone and then garbage beats forever, the Depacketizer "
              "swallows every beat and never emits; no assertion rejects the configuration")
def c_short_header(kind, dw, length):
    """header.length < bytes per beat: the very first beat is the merge beat (header bytes ++ first payload bytes)."""
    fields = mkfields(length); hdr = Header(fields, length, swap_field_bytes=True); lo = length; B = dw // 8; assert length < B
    if kind == "packetizer":
        d = mk(Packetizer, stream.EndpointDescription([("data", dw)], hdr.get_layout()), stream.EndpointDescription([("data", dw)]), hdr)
    else:
        d = mk(Depacketizer, stream.EndpointDescription([("data", dw)]), stream.EndpointDescription([("data", dw)], hdr.get_layout()), hdr)
    sink, source = d.sink, d.source
    h = HwCheck(f"{type(d).__name__}(dw={dw},hdr={length}B,short)", d, ep_inputs(sink, source))
    producer_holds(h, sink)
    in_fire, out_fire = fire(h, sink), fire(h, source)
    started = h.ghost("started", 1)                      # the first beat of the current packet has been sent (packetizer) / accepted (depacketizer)
    sv = b(h.v(source.valid))
    if kind == "packetizer":
        h.ghost_next(started, z3.If(z3.And(out_fire, b(h.v(source.last))), K(0, 1), z3.If(out_fire, K(1, 1), started)))
        bits = spec_header_bits(fields, length, True, lambda n: h.v(getattr(sink, n)))
        spec_now = z3.Concat(*[bits.get(p, K(0, 1)) for p in reversed(range(length * 8))])
        h.ensure("ens.first.header", z3.Implies(z3.And(z3.Not(b(started)), sv), z3.Extract(lo * 8 - 1, 0, h.v(source.data)) == spec_now))
        h.finding("finding.short-header", z3.Implies(z3.And(z3.Not(b(started)), sv), z3.And(z3.Extract(dw - 1, lo * 8, h.v(source.data)) == z3.Extract(dw - lo * 8 - 1, 0, h.v(sink.data)), in_fire == out_fire)), SHORT_WHAT)
    else:
        h.ghost_next(started, z3.If(z3.And(out_fire, b(h.v(source.last))), K(0, 1), z3.If(in_fire, K(1, 1), started)))
        h.ensure("ens.first.consumed", z3.Implies(z3.Not(b(started)), z3.And(b(h.v(sink.ready)), z3.Not(sv))))
        h.finding("finding.short-header", z3.Implies(z3.And(b(started), b(h.v(sink.valid))), sv), SHORT_WHAT)
    h.use_auto = True
    h.functions = [f"litex.soc.interconnect.packet.{type(d).__name__}.__init__"]
    return h

def c_dispatcher(n, one_hot=False):
    m = stream.Endpoint(LAY); slaves = [stream.Endpoint(LAY) for _ in range(n)]
    d = mk(Dispatcher, m, list(slaves), one_hot)
    h = HwCheck(f"packet.Dispatcher(1->{n},one_hot={one_hot})", d, [m.valid] + tok_sigs(m) + [d.sel] + [s.ready for s in slaves])
    holds(h, m, "m")
    SW = len(d.sel)
    inpkt = h.ghost("inpkt", 1); gsel = h.ghost("gsel", SW)            # inside a packet (a beat was transferred, last not yet); selector of that packet
    mf = fire(h, m)
    h.ghost_next(inpkt, z3.If(mf, z3.If(b(h.v(m.last)), K(0, 1), K(1, 1)), inpkt))
    h.ghost_next(gsel, z3.If(z3.And(z3.Not(b(inpkt)), mf), h.v(d.sel), gsel))
    route = z3.If(b(inpkt), gsel, h.v(d.sel))                          # destination does not change once the packet has started
    for i, s in enumerate(slaves):
        idx = (1 << i) if one_hot else i
        on = route == K(idx, SW)
        h.ensure(f"ens.route{i}", z3.Implies(b(h.v(s.valid)), z3.And(on, b(h.v(m.valid)), tok(h, s) == tok(h, m))))
        h.ensure(f"ens.fwd{i}", z3.Implies(on, z3.And(h.v(s.valid) == h.v(m.valid), h.v(m.ready) == h.v(s.ready))))
    # the selector is a per-packet input: held while the first beat of a packet is offered but not yet accepted
    p_sel = h.prev("sel", h.v(d.sel)); p_first_stall = h.prev("fstall", bv1(z3.And(z3.Not(b(inpkt)), b(h.v(m.valid)), z3.Not(b(h.v(m.ready))))))
    h.assume(z3.Implies(b(p_first_stall), h.v(d.sel) == p_sel), "Dispatcher.sel is held while the first beat of a packet is offered and not yet accepted (mid-packet changes are free)")
    for i, s in enumerate(slaves): hold_clause(h, s, name=f"ens.hold{i}")
    # progress for EVERY selector value (also codes no slave is attached to: such packets are drained): with all slaves ready an offered beat moves at once
    h.respond("resp.move", z3.And(b(h.v(m.valid)), *[b(h.v(s.ready)) for s in slaves]), mf, 2)
    h.use_auto = True
    h.cover("cover.mid", z3.And(b(inpkt), mf), depth=4)
    h.functions = ["litex.soc.interconnect.packet.Dispatcher.__init__", "litex.soc.interconnect.packet.Status.__init__"]
    return h

def c_arbiter(n):
    masters = [stream.Endpoint(LAY) for _ in range(n)]; s = stream.Endpoint(LAY)
    d = mk(pk.Arbiter, list(masters), s)
    ins = [s.ready]
    for m in masters: ins += [m.valid] + tok_sigs(m)
    h = HwCheck(f"packet.Arbiter({n}->1)", d, ins)
    for i, m in enumerate(masters): holds(h, m, f"m{i}")
    GW = len(d.grant)
    inpkt = h.ghost("inpkt", 1); owner = h.ghost("owner", GW)
    sf = fire(h, s)
    h.ghost_next(inpkt, z3.If(sf, z3.If(b(h.v(s.last)), K(0, 1), K(1, 1)), inpkt))
    h.ghost_next(owner, z3.If(z3.And(z3.Not(b(inpkt)), sf), h.v(d.grant), owner))
    for i, m in enumerate(masters):
        g = eqc(h.v(d.grant), i)
        h.ensure(f"ens.sel{i}", z3.Implies(g, z3.And(h.v(s.valid) == h.v(m.valid), z3.Implies(b(h.v(s.valid)), tok(h, s) == tok(h, m)), h.v(m.ready) == h.v(s.ready))))
        h.ensure(f"ens.unsel{i}", z3.Implies(z3.Not(g), z3.Not(b(h.v(m.ready)))))
    h.ensure("ens.atomic", z3.Implies(b(inpkt), h.v(d.grant) == owner))     # no beat of another master inside a started packet
    h.ensure("ens.grant-exists", ult(h.v(d.grant), n))
    hold_clause(h, s)                                                       # C04: a stalled beat is not replaced by another master's
    # per-master "inside a packet" ghosts (a beat transferred, last not yet): a master may pause inside its packet and keeps the grant
    mid = []
    for i, m in enumerate(masters):
        g_ = h.ghost(f"mid{i}", 1); mf = fire(h, m)
        h.ghost_next(g_, z3.If(mf, z3.If(b(h.v(m.last)), K(0, 1), K(1, 1)), g_)); mid.append(g_)
    ongo = [s_ for s_ in h.ts.state if s_.nbits == 1 and (s_.backtrace and s_.backtrace[-1][0] == "ongoing")]
    if len(ongo) == n:
        for i in range(n):
            h.hint(f"ongoing{i}", b(h.v(ongo[i])) == z3.Or(b(h.ghosts[f"prev_offerm{i}"][0]), b(mid[i])))
            h.hint(f"mid{i}->grant", z3.Implies(b(mid[i]), eqc(h.v(d.grant), i)))
    h.hint("mid-mutex", z3.AtMost(*[b(x) for x in mid], 1))
    # progress: a master that offers is served once the slave is ready and the others are idle and not inside a packet
    for i, m in enumerate(masters):
        others_idle = z3.And(*[z3.And(z3.Not(b(h.v(o.valid))), z3.Not(b(mid[j]))) for j, o in enumerate(masters) if j != i])
        h.respond(f"resp.serve{i}", z3.And(b(h.v(m.valid)), b(h.v(s.ready)), others_idle), fire(h, m), 3)
    h.respond("resp.move", z3.And(b(h.v(s.ready)), *[b(h.v(m.valid)) for m in masters]), sf, 3)             # every producer offers, the consumer accepts
    # no master stalls for ever behind a streaming one: when the owner's packet ends (its last beat is accepted) while another master is offering,
    # the grant leaves the owner for the next cycle (round robin at packet boundaries) - a waiting producer's tokens keep moving
    for i, m in enumerate(masters):
        ends = z3.And(eqc(h.v(d.grant), i), fire(h, m), b(h.v(m.last)))
        waiting = z3.Or(*[b(h.v(o.valid)) for j, o in enumerate(masters) if j != i])
        h.ensure(f"ens.handover{i}", z3.Implies(z3.And(ends, waiting), z3.Not(eqc(h.n(d.rr.grant), i))))
    h.use_auto = True
    h.cover("cover.switch", h.n(d.rr.grant) != h.v(d.grant), depth=4)
    h.functions = ["litex.soc.interconnect.packet.Arbiter.__init__", "litex.soc.interconnect.packet.Status.__init__", "migen.genlib.roundrobin.RoundRobin (flattened)"]
    return h

def c_status():
    ep = stream.Endpoint(LAY)
    class Top(LiteXModule):
        def __init__(self): self.status = Status(ep)
    d = mk(Top); st = d.status
    h = HwCheck("packet.Status", d, [ep.valid, ep.ready] + tok_sigs(ep))
    inpkt = h.ghost("inpkt", 1); f = fire(h, ep)
    h.ghost_next(inpkt, z3.If(f, z3.If(b(h.v(ep.last)), K(0, 1), K(1, 1)), inpkt))
    h.use_auto = True
    h.ensure("ens.first", b(h.v(st.first)) == z3.Not(b(inpkt)))              # first: no beat of the current packet transferred yet
    h.ensure("ens.last", b(h.v(st.last)) == z3.And(f, b(h.v(ep.last))))
    h.ensure("ens.ongoing.inside", z3.Implies(z3.And(b(inpkt), z3.Not(z3.And(f, b(h.v(ep.last))))), b(h.v(st.ongoing))))
    h.ensure("ens.ongoing.offered", z3.Implies(z3.And(b(h.v(ep.valid)), z3.Not(z3.And(f, b(h.v(ep.last))))), b(h.v(st.ongoing))))
    h.ensure("ens.ongoing.ends", z3.Implies(z3.And(f, b(h.v(ep.last))), z3.Not(b(h.v(st.ongoing)))))
    h.functions = ["litex.soc.interconnect.packet.Status.__init__"]
    return h

def c_packetfifo(payload_depth=4, param_depth=2, buffered=False):
    lay = stream.EndpointDescription([("data", 4)], [("p", 3)])
    d = mk(PacketFIFO, lay, payload_depth, param_depth, buffered); sink, source = d.sink, d.source
    h = HwCheck(f"PacketFIFO(payload={payload_depth},param={param_depth}{',buffered' if buffered else ''})", d, ep_inputs(sink, source))
    producer_holds(h, sink)
    in_fire, out_fire = fire(h, sink), fire(h, source)
    PD = param_depth + 1 + (1 if buffered else 0); NW = max(3, (PD + 2).bit_length())          # a buffered SyncFIFO holds depth + 1 tokens
    npk = h.ghost("npk", NW)                          # complete packets stored
    pq = [h.ghost(f"pq{i}", 3) for i in range(PD + 1)]
    push = z3.And(in_fire, b(h.v(sink.last))); pop = z3.And(out_fire, b(h.v(source.last)))
    plen = z3.If(pop, npk - 1, npk)
    pqs = [z3.If(pop, pq[i + 1] if i + 1 <= PD else pq[i], pq[i]) for i in range(PD + 1)]
    h.ghost_next(npk, z3.If(push, plen + 1, plen))
    for i in range(PD + 1): h.ghost_next(pq[i], z3.If(z3.And(push, plen == K(i, NW)), h.v(sink.p), pqs[i]))
    # payload beats: ghost FIFO of (last,data)
    CAP = payload_depth + (1 if buffered else 0); LW = max(3, (CAP + 2).bit_length())
    qlen = h.ghost("qlen", LW); q = [h.ghost(f"q{i}", 5) for i in range(CAP + 1)]
    popb = out_fire; plb = z3.If(popb, qlen - 1, qlen)
    qs = [z3.If(popb, q[i + 1] if i + 1 <= CAP else q[i], q[i]) for i in range(CAP + 1)]
    h.ghost_next(qlen, z3.If(in_fire, plb + 1, plb))
    beat_in = cat(h.v(sink.last), h.v(sink.data))
    for i in range(CAP + 1): h.ghost_next(q[i], z3.If(z3.And(in_fire, plb == K(i, LW)), beat_in, qs[i]))
    h.q = q; h.qlen = qlen
    try:
        from .stream_cases import slots_of
        pf = d.payload_fifo; prf = d.param_fifo
        h.hint("npk<=PD", ule(npk, PD)); h.hint("qlen<=CAP", ule(qlen, CAP))
        # slots from the output side to the input side (a buffered FIFO has its output register in front): the k-th occupied slot holds the k-th queued token
        cntq = K(0, LW)
        for i, (occ, t) in enumerate(slots_of(h, pf)):       # token order: first,last,data
            for j in range(min(i + 1, len(q))): h.hint(f"pay{i}@{j}", z3.Implies(z3.And(occ, cntq == K(j, LW)), z3.Extract(4, 0, t) == q[j]))
            cntq = cntq + z3.If(occ, K(1, LW), K(0, LW))
        h.hint("qlen=occupied", qlen == cntq)
        cntp = K(0, NW)
        for i, (occ, t) in enumerate(slots_of(h, prf)):      # first,last,param
            for j in range(min(i + 1, len(pq))): h.hint(f"par{i}@{j}", z3.Implies(z3.And(occ, cntp == K(j, NW)), z3.Extract(2, 0, t) == pq[j]))
            cntp = cntp + z3.If(occ, K(1, NW), K(0, NW))
        h.hint("npk=occupied", npk == cntp)
        if buffered:         # both output registers are loaded with the same latency: a presented parameter word implies a presented payload beat
            h.hint("rd-sync", z3.Implies(b(h.v(prf.fifo.readable)), b(h.v(pf.fifo.readable))))
        # complete packets stored == number of `last` beats among the stored payload beats
        cnt = K(0, NW)
        for i in range(CAP): cnt = cnt + z3.If(z3.And(ugt(qlen, i), b(z3.Extract(4, 4, q[i]))), K(1, NW), K(0, NW))
        h.hint("npk=lasts", npk == cnt)
    except (AttributeError, KeyError, TypeError): pass
    h.use_auto = False
    h.ensure("ens.complete", z3.Implies(b(h.v(source.valid)), npk != K(0, NW)))                # only complete packets are released
    h.ensure("ens.param", z3.Implies(b(h.v(source.valid)), h.v(source.p) == pq[0]))            # with the parameters of that packet
    h.ensure("ens.beat", z3.Implies(b(h.v(source.valid)), z3.And(qlen != K(0, LW), cat(h.v(source.last), h.v(source.data)) == q[0])))
    h.ensure("ens.cap", z3.And(z3.Implies(push, ule(plen, PD - 1)), z3.Implies(in_fire, ule(plb, CAP - 1))))
    hold_clause(h, source)
    h.respond("resp.release", z3.BoolVal(True), b(h.v(source.valid)), 3 + (1 if buffered else 0), start=npk != K(0, NW))
    h.cover("cover.two-packets", npk == K(2, NW), depth=6)
    h.functions = ["litex.soc.interconnect.packet.PacketFIFO.__init__", "litex.soc.interconnect.stream.SyncFIFO.__init__ (flattened)"]
    h.cosim_cycles = 16
    return h

FIELDS_SUB = {"a": HeaderField(0, 0, 5), "b": HeaderField(1, 1, 6), "c": HeaderField(2, 0, 7), "d": HeaderField(3, 2, 3), "e": HeaderField(4, 0, 16)}     # fields narrower than a byte (5, 6, 7, 3 bits) beside a two-byte field
def all_cases(tier):
    cs = [("Header(6B,sub-byte fields,swap)", c_header, FIELDS_SUB, 6, True), ("Header(6B,sub-byte fields,noswap)", c_header, FIELDS_SUB, 6, False),
          ("Header(8B,swap)", c_header, FIELDS, 8, True), ("Header(8B,noswap)", c_header, FIELDS, 8, False), ("Header(3B,swap)", c_header, FIELDS3, 3, True),
          ("Header(12B,odd,swap)", c_header, FIELDS_ODD, 12, True), ("Header(12B,odd,noswap)", c_header, FIELDS_ODD, 12, False),
          ("Packetizer(dw=32,8B)", c_packetizer, 32, FIELDS, 8), ("Packetizer(dw=64,8B)", c_packetizer, 64, FIELDS, 8), ("Packetizer(dw=16,8B)", c_packetizer, 16, FIELDS, 8),
          ("Packetizer(dw=8,3B)", c_packetizer, 8, FIELDS3, 3),
          ("Depacketizer(dw=32,8B)", c_depacketizer, 32, FIELDS, 8), ("Depacketizer(dw=64,8B)", c_depacketizer, 64, FIELDS, 8), ("Depacketizer(dw=16,8B)", c_depacketizer, 16, FIELDS, 8),
          ("Depacketizer(dw=8,3B)", c_depacketizer, 8, FIELDS3, 3),
          ("Packetizer(dw=32,6B,unaligned)", c_packetizer_unaligned, 32, mkfields(6), 6), ("Packetizer(dw=32,10B,unaligned)", c_packetizer_unaligned, 32, mkfields(10), 10),
          ("Packetizer(dw=64,14B,unaligned)", c_packetizer_unaligned, 64, mkfields(14), 14), ("Packetizer(dw=16,3B,unaligned)", c_packetizer_unaligned, 16, mkfields(3), 3),
          ("Packetizer(dw=32,31B,unaligned)", c_packetizer_unaligned, 32, mkfields(31), 31), ("Packetizer(dw=128,31B,unaligned)", c_packetizer_unaligned, 128, mkfields(31), 31),
          ("Depacketizer(dw=32,6B,unaligned)", c_depacketizer_unaligned, 32, mkfields(6), 6), ("Depacketizer(dw=32,10B,unaligned)", c_depacketizer_unaligned, 32, mkfields(10), 10),
          ("Depacketizer(dw=64,14B,unaligned)", c_depacketizer_unaligned, 64, mkfields(14), 14), ("Depacketizer(dw=16,3B,unaligned)", c_depacketizer_unaligned, 16, mkfields(3), 3),
          ("Depacketizer(dw=32,31B,unaligned)", c_depacketizer_unaligned, 32, mkfields(31), 31), ("Depacketizer(dw=128,31B,unaligned)", c_depacketizer_unaligned, 128, mkfields(31), 31),
          ("Packetizer(dw=32,3B,short)", c_short_header, "packetizer", 32, 3), ("Depacketizer(dw=32,3B,short)", c_short_header, "depacketizer", 32, 3),
          ("Dispatcher(2)", c_dispatcher, 2), ("Dispatcher(3)", c_dispatcher, 3), ("Dispatcher(3,one_hot)", c_dispatcher, 3, True), ("Dispatcher(1,one_hot)", c_dispatcher, 1, True), ("Dispatcher(2,one_hot)", c_dispatcher, 2, True), ("Dispatcher(4)", c_dispatcher, 4),
          ("Arbiter(2)", c_arbiter, 2), ("Arbiter(3)", c_arbiter, 3), ("Status", c_status),
          ("PacketFIFO(4,2)", c_packetfifo, 4, 2), ("PacketFIFO(4,2,buffered)", c_packetfifo, 4, 2, True)]
    if tier == "thorough":
        cs += [("Packetizer(dw=64,31B,unaligned)", c_packetizer_unaligned, 64, mkfields(31), 31), ("Depacketizer(dw=64,31B,unaligned)", c_depacketizer_unaligned, 64, mkfields(31), 31),
               ("Packetizer(dw=16,31B,unaligned)", c_packetizer_unaligned, 16, mkfields(31), 31), ("Depacketizer(dw=16,31B,unaligned)", c_depacketizer_unaligned, 16, mkfields(31), 31),
               ("Packetizer(dw=64,3B,short)", c_short_header, "packetizer", 64, 3), ("Depacketizer(dw=64,5B,short)", c_short_header, "depacketizer", 64, 5)]
        cs += [("Arbiter(4)", c_arbiter, 4), ("Packetizer(dw=128,16B)", c_packetizer, 128, {"a": HeaderField(0, 0, 64), "b": HeaderField(8, 0, 64)}, 16), ("PacketFIFO(8,3)", c_packetfifo, 8, 3)]
    return cs
