"""C05 / litex.gen.genlib.cdc.BusSynchronizer: UNBOUNDED inductive proof over the two-clock product model of the REAL fragment.

Model (same construction as contracts/C05_cdc.py::c_bussync, not weakened): the fragment of the real constructor is translated by
vf.fhdl2smt.TS (MultiReg / PulseSynchronizer flattened by migen's own lowering); every scheduler step ticks domain i, domain o or both
(free Booleans tick_i/tick_o, at least one); every first synchroniser flop (a flop whose next value is a register of the other
domain) resolves EACH BIT to the old or to the new value of its source when both tick in the same step (free mask per flop and
step); the data input `i` is a free value in every step.

Claim (property text): `o` only ever holds words that were really present on `i` at one instant.  Formalised with a rigid word X
and a ghost `won` ("X was on `i` at some i-edge so far"):   o == X  ->  won  or  X == 0 (0 = reset value of o and of ibuffer).

 Theorem A (c_proof): for EVERY interleaving (unbounded drift) under the NAMED assumption TIMEOUT_ASSUMPTION below.
 Theorem B (c_drift): for every interleaving with at most Ri consecutive i-only steps (o may be arbitrarily faster) and
           timeout >= 4*Ri + 6, WITHOUT any assumption about the time-out: the assumption of theorem A is itself proved
           (the timer never reaches 0); this is the property's precondition "the retry time-out is longer than one
           request/acknowledge round trip" in closed form.
 The bound of theorem B is exact for Ri = 0, 1: with timeout == 4*Ri + 5 the model reaches a torn word (sanity cases).
 Both are init + consecution (separately for i-only / o-only / both-with-every-per-bit-resolution) + postcondition obligations
 built directly with z3; candidates are filtered Houdini style, the hand-written ones are REQUIRED to survive.
 The model is co-simulated against litex.gen.sim (two real clocks, several period/phase pairs) in every proof case.
"""
import time, random, z3
from vf import elab
from vf.elab import mk, locals_of
from vf.fhdl2smt import TS, copy_fragment
from vf.zutil import get_vars
from vf.hw import res
from vf.solvers import solve
from migen import *
from litex.gen.genlib.cdc import BusSynchronizer
from vf.core import Case as VCase, PROVED, VIOLATED, NOINPUT, UNKNOWN, BOUNDED_OK, OK, VACUOUS, FAULT

SOLVER_MS = 900000          # generous: verdicts must not depend on machine load; unknown is never a proof nor a violation

TIMEOUT_ASSUMPTION = ("BusSynchronizer/theorem A, NAMED ASSUMPTION `timeout-longer-than-round-trip` (restriction of the clock schedule, the property's own "
    "precondition): at an i-edge at which `_timeout.done` is the only cause of a request (done & ~starter & ~_pong.o) no request/acknowledge round trip is in "
    "flight in the o domain or on the way back, i.e. first request flop == _ping.toggle_o == _ping.toggle_o_r, ping_o == 0, _pong.toggle_i == first "
    "acknowledge flop == _pong.toggle_o, and the o domain is not sampling a pending request (toggle_i != first request flop) at that very instant. "
    "A time-out that expires while a request is pending but not yet sampled (o clock not running) IS allowed and covered (lost start + recovery).")

def _b(x): return x == z3.BitVecVal(1, 1)

def _compile(e, memo=None):
    """small z3-term -> Python closure compiler for the concrete runs (values: ints, Booleans as 0/1); raises NotImplementedError on an
    operator it does not know, in which case the caller falls back to z3.simplify(substitute(...))"""
    memo = {} if memo is None else memo
    i = e.get_id()
    if i in memo: return memo[i]
    k = e.decl().kind(); ch = [_compile(c, memo) for c in e.children()]
    msk = (1 << e.size()) - 1 if z3.is_bv(e) else 1
    if z3.is_bv_value(e): val = e.as_long(); f = lambda env: val
    elif k == z3.Z3_OP_UNINTERPRETED and not ch: nm = str(e); f = lambda env: env[nm]
    elif k == z3.Z3_OP_TRUE: f = lambda env: 1
    elif k == z3.Z3_OP_FALSE: f = lambda env: 0
    elif k == z3.Z3_OP_ITE: c, a, b = ch; f = lambda env: a(env) if c(env) else b(env)
    elif k == z3.Z3_OP_EQ: a, b = ch; f = lambda env: int(a(env) == b(env))
    elif k == z3.Z3_OP_DISTINCT and len(ch) == 2: a, b = ch; f = lambda env: int(a(env) != b(env))
    elif k == z3.Z3_OP_NOT: a, = ch; f = lambda env: 1 - a(env)
    elif k == z3.Z3_OP_AND: f = lambda env: int(all(c(env) for c in ch))
    elif k == z3.Z3_OP_OR: f = lambda env: int(any(c(env) for c in ch))
    elif k == z3.Z3_OP_BNOT: a, = ch; f = lambda env: ~a(env) & msk
    elif k == z3.Z3_OP_BAND: f = lambda env: _fold(lambda x, y: x & y, ch, env)
    elif k == z3.Z3_OP_BOR: f = lambda env: _fold(lambda x, y: x | y, ch, env)
    elif k == z3.Z3_OP_BXOR: f = lambda env: _fold(lambda x, y: x ^ y, ch, env)
    elif k == z3.Z3_OP_BADD: f = lambda env: _fold(lambda x, y: x + y, ch, env) & msk
    elif k == z3.Z3_OP_BSUB: a, b = ch; f = lambda env: (a(env) - b(env)) & msk
    elif k == z3.Z3_OP_ZERO_EXT: f = ch[0]
    elif k == z3.Z3_OP_SIGN_EXT:
        a, = ch; w0 = e.arg(0).size(); ext = msk ^ ((1 << w0) - 1)
        f = lambda env: (lambda x: x | ext if x >> (w0 - 1) else x)(a(env))
    elif k == z3.Z3_OP_EXTRACT:
        a, = ch; hi, lo = e.params(); m2 = (1 << (hi - lo + 1)) - 1
        f = lambda env: (a(env) >> lo) & m2
    elif k == z3.Z3_OP_CONCAT and len(ch) == 2:
        a, b = ch; wb = e.arg(1).size(); f = lambda env: (a(env) << wb) | b(env)
    elif k in (z3.Z3_OP_ULEQ, z3.Z3_OP_ULT, z3.Z3_OP_UGEQ, z3.Z3_OP_UGT):
        a, b = ch; op = {z3.Z3_OP_ULEQ: lambda x, y: x <= y, z3.Z3_OP_ULT: lambda x, y: x < y, z3.Z3_OP_UGEQ: lambda x, y: x >= y, z3.Z3_OP_UGT: lambda x, y: x > y}[k]
        f = lambda env: int(op(a(env), b(env)))
    else: raise NotImplementedError(str(e.decl()))
    memo[i] = f
    return f
def _fold(op, ch, env):
    r = ch[0](env)
    for c in ch[1:]: r = op(r, c(env))
    return r

class Model:
    """two-clock product model of the real BusSynchronizer fragment"""
    def __init__(self, W, T, cls=None, surgery=None, kw=None, sampling_clause=True):
        cls = cls or BusSynchronizer
        self.sampling_clause = sampling_clause
        self.W, self.T = W, T
        d = mk(cls, W, "i", "o", timeout=T, **(kw or {}))
        self.d = d
        ts = TS(d, inputs=[d.i]); self.ts = ts; v = ts.var
        LOC, P, Q, TM = locals_of(d), locals_of(d._ping), locals_of(d._pong), locals_of(d._timeout)
        self.starter, self.ping_o, self.ibuffer, self.obuffer = LOC["starter"], LOC["ping_o"], LOC["ibuffer"], LOC["obuffer"]
        self.pt_i, self.pt_o, self.pt_r = P["toggle_i"], P["toggle_o"], P["toggle_o_r"]
        self.qt_i, self.qt_o, self.qt_r = Q["toggle_i"], Q["toggle_o"], Q["toggle_o_r"]
        self.count, self.done = TM["count"], d._timeout.done
        for s in (self.starter, self.ping_o, self.ibuffer, self.obuffer, self.pt_i, self.pt_o, self.pt_r, self.qt_i, self.qt_o, self.qt_r, self.count, self.done, d.o, d.i):
            assert s in v, f"signal {s!r} not in the extracted transition system"
        if surgery is not None: surgery(self)
        self.doms = {cd: sorted(m.keys(), key=lambda s: s.duid) for cd, m in ts.next.items()}
        assert set(self.doms) == {"i", "o"}, self.doms
        other = {"i": set(self.doms["o"]), "o": set(self.doms["i"])}
        self.first_stage = {}
        for cd, m in ts.next.items():
            for s, e in m.items():
                for src in other[cd]:
                    if z3.simplify(e).eq(v[src]): self.first_stage[s] = (cd, src)
        self.fs_of = {src: s for s, (cd, src) in self.first_stage.items()}
        self.pm0, self.qm0, self.d0 = self.fs_of.get(self.pt_i), self.fs_of.get(self.qt_i), self.fs_of.get(self.ibuffer)
        assert self.pm0 is not None and self.qm0 is not None and self.d0 is not None, "first synchroniser flops not found"
        self.dom_of = {s: cd for cd, l in self.doms.items() for s in l}
        self.inl = {cd: {s: self.inline(e) for s, e in m.items()} for cd, m in ts.next.items()}
        # ghosts
        self.X = z3.BitVec("X", W); self.won = z3.Bool("won")
        self.cw = max(self.count.nbits, 8) + 3
        self.ci = z3.BitVec("ci", self.cw)
        allv = {}
        for c in ts.comb_constraints():
            for x in get_vars(c): allv[str(x)] = x
        for m in ts.next.values():
            for s, e in m.items():
                allv[str(v[s])] = v[s]
                for x in get_vars(e): allv[str(x)] = x
        allv["won"] = self.won; allv["ci"] = self.ci
        self.allvars = [allv[k] for k in sorted(allv)]
        self._sub = {}; self._cc = {}; self._nm = {}; self._iph = None
        self.comb = ts.comb_constraints()

    # ---------------------------------------------------------------- helpers
    def inline(self, e):
        """e with every combinational signal replaced by its defining expression: a function of registers and inputs only"""
        ts = self.ts
        subs = [(ts.var[t], ex) for t, ex in ts.comb_eq.items()] + [(ts.rd(s), z3.BitVecVal(s.reset.value & ((1 << s.nbits) - 1), s.nbits)) for s in ts.consts]
        for _ in range(len(subs) + 2):
            e2 = z3.substitute(e, *subs)
            if e2.eq(e): return e
            e = e2
        raise RuntimeError("combinational loop")
    def at(self, e, k):
        if k not in self._sub: self._sub[k] = [(x, z3.Const(f"{x}@{k}", x.sort())) for x in self.allvars]
        return z3.substitute(e, *self._sub[k])
    def tick(self, k): return z3.Bool(f"tick_i@{k}"), z3.Bool(f"tick_o@{k}")
    def mask(self, s, k): return z3.BitVec(f"meta{s.duid}@{k}", s.nbits)
    def V(self, s): return self.ts.var[s]

    def phases(self):
        """a0..a7: where the single hand-shake token is (a discrepancy between neighbouring flops of the request / acknowledge chains)"""
        V = self.V
        return [_b(V(self.starter)),
                V(self.pt_i) != V(self.pm0), V(self.pm0) != V(self.pt_o), V(self.pt_o) != V(self.pt_r), _b(V(self.ping_o)),
                V(self.qt_i) != V(self.qm0), V(self.qm0) != V(self.qt_o), V(self.qt_o) != V(self.qt_r)]
    def timeout_causes_request(self):
        V = self.V; a = self.phases()
        return z3.And(_b(V(self.done)), z3.Not(a[0]), z3.Not(a[7]))
    def assumption(self, k):
        """TIMEOUT_ASSUMPTION at step k"""
        ti, to = self.tick(k); a = self.phases()
        return z3.Implies(z3.And(ti, self.at(self.timeout_causes_request(), k)),
                          z3.And(*[z3.Not(self.at(a[j], k)) for j in (2, 3, 4, 5, 6)], z3.Not(z3.And(to, self.at(a[1], k))) if self.sampling_clause else z3.BoolVal(True)))

    def frame(self, k): return [self.at(c, k) for c in self.comb]
    def trans(self, k, kind=None, assume=True, drift=None):
        """step k -> k+1 (the step relation of C05_cdc.py::c_bussync plus the ghost updates); kind fixes the scheduler choice"""
        ts = self.ts; v = ts.var; at = self.at
        ti, to = self.tick(k); tick = {"i": ti, "o": to}
        cs = [z3.Or(ti, to)]
        if kind == "i": cs += [ti, z3.Not(to)]
        elif kind == "o": cs += [z3.Not(ti), to]
        elif kind == "both": cs += [ti, to]
        for cd, m in ts.next.items():
            for s, e in m.items():
                nxt = at(e, k)
                if s in self.first_stage:
                    _, src = self.first_stage[s]; scd = self.dom_of[src]
                    src_new = z3.If(tick[scd], at(ts.next[scd][src], k), at(v[src], k))
                    mk_ = self.mask(s, k)
                    nxt = (at(v[src], k) & ~mk_) | (src_new & mk_)          # each bit resolves to the old or the new value of the source
                cs.append(at(v[s], k + 1) == z3.If(tick[cd], nxt, at(v[s], k)))
        cs.append(at(self.won, k + 1) == z3.Or(at(self.won, k), z3.And(ti, at(v[self.d.i], k) == self.X)))
        cs.append(at(self.ci, k + 1) == z3.If(to, z3.BitVecVal(0, self.cw), at(self.ci, k) + 1))
        if drift is not None: cs.append(z3.ULE(at(self.ci, k + 1), z3.BitVecVal(drift, self.cw)))
        if assume: cs.append(self.assumption(k))
        return cs
    def init(self, k=0):
        return [self.at(c, k) for c in self.ts.init_constraints()] + [z3.Not(self.at(self.won, k)), self.at(self.ci, k) == 0]
    def bad(self, k):
        """o holds a word that was never on i (and is not the reset value)"""
        return z3.And(self.at(self.V(self.d.o), k) == self.X, z3.Not(self.at(self.won, k)), self.X != 0)

    # ---------------------------------------------------------------- structure of the crossing (guards the metastability abstraction)
    def crossing_offenders(self):
        v = self.ts.var; bad = []
        for cd, m in self.inl.items():
            own = {str(v[s]) for s in self.doms[cd]} | ({str(v[self.d.i])} if cd == "i" else set())
            for s, e in m.items():
                if s in self.first_stage: continue
                sup = {str(x) for x in get_vars(e)}
                if not sup <= own: bad.append((str(v[s]), sorted(sup - own)))
        return bad

    # ---------------------------------------------------------------- concrete execution (trace replay, guided covers, co-simulation)
    def reset_state(self): return {s: s.reset.value & ((1 << s.nbits) - 1) for s in self.ts.state}
    def _ev(self, e, state, i_val):
        i_ = e.get_id()
        if i_ not in self._cc:
            try: self._cc[i_] = (_compile(e), e)          # keep e alive: ast ids are reused after garbage collection
            except NotImplementedError: self._cc[i_] = (None, e)
        f = self._cc[i_][0]
        if f is not None:
            nm = self._nm
            env = {(nm.get(s) or nm.setdefault(s, str(self.V(s)))): val for s, val in state.items()}; env[nm.get(self.d.i) or nm.setdefault(self.d.i, str(self.V(self.d.i)))] = i_val
            return f(env)
        subs = [(self.V(s), z3.BitVecVal(val, s.nbits)) for s, val in state.items()] + [(self.V(self.d.i), z3.BitVecVal(i_val, self.W))]
        r = z3.simplify(z3.substitute(e, *subs))
        if z3.is_bool(r): return 1 if z3.is_true(r) else 0
        return r.as_long()
    def cstep(self, state, i_val, ti, to, masks=None):
        masks = masks or {}; tick = {"i": ti, "o": to}; new = dict(state)
        for cd, m in self.inl.items():
            if not tick[cd]: continue
            for s, e in m.items():
                if s in self.first_stage:
                    _, src = self.first_stage[s]; scd = self.dom_of[src]
                    old = state[src]; nw = self._ev(self.inl[scd][src], state, i_val) if tick[scd] else old
                    mk_ = masks.get(s, 0); new[s] = (old & ~mk_ & ((1 << s.nbits) - 1)) | (nw & mk_)
                else: new[s] = self._ev(e, state, i_val)
        return new
    def cphases(self, state, i_val=0):
        """concrete values of a0..a7 and of _timeout.done in a state"""
        if self._iph is None: self._iph = ([self.inline(x) for x in self.phases()], self.inline(self.V(self.done)))
        return [self._ev(x, state, i_val) for x in self._iph[0]], self._ev(self._iph[1], state, i_val)
    def cassume_ok(self, state, i_val, ti, to):
        a, done = self.cphases(state, i_val)
        if ti and done and not a[0] and not a[7]:
            return not any(a[j] for j in (2, 3, 4, 5, 6)) and not (to and a[1])
        return True
    def run_script(self, script, check_assumption=True):
        """script: list of (tick_i, tick_o, i_val[, masks]) ; returns list of states (len+1) and the i history at i edges"""
        st = self.reset_state(); states = [st]; hist = []
        for stp in script:
            ti, to, iv = stp[0], stp[1], stp[2]; masks = stp[3] if len(stp) > 3 else None
            if check_assumption: assert self.cassume_ok(st, iv, ti, to), "script violates the time-out assumption"
            if ti: hist.append(iv)
            st = self.cstep(st, iv, ti, to, masks); states.append(st)
        return states, hist
    def show(self, st):
        n = lambda s: str(self.V(s)).split("#")[0]
        keys = [("starter", self.starter), ("ping.toggle_i", self.pt_i), ("ping.m0", self.pm0), ("ping.toggle_o", None), ("ping.toggle_o_r", self.pt_r), ("ping_o", self.ping_o),
                ("pong.toggle_i", self.qt_i), ("pong.m0", self.qm0), ("pong.toggle_o_r", self.qt_r), ("count", self.count), ("ibuffer", self.ibuffer), ("d0", self.d0), ("o", self.d.o)]
        out = {}
        for nm, s in keys:
            if s is not None: out[nm] = st[s]
        if not hasattr(self, "_ish"): self._ish = [self.inline(self.V(x)) for x in (self.obuffer, self.pt_o, self.qt_o)]
        out["obuffer"], out["ping.toggle_o"], out["pong.toggle_o"] = [self._ev(x, st, 0) for x in self._ish]
        return out

    def trace_of(self, m, depth):
        """scheduler script + register values of a z3 model of frames 0..depth"""
        ev = lambda e: m.eval(e, model_completion=True)
        script = []; rows = []
        for k in range(depth):
            ti, to = self.tick(k)
            masks = {s: ev(self.mask(s, k)).as_long() for s in self.first_stage}
            script.append((z3.is_true(ev(ti)), z3.is_true(ev(to)), ev(self.at(self.V(self.d.i), k)).as_long(), masks))
        return script
    def replay(self, script, X=None):
        """re-execute a scheduler script concretely through the step relation (independent of the solver's model) and decide natively
        whether o ever holds a non-reset word that was never on i at an i edge"""
        states, _ = self.run_script(script, check_assumption=False)
        seen = {0}; torn = None; rows = []
        for k, stp in enumerate(script):
            if stp[0]: seen.add(stp[2])
            o = states[k + 1][self.d.o]
            rows.append(dict(step=k, tick_i=bool(stp[0]), tick_o=bool(stp[1]), i=stp[2], meta={str(self.V(s)).split("#")[0] + "#" + str(s.duid): mv for s, mv in (stp[3] or {}).items() if mv} if len(stp) > 3 else {}, after=self.show(states[k + 1])))
            if o not in seen and torn is None: torn = (k, o)
        return torn, rows

# ---------------------------------------------------------------------------------------------------------------- obligations
def _check(cs):
    st, m, be, secs = solve(cs, timeout_ms=SOLVER_MS)
    return st, m, be, secs

def houdini(M, cands, assume=True, drift=None):
    """largest subset of the candidates that holds initially and is preserved by every step (for every scheduler choice and mask)"""
    t0 = time.time(); kept = dict(cands); dropped = {}
    base0 = M.init(0) + M.frame(0)
    for n, c in list(kept.items()):
        st, _, _, _ = _check(base0 + [z3.Not(M.at(c, 0))])
        if st != "unsat": dropped[n] = "init" if st == "sat" else "init(unknown)"; del kept[n]
    tr = M.frame(0) + M.frame(1) + M.trans(0, None, assume, drift)
    if drift is not None: tr.append(z3.ULE(M.at(M.ci, 0), z3.BitVecVal(drift, M.cw)))
    while True:
        s = z3.Solver(); s.set("timeout", SOLVER_MS)
        s.add(*tr); s.add(*[M.at(c, 0) for c in kept.values()])
        s.add(z3.Or(*[z3.Not(M.at(c, 1)) for c in kept.values()]) if kept else z3.BoolVal(False))
        r = s.check()
        if r == z3.unsat: break
        if r != z3.sat:
            return kept, dropped, time.time() - t0, "unknown"
        m = s.model()
        for n, c in list(kept.items()):
            if not z3.is_true(m.eval(M.at(c, 1), model_completion=True)): dropped[n] = "step"; del kept[n]
    return kept, dropped, time.time() - t0, "fixpoint"

def bmc(M, bad_fn, depth, assume=True, drift=None, start=None, extra=None, t_limit=240):
    """search a path from reset (or from the concrete state `start`) to bad_fn(k); returns (k, scheduler script) or (None, status)"""
    t0 = time.time()
    s = z3.Solver(); s.set("timeout", SOLVER_MS)
    if start is None: s.add(*M.init(0))
    else:
        for sg, val in start["regs"].items(): s.add(M.at(M.V(sg), 0) == z3.BitVecVal(val, sg.nbits))
        s.add(M.at(M.won, 0) == start.get("won", False), M.at(M.ci, 0) == start.get("ci", 0))
    s.add(*M.frame(0))
    for k in range(depth):
        s.add(*M.frame(k + 1)); s.add(*M.trans(k, None, assume, drift))
        if extra is not None: s.add(*extra(k))
        s.push(); s.add(bad_fn(k + 1))
        r = s.check()
        if r == z3.sat:
            m = s.model(); s.pop()
            return k + 1, M.trace_of(m, k + 1), m
        s.pop()
        if r != z3.unsat: return None, "unknown", None
        if time.time() - t0 > t_limit: return None, f"time limit at depth {k + 1}", None
    return None, "none", None

# ---------------------------------------------------------------------------------------------------------------- invariant candidates
def candidates(M, drift=None):
    V = M.V; a = M.phases(); X = M.X
    ib, ob, d0, o = V(M.ibuffer), V(M.obuffer), V(M.d0), V(M.d.o)
    req = {}; aux = {}
    # (1) one token: at most one of a0..a7
    for j in range(8):
        for l in range(j + 1, 8): req[f"token.not(a{j}&a{l})"] = z3.Not(z3.And(a[j], a[l]))
    # (2) data path phases
    req["data.request-pulse(ping.o)->first-data-flop==ibuffer"] = z3.Implies(a[3], d0 == ib)
    req["data.ping_o->obuffer==ibuffer"] = z3.Implies(a[4], ob == ib)
    # (3) the claim, with ghost won
    req["ghost.ibuffer-is-a-sample-of-i"] = z3.Implies(ib == X, z3.Or(M.won, X == 0))
    req["post.o-is-a-sample-of-i"] = z3.Implies(o == X, z3.Or(M.won, X == 0))
    # automatically generated extra candidates (Houdini decides)
    for j in range(8):
        aux[f"auto.a{j}->d0==ibuffer"] = z3.Implies(a[j], d0 == ib)
        aux[f"auto.a{j}->obuffer==ibuffer"] = z3.Implies(a[j], ob == ib)
        aux[f"auto.a{j}->o==ibuffer"] = z3.Implies(a[j], o == ib)
        aux[f"auto.a{j}->obuffer==d0"] = z3.Implies(a[j], ob == d0)
    idle = z3.Not(z3.Or(*a))
    aux["auto.idle->data-path-settled"] = z3.Implies(idle, z3.And(d0 == ib, ob == ib, o == ib))
    aux["auto.never-idle"] = z3.Not(idle)
    aux["auto.count<=T"] = z3.ULE(V(M.count), z3.BitVecVal(M.T, M.count.nbits))
    aux["auto.starter->count==T"] = z3.Implies(a[0], V(M.count) == M.T)
    if drift is not None:
        R = drift; cw = M.cw; K = lambda n: z3.BitVecVal(n, cw)
        n = K(M.T) - z3.ZeroExt(cw - M.count.nbits, V(M.count))      # i edges since the last request
        req["timer.count<=T"] = aux.pop("auto.count<=T")
        req["timer.never-idle"] = aux.pop("auto.never-idle")
        req["timer.starter->count==T"] = aux.pop("auto.starter->count==T")
        req["timer.ci<=Ri"] = z3.ULE(M.ci, K(R))
        req["timer.a1->n<=ci"] = z3.Implies(a[1], z3.ULE(n, M.ci))
        req["timer.a2->n<=(Ri+1)+ci"] = z3.Implies(a[2], z3.ULE(n, K(R + 1) + M.ci))
        req["timer.a3->n<=2(Ri+1)+ci"] = z3.Implies(a[3], z3.ULE(n, K(2 * (R + 1)) + M.ci))
        req["timer.a4->n<=3(Ri+1)+ci"] = z3.Implies(a[4], z3.ULE(n, K(3 * (R + 1)) + M.ci))
        req["timer.a5->n<=4(Ri+1)"] = z3.Implies(a[5], z3.ULE(n, K(4 * (R + 1))))
        req["timer.a6->n<=4(Ri+1)+1"] = z3.Implies(a[6], z3.ULE(n, K(4 * (R + 1) + 1)))
        req["timer.a7->n<=4(Ri+1)+2"] = z3.Implies(a[7], z3.ULE(n, K(4 * (R + 1) + 2)))
    return req, aux

# ---------------------------------------------------------------------------------------------------------------- co-simulation with litex.gen.sim
def cosim(M, runs=None, cycles=60, seed=1):
    from litex.gen.sim.core import Simulator
    ts = M.ts; d = M.d
    obs = [s for s in ts.state if s in ts.orig_signals] + [s for s in ts.comb_targets if s in ts.orig_signals]
    class RecSim(Simulator):
        def __init__(s_, *a, **k):
            super().__init__(*a, **k); s_.rec = []; s_._ris = set(); tk = s_.time.tick
            def tick():
                dt, r, f = tk(); s_._ris = set(r); return dt, r, f
            s_.time.tick = tick
        def _commit_and_comb_propagate(s_):
            super()._commit_and_comb_propagate()
            s_.rec.append((frozenset(s_._ris), {x: s_.evaluator.signal_values.get(x, x.reset.value) & ((1 << x.nbits) - 1) for x in obs + [d.i]})); s_._ris = set()
    runs = runs or [((10, 0), (10, 0), cycles), ((10, 0), (14, 3), cycles), ((14, 2), (10, 0), cycles), ((10, 0), (30, 4), cycles), ((30, 0), (10, 2), cycles), ((6, 0), (10, 0), cycles),
                    ((10, 0), (20 * (M.T + 4), 0), 3 * M.T + 60)]          # last run: o so slow that the retry time-out fires (also while a request is pending)
    compared = 0; mism = []; both = 0; fired = 0
    inl_obs = {x: M.inline(M.V(x)) for x in obs if x not in ts.state}; tcr = M.inline(M.timeout_causes_request())
    rnd = random.Random(seed)
    for (ci_, co_, ncyc) in runs:
        def gen():
            for _ in range(ncyc):
                yield d.i.eq(rnd.getrandbits(M.W)); yield
        sim = RecSim(copy_fragment(ts.f0), {"i": [gen()]}, clocks={"i": ci_, "o": co_})
        sim.run()
        st = M.reset_state(); prev = sim.rec[0][1]
        for ris, snap in sim.rec[1:]:
            ti, to = "i" in ris, "o" in ris
            if ti or to:
                if ti and to: both += 1
                if ti and M._ev(tcr, st, prev[d.i]): fired += 1
                st = M.cstep(st, prev[d.i], ti, to, None)
                for x in obs:
                    mine = st[x] if x in st else M._ev(inl_obs[x], st, snap[d.i])
                    compared += 1
                    if mine != snap[x]: mism.append((ci_, co_, str(M.V(x)), mine, snap[x]))
            elif any(snap[x] != prev[x] for x in obs): mism.append((ci_, co_, "a register or wire changed without a rising edge"))
            if mism: break
            prev = snap
        if mism: break
    return compared, mism, both, fired

# ---------------------------------------------------------------------------------------------------------------- cases
FUNCS = ["litex.gen.genlib.cdc.BusSynchronizer.__init__", "litex.gen.genlib.misc.WaitTimer.__init__ (as instantiated by BusSynchronizer, renamed to the i domain)",
         "migen.genlib.cdc.PulseSynchronizer.__init__, migen.genlib.cdc.MultiRegImpl.__init__ (flattened into the product model by migen's own lowering)"]

def _prove(M, out, drift=None, assume=True, label=""):
    """Houdini + named obligations; returns kept invariants (dict) or None when the proof failed"""
    req, aux = candidates(M, drift)
    cands = dict(req); cands.update(aux)
    kept, dropped, hsecs, hst = houdini(M, cands, assume, drift)
    lost = [n for n in req if n not in kept]
    inv = list(kept.values())
    out.append(res(f"inv.required-candidates-inductive{label}", "vc", PROVED if not lost and hst == "fixpoint" else (UNKNOWN if hst != "fixpoint" else NOINPUT), hsecs, "z3(houdini)",
                   info=f"kept {len(kept)}/{len(cands)} candidates ({len(req)} hand-written, all required); dropped: {sorted(dropped.items())}" + (f"; REQUIRED BUT NOT INDUCTIVE: {lost}" if lost else "")))
    if lost or hst != "fixpoint": return None, kept, lost
    # named obligations, re-checked one by one with the solver portfolio
    st, _, be, secs = _check(M.init(0) + M.frame(0) + [z3.Not(z3.And(*[M.at(c, 0) for c in inv]))])
    out.append(res(f"init.inv{label}", "vc", PROVED if st == "unsat" else (UNKNOWN if st == "unknown" else VIOLATED), secs, be))
    pre = M.frame(0) + M.frame(1) + [M.at(c, 0) for c in inv]
    if drift is not None: pre.append(z3.ULE(M.at(M.ci, 0), z3.BitVecVal(drift, M.cw)))
    for kind, txt in (("i", "i edge only"), ("o", "o edge only"), ("both", "simultaneous edges, every per-bit resolution of every first synchroniser flop")):
        if kind == "i" and drift == 0: continue          # Ri == 0: the schedule class has no i-only steps
        st, _, be, secs = _check(pre + M.trans(0, kind, assume, drift) + [z3.Not(z3.And(*[M.at(c, 1) for c in inv]))])
        out.append(res(f"step.inv[{txt}]{label}", "vc", PROVED if st == "unsat" else (UNKNOWN if st == "unknown" else NOINPUT), secs, be))
        # the step is not vacuous: the pre-state + scheduler choice + assumption is satisfiable
        st, _, be, secs = _check(pre + M.trans(0, kind, assume, drift))
        out.append(res(f"vacuity.step-enabled[{txt}]{label}", "vacuity", OK if st == "sat" else (UNKNOWN if st == "unknown" else VACUOUS), secs, be))
    return inv, kept, lost

def _posts(M, inv, out, assume, drift=None, label=""):
    V = M.V; a = M.phases(); at = M.at
    pre = M.frame(0) + [at(c, 0) for c in inv]
    def ens(name, goal, step=False, kind="ensures"):
        cs = list(pre)
        if step: cs += M.frame(1) + M.trans(0, None, assume, drift)
        st, _, be, secs = _check(cs + [z3.Not(goal)])
        out.append(res(name + label, kind, PROVED if st == "unsat" else (UNKNOWN if st == "unknown" else NOINPUT), secs, be))
    ti, to = M.tick(0)
    ens("ens.o-only-holds-words-that-were-on-i-at-one-i-edge(or its reset value 0)", z3.Not(M.bad(0)))
    ens("ens.o-loads-only-when-obuffer==ibuffer", at(z3.Implies(a[4], V(M.obuffer) == V(M.ibuffer)), 0))
    ens("ens.o-keeps-its-value-unless-ping_o-at-an-o-edge", z3.Implies(z3.Not(z3.And(to, at(a[4], 0))), at(V(M.d.o), 1) == at(V(M.d.o), 0)), step=True)
    ens("ens.o-load-copies-ibuffer", z3.Implies(z3.And(to, at(a[4], 0)), at(V(M.d.o), 1) == at(V(M.ibuffer), 0)), step=True)
    ens("ens.ibuffer-changes-only-by-sampling-i-at-an-i-edge", z3.Or(at(V(M.ibuffer), 1) == at(V(M.ibuffer), 0), z3.And(ti, at(V(M.ibuffer), 1) == at(V(M.d.i), 0))), step=True)
    inflight = z3.Or(*[a[j] for j in (1, 2, 3, 4, 5, 6)])
    ens("ens.ibuffer-stable-while-request-or-acknowledge-in-flight", z3.Implies(at(inflight, 0), at(V(M.ibuffer), 1) == at(V(M.ibuffer), 0)), step=True)
    ens("ens.request-toggle-stable-once-sampled-by-o-until-acknowledged", z3.Implies(at(z3.Or(*[a[j] for j in (2, 3, 4, 5, 6)]), 0), at(V(M.pt_i), 1) == at(V(M.pt_i), 0)), step=True)

def c_proof(W, T, cosim_runs=True):
    """theorem A: unbounded drift, named time-out assumption"""
    t0 = time.time(); out = []
    M = Model(W, T)
    # 0. the model is the real fragment: co-simulation and crossing structure
    if cosim_runs:
        t1 = time.time(); n, mism, both, fired = cosim(M)
        out.append(res("extraction.cosim[litex.gen.sim two-clock runs vs product model]", "extraction", OK if not mism and n > 0 and both > 0 and fired > 0 else FAULT, time.time() - t1, "litex.gen.sim",
                       info=f"{n} register/wire values compared over 7 period/phase pairs, {both} simultaneous edges, {fired} time-out caused requests; mismatches: {mism[:3]}"))
    off = M.crossing_offenders()
    out.append(res(f"ens.structure[only the {len(M.first_stage)} first synchroniser flops read the other clock domain; i is read by the i domain only]", "ensures",
                   PROVED if not off and len(M.first_stage) == 3 else VIOLATED, 0, "structural (support of the inlined next-state functions)", info=str(off)))
    inv, kept, lost = _prove(M, out, None, True)
    if inv is None:
        # find a real path through the model to a torn word; otherwise not inductive without witness
        k, script, _ = bmc(M, M.bad, 40, True)
        if k is not None:
            torn, rows = M.replay(script)
            out.append(res("ens.o-only-holds-words-that-were-on-i-at-one-i-edge(or its reset value 0)", "ensures", VIOLATED if torn else NOINPUT, time.time() - t0, "z3(bmc)+concrete replay through the model", witness=rows, info=f"torn word {torn} after {k} scheduler steps"))
        else:
            out.append(res("ens.o-only-holds-words-that-were-on-i-at-one-i-edge(or its reset value 0)", "ensures", NOINPUT, time.time() - t0, "z3(bmc)", info=f"invariant not inductive ({lost}); no path to a torn word within 40 steps ({script})"))
        return dict(results=out, functions=FUNCS, assumptions=[TIMEOUT_ASSUMPTION])
    _posts(M, inv, out, True)
    # covers ----------------------------------------------------------------------------------------------------
    V = M.V
    # (a) o really changes, twice, to two different non-reset words (under the assumption)
    t1 = time.time()
    def two_words(k): return z3.And(M.at(V(M.d.o), k) != 0, z3.Or(*[z3.And(M.at(V(M.d.o), j) != 0, M.at(V(M.d.o), j) != M.at(V(M.d.o), k)) for j in range(1, k)])) if k > 1 else z3.BoolVal(False)
    k, script, _ = bmc(M, two_words, 40, True)
    if k is not None:
        torn, rows = M.replay(script); os_ = [r["after"]["o"] for r in rows]
        okc = torn is None and len({x for x in os_ if x}) >= 2
        out.append(res("cover.o-changes-to-a-new-word-twice", "cover", OK if okc else FAULT, time.time() - t1, "z3(bmc)+concrete replay", depth=k, info=f"o over time {os_}"))
    else: out.append(res("cover.o-changes-to-a-new-word-twice", "cover", VACUOUS if script == "none" else UNKNOWN, time.time() - t1, "z3(bmc)", info=str(script)))
    # (b) lost start + recovery: o clock silent, the time-out cancels the un-sampled request, the next time-out fires with nothing in flight,
    #     the hand-shake resumes and o takes a word of i.   Guided prefix (concrete, assumption checked at each step), then BMC.
    t1 = time.time()
    pre = [(True, False, 1)] * (2 * T + 3)
    states, hist = M.run_script(pre, check_assumption=True)
    fired_idle = None
    for k in range(len(pre)):
        st = states[k]
        a, dn = M.cphases(st, 1)
        if not any(a) and dn: fired_idle = k
    if fired_idle is None:
        out.append(res("cover.time-out-fires-with-no-round-trip-in-flight(lost start recovery)", "cover", VACUOUS, time.time() - t1, "concrete run of the model", info="idle state with done not reached"))
    else:
        start = dict(regs=states[fired_idle + 1], won=False, ci=0)     # the ghosts are irrelevant for this cover
        # after the recovery request the hand-shake must deliver a fresh word: o becomes a word != 0 and != 1 (not seen in the prefix)
        s_bad = lambda k: z3.And(M.at(V(M.d.o), k) != 0, M.at(V(M.d.o), k) != 1)
        # ghost won for X is irrelevant for this cover
        k, script, _ = bmc(M, s_bad, 30, True, start=start)
        if k is not None:
            full = [(a_, b_, c_, None) for a_, b_, c_ in pre[:fired_idle + 1]] + script
            st2, _h = M.run_script(full, check_assumption=True)
            okc = st2[-1][M.d.o] not in (0, 1)
            out.append(res("cover.time-out-fires-with-no-round-trip-in-flight(lost start recovery)", "cover", OK if okc else FAULT, time.time() - t1, "concrete guided prefix + z3(bmc) + concrete replay (assumption checked at every step)",
                           depth=len(full), info=f"request cancelled by the first time-out at step {T + 1}, time-out with nothing in flight at step {fired_idle}, o == {st2[-1][M.d.o]} at step {len(full)}"))
        else: out.append(res("cover.time-out-fires-with-no-round-trip-in-flight(lost start recovery)", "cover", VACUOUS if script == "none" else UNKNOWN, time.time() - t1, "z3(bmc)", info=str(script)))
    return dict(results=out, functions=FUNCS, assumptions=[TIMEOUT_ASSUMPTION],
                samples=[dict(theorem="A", W=W, timeout=T, invariants=sorted(kept))])

def c_drift(W, T, Ri, expect_tight=None):
    """theorem B: at most Ri consecutive i-only steps, timeout >= 4 Ri + 6, NO assumption on the time-out"""
    t0 = time.time(); out = []
    M = Model(W, T)
    assert T >= 4 * Ri + 6
    label = f"[drift: at most {Ri} consecutive i-only steps; no time-out assumption]"
    inv, kept, lost = _prove(M, out, Ri, False, label)
    if inv is None:
        k, script, _ = bmc(M, M.bad, 40, False, Ri)
        if k is not None:
            torn, rows = M.replay(script)
            out.append(res("ens.o-only-holds-words-that-were-on-i-at-one-i-edge(or its reset value 0)" + label, "ensures", VIOLATED if torn else NOINPUT, time.time() - t0, "z3(bmc)+concrete replay", witness=rows, info=f"torn word {torn}"))
        else: out.append(res("ens.o-only-holds-words-that-were-on-i-at-one-i-edge(or its reset value 0)" + label, "ensures", NOINPUT, time.time() - t0, "z3(bmc)", info=f"not inductive: {lost}"))
        return dict(results=out, functions=FUNCS)
    _posts(M, inv, out, False, Ri, label)
    V = M.V; at = M.at
    pre = M.frame(0) + M.frame(1) + [at(c, 0) for c in inv] + [z3.ULE(at(M.ci, 0), z3.BitVecVal(Ri, M.cw))] + M.trans(0, None, False, Ri)
    st, _, be, secs = _check(pre + [z3.Not(M.assumption(0))])
    out.append(res("ens.time-out-assumption-of-theorem-A-holds-at-every-step" + label, "ensures", PROVED if st == "unsat" else (UNKNOWN if st == "unknown" else NOINPUT), secs, be))
    ti, _to = M.tick(0)
    st, _, be, secs = _check(pre + [ti, at(M.timeout_causes_request(), 0)])
    out.append(res("ens.the-time-out-never-causes-a-request" + label, "ensures", PROVED if st == "unsat" else (UNKNOWN if st == "unknown" else NOINPUT), secs, be))
    t1 = time.time()
    def new_word(k): return z3.And(at(V(M.d.o), k) != 0, z3.Or(*[z3.And(at(V(M.d.o), j) != 0, at(V(M.d.o), j) != at(V(M.d.o), k)) for j in range(1, k)])) if k > 1 else z3.BoolVal(False)
    k, script, _ = bmc(M, new_word, 60, False, Ri)
    if k is not None:
        torn, rows = M.replay(script); os_ = [r["after"]["o"] for r in rows]
        out.append(res("cover.o-changes-to-a-new-word-twice" + label, "cover", OK if torn is None and len({x for x in os_ if x}) >= 2 else FAULT, time.time() - t1, "z3(bmc)+concrete replay", depth=k, info=f"o over time {os_}"))
    else: out.append(res("cover.o-changes-to-a-new-word-twice" + label, "cover", VACUOUS if script == "none" else UNKNOWN, time.time() - t1, "z3(bmc)", info=str(script)))
    return dict(results=out, functions=FUNCS, assumptions=[f"BusSynchronizer/theorem B: schedules with at most Ri consecutive i-only steps (the o clock may be arbitrarily faster), timeout >= 4*Ri+6; proved instances are named in the obligations; no assumption about the time-out"],
                samples=[dict(theorem="B", W=W, timeout=T, Ri=Ri)])

# ---- model-level broken variants of the REAL extracted system: the proof must fail AND the model must exhibit a torn word (anti-vacuity of the metastability abstraction)
def _no_extra_flop(M):
    """o is loaded on _ping.o instead of the extra flop ping_o (one o cycle earlier); the acknowledge is unchanged"""
    ts = M.ts; v = ts.var
    ts.next["o"][M.d.o] = z3.substitute(ts.next["o"][M.d.o], (v[M.ping_o], v[M.d._ping.o]))
def _three_flop_data(M):
    """one more flop on the data path: obuffer is delayed by one more o cycle"""
    ts = M.ts; v = ts.var
    x = Signal(M.W, name_override="extra_data_flop"); ts.var[x] = z3.BitVec("extra_data_flop#x", M.W); ts.state.append(x)
    old = ts.comb_eq[M.obuffer]
    ts.next["o"][x] = old; ts.comb_eq[M.obuffer] = ts.var[x]
SURGERY = {"no-extra-flop": _no_extra_flop, "three-flop-data-path": _three_flop_data}

def c_sanity(what, W, T, depth=30, drift=None):
    t0 = time.time(); out = []
    if what == "no-assumption":
        M = Model(W, T); assume = False
    elif what == "time-out-one-below-the-bound-of-theorem-B":
        M = Model(W, T); assume = False; assert T == 4 * drift + 5
    elif what == "assumption-without-the-sampling-instant-clause":
        M = Model(W, T, sampling_clause=False); assume = True
    else:
        M = Model(W, T, surgery=SURGERY[what]); assume = True
    tmp = []
    inv, kept, lost = _prove(M, tmp, drift, assume)
    out.append(res(f"cover.proof-fails[{what}]", "cover", OK if inv is None and lost else VACUOUS, time.time() - t0, "z3(houdini)", info=f"required invariants lost: {lost}"))
    t1 = time.time()
    k, script, _ = bmc(M, M.bad, depth, assume, drift)
    if k is not None:
        torn, rows = M.replay(script)
        out.append(res(f"cover.model-reaches-a-torn-word[{what}]", "cover", OK if torn is not None else FAULT, time.time() - t1, "z3(bmc)+concrete replay through the model", depth=k, witness=rows,
                       info=f"o == {torn[1]} after step {torn[0]}, never on i; scheduler script with per-bit resolutions in `witness`" if torn else "solver path not confirmed by the concrete replay"))
    else: out.append(res(f"cover.model-reaches-a-torn-word[{what}]", "cover", VACUOUS if script == "none" else UNKNOWN, time.time() - t1, "z3(bmc)", info=str(script)))
    return dict(results=out, functions=[FUNCS[0] + " (anti-vacuity variants of the extracted model)"])

def c_bounded(W, T, R, DEPTH):
    """the bounded stand-in of C05_cdc.py at a wider word (no assumption on the time-out, drift ratio R both ways)"""
    from contracts.C05_cdc import c_bussync
    return c_bussync(W, T, R, DEPTH)

def cases(tier):
    cs = []
    for W in (2, 4, 8):
        for T in (8, 128):
            cs.append(VCase(f"BusSynchronizer.proof(W={W},timeout={T})", c_proof, W, T, timeout=1500))
    for W in (2, 4, 8):
        cs += [VCase(f"BusSynchronizer.drift(W={W},timeout=8,Ri=0)", c_drift, W, 8, 0, timeout=1500),
               VCase(f"BusSynchronizer.drift(W={W},timeout=128,Ri=30)", c_drift, W, 128, 30, timeout=1500)]
    cs += [VCase("BusSynchronizer.drift(W=2,timeout=24,Ri=2)", c_drift, 2, 24, 2, timeout=1500),              # the parameters of the bounded stand-in in C05_cdc.py, now unbounded
           VCase("BusSynchronizer.drift(W=2,timeout=6,Ri=0)", c_drift, 2, 6, 0, timeout=1500),            # the bound 4*Ri+6 is exact: see the two sanity cases with 4*Ri+5
           VCase("BusSynchronizer.drift(W=2,timeout=10,Ri=1)", c_drift, 2, 10, 1, timeout=1500),
           VCase("BusSynchronizer.sanity(timeout=5,Ri=0)", c_sanity, "time-out-one-below-the-bound-of-theorem-B", 2, 5, 30, 0, timeout=1500),
           VCase("BusSynchronizer.sanity(timeout=9,Ri=1)", c_sanity, "time-out-one-below-the-bound-of-theorem-B", 2, 9, 30, 1, timeout=1500),
           VCase("BusSynchronizer.sanity(no-extra-flop)", c_sanity, "no-extra-flop", 2, 8, timeout=1500),
           VCase("BusSynchronizer.sanity(three-flop-data-path)", c_sanity, "three-flop-data-path", 2, 8, timeout=1500),
           VCase("BusSynchronizer.sanity(no-assumption)", c_sanity, "no-assumption", 2, 8, timeout=1500),
           VCase("BusSynchronizer.sanity(assumption-without-the-sampling-instant-clause)", c_sanity, "assumption-without-the-sampling-instant-clause", 2, 8, 40, timeout=1500)]
    if tier == "thorough":
        cs += [VCase("BusSynchronizer.proof(W=16,timeout=128)", c_proof, 16, 128, timeout=3000),
               VCase("BusSynchronizer.proof(W=3,timeout=24)", c_proof, 3, 24, timeout=3000),
               VCase("BusSynchronizer.drift(W=8,timeout=24,Ri=4)", c_drift, 8, 24, 4, timeout=3000),
               VCase("BusSynchronizer.drift(W=3,timeout=24,Ri=3)", c_drift, 3, 24, 3, timeout=3000),
               VCase("BusSynchronizer.drift(W=16,timeout=128,Ri=30)", c_drift, 16, 128, 30, timeout=3000),
               VCase("BusSynchronizer.bounded(W=4,timeout=24,R=2)", c_bounded, 4, 24, 2, 24, timeout=3000)]
    return cs

ASSUMPTIONS = [TIMEOUT_ASSUMPTION,
               "BusSynchronizer model: two-clock product of the real fragment; metastability = every bit of a first synchroniser flop resolves to the old or the new value of its source when both domains tick in the same step (later flops of a synchroniser never go metastable); no reset pulses of either domain after power-up; power-up values = the FHDL reset values (0 for reset_less registers, as in the emitted Verilog)",
               "BusSynchronizer: 'after the input has been stable long enough the output reflects it' (liveness) is not decided here"]
