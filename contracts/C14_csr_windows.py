"""C14: "each ... memory window ... published ... denotes the location at which the built hardware really responds: an access ... reads and writes
exactly that register or region and nothing else".  CSR memory windows (csr_bus.SRAM behind the bank array, also words WIDER than the CSR data path
with their staging registers, paged windows, read-only windows) are proved in contracts/C12_csr_sram.py for every access sequence: a write to another
register never changes a window's cell or staging register, a read returns the addressed cell.  Those obligations are obligations of C14 too (the
published window address = bank page x paging + word offset is what csr.h / JSON publish, proved against the real SoC in C14_exports.py)."""
from vf.core import Case
from contracts import C12_csr_sram as M

def cases(tier):
    return [Case("window:" + c.cid, c.fn, *c.args, tier=c.tier, timeout=c.timeout, **c.kw) for c in M.cases(tier)]
