"""C20 (instance parameters): 'the parameters placed on the emitted primitive instance equal that configuration', for ALL
configurations of every vendor helper instead of the enumerated requests of C20_clocks.py / C20_clocks_ext.py.

Method (engine E3, symx explorer of C20_clocks_ext: a solver 'unknown' never prunes a path).  The REAL `do_finalize` of each helper class
runs on a helper object that was set up through the REAL `register_clkin` / `create_clkout`, with `compute_config` replaced ON THAT OBJECT
by a function that returns a SYMBOLIC configuration: one z3 integer/real variable per divider, multiplier, phase and frequency entry,
constrained to the helper's declared ranges; input frequency, requested frequencies, phases and margins are symbolic reals; the number of
outputs runs 1..nclkouts_max concretely.  `Instance` is replaced in the namespace of the module that defines `do_finalize` by a recorder
that builds the real migen Instance and keeps it; the values are read back from the items of that Instance (what the Verilog back end
prints).  Every configuration-bearing parameter is compared by z3 with a SPECIFICATION FUNCTION of the configuration that is stated here
from the primitive's parameter naming and the helper's own comments (e.g. 'Static IDIV value (1-64)' -> IDIV_SEL = idiv - 1 for rPLL,
'str(Actual value - 1)' for the Nexus PLL, CPHASE/FPHASE of EHXPLLL from the phase in eighths of a VCO period).  Besides the values:
 * the primitive output pin of the n-th request is connected to the n-th requested clock domain's clock (directly or through the clock
   buffer that was asked for), the feedback loop is closed the way the frequency formula of compute_config presumes,
 * no configuration-bearing parameter is emitted for an output the configuration does not contain ('no-extra'),
 * every configuration entry that bears on the hardware is read by do_finalize ('consumed'),
 * the recorded Instance is the one added to the module's specials.
int()/float() are replaced in the helper module's namespace (harness only) by their real-number definitions on symbolic values
(truncation toward zero / identity); round() is Python's round-half-even; str() of a symbolic value is a marker that is mapped back to its
term (float(str(x)) == x: floats are reals)."""
import sys, time, re, math, itertools, contextlib, io, logging, inspect, ast, textwrap, fractions, z3
from vf import symx, loopcut
from vf.symx import SymBool, SymInt, PathEnd
from vf.loopcut import SymReal, VC, rewrite
from vf.core import Case, PROVED, VIOLATED, NOINPUT, UNKNOWN, BOUNDED_OK, OK, VACUOUS
from vf.hw import res
from migen import Signal, ClockDomain, Constant
from migen.fhdl.structure import _Assign, _Slice
from migen.fhdl.specials import Instance as MigenInstance
from litex.gen import Open
from contracts.C20_clocks_ext import explore, _decide, INTEL, INTEL_GRADES, GW1N_DEVICES, GW5A_DEVICES, GW1N_RANGES
from litex.soc.cores.clock import xilinx_s7, xilinx_s6, xilinx_us, xilinx_usp, lattice_ice40, lattice_ecp5, lattice_nx
from litex.soc.cores.clock import intel_common, gowin_gw1n, gowin_gw2a, gowin_gw5a, colognechip

M = "litex.soc.cores.clock."

# ------------------------------------------------------------------------------------------------------------------ symbolic values
def _isint(t): return t.sort() == z3.IntSort()
def _real(t):
    if z3.is_int_value(t): return z3.RealVal(t.as_long())
    return z3.ToReal(t) if _isint(t) else t
def _const(x):
    if isinstance(x, bool): return z3.IntVal(int(x))
    if isinstance(x, int): return z3.IntVal(x)
    if isinstance(x, float):
        if x.is_integer(): return z3.RealVal(int(x))
        return z3.RealVal(str(fractions.Fraction(repr(x))))            # the decimal the literal denotes (floats are reals)
    return NotImplemented
def _tt(x):
    if isinstance(x, SymInt): return x.t
    return _const(x)
def trunc_t(t):
    """int(x): truncation toward zero"""
    if _isint(t): return t
    return z3.If(t >= 0, z3.ToInt(t), -z3.ToInt(-t))
def round_t(t):
    """Python round(x): nearest integer, ties to the even one"""
    if _isint(t): return t
    k = z3.ToInt(t + z3.RealVal("1/2"))
    return z3.If(z3.And(z3.IsInt(t + z3.RealVal("1/2")), k % 2 == 1), k - 1, k)
def round_spec(t):
    """the specification's 'nearest integer' (stated independently of round_t): below/above the half, tie -> even"""
    t = _real(t); fl = z3.ToInt(t); fr = t - z3.ToReal(fl); half = z3.RealVal("1/2")
    return z3.If(fr < half, fl, z3.If(fr > half, fl + 1, z3.If(fl % 2 == 0, fl, fl + 1)))

_MARKS = []
_MK = re.compile("⟦(\\d+)⟧")
def _mark(t, kind="s"):
    _MARKS.append((kind, t)); return f"⟦{len(_MARKS) - 1}⟧"

class PV(SymReal):
    """symbolic integer or real (sort of the term); comparisons are symx.SymBool (branching through the explorer)"""
    def __init__(self, t): self.t = t
    def _ops(op, keep_int=True, name=""):
        def co(a, b):
            at, bt = _tt(a), _tt(b)
            if at is NotImplemented or bt is NotImplemented: return None
            if keep_int and _isint(at) and _isint(bt): return at, bt
            return _real(at), _real(bt)
        def f(self, o):
            c = co(self, o)
            return NotImplemented if c is None else PV(op(*c))
        def r(self, o):
            c = co(o, self)
            return NotImplemented if c is None else PV(op(*c))
        return f, r
    __add__, __radd__ = _ops(lambda a, b: a + b)
    __sub__, __rsub__ = _ops(lambda a, b: a - b)
    __mul__, __rmul__ = _ops(lambda a, b: a * b)
    def _div(a, b):
        if not z3.is_rational_value(b) and bool(SymBool(b == 0)): raise ZeroDivisionError("division by zero")   # a divisor that can be 0 raises on that path, as natively
        if z3.is_rational_value(b) and b.numerator_as_long() == 0: raise ZeroDivisionError("division by zero")
        return a / b
    __truediv__, __rtruediv__ = _ops(_div, keep_int=False)
    def _fdiv(a, b):
        if _isint(a) and _isint(b):
            if not (z3.is_int_value(b) and b.as_long() > 0): raise NotImplementedError("// by a non-constant")
            return a / b                                                        # z3 integer division by a positive constant is floor
        return z3.ToInt(PV._div(_real(a), _real(b)))
    __floordiv__, __rfloordiv__ = _ops(_fdiv)
    def _mod(a, b):
        if not (_isint(a) and z3.is_int_value(b) and b.as_long() > 0): raise NotImplementedError("% of a non-integer / by a non-constant")
        return a % b
    __mod__, __rmod__ = _ops(_mod)
    def __and__(self, o):
        if not (_isint(self.t) and isinstance(o, int) and o >= 0 and (o + 1) & o == 0): raise NotImplementedError("& with something else than a 2**k-1 mask")
        return PV(self.t % (o + 1))                                             # two's complement of Python ints: x & (2**k-1) == x mod 2**k
    __rand__ = __and__
    def __rshift__(self, o):
        if not (_isint(self.t) and isinstance(o, int) and o >= 0): raise NotImplementedError(">> of a non-integer")
        return PV(self.t / (2 ** o))                                            # arithmetic shift == floor division
    def __neg__(self): return PV(-self.t)
    def __pos__(self): return self
    def __abs__(self): return PV(z3.If(self.t >= 0, self.t, -self.t))
    def __round__(self, nd=None):
        if nd is not None: raise NotImplementedError("round(x, ndigits)")
        return PV(round_t(self.t))
    def __trunc__(self): return PV(trunc_t(self.t))
    def __floor__(self): return PV(self.t if _isint(self.t) else z3.ToInt(self.t))
    def __ceil__(self): return PV(self.t if _isint(self.t) else -z3.ToInt(-self.t))
    def _cmp(op):
        def f(self, o):
            at, bt = _tt(self), _tt(o)
            if bt is NotImplemented: return NotImplemented
            if not (_isint(at) and _isint(bt)): at, bt = _real(at), _real(bt)
            return SymBool(op(at, bt))
        return f
    __lt__ = _cmp(lambda a, b: a < b); __le__ = _cmp(lambda a, b: a <= b); __gt__ = _cmp(lambda a, b: a > b); __ge__ = _cmp(lambda a, b: a >= b)
    __eq__ = _cmp(lambda a, b: a == b); __ne__ = _cmp(lambda a, b: a != b)
    __hash__ = lambda self: id(self)
    def __bool__(self): return symx.CTX.branch(self.t != 0)
    def __str__(self): return _mark(self.t, "s")
    __repr__ = __str__
    def __format__(self, spec): return _mark(self.t, "f:" + spec)

def sym_int(x, *a):
    if isinstance(x, PV): return PV(trunc_t(x.t))
    if isinstance(x, str) and _MK.fullmatch(x): return PV(trunc_t(_MARKS[int(_MK.fullmatch(x).group(1))][1]))
    return int(x, *a)
def sym_float(x=0.0):
    if isinstance(x, PV): return PV(_real(x.t))
    if isinstance(x, str) and _MK.fullmatch(x): return PV(_real(_MARKS[int(_MK.fullmatch(x).group(1))][1]))
    return float(x)

class Cfg(dict):
    """configuration dict that records which entries do_finalize reads"""
    def __init__(self, *a, **k): dict.__init__(self, *a, **k); self.reads = set()
    def __getitem__(self, k): self.reads.add(k); return dict.__getitem__(self, k)
    def get(self, k, d=None): self.reads.add(k); return dict.get(self, k, d)
    def __contains__(self, k): self.reads.add(k); return dict.__contains__(self, k)

class Sym:
    """factory of the symbolic entries of one run"""
    def __init__(self, ctx): self.ctx = ctx
    def int(self, name, lo=None, hi=None):
        x = PV(z3.Int(name))
        if lo is not None: self.ctx.assume(x >= lo)
        if hi is not None: self.ctx.assume(x < hi)
        return x
    def real(self, name, lo=None, hi=None, lo_strict=False):
        x = PV(z3.Real(name))
        if lo is not None: self.ctx.assume(x > lo if lo_strict else x >= lo)
        if hi is not None: self.ctx.assume(x <= hi)
        return x
    def eighths(self, name, klo, khi):
        """k/8 for an integer klo <= k <= khi (clkdiv_range(.., step 1/8), [x / 8 for x in range(..)])"""
        k = z3.Int(name + "_x8"); self.ctx.assume(SymBool(z3.And(k >= klo, k <= khi))); return PV(z3.ToReal(k) / 8)

# ------------------------------------------------------------------------------------------------------------ recorder and read-back
@contextlib.contextmanager
def _patched(fn, **extra):
    """replace `Instance` (recorder) and the given builtins in the globals of the module that defines `fn` - harness only, restored"""
    g = fn.__globals__; rec = []; saved = {}
    orig = g["Instance"]
    def recorder(of, *items, **kw):
        inst = orig(of, *items, **kw); rec.append(inst); return inst
    names = dict(dict(int=sym_int, float=sym_float), **extra, Instance=recorder)
    for k, v in names.items(): saved[k] = g.get(k, _patched); g[k] = v
    try: yield rec
    finally:
        for k, v in saved.items():
            if v is _patched: del g[k]
            else: g[k] = v

def _placed(inst):
    """what is on the Instance: {'p_NAME': value, 'i_NAME'/'o_NAME': expression}"""
    out = {}
    for it in inst.items:
        if isinstance(it, MigenInstance.Parameter): out["p_" + it.name] = it.value.value if isinstance(it.value, Constant) else it.value
        elif isinstance(it, MigenInstance.Input): out["i_" + it.name] = it.expr
        elif isinstance(it, MigenInstance.Output): out["o_" + it.name] = it.expr
        elif isinstance(it, MigenInstance.InOut): out["io_" + it.name] = it.expr
    return out

def _val(v):
    """(kind, term) of a parameter value: 'num' (Verilog number), 'str' (Verilog string holding a decimal number), 'text'"""
    if isinstance(v, PV): return "num", v.t
    if isinstance(v, Constant): return "num", z3.IntVal(v.value)
    if isinstance(v, (bool, int, float)): return "num", _const(v)
    if isinstance(v, str):
        m = _MK.fullmatch(v)
        if m:
            kind, t = _MARKS[int(m.group(1))]
            return ("str", t) if kind == "s" else ("formatted", None)
        if _MK.search(v): return "mixed", None
        for conv in (int, float):
            try: return "str", _const(conv(v))
            except ValueError: pass
        return "text", v
    return "other", v

def _eq(a, b):
    if not (_isint(a) and _isint(b)): a, b = _real(a), _real(b)
    return a == b

def _purify(ts):
    """replace every product of >= 2 non-constant factors and every quotient/modulus by a non-constant by a fresh variable (one per distinct term)"""
    cache = {}
    def const(e): return z3.is_rational_value(e) or z3.is_int_value(e)
    def go(e):
        k = e.get_id()
        if k in cache: return cache[k]
        r = e
        if z3.is_app(e) and e.num_args() > 0:
            ch = [go(c) for c in e.children()]; dk = e.decl().kind()
            if (dk == z3.Z3_OP_MUL and sum(1 for c in e.children() if not const(c)) >= 2) or (dk in (z3.Z3_OP_DIV, z3.Z3_OP_IDIV, z3.Z3_OP_MOD, z3.Z3_OP_REM) and not const(e.children()[1])):
                r = z3.FreshConst(e.sort(), "prod")
            else:
                r = e.decl()(*ch)
        cache[k] = r; return r
    out = [go(t) for t in ts]
    return out, sum(1 for k, v in cache.items() if z3.is_const(v) and str(v).startswith('prod!'))

class Checks:
    """obligations of one run: (name, z3 Bool) - structural facts are Python booleans turned into constants"""
    def __init__(self, tag): self.tag = tag; self.obl = []; self.struct = set(); self.info = {}
    def add(self, name, t, info=None):
        name = f"{self.tag}.{name}"
        if isinstance(t, bool): self.struct.add(name); t = z3.BoolVal(t)
        self.obl.append((name, t))
        if info: self.info[name] = info
    def params(self, placed, spec):
        """spec: list of (key, kind, expected, description); kind: num | str | text | is | open | absent"""
        for key, kind, exp, desc in spec:
            nm = f"ens.{key}=={desc}"
            if kind == "absent": self.add(f"ens.{key}.absent[{desc}]", key not in placed); continue
            if key not in placed: self.add(nm, False, "parameter not on the instance"); continue
            v = placed[key]
            if kind == "is": self.add(nm, v is exp)
            elif kind == "open": self.add(nm, isinstance(v, Open))
            elif kind == "text": self.add(nm, isinstance(v, type(exp)) and v == exp, f"placed: {v!r}")
            else:
                k, t = _val(v)
                if k != kind: self.add(nm, False, f"placed value {v!r} is a {k}, the primitive expects a {kind}")
                else: self.add(nm, _eq(t, exp.t if isinstance(exp, SymInt) else _tt(exp)))
    def no_extra(self, placed, spec, pattern):
        keys = {k for k, *_ in spec}
        extra = sorted(k for k in placed if re.fullmatch(pattern, k) and k not in keys)
        self.add("ens.no-extra-configuration-parameters", not extra, f"emitted without a configuration entry: {extra}")
    def consumed(self, cfg, keys):
        miss = sorted(k for k in keys if k in dict.keys(cfg) and k not in cfg.reads)
        self.add("ens.configuration-entries-consumed", not miss, f"never read by do_finalize: {miss}")

BUFS = ("BUFG", "BUFR", "BUFH", "BUFGCE", "BUFIO")
def _frag(m): return m._fragment
def _drivers(m, sig): return [st.r for st in _frag(m).comb if isinstance(st, _Assign) and st.l is sig]
def _connected(m, cd, pin_expr, buf=None):
    """cd.clk is driven (one comb assignment) by the expression on the primitive's output pin, directly or through the requested buffer"""
    d = _drivers(m, cd.clk)
    if len(d) != 1: return False
    s = d[0]
    if buf is None: return s is pin_expr
    bufs = [x for x in _frag(m).specials if isinstance(x, MigenInstance) and x.of == buf.upper() and x.get_io("O") is s]
    return len(bufs) == 1 and bufs[0].get_io("I") is pin_expr
def _in_specials(m, inst): return any(x is inst for x in _frag(m).specials)
def _clkin_ok(m, pin_expr, src):
    return pin_expr is m.clkin and any(r is src for r in _drivers(m, m.clkin))

def _run_case(prefix, runs, functions, note):
    """runs: list of (tag, fn(ctx, C)) - each explored over all its paths; returns the case result"""
    t0 = time.time(); out = []; npaths = 0; nsat = 0
    for tag, fn in runs:
        C_all = []; abstracted = set()
        def wrapped(ctx, fn=fn, tag=tag):
            del _MARKS[:]
            C = Checks(tag); C_all.append(C)
            fn(ctx, C)
            s = z3.Solver(); s.add(*ctx.pc); C.sat = s.check()
            # products / quotients of two symbolic values (phase*divider, clkin/(divr+1)) are first abstracted by fresh variables (the same variable for the same
            # term): valid for the abstraction => valid; otherwise the original query goes to the explorer's solver portfolio
            obl = []
            for n, t in C.obl:
                if n not in C.struct and not z3.is_true(t):
                    q, nfresh = _purify(list(ctx.pc) + [z3.Not(t)])
                    s = z3.Solver(); s.set("timeout", 20000); s.add(*q)
                    if s.check() == z3.unsat:
                        if nfresh: abstracted.add(n)
                        t = z3.BoolVal(True)
                obl.append((n, t))
            return obl
        t1 = time.time()
        paths, results = explore(wrapped)
        npaths += paths; nsat += sum(1 for C in C_all if getattr(C, "sat", None) == z3.sat)
        struct = set().union(*[C.struct for C in C_all]) if C_all else set(); info = {}
        for C in C_all: info.update(C.info)
        seen = {}; facts = {}
        for n, r, m in results:
            if n in struct and r == z3.unsat:                    # structural facts that hold: one result per run (failing ones stay individual)
                facts.setdefault(tag, []).append(n[len(tag) + 1:]); continue
            k = seen.get(n, 0); seen[n] = k + 1
            st = PROVED if r == z3.unsat else (UNKNOWN if r == z3.unknown else NOINPUT)
            extra = {}
            if r == z3.sat:
                if m is not None and len(m.decls()): extra["model"] = {str(d_): str(m[d_]) for d_ in m.decls()}
                if n in info: extra["info"] = info[n]
            out.append(res(n + (f"#{k}" if k else ""), "pysym", st, 0, "executed (structural fact of the emitted Instance)" if n in struct else ("z3-5.1.0(api; products of symbolic values abstracted)" if n in abstracted else "z3-5.1.0(api)"), **extra))
        for tg, names in facts.items():
            out.append(res(f"{tg}.ens.structure[{len(names)} facts over {paths} path(s): primitive, pins, text parameters, connectivity, no-extra, consumed]", "pysym", PROVED, 0, "executed (structural facts of the emitted Instance)", facts=sorted(set(names))))
    out.append(res(f"{prefix}.all-paths-explored", "cover", OK if npaths >= len(runs) and nsat >= len(runs) else VACUOUS, time.time() - t0, "symx", paths=npaths, satisfiable_paths=nsat, runs=len(runs)))
    return dict(results=out, functions=functions, samples=[dict(function=functions[0], runs=len(runs), paths=npaths, inputs=note)])

def _requests(S, pll, nout, mk, **kw):
    """nout symbolic requests through the real create_clkout; returns [(cd, f, p, m)]"""
    reqs = []
    for n in range(nout):
        f = S.real(f"f{n}", 0, None, lo_strict=True); p = S.real(f"ph{n}"); m = S.real(f"m{n}", 0)
        cd = ClockDomain(f"o{n}"); mk(pll, n, cd, f, p, m); reqs.append((cd, f, p, m))
    return reqs

# ------------------------------------------------------------------------------------------------------------------------- Xilinx
XIL = {"S7PLL": (xilinx_s7.S7PLL, "PLLE2_ADV", False), "S7MMCM": (xilinx_s7.S7MMCM, "MMCME2_ADV", True), "S6PLL": (xilinx_s6.S6PLL, "PLL_ADV", False),
       "USPLL": (xilinx_us.USPLL, "PLLE2_ADV", False), "USMMCM": (xilinx_us.USMMCM, "MMCME2_ADV", True), "USPPLL": (xilinx_usp.USPPLL, "PLLE2_ADV", False),
       "USPMMCM": (xilinx_usp.USPMMCM, "MMCME4_ADV", True)}
XIL_PAT = r"p_(CLKOUT\d+_(DIVIDE|DIVIDE_F|PHASE)|CLKFBOUT_MULT(_F)?|CLKFBOUT_PHASE|DIVCLK_DIVIDE|CLKIN\d_PERIOD)"
XBUF = [None, "bufg", "bufr", "bufh", "bufgce", "bufio", "BUFG"]

def c_xilinx(clsname, speedgrade):
    cls, prim, mmcm = XIL[clsname]
    runs = []
    for nout in range(1, cls.nclkouts_max + 1):
        for rot in ((0, 1) if nout > 1 else range(len(XBUF))):
            def run(ctx, C, nout=nout, rot=rot):
                S = Sym(ctx)
                pll = cls(speedgrade=speedgrade); pll.logger.disabled = True
                fin = S.real("fin", 0, None, lo_strict=True); src = Signal()
                pll.register_clkin(src, fin)
                bufs = [XBUF[(n + rot * 3) % len(XBUF)] for n in range(nout)]
                def mk(pll, n, cd, f, p, m): pll.create_clkout(cd, f, phase=p, buf=bufs[n], margin=m, with_reset=bool(n % 2), ce=Signal() if (bufs[n] or "").lower() == "bufgce" else None)
                reqs = _requests(S, pll, nout, mk)
                cfg = Cfg(divclk_divide=S.int("D", *pll.divclk_divide_range), vco=S.real("vco", 0))
                cfg["clkfbout_mult"] = S.eighths("M", 16, 1024) if clsname == "USPMMCM" else S.int("M", *pll.clkfbout_mult_frange)
                for n in range(nout):
                    if clsname == "USPMMCM" and n == 0: d = S.eighths("d0", 16, 1024)
                    elif getattr(pll, f"clkout{n}_divide_range", None) is not None:
                        lo, hi, step = getattr(pll, f"clkout{n}_divide_range"); assert step == 1 / 8
                        d = S.eighths(f"d{n}", int(lo * 8), math.ceil(hi * 8) - 1)        # superset of the integer range
                    else: d = S.int(f"d{n}", *pll.clkout_divide_range[:2])
                    cfg[f"clkout{n}_divide"] = d; cfg[f"clkout{n}_phase"] = S.real(f"cfgph{n}"); cfg[f"clkout{n}_freq"] = S.real(f"cfgf{n}", 0)
                pll.compute_config = lambda: cfg
                try:
                    with _patched(cls.do_finalize, float=sym_float) as rec: pll.do_finalize()
                except Exception as e:
                    C.add("ens.do_finalize-does-not-raise", False, f"{type(e).__name__}: {e}"); return
                C.add("ens.one-primitive-instance", len(rec) == 1 and rec[0].of == prim and _in_specials(pll, rec[0]), f"{[r.of for r in rec]}")
                if len(rec) != 1: return
                P = _placed(rec[0])
                spec = [("p_CLKFBOUT_MULT_F" if mmcm else "p_CLKFBOUT_MULT", "num", cfg["clkfbout_mult"], "config[clkfbout_mult]"),
                        ("p_DIVCLK_DIVIDE", "num", cfg["divclk_divide"], "config[divclk_divide]"),
                        ("p_CLKIN1_PERIOD", "num", PV(z3.RealVal(10 ** 9) / fin.t), "1e9/clkin_freq (ns)")]
                if clsname == "S6PLL":
                    spec += [("p_CLKFBOUT_PHASE", "num", 0, "0"), ("p_CLKIN2_PERIOD", "num", 0, "0 (unused input)"), ("p_CLK_FEEDBACK", "text", "CLKFBOUT", "'CLKFBOUT'"), ("i_CLKINSEL", "num", 1, "1 (CLKIN1)")]
                for n in range(nout):
                    spec += [(f"p_CLKOUT{n}_DIVIDE_F" if (mmcm and n == 0) else f"p_CLKOUT{n}_DIVIDE", "num", cfg[f"clkout{n}_divide"], f"config[clkout{n}_divide]"),
                             (f"p_CLKOUT{n}_PHASE", "num", cfg[f"clkout{n}_phase"], f"config[clkout{n}_phase]"),
                             (f"o_CLKOUT{n}", "is", pll.clkouts[n][0], f"clkouts[{n}]")]
                for n in range(nout, 7): spec += [(f"o_CLKOUT{n}", "absent", None, "not requested")]
                C.params(P, spec); C.no_extra(P, spec, XIL_PAT)
                C.consumed(cfg, ["divclk_divide", "clkfbout_mult"] + [f"clkout{n}_{k}" for n in range(nout) for k in ("divide", "phase")])
                C.add("ens.feedback-loop-closed[o_CLKFBOUT is i_CLKFBIN]", P.get("o_CLKFBOUT") is not None and P.get("o_CLKFBOUT") is P.get("i_CLKFBIN"))
                C.add("ens.i_CLKIN1-is-the-registered-input", _clkin_ok(pll, P.get("i_CLKIN1"), src))
                for n, (cd, f, p, m) in enumerate(reqs):
                    C.add(f"ens.connected[o_CLKOUT{n} -> {bufs[n]} -> clock domain {n}]", _connected(pll, cd, P.get(f"o_CLKOUT{n}"), bufs[n]))
            runs.append((f"{clsname}(sg={speedgrade},nout={nout},bufs={rot})", run))
    return _run_case(f"{clsname}.do_finalize", runs, [M + f"{cls.__module__.split('.')[-1]}.{clsname}.do_finalize", M + "xilinx_common.XilinxClocking.create_clkout", M + "xilinx_common.XilinxClocking.register_clkin"],
                     "symbolic divclk_divide, clkfbout_mult, clkoutN_divide (integer / eighths), clkoutN_phase, clkin_freq; nclkouts 1..max; every clock buffer kind")

S6DCM_FINDINGS = {"finding.phase-placed-or-zero": "S6DCM accepts create_clkout(phase=...) and compute_config returns it as clkout0_phase, but do_finalize never reads it (DCM_CLKGEN has no phase setting): a configuration with a non-zero phase yields the same instance as phase 0, silently (e.g. create_clkout(cd, 50e6, phase=90))"}
def c_s6dcm(speedgrade):
    cls = xilinx_s6.S6DCM
    def run(ctx, C):
        S = Sym(ctx)
        pll = cls(speedgrade=speedgrade); pll.logger.disabled = True
        fin = S.real("fin", 0, None, lo_strict=True); src = Signal()
        pll.register_clkin(src, fin)
        reqs = _requests(S, pll, 1, lambda pll, n, cd, f, p, m: pll.create_clkout(cd, f, phase=p, buf=None, margin=m, with_reset=False))
        cfg = Cfg(divclk_divide=S.int("D", *pll.divclk_divide_range), clkfbout_mult=S.int("M", *pll.clkfbout_mult_frange), clkout0_divide=S.int("d0", *pll.clkout_divide_range),
                  clkout0_phase=reqs[0][2], clkout0_freq=S.real("cfgf0", 0), vco=S.real("vco", 0))
        pll.compute_config = lambda: cfg
        try:
            with _patched(cls.do_finalize, float=sym_float) as rec: pll.do_finalize()
        except Exception as e:
            C.add("ens.do_finalize-does-not-raise", False, f"{type(e).__name__}: {e}"); return
        C.add("ens.one-primitive-instance", len(rec) == 1 and rec[0].of == "DCM_CLKGEN" and _in_specials(pll, rec[0]))
        P = _placed(rec[0])
        C.params(P, [("p_CLKFX_MULTIPLY", "num", cfg["clkfbout_mult"], "config[clkfbout_mult]"), ("p_CLKIN_PERIOD", "num", PV(z3.RealVal(10 ** 9) / fin.t), "1e9/clkin_freq (ns)"),
                     ("o_CLKFX", "is", pll.clkouts[0][0], "clkouts[0]")])
        # DCM_CLKGEN: f_CLKFX = f_CLKIN * CLKFX_MULTIPLY / CLKFX_DIVIDE (class docstring); the configuration's output is clkin*mult/(divclk_divide*clkout0_divide)
        k, t = _val(P.get("p_CLKFX_DIVIDE"))
        C.add("ens.p_CLKFX_DIVIDE==config[divclk_divide]*config[clkout0_divide]", k == "num" and _eq(t, cfg["divclk_divide"].t * cfg["clkout0_divide"].t))
        C.add("ens.i_CLKIN-is-the-registered-input", _clkin_ok(pll, P.get("i_CLKIN"), src))
        C.add("ens.connected[o_CLKFX -> clock domain 0]", _connected(pll, reqs[0][0], P.get("o_CLKFX")))
        C.consumed(cfg, ["divclk_divide", "clkfbout_mult", "clkout0_divide"])
        # the primitive has no phase parameter: a configuration with a non-zero clkout0_phase is not what the instance carries
        C.add("finding.phase-placed-or-zero[DCM_CLKGEN has no phase setting]", SymBool(z3.Or(reqs[0][2].t == 0, z3.BoolVal("clkout0_phase" in cfg.reads))).t)
    r = _run_case("S6DCM.do_finalize", [(f"S6DCM(sg={speedgrade})", run)], [M + "xilinx_s6.S6DCM.do_finalize"], "symbolic divclk_divide, clkfbout_mult, clkout0_divide, clkin_freq")
    _findings(r, S6DCM_FINDINGS); return r

# --------------------------------------------------------------------------------------------------------------------------- ECP5
N2L = {0: "P", 1: "S", 2: "S2", 3: "S3"}
ECP5_PAT = r"p_(CLKO(P|S|S2|S3)_(ENABLE|DIV|FPHASE|CPHASE)|CLKI_DIV|CLKFB_DIV|FEEDBK_PATH)|o_CLKO(P|S|S2|S3)"

def ecp5_phase_spec(p, div):
    """EHXPLLL: CLKOx_CPHASE counts whole VCO periods on top of the neutral value div-1, CLKOx_FPHASE eighths of a VCO period; a phase of
    p degrees of an output that divides the VCO by div is p/360*div VCO periods = p*div/45 eighths (helper: 'phase = round(p*div/45)')"""
    steps = round_spec(_real(_tt(p)) * _real(_tt(div)) / 45)
    fphase = steps % 8
    cphase = (steps - fphase) / 8 + (_tt(div) - 1)
    return cphase, fphase

def c_ecp5(nouts):
    cls = lattice_ecp5.ECP5PLL; runs = []
    for nout in nouts:
        for fb in range(0, nout + 1):
            if fb == nout and nout == cls.nclkouts_max: continue
            for dpa in (False, True):
                if dpa and not (nout == 2): continue
                def run(ctx, C, nout=nout, fb=fb, dpa=dpa):
                    S = Sym(ctx)
                    pll = cls(bel="X0/Y0" if dpa else None); pll.logger.disabled = True
                    if dpa: pll.expose_dpa()
                    fin = S.real("fin", cls.clki_freq_range[0], cls.clki_freq_range[1]); src = Signal()
                    pll.register_clkin(src, fin)
                    reqs = []
                    for n in range(nout):
                        f = S.real(f"f{n}", cls.clko_freq_range[0], cls.clko_freq_range[1]); p = S.real(f"ph{n}"); m = S.real(f"m{n}", 0)
                        cd = ClockDomain(f"o{n}"); pll.create_clkout(cd, f, phase=p, margin=m, with_reset=bool(n % 2)); reqs.append((cd, f, p, m))
                    cfg = Cfg(clki_div=S.int("clki_div", *cls.clki_div_range), clkfb_div=S.int("clkfb_div", *cls.clkfb_div_range), clkfb=fb, vco=S.real("vco", 0))
                    for n in range(nout):
                        cfg[f"clko{n}_div"] = S.int(f"d{n}", *cls.clko_div_range); cfg[f"clko{n}_phase"] = reqs[n][2]; cfg[f"clko{n}_freq"] = S.real(f"cfgf{n}", 0)
                    if fb == nout: cfg[f"clko{fb}_div"] = S.int("dfb", *cls.clko_div_range)
                    def stub():
                        # post-state of the real compute_config (proved on its source by case ECP5PLL.compute_config.post-state): a feedback-only output is registered in self.clkouts
                        if fb == nout: pll.clkouts[nout] = (Signal(), 0, 0, 0, 0)
                        return cfg
                    pll.compute_config = stub
                    try:
                        with _patched(cls.do_finalize) as rec: pll.do_finalize()
                    except Exception as e:
                        C.add("ens.do_finalize-does-not-raise", False, f"{type(e).__name__}: {e}"); return
                    C.add("ens.one-primitive-instance", len(rec) == 1 and rec[0].of == "EHXPLLL" and _in_specials(pll, rec[0]))
                    if len(rec) != 1: return
                    P = _placed(rec[0]); attr = dict(rec[0].attr) if not isinstance(rec[0].attr, dict) else rec[0].attr
                    spec = [("p_CLKI_DIV", "num", cfg["clki_div"], "config[clki_div]"), ("p_CLKFB_DIV", "num", cfg["clkfb_div"], "config[clkfb_div]"),
                            ("p_FEEDBK_PATH", "text", "INT_O" + N2L[fb], f"INT_O{N2L[fb]} (output config[clkfb]={fb})")]
                    relied = sorted(set(range(nout)) | {fb})
                    for n in relied:
                        L = N2L[n]; div = cfg[f"clko{n}_div"]; ph = dict.get(cfg, f"clko{n}_phase", 0)
                        cph, fph = ecp5_phase_spec(ph, div)
                        spec += [(f"p_CLKO{L}_ENABLE", "text", "ENABLED", "'ENABLED'"), (f"p_CLKO{L}_DIV", "num", div, f"config[clko{n}_div]"),
                                 (f"p_CLKO{L}_FPHASE", "num", PV(fph), f"spec FPHASE(config[clko{n}_phase], div)"), (f"p_CLKO{L}_CPHASE", "num", PV(cph), f"spec CPHASE(config[clko{n}_phase], div)")]
                        spec += [(f"o_CLKO{L}", "is", pll.clkouts[n][0] if n in pll.clkouts else None, f"clkouts[{n}]")]
                    C.params(P, spec); C.no_extra(P, spec, ECP5_PAT)
                    C.consumed(cfg, ["clki_div", "clkfb_div", "clkfb"] + [f"clko{n}_div" for n in relied])
                    k, t = _val(attr.get("FREQUENCY_PIN_CLKI"))
                    C.add("ens.attr.FREQUENCY_PIN_CLKI==str(clkin_freq/1e6) (MHz)", k == "str" and _eq(t, fin.t / 10 ** 6))
                    for n, (cd, f, p, m) in enumerate(reqs):
                        k, t = _val(attr.get(f"FREQUENCY_PIN_CLKO{N2L[n]}"))
                        C.add(f"ens.attr.FREQUENCY_PIN_CLKO{N2L[n]}==str(requested f{n}/1e6) (MHz)", k == "str" and _eq(t, f.t / 10 ** 6))
                        C.add(f"ens.connected[o_CLKO{N2L[n]} -> clock domain {n}]", _connected(pll, cd, P.get(f"o_CLKO{N2L[n]}")))
                    if fb == nout: C.add(f"ens.attr.no-FREQUENCY_PIN-for-the-feedback-only-output", f"FREQUENCY_PIN_CLKO{N2L[fb]}" not in attr)
                    C.add("ens.i_CLKI-is-the-registered-input", _clkin_ok(pll, P.get("i_CLKI"), src))
                    if dpa: C.add("ens.attr.BEL+DPA-ports-kept", attr.get("BEL") == "X0/Y0" and P.get("p_DPHASE_SOURCE") == "ENABLED" and P.get("i_PHASESTEP") is pll.phase_step)
                runs.append((f"ECP5PLL(nout={nout},clkfb={fb}{',feedback-only' if fb == nout else ''}{',dpa' if dpa else ''})", run))
    return _run_case(f"ECP5PLL(nout={','.join(map(str, nouts))}).do_finalize", runs, [M + "lattice_ecp5.ECP5PLL.do_finalize", M + "lattice_ecp5.ECP5PLL.create_clkout", M + "lattice_ecp5.ECP5PLL.register_clkin"],
                     "symbolic clki_div, clkfb_div, cloN_div, phases (any real), clkin_freq, requested frequencies; nclkouts 1..4 x every feedback choice (requested output / feedback-only output)")

# ---- ECP5PLL.compute_config post-state (what the stub above relies on), by control-flow abstraction of the real source
class ND:
    """a number about which nothing is known: arithmetic gives ND, every comparison is a fresh free boolean (both outcomes explored)"""
    n = 0
    def _a(self, *o): return ND()
    __add__ = __radd__ = __sub__ = __rsub__ = __mul__ = __rmul__ = __truediv__ = __rtruediv__ = __floordiv__ = __rfloordiv__ = __abs__ = __neg__ = _a
    def _c(self, o): ND.n += 1; return SymBool(z3.Bool(f"nd!{ND.n}"))
    __lt__ = __le__ = __gt__ = __ge__ = __eq__ = __ne__ = _c
    __hash__ = lambda self: id(self)
    def __format__(self, spec): return "<nd>"

def c_ecp5_poststate(nout):
    cls = lattice_ecp5.ECP5PLL
    def run(ctx, C):
        pll = cls(); pll.logger.disabled = True
        phases = [object() for _ in range(nout)]                     # opaque request phases: the contract says they are copied into the configuration
        for n in range(nout): pll.clkouts[n] = (Signal(), ND(), phases[n], ND(), True)
        pll.nclkouts = nout; pll.clkin_freq = ND()
        el = lambda vc, it, L: ND()
        vc = VC({0: dict(elem=el), 1: dict(elem=el), 2: dict(elem=el), 4: dict(elem=el)})
        fn, src = rewrite(cls.compute_config, vc.specs, vc, extra_globals=dict(int=lambda x: ND() if isinstance(x, ND) else int(x), compute_config_log=lambda *a, **k: None))
        before = dict(pll.clkouts)
        try: cfg = fn(pll)
        except ValueError:
            C.add("post.refusal-leaves-clkouts-unchanged", pll.clkouts == before); return
        fb = cfg.get("clkfb")
        C.add("post.clkfb-is-a-registered-output", isinstance(fb, int) and not isinstance(fb, bool) and fb in pll.clkouts)
        C.add("post.clkfb-divider-defined", f"clko{fb}_div" in cfg)
        C.add("post.clki_div,clkfb_div-defined", "clki_div" in cfg and "clkfb_div" in cfg)
        C.add("post.requested-outputs-defined+phase-copied", all(f"clko{n}_div" in cfg and cfg.get(f"clko{n}_phase") is phases[n] for n in range(nout)))
        C.add("post.feedback-only-output-shape", fb in range(nout) or (fb == nout and nout < cls.nclkouts_max and nout in pll.clkouts and tuple(pll.clkouts[nout][1:]) == (0, 0, 0, 0) and isinstance(pll.clkouts[nout][0], Signal)
                                                                    and sorted(pll.clkouts) == list(range(nout + 1))))
        C.add("post.no-other-output-registered", sorted(pll.clkouts) == list(range(nout + (1 if fb == nout else 0))))
    return _run_case(f"ECP5PLL(nout={nout}).compute_config.post-state", [(f"ECP5PLL(nout={nout}).compute_config", run)], [M + "lattice_ecp5.ECP5PLL.compute_config (post-state: registered outputs, defined entries)"],
                     "control-flow abstraction: every comparison of the search is a free boolean, loops cut at their heads (an arbitrary iteration); sound for facts about which entries/outputs exist on a returning path")

# -------------------------------------------------------------------------------------------------------------------------- iCE40
ICE40_FILTER = [(17e6, 1), (26e6, 2), (44e6, 3), (66e6, 4), (101e6, 5), (133e6, 6)]     # FILTER_RANGE by phase-detector frequency (iCE40 sysCLOCK guide / icepll): < 17 MHz: 1 ... < 133 MHz: 6
def ice40_filter_spec(pfd):
    t = z3.IntVal(6)
    for lim, v in reversed(ICE40_FILTER[:-1]): t = z3.If(pfd < z3.RealVal(int(lim)), z3.IntVal(v), t)
    return t

def c_ice40():
    cls = lattice_ice40.iCE40PLL; runs = []
    for prim in ("SB_PLL40_CORE", "SB_PLL40_PAD"):
        def run(ctx, C, prim=prim):
            S = Sym(ctx)
            pll = cls(primitive=prim); pll.logger.disabled = True
            fin = S.real("fin", cls.clki_freq_range[0], cls.clki_freq_range[1]); src = Signal()
            pll.register_clkin(src, fin)
            f = S.real("f0", cls.clko_freq_range[0], cls.clko_freq_range[1]); m = S.real("m0", 0); cd = ClockDomain("o0")
            pll.create_clkout(cd, f, margin=m, with_reset=True)
            cfg = Cfg(divr=S.int("divr", *cls.divr_range), divf=S.int("divf", *cls.divf_range), divq=S.int("divq", *cls.divq_range), vco=S.real("vco", 0), clkout_freq=S.real("cfgf", 0))
            pfd = fin.t / (z3.ToReal(cfg["divr"].t) + 1)
            # scope: phase-detector frequency below 133 MHz - at and above, do_finalize raises UnboundLocalError: the LISTED finding finding.instance.iCE40PLL.do_finalize (C20_clocks.py)
            ctx.assume(SymBool(pfd < z3.RealVal(133 * 10 ** 6)))
            pll.compute_config = lambda: cfg
            try:
                with _patched(cls.do_finalize) as rec: pll.do_finalize()
            except Exception as e:
                C.add("ens.do_finalize-does-not-raise", False, f"{type(e).__name__}: {e}"); return
            C.add("ens.one-primitive-instance", len(rec) == 1 and rec[0].of == prim and _in_specials(pll, rec[0]))
            if len(rec) != 1: return
            P = _placed(rec[0])
            spec = [("p_DIVR", "num", cfg["divr"], "config[divr]"), ("p_DIVF", "num", cfg["divf"], "config[divf]"), ("p_DIVQ", "num", cfg["divq"], "config[divq]"),
                    ("p_FILTER_RANGE", "num", PV(ice40_filter_spec(pfd)), "spec FILTER_RANGE(clkin_freq/(divr+1))"),
                    ("p_FEEDBACK_PATH", "text", "SIMPLE", "'SIMPLE' (the mode of the formula clkin/(divr+1)*(divf+1)/2**divq)"), ("o_PLLOUTGLOBAL", "is", pll.clkouts[0][0], "clkouts[0]")]
            C.params(P, spec); C.no_extra(P, spec, r"p_(DIV[RFQ]|FILTER_RANGE|FEEDBACK_PATH)")
            C.consumed(cfg, ["divr", "divf", "divq"])
            pin = "i_REFERENCECLK" if prim == "SB_PLL40_CORE" else "i_PACKAGEPIN"
            C.add(f"ens.{pin}-is-the-registered-input", _clkin_ok(pll, P.get(pin), src))
            C.add("ens.connected[o_PLLOUTGLOBAL -> clock domain 0]", _connected(pll, cd, P.get("o_PLLOUTGLOBAL")))
        runs.append((f"iCE40PLL({prim})", run))
    return _run_case("iCE40PLL.do_finalize", runs, [M + "lattice_ice40.iCE40PLL.do_finalize", M + "lattice_ice40.iCE40PLL.create_clkout"],
                     "symbolic divr, divf, divq, clkin_freq in clki_freq_range with clkin/(divr+1) < 133 MHz")

# -------------------------------------------------------------------------------------------------------------------------- NXPLL
NXL = {0: "P", 1: "S", 2: "S2", 3: "S3", 4: "S4"}
NX_PAT = r"p_(DIV[A-F]|DEL[A-F]|PHI[A-F]|ENCLK_CLKO\w+|REF_MMD_DIG|FBK_MMD_DIG|SEL_FBK|CLKMUX_FB)|o_CLKO\w+"
NX_FINDINGS = {"finding.phase-resolution": "NXPLL.do_finalize encodes a phase as whole VCO periods only (DELx = int((1+p/360)*div) - 1) and hard-codes the fine phase PHIx = '0': a configuration phase that is not a whole number of VCO periods is truncated by up to one VCO period = 360/div degrees (e.g. clko0_phase = 90 with clko0_div = 2: DELA = '1' = DIVA, PHIA = '0' - the same instance as phase 0)"}

def c_nx():
    cls = lattice_nx.NXPLL; runs = []
    for nout in range(1, cls.nclkouts_max + 1):
        def run(ctx, C, nout=nout):
            S = Sym(ctx)
            with contextlib.redirect_stdout(io.StringIO()): pll = cls()
            pll.logger.disabled = True
            fin = S.real("fin", cls.clki_freq_range[0], cls.clki_freq_range[1]); src = Signal()
            pll.register_clkin(src, fin)
            reqs = []
            for n in range(nout):
                f = S.real(f"f{n}", cls.clko_freq_range[0], cls.clko_freq_range[1]); p = S.real(f"ph{n}", 0); m = S.real(f"m{n}", 0)       # phases >= 0
                cd = ClockDomain(f"o{n}"); pll.create_clkout(cd, f, phase=p, margin=m); reqs.append((cd, f, p, m))
            cfg = Cfg(clki_div=S.int("clki_div", *cls.clki_div_range), clkfb_div=S.int("clkfb_div", *cls.clkfb_div_range), vco=S.real("vco", 0))
            for n in range(nout):
                cfg[f"clko{n}_div"] = S.int(f"d{n}", *cls.clko_div_range); cfg[f"clko{n}_phase"] = reqs[n][2]; cfg[f"clko{n}_freq"] = S.real(f"cfgf{n}", 0)
            analog = []
            pll.compute_config = lambda: cfg
            pll.calculate_analog_parameters = lambda *a, **k: (analog.append((a, k)), {})[1]       # loop-filter table search (numeric, not part of the configuration): skipped, its arguments are checked
            try:
                with _patched(cls.do_finalize) as rec: pll.do_finalize()
            except Exception as e:
                C.add("ens.do_finalize-does-not-raise", False, f"{type(e).__name__}: {e}"); return
            C.add("ens.one-primitive-instance", len(rec) == 1 and rec[0].of == "PLL" and _in_specials(pll, rec[0]))
            if len(rec) != 1: return
            P = _placed(rec[0])
            spec = [("p_DIVF", "str", cfg["clkfb_div"] - 1, "str(config[clkfb_div]-1) ('str(Actual value - 1)')"), ("p_DELF", "str", cfg["clkfb_div"] - 1, "str(config[clkfb_div]-1) (neutral delay of the feedback divider)"),
                    ("p_SEL_FBK", "text", "FBKCLK5", "'FBKCLK5' (feedback through CLKOS5)"), ("p_CLKMUX_FB", "text", "CMUX_CLKOS5", "'CMUX_CLKOS5'"), ("p_ENCLK_CLKOS5", "text", "ENABLED", "'ENABLED'"),
                    ("p_FBK_MMD_DIG", "str", 1, "'1' (feedback path divider 1: VCO = pfd * (DIVF+1))")]
            for n in range(nout):
                L = NXL[n]; X = chr(65 + n); div = cfg[f"clko{n}_div"]; ph = cfg[f"clko{n}_phase"]
                delay = (div.t - 1) + z3.ToInt(_real(ph.t) * _real(div.t) / 360)              # neutral delay div-1 plus the whole VCO periods of the phase (phase >= 0)
                spec += [(f"p_ENCLK_CLKO{L}", "text", "ENABLED", "'ENABLED'"), (f"p_DIV{X}", "str", div - 1, f"str(config[clko{n}_div]-1)"),
                         (f"p_DEL{X}", "str", PV(delay), f"str(div-1 + floor(config[clko{n}_phase]/360*div))"), (f"p_PHI{X}", "str", 0, "'0'"), (f"o_CLKO{L}", "is", reqs[n][0].clk, f"clock of domain {n}")]
            C.params(P, spec)
            C.no_extra(P, spec + [("p_REF_MMD_DIG",), ("o_CLKOS5",)], NX_PAT)
            C.consumed(cfg, ["clkfb_div"] + [f"clko{n}_div" for n in range(nout)])            # clki_div: see the scoped clause below
            C.add("ens.feedback-loop-closed[o_CLKOS5 is i_FBKCK]", P.get("o_CLKOS5") is not None and P.get("o_CLKOS5") is P.get("i_FBKCK"))
            C.add("ens.i_REFCK-is-the-registered-input", _clkin_ok(pll, P.get("i_REFCK"), src))
            C.add("ens.analog-parameters-computed-for(clkin_freq, config[clkfb_div])", len(analog) == 1 and analog[0][0][0] is fin and analog[0][0][1] is dict.__getitem__(cfg, "clkfb_div"))
            # input divider: REF_MMD_DIG is the constant '1' (LISTED finding finding.instance.clki_div of C20_clocks_ext.py, native witness there): the clause is proved for the configurations with clki_div = 1
            k, t = _val(P.get("p_REF_MMD_DIG"))
            C.add("ens.p_REF_MMD_DIG==str(config[clki_div])[configurations with clki_div=1; others: listed finding]", k == "str" and z3.Implies(cfg["clki_div"].t == 1, _eq(t, cfg["clki_div"].t)))
            for n in range(nout):
                X = chr(65 + n); div = cfg[f"clko{n}_div"]; ph = cfg[f"clko{n}_phase"]
                kd, td = _val(P.get(f"p_DEL{X}")); kv, tv = _val(P.get(f"p_DIV{X}")); kp, tp = _val(P.get(f"p_PHI{X}"))
                if "str" == kd == kv == kp:
                    realized = _real(td) - _real(tv) + _real(tp) / 8; asked = _real(ph.t) * _real(div.t) / 360            # in VCO periods
                    C.add(f"finding.phase-resolution{n}[(DEL-DIV)+PHI/8 within one fine step (1/8 VCO period) of config phase]", z3.And(realized - asked < z3.RealVal("1/8"), asked - realized < z3.RealVal("1/8")))
        runs.append((f"NXPLL(nout={nout})", run))
    r = _run_case("NXPLL.do_finalize", runs, [M + "lattice_nx.NXPLL.do_finalize", M + "lattice_nx.NXPLL.create_clkout"],
                  "symbolic clkfb_div, cloN_div, phases >= 0, clkin_freq; nclkouts 1..5; calculate_analog_parameters replaced by a recorder")
    _findings(r, NX_FINDINGS); return r

def _findings(r, whats):
    """clauses expected to fail on the unchanged tree: one finding-witness result per clause and case (fails if it fails in any run / for any output)"""
    merged = {}; out = []
    for x in r["results"]:
        key = next((k for k in whats if k in x["name"]), None)
        if key is None: out.append(x); continue
        g = merged.get(key)
        if g is None: g = merged[key] = dict(x, name=f"{key}[{r['functions'][0].split('.')[-2]}]", kind="finding-witness", what=whats[key], instances=0, failing=0, status=PROVED); out.append(g)
        g["instances"] += 1
        if x["status"] == NOINPUT:
            g["failing"] += 1
            if g["status"] != NOINPUT: g["status"] = NOINPUT; g["model"] = x.get("model"); g["first_failing"] = x["name"]
        elif x["status"] == UNKNOWN and g["status"] == PROVED: g["status"] = UNKNOWN
    r["results"] = out

def c_poststate_firstfit(clsname, nout):
    """post-state of a first-fit compute_config by control-flow abstraction (see c_ecp5_poststate): the entries do_finalize reads are defined on every returning path, the phase entries are the requested phases"""
    cls, cut, keys = {"NXPLL": (lattice_nx.NXPLL, (0, 1, 3), ("clki_div", "clkfb_div"))}[clsname]
    def run(ctx, C):
        pll = object.__new__(cls); pll.logger = logging.getLogger("x"); pll.logger.disabled = True
        phases = [object() for _ in range(nout)]
        pll.clkouts = {n: (Signal(), ND(), phases[n], ND()) for n in range(nout)}; pll.nclkouts = nout; pll.clkin_freq = ND()
        el = lambda vc, it, L: ND()
        vc = VC({k: dict(elem=el) for k in cut})
        fn, src = rewrite(cls.compute_config, vc.specs, vc, extra_globals=dict(compute_config_log=lambda *a, **k: None))
        try: cfg = fn(pll)
        except ValueError: C.add("post.refusal", True); return
        C.add("post.entries-defined+phase-copied", all(k in cfg for k in keys) and all(f"clko{n}_div" in cfg and cfg.get(f"clko{n}_phase") is phases[n] for n in range(nout)))
    return _run_case(f"{clsname}(nout={nout}).compute_config.post-state", [(f"{clsname}(nout={nout}).compute_config", run)], [M + f"{cls.__module__.split('.')[-1]}.{clsname}.compute_config (post-state: defined entries)"],
                     "control-flow abstraction: every comparison of the search is a free boolean, loops cut at their heads")

# -------------------------------------------------------------------------------------------------------------------------- Intel
INTEL_PAT = r"p_(CLK\d+_(DIVIDE_BY|MULTIPLY_BY|PHASE_SHIFT)|INCLK0_INPUT_FREQUENCY)"
def c_intel(clsname, speedgrade):
    cls = INTEL[clsname]; runs = []
    for nout in range(1, min(cls.nclkouts_max, 6) + 1):
        def run(ctx, C, nout=nout):
            S = Sym(ctx)
            pll = cls(speedgrade=speedgrade); pll.logger.disabled = True
            fin = S.real("fin", 0, None, lo_strict=True); src = Signal()
            pll.register_clkin(src, fin)
            reqs = _requests(S, pll, nout, lambda pll, n, cd, f, p, m: pll.create_clkout(cd, f, phase=p, margin=m, with_reset=bool(n % 2)))
            cfg = Cfg(m=S.int("m", *pll.m_div_range), vco=S.real("vco", 0))
            for n in range(nout):
                cfg[f"clk{n}_divide"] = S.int(f"dv{n}", 1, None); cfg[f"clk{n}_phase"] = S.real(f"cfgph{n}"); cfg[f"clk{n}_freq"] = S.real(f"cfgf{n}", 0, None, lo_strict=True)
            pll.compute_config = lambda: cfg
            try:
                with _patched(cls.do_finalize) as rec: pll.do_finalize()
            except Exception as e:
                C.add("ens.do_finalize-does-not-raise", False, f"{type(e).__name__}: {e}"); return
            prim = [r_ for r_ in rec if r_.of == "ALTPLL"]
            C.add("ens.one-primitive-instance", len(prim) == 1 and _in_specials(pll, prim[0]) and all(r_.of in ("ALTPLL", "DFFE") for r_ in rec))
            if len(prim) != 1: return
            P = _placed(prim[0])
            spec = [("p_INCLK0_INPUT_FREQUENCY", "num", PV(trunc_t(z3.RealVal(10 ** 12) / fin.t)), "trunc(1e12/clkin_freq) (input period, ps)"), ("p_OPERATION_MODE", "text", "NORMAL", "'NORMAL'")]
            for n in range(nout):
                period_ps = z3.RealVal(10 ** 12) / cfg[f"clk{n}_freq"].t
                spec += [(f"p_CLK{n}_MULTIPLY_BY", "num", cfg["m"], "config[m]"), (f"p_CLK{n}_DIVIDE_BY", "num", cfg[f"clk{n}_divide"], f"config[clk{n}_divide]"),
                         (f"p_CLK{n}_PHASE_SHIFT", "num", PV(trunc_t(period_ps * cfg[f"clk{n}_phase"].t / 360)), f"trunc(1e12/config[clk{n}_freq] * config[clk{n}_phase]/360) (ps)")]
            C.params(P, spec); C.no_extra(P, spec, INTEL_PAT)
            C.consumed(cfg, ["m"] + [f"clk{n}_{k}" for n in range(nout) for k in ("divide", "phase", "freq")])
            C.add("ens.i_INCLK-is-the-registered-input", _clkin_ok(pll, P.get("i_INCLK"), src))
            clks = P.get("o_CLK")
            C.add("ens.o_CLK-width==nclkouts", isinstance(clks, Signal) and len(clks) == nout)
            for n, (cd, f, p, m) in enumerate(reqs):
                d = _drivers(pll, pll.clkouts[n][0])
                ok = len(d) == 1 and isinstance(d[0], _Slice) and d[0].value is clks and (d[0].start, d[0].stop) == (n, n + 1) and _connected(pll, cd, pll.clkouts[n][0])
                C.add(f"ens.connected[o_CLK[{n}] -> clock domain {n}]", ok)
        runs.append((f"{clsname}(sg={speedgrade},nout={nout})", run))
    return _run_case(f"{clsname}.do_finalize", runs, [M + "intel_common.IntelClocking.do_finalize", M + "intel_common.IntelClocking.create_clkout"],
                     "symbolic m, clkN_divide, clkN_phase, clkN_freq > 0, clkin_freq; nclkouts 1..5 (Stratix V: 1..6 of 18)")

# ------------------------------------------------------------------------------------------------------------ Gowin rPLL / PLLVR
GW_PINS = ("CLKOUT", "CLKOUTP", "CLKOUTD", "CLKOUTD3")
GW1N_PAT = r"p_(IDIV_SEL|FBDIV_SEL|ODIV_SEL|DYN_SDIV_SEL|PSDA_SEL|CLKOUTD3?_SRC|DYN_(IDIV|FBDIV|ODIV)_SEL|CLKOUT[PD]?_BYPASS|FCLKIN)|o_CLKOUT\w*"
def c_gw1n(devkey, full):
    cls, device = GW1N_DEVICES[devkey]; runs = []
    for nout in range(1, 5):
        maps = list(itertools.permutations(GW_PINS, nout))
        if not full: maps = maps[::7][:3]
        for pins in maps:
            def run(ctx, C, nout=nout, pins=pins):
                S = Sym(ctx)
                pll = cls("devname", device); pll.logger.disabled = True
                fin = S.real("fin", 0, None, lo_strict=True); src = Signal()
                pll.register_clkin(src, fin)
                reqs = _requests(S, pll, nout, lambda pll, n, cd, f, p, m: pll.create_clkout(cd, f, phase=p, margin=m, with_reset=bool(n % 2)))
                psda = "".join("01"[(nout + len(pins[0])) >> b & 1] for b in range(4))
                cfg = Cfg(idiv=S.int("idiv", 1, 65), fdiv=S.int("fdiv", 1, 65), odiv=S.int("odiv", 2, 129), SDIV_SEL=S.int("sdiv", 2, None), PSDA_SEL=psda, vco=S.real("vco", 0), diff=S.real("diff", 0))
                srcs = {}
                for n, pin in enumerate(pins):
                    cfg[pin] = pll.clkouts[n][0]; srcs[pin] = cfg[pin + "_SRC"] = ("CLKOUT", "CLKOUTP")[n % 2]
                pll.compute_config = lambda: cfg
                try:
                    with _patched(cls.do_finalize) as rec: pll.do_finalize()
                except Exception as e:
                    C.add("ens.do_finalize-does-not-raise", False, f"{type(e).__name__}: {e}"); return
                prim = "PLLVR" if device.startswith("GW1NS") else "rPLL"
                C.add("ens.one-primitive-instance", len(rec) == 1 and rec[0].of == prim and _in_specials(pll, rec[0]), f"{[r_.of for r_ in rec]}")
                if len(rec) != 1: return
                P = _placed(rec[0])
                spec = [("p_IDIV_SEL", "num", cfg["idiv"] - 1, "config[idiv]-1 ('Static IDIV value (1-64)' in a 0..63 field)"), ("p_FBDIV_SEL", "num", cfg["fdiv"] - 1, "config[fdiv]-1"),
                        ("p_ODIV_SEL", "num", cfg["odiv"], "config[odiv]"), ("p_DYN_SDIV_SEL", "num", cfg["SDIV_SEL"], "config[SDIV_SEL]"), ("p_PSDA_SEL", "text", psda, "config[PSDA_SEL]"),
                        ("p_FCLKIN", "str", PV(fin.t / 10 ** 6), "str(clkin_freq/1e6) (MHz)"), ("p_DEVICE", "text", "devname", "devicename"), ("p_CLKFB_SEL", "text", "internal", "'internal'")]
                spec += [(f"p_DYN_{k}_SEL", "text", "false", "'false' (the static value applies)") for k in ("IDIV", "FBDIV", "ODIV")]
                spec += [(f"p_{k}_BYPASS", "text", "false", "'false'") for k in ("CLKOUT", "CLKOUTP", "CLKOUTD")]
                for pin in GW_PINS:
                    spec += [("o_" + pin, "is", dict.__getitem__(cfg, pin), f"config[{pin}]") if pin in pins else ("o_" + pin, "open", None, "Open() (not in the configuration)")]
                    if pin in ("CLKOUTD", "CLKOUTD3"): spec += [(f"p_{pin}_SRC", "text", srcs.get(pin, "CLKOUT"), f"config[{pin}_SRC] (default 'CLKOUT')")]
                C.params(P, spec); C.no_extra(P, spec, GW1N_PAT)
                C.consumed(cfg, ["idiv", "fdiv", "odiv", "SDIV_SEL", "PSDA_SEL"] + list(pins) + [p_ + "_SRC" for p_ in pins if p_ in ("CLKOUTD", "CLKOUTD3")])
                C.add("ens.i_CLKIN-is-the-registered-input", _clkin_ok(pll, P.get("i_CLKIN"), src))
                for n, (cd, f, p, m) in enumerate(reqs): C.add(f"ens.connected[o_{pins[n]} -> clock domain {n}]", _connected(pll, cd, P.get("o_" + pins[n])))
            runs.append((f"{cls.__name__}({devkey},{'+'.join(p_[6:] or '-' for p_ in pins)})", run))
    return _run_case(f"{cls.__name__}({devkey}).do_finalize", runs, [M + "gowin_gw1n.GW1NPLL.do_finalize", M + "gowin_gw1n.GW1NPLL.create_clkout"],
                     "symbolic idiv, fdiv, odiv, SDIV_SEL, clkin_freq; every injective assignment of 1..4 requested clocks to CLKOUT/CLKOUTP/CLKOUTD/CLKOUTD3" if full else "symbolic dividers; sampled pin assignments (the device only selects rPLL/PLLVR, FDLY, VREN)")

# ---------------------------------------------------------------------------------------------------------------- Gowin PLLA / PLL
GW5A_PAT = r"p_(IDIV_SEL|FBDIV_SEL|MDIV_SEL|MDIV_FRAC_SEL|ODIV\d_SEL|ODIV0_FRAC_SEL|CLKOUT\d_EN|CLKOUT\d_PE_(COARSE|FINE)|CLK\d_(IN|OUT)_SEL|FCLKIN|CLKFB_SEL|DYN_DPA_EN|DYN_PE\d_SEL)|o_CLKOUT\d"
def c_gw5a(devidx):
    devname, device = GW5A_DEVICES[devidx]; cls = gowin_gw5a.GW5APLL; runs = []
    for nout in range(1, cls.nclkouts_max + 1):
        def run(ctx, C, nout=nout):
            S = Sym(ctx)
            pll = cls(devname, device); pll.logger.disabled = True
            fin = S.real("fin", 0, None, lo_strict=True); src = Signal()
            pll.register_clkin(src, fin)
            reqs = _requests(S, pll, nout, lambda pll, n, cd, f, p, m: pll.create_clkout(cd, f, phase=p, margin=m, with_reset=bool(n % 2)))
            cfg = Cfg(idiv=S.int("idiv", 1, 65), fdiv=S.int("fdiv", 1, 65), mdiv=S.int("mdiv", 2, 129), vco=S.real("vco", 0))
            for n in range(nout):
                cfg[f"odiv{n}"] = S.int(f"odiv{n}", 1, None); cfg[f"pe{n}"] = S.int(f"pe{n}"); cfg[f"pe{n}_fine"] = S.int(f"pef{n}", 0, 8); cfg[f"diff{n}"] = S.real(f"diff{n}", 0)
            pll.compute_config = lambda: cfg
            try:
                with _patched(cls.do_finalize) as rec: pll.do_finalize()
            except Exception as e:
                C.add("ens.do_finalize-does-not-raise", False, f"{type(e).__name__}: {e}"); return
            prim = "PLLA" if (device.startswith("GW5A-") or device.startswith("GW5AT-")) else "PLL"
            C.add("ens.one-primitive-instance", len(rec) == 1 and rec[0].of == prim and _in_specials(pll, rec[0]), f"{[r_.of for r_ in rec]}")
            if len(rec) != 1: return
            P = _placed(rec[0])
            spec = [("p_IDIV_SEL", "num", cfg["idiv"], "config[idiv] ('Static IDIV value (1-64)')"), ("p_FBDIV_SEL", "num", cfg["fdiv"], "config[fdiv]"), ("p_MDIV_SEL", "num", cfg["mdiv"], "config[mdiv]"),
                    ("p_MDIV_FRAC_SEL", "num", 0, "0 (integer MDIV)"), ("p_ODIV0_FRAC_SEL", "num", 0, "0 (integer ODIV0)"), ("p_FCLKIN", "str", PV(fin.t / 10 ** 6), "str(clkin_freq/1e6) (MHz)"),
                    ("p_CLKFB_SEL", "text", "INTERNAL", "'INTERNAL'"), ("p_DYN_DPA_EN", "text", "FALSE", "'FALSE' (static phase)")]
            for n in range(7):
                if n < nout:
                    spec += [(f"p_ODIV{n}_SEL", "num", cfg[f"odiv{n}"], f"config[odiv{n}]"), (f"p_CLKOUT{n}_EN", "text", "TRUE", "'TRUE'"), (f"p_CLKOUT{n}_PE_COARSE", "num", cfg[f"pe{n}"], f"config[pe{n}]"),
                             (f"p_CLKOUT{n}_PE_FINE", "num", cfg[f"pe{n}_fine"], f"config[pe{n}_fine]"), (f"o_CLKOUT{n}", "is", pll.clkouts[n][0], f"clkouts[{n}]"), (f"p_DYN_PE{n}_SEL", "text", "FALSE", "'FALSE'")]
                    if n < 6: spec += [(f"p_CLK{n}_IN_SEL", "num", 0, "0 (ODIV fed by the VCO)"), (f"p_CLK{n}_OUT_SEL", "num", 0, "0 (output from ODIV)")]
                else:
                    spec += [(f"p_CLKOUT{n}_EN", "text", "FALSE", "'FALSE' (not requested)"), (f"o_CLKOUT{n}", "open", None, "Open()")]
            C.params(P, spec)
            C.no_extra(P, spec + [(f"p_{k}",) for n in range(7) for k in (f"ODIV{n}_SEL", f"CLKOUT{n}_PE_COARSE", f"CLKOUT{n}_PE_FINE", f"CLK{n}_IN_SEL", f"CLK{n}_OUT_SEL", f"DYN_PE{n}_SEL")], GW5A_PAT)   # defaults of disabled outputs
            C.consumed(cfg, ["idiv", "fdiv", "mdiv"] + [f"{k}{n}" for n in range(nout) for k in ("odiv", "pe")] + [f"pe{n}_fine" for n in range(nout)])
            C.add("ens.i_CLKIN-is-the-registered-input", _clkin_ok(pll, P.get("i_CLKIN"), src))
            for n, (cd, f, p, m) in enumerate(reqs): C.add(f"ens.connected[o_CLKOUT{n} -> clock domain {n}]", _connected(pll, cd, P.get(f"o_CLKOUT{n}")))
        runs.append((f"GW5APLL({devname},nout={nout})", run))
    return _run_case(f"GW5APLL({devname}).do_finalize", runs, [M + "gowin_gw5a.GW5APLL.do_finalize", M + "gowin_gw5a.GW5APLL.create_clkout"], "symbolic idiv, fdiv, mdiv, odivN, peN, peN_fine, clkin_freq; nclkouts 1..7")

# ------------------------------------------------------------------------------------------------------------ CologneChip CC_PLL
def c_gatemate():
    """GateMatePLL has no compute_config: the 'configuration' is the request itself (REF_CLK/OUT_CLK in MHz; the vendor tool derives the dividers).
    Symbolic request frequencies, every non-empty subset of the four phase outputs; paths on which do_finalize asserts are refusals"""
    cls = colognechip.GateMatePLL; runs = []
    for k in range(1, 5):
        for phases in itertools.combinations((0, 90, 180, 270), k):
            for order in ([phases, phases[::-1]] if k > 1 else [phases]):
                def run(ctx, C, phases=order):
                    S = Sym(ctx); usr = len(phases) % 2 == 0
                    pll = cls(perf_mode=("speed", "economy", "lowpower", "undefined")[len(phases) - 1]); pll.logger.disabled = True
                    fin = S.real("fin", 0, None, lo_strict=True); src = Signal()
                    pll.register_clkin(src, fin, usr_clk_ref=usr)
                    req = {}
                    for ph in phases:
                        f = S.real(f"f{ph}", 0, pll._max_freq, lo_strict=True); cd = ClockDomain(f"o{ph}"); pll.create_clkout(cd, f, phase=ph, with_reset=bool(ph % 180)); req[ph] = (cd, f, pll._clkouts[ph][0])
                    try:
                        with _patched(cls.do_finalize) as rec: pll.do_finalize()
                    except AssertionError:
                        C.add("refused[the frequencies are not base / 2*base on CLK180, CLK270]", True); return
                    except Exception as e:
                        C.add("ens.do_finalize-does-not-raise", False, f"{type(e).__name__}: {e}"); return
                    C.add("ens.one-primitive-instance", len(rec) == 1 and rec[0].of == "CC_PLL" and _in_specials(pll, rec[0]))
                    if len(rec) != 1: return
                    P = _placed(rec[0])
                    fs = [req[ph][1].t for ph in phases]; base = fs[0]
                    for t in fs[1:]: base = z3.If(t < base, t, base)
                    spec = [("p_REF_CLK", "str", PV(fin.t / 10 ** 6), "str(clkin_freq/1e6) ('reference input in MHz')"), ("p_OUT_CLK", "str", PV(base / 10 ** 6), "str(min requested frequency/1e6) ('pll output frequency in MHz')"),
                            ("p_PERF_MD", "text", pll._perf_mode, "perf_mode"), ("i_CLK_REF" if not usr else "i_USR_CLK_REF", "is", pll._clkin, "the registered input"), ("i_USR_CLK_REF" if not usr else "i_CLK_REF", "open", None, "Open()")]
                    for ph in (0, 90, 180, 270):
                        spec += [(f"o_CLK{ph}", "is", req[ph][2], f"clock requested with phase {ph}") if ph in req else (f"o_CLK{ph}", "open", None, "Open() (not requested)")]
                        if ph in (180, 270): spec += [(f"p_CLK{ph}_DOUB", "num", PV(z3.If(req[ph][1].t == 2 * base, z3.IntVal(1), z3.IntVal(0))) if ph in req else 0, "1 iff requested at twice the base frequency")]
                    C.params(P, spec); C.no_extra(P, spec, r"p_(REF_CLK|OUT_CLK|CLK\d+_DOUB)|o_CLK\d+")
                    for ph, (cd, f, sig) in req.items():
                        C.add(f"ens.connected[o_CLK{ph} -> its clock domain]", _connected(pll, cd, P.get(f"o_CLK{ph}")))
                        C.add(f"ens.frequency-realizable[CLK{ph} == base" + (" or 2*base]" if ph >= 180 else "]"), z3.Or(f.t == base, f.t == 2 * base) if ph >= 180 else f.t == base)
                    C.add("ens.registered-input-drives-_clkin", any(r_ is src for r_ in _drivers(pll, pll._clkin)))
                runs.append((f"GateMatePLL(phases={','.join(map(str, order))})", run))
    return _run_case("GateMatePLL.do_finalize", runs, [M + "colognechip.GateMatePLL.do_finalize", M + "colognechip.GateMatePLL.create_clkout"], "symbolic clkin_freq and request frequencies (<= the mode's maximum); every subset of the phase outputs")


def cases(tier):
    X = "instance-params."
    cs = [Case(X + "S7PLL", c_xilinx, "S7PLL", -1), Case(X + "S7MMCM", c_xilinx, "S7MMCM", -2), Case(X + "S6PLL", c_xilinx, "S6PLL", -3), Case(X + "S6DCM", c_s6dcm, -1),
          Case(X + "USPLL", c_xilinx, "USPLL", -1), Case(X + "USMMCM", c_xilinx, "USMMCM", -2), Case(X + "USPPLL", c_xilinx, "USPPLL", -3), Case(X + "USPMMCM", c_xilinx, "USPMMCM", -1),
          Case(X + "ECP5PLL(1,2)", c_ecp5, (1, 2)), Case(X + "ECP5PLL(3)", c_ecp5, (3,)), Case(X + "ECP5PLL(4)", c_ecp5, (4,)), Case(X + "iCE40PLL", c_ice40), Case(X + "NXPLL", c_nx)]
    cs += [Case(X + f"ECP5PLL.compute_config.post-state({n})", c_ecp5_poststate, n) for n in (1, 2, 3, 4)]
    cs += [Case(X + f"NXPLL.compute_config.post-state({n})", c_poststate_firstfit, "NXPLL", n) for n in (1, 3, 5)]
    cs += [Case(X + n, c_intel, n, INTEL_GRADES[n][0]) for n in INTEL]
    cs += [Case(X + "GW1NPLL(GW1N)", c_gw1n, "GW1N", True), Case(X + "GW1NPLL(GW1NS)", c_gw1n, "GW1NS", False), Case(X + "GW1NPLL(GW1N-1S)", c_gw1n, "GW1N-1S", False), Case(X + "GW2APLL(GW2A)", c_gw1n, "GW2A", False)]
    cs += [Case(X + f"GW5APLL({GW5A_DEVICES[i][0]})", c_gw5a, i) for i in range(len(GW5A_DEVICES))]
    cs += [Case(X + "GateMatePLL", c_gatemate)]
    return cs

ASSUMPTIONS = [
    "C20 instance: floats are reals (as in C20_clocks.py): 1e9/f, f/1e6, p*div/45 are exact; float(str(x)) == x; int() is truncation toward zero, round() is round-half-even, >> and & (2**k-1) are floor division / modulus by 2**k (Python integers)",
    "C20 instance: compute_config is replaced ON THE HELPER OBJECT by a function returning a symbolic configuration: every entry do_finalize may read is an unconstrained z3 variable inside the helper's declared range (dividers/multipliers: the range tables, eighths for the fractional MMCM values; phases, frequencies, input frequency: reals, > 0 for frequencies); the requested (frequency, phase, margin) triples are symbolic and go through the real create_clkout; the number of outputs is enumerated 1..nclkouts_max (Stratix V: 1..6 of 18) and, where the structure depends on it, the feedback choice (ECP5: every requested output and the feedback-only output), the pin assignment (rPLL: every injective assignment of 1..4 clocks to CLKOUT/P/D/D3), the phase-output subset (CC_PLL: all 15), the clock buffer kind (Xilinx: None, BUFG, BUFR, BUFH, BUFGCE, BUFIO)",
    "C20 instance: contract of compute_config used by the ECP5/NX harness (phase entries are the requested phases; ECP5: when clkfb == nclkouts a feedback-only output (Signal, 0, 0, 0, 0) has been registered in self.clkouts; every divider entry of an output the configuration relies on is defined) is PROVED on the real compute_config source by the cases *.compute_config.post-state (control-flow abstraction: loops cut at their heads, every numeric comparison a free boolean - sound for facts about which entries exist on a returning path)",
    "C20 instance: specification functions are stated in the module from the primitive parameter names and the helper's comments: PLLE2/MMCME2/MMCME4/PLL_ADV: CLKFBOUT_MULT(_F), DIVCLK_DIVIDE, CLKOUTn_DIVIDE(_F on MMCM output 0), CLKOUTn_PHASE = the configuration entries, CLKIN1_PERIOD = 1e9/f ns, CLKFBOUT wired to CLKFBIN; DCM_CLKGEN: CLKFX_MULTIPLY = mult, CLKFX_DIVIDE = divclk_divide*clkout0_divide; EHXPLLL: steps = nearest integer to phase*div/45 (eighths of a VCO period), FPHASE = steps mod 8, CPHASE = (steps - FPHASE)/8 + div - 1, FEEDBK_PATH = INT_O<letter of config[clkfb]>; SB_PLL40: DIVR/DIVF/DIVQ, FEEDBACK_PATH SIMPLE, FILTER_RANGE 1..6 for pfd < 17/26/44/66/101/133 MHz; Nexus PLL: DIVx/DIVF = str(value-1), DELx = str(div-1 + floor(phase/360*div)), feedback through CLKOS5; ALTPLL: INCLK0_INPUT_FREQUENCY = trunc(1e12/f) ps, CLKn_MULTIPLY_BY = m, CLKn_DIVIDE_BY = clkN_divide, CLKn_PHASE_SHIFT = trunc(1e12/clkN_freq*phase/360) ps; rPLL/PLLVR: IDIV_SEL = idiv-1, FBDIV_SEL = fdiv-1, ODIV_SEL = odiv, DYN_SDIV_SEL = SDIV_SEL, PSDA_SEL, static selects 'false', unused pins Open; PLLA/PLL (GW5A): IDIV_SEL = idiv, FBDIV_SEL = fdiv, MDIV_SEL = mdiv, ODIVn_SEL, CLKOUTn_PE_COARSE/FINE, CLKOUTn_EN TRUE exactly for the requested outputs; CC_PLL: REF_CLK/OUT_CLK = str(MHz) of input / lowest request, CLK180/270_DOUB = 1 iff requested at twice the base",
    "C20 instance: scoped around LISTED findings (their native witnesses stay in C20_clocks.py / C20_clocks_ext.py): iCE40PLL is proved for phase-detector frequencies below 133 MHz (at and above: UnboundLocalError, finding.instance.iCE40PLL.do_finalize); NXPLL REF_MMD_DIG == clki_div is proved for configurations with clki_div = 1 (others: finding.instance.clki_div), NXPLL phases >= 0; NXPLL.calculate_analog_parameters (numeric loop-filter search) is replaced by a recorder, its arguments are checked",
    "C20 instance: products/quotients of two symbolic values are first abstracted by fresh variables (same term - same variable); an obligation that is not valid under the abstraction goes unchanged to the solver portfolio of C20_clocks_ext (60 s API, then /usr/bin/z3, cvc5); path feasibility: an 'unknown' keeps the path",
    "C20 instance: not covered here: Efinix (no Instance parameters: the configuration goes to the interface-designer block, see TRIONPLL(bounded)), NXOSCA/GW1NOSC oscillators, DRP/DPS ports (expose_drp/expose_dps)",
]
FUNCTIONS = [M + f"{XIL[n][0].__module__.split('.')[-1]}.{n}.do_finalize" for n in XIL] + [M + "xilinx_s6.S6DCM.do_finalize", M + "lattice_ecp5.ECP5PLL.do_finalize", M + "lattice_ice40.iCE40PLL.do_finalize",
             M + "lattice_nx.NXPLL.do_finalize", M + "intel_common.IntelClocking.do_finalize", M + "gowin_gw1n.GW1NPLL.do_finalize", M + "gowin_gw5a.GW5APLL.do_finalize", M + "colognechip.GateMatePLL.do_finalize"]
