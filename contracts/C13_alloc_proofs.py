"""C13 (proof module): all-input proofs, by engine E3 (vf/pysym.py), of obligations that contracts/C13_alloc.py only covers by bounded
stand-ins.  The REAL functions run under CPython on z3-backed proxies; loops over unbounded symbolic collections are cut by the mechanical
AST rewrite of the function's current source around sidecar invariants.

  pow2 lemmas            facts about k -> 2**k used below, each proved by explicit induction (base / step are separate z3 queries)
  log2_int               the REAL migen log2_int(n, False) on a symbolic n >= 1 (proxy gets int.bit_length and 2**r, see ASSUMPTIONS)
  SoCRegion.__init__     size_pow2 is a power of two, size <= size_pow2 < 2*size, for ALL sizes >= 1
  alloc_region           from an ARBITRARY handler state (unbounded `regions`, unbounded `io_regions`, symbolic size): a returned candidate
                         is aligned on its decoded size, its extent [origin, origin+size) lies inside the search region it was found in
                         (the IO region when uncached - unconditional PROPERTY clause, violated before /repo 2c93834, replay
                         tools/replay_alloc_region_io.py - or [0, 2**address_width) when cached), its power-of-two window is disjoint from
                         the window of every non-linker region already present and lies inside the address space (cached) / inside the IO
                         region if that is aligned on its power-of-two size (uncached); otherwise SoCError.  Run through the real
                         add_region(origin=None), so the class invariant of c_add_region (pairwise disjoint windows) is re-established.
  ConstraintManager      request / lookup_request from an arbitrary manager state (unbounded `available` / `matched` lists)
The bounded cases of C13_alloc.py stay beside these as cross-checks."""
import sys, time, logging, z3
from vf import elab, pysym
from vf.pysym import SymInt, SymBool, SymRecordSeq, SymRecord, SymDict, SymKeys, SymList, SymKey, VC, rewrite, explore, toint, tobool, PathEnd, Unsupported
from vf.core import Case, PROVED, VIOLATED, NOINPUT, UNKNOWN, BOUNDED_OK, OK, VACUOUS
from vf.hw import res
from litex.soc.integration import soc as S

BACKEND = "pysym(loop-cut)+z3-%s(api)" % z3.get_version_string()
I = POW2 = BITLEN = RES_NAME = RES_NUM = None
def _init_z3():
    """z3 declarations are made when a case runs, not at import: the runner imports every module of the property before forking its
    workers, and declarations made at import would change the solver state seen by the cases of the other modules"""
    global I, POW2, BITLEN, RES_NAME, RES_NUM
    I = z3.IntSort()
    pysym.POW2_FUNCS.add("pow2")
    POW2 = z3.Function("pow2", I, I)              # pow2(k) denotes the Python value 2**k for an int k >= 0
    BITLEN = z3.Function("bit_length", I, I)      # bit_length(x) denotes x.bit_length() for an int x >= 0
    RES_NAME = z3.Function("res.name", I, I)      # name of resource r (strings are compared by equality only: a name is its identity)
    RES_NUM = z3.Function("res.number", I, I)     # number of resource r

# =====================================================================================================================================
# the theory of 2**k and int.bit_length used by the proxies
# =====================================================================================================================================

def pow2_def(k):
    """definition of 2**k, instance at k:  2**0 = 1,  2**k = 2 * 2**(k-1) for k > 0"""
    return z3.And(z3.Implies(k == 0, POW2(k) == 1), z3.Implies(k > 0, POW2(k) == 2 * POW2(k - 1)))
def L_pos(k):      return z3.Implies(k >= 0, POW2(k) >= 1)                                           # lemma pos
def L_mono(j, k):  return z3.Implies(z3.And(0 <= j, j <= k), POW2(j) <= POW2(k))                      # lemma mono
def L_strict(j, k): return z3.Implies(z3.And(0 <= j, j < k), 2 * POW2(j) <= POW2(k))                  # lemma strict
def L_split(j, k): return z3.Implies(z3.And(0 <= j, j <= k), POW2(k) == POW2(j) * POW2(k - j))        # lemma split (=> 2**j divides 2**k)
def L_window(r, s, so, o, size):
    """lemma window: an origin o aligned on p = 2**r that starts a range of `size` > p/2 bytes lying inside a window [so, so + 2**s) whose
    origin is aligned on 2**s has its whole power-of-two window [o, o+p) inside that window"""
    p, P = POW2(r), POW2(s)
    return z3.Implies(z3.And(r >= 0, s >= 0, so % P == 0, o % p == 0, o >= so, size >= 1, p < 2 * size, o + size <= so + P), o + p <= so + P)
def bitlen_def(x):
    """semantics of int.bit_length for x >= 0 (Python docs: 0 for 0, else the unique k with 2**(k-1) <= x < 2**k), instance at x"""
    k = BITLEN(x)
    return z3.Implies(x >= 0, z3.And(k >= 0, x < POW2(k), z3.Or(k == 0, POW2(k - 1) <= x)))

def _bit_length(self):
    c = pysym.CTX; x = self.t
    c.check("builtin.bit_length.argument>=0", x >= 0)          # negative arguments (abs) are not modelled: must not occur
    k = BITLEN(x)
    c.assume(z3.And(bitlen_def(x), pow2_def(k), L_pos(k), L_pos(k - 1)))
    return SymInt(k)
def _rpow(self, base, mod=None):
    if not (isinstance(base, int) and not isinstance(base, bool) and base == 2 and mod is None): raise Unsupported("only 2**symbolic")
    c = pysym.CTX; r = self.t
    c.check("builtin.pow.exponent>=0", r >= 0)                 # a negative exponent would give a float
    c.assume(z3.And(pow2_def(r), L_pos(r), L_pos(r - 1)))
    return SymInt(POW2(r))
# additive engine extension (vf/pysym.py is not edited): the two int operations SoCRegion/alloc_region need on a symbolic int
SymInt.bit_length = _bit_length
SymInt.__rpow__ = _rpow

def _prove(hyps, concl, timeout=20000):
    s = z3.Solver(); s.set("timeout", timeout); s.add(*hyps); s.add(z3.Not(concl)); r = s.check()
    return PROVED if r == z3.unsat else (NOINPUT if r == z3.sat else UNKNOWN), (s.model() if r == z3.sat else None)

def c_pow2_lemmas():
    """every lemma is proved for arbitrary (free) arguments; induction is explicit: the step query may use the lemma at the predecessor only.
    pow2 is an uninterpreted function constrained by nothing but the quoted instances of its definition."""
    _init_z3(); t0 = time.time(); out = []
    j, k, r, s, so, o, size = z3.Ints("j k r s so o size")
    def step(name, hyps, concl):
        st, m = _prove(hyps, concl)
        out.append(res(f"pow2.{name}", "pysym", st, 0, BACKEND, **({"model": str(m)} if m is not None else {})))
    # pos: induction on k
    step("pos.base", [pow2_def(z3.IntVal(0))], L_pos(z3.IntVal(0)))
    step("pos.step", [k >= 0, L_pos(k), pow2_def(k + 1)], L_pos(k + 1))
    # mono (fixed j, induction on k from j)
    step("mono.base", [], L_mono(j, j))
    step("mono.step", [0 <= j, j <= k, L_mono(j, k), pow2_def(k + 1), L_pos(k)], L_mono(j, k + 1))
    # strict: from mono at (j+1, k)
    step("strict", [L_mono(j + 1, k), pow2_def(j + 1)], L_strict(j, k))
    # split (fixed j, induction on k from j)
    step("split.base", [pow2_def(z3.IntVal(0))], z3.Implies(j >= 0, POW2(j) == POW2(j) * POW2(j - j)))
    step("split.step", [0 <= j, j <= k, L_split(j, k), pow2_def(k + 1), pow2_def(k + 1 - j)], L_split(j, k + 1))
    # concrete evaluations used for the address-space end: 2**32, 2**64, 2**33, 2**65 by unfolding the definition
    for n in (32, 64):
        step(f"eval.2**{n}", [pow2_def(z3.IntVal(i)) for i in range(n + 1)], POW2(z3.IntVal(n)) == 2**n)
    # window: proof script; every step may use the hypotheses and the earlier conclusions
    p, P, q = POW2(r), POW2(s), POW2(s - r)
    H = [r >= 0, s >= 0, so % P == 0, o % p == 0, o >= so, size >= 1, p < 2 * size, o + size <= so + P]
    u = so / P
    kq = q * (u + 1)
    script = [
        ("window.1:r<=s",               [L_strict(s, r), L_pos(r), L_pos(s)],                       r <= s),           # else 2*P <= p < 2*size, but size <= P
        ("window.2:P=p*q,q>=1",         [L_split(r, s), L_pos(s - r)],                              z3.And(P == p * q, q >= 1, p >= 1, P >= 1)),
        ("window.3:so=P*u",             [],                                                         so == P * u),
        ("window.4:so+P=p*(q*(u+1))",   [],                                                         so + P == p * kq),
        ("window.5:(so+P)%p=0",         [],                                                         (so + P) % p == 0),
        ("window.6:o+p<=so+P",          [],                                                         o + p <= so + P),
    ]
    # mulmod: a multiple of m is 0 modulo m (free x, m, kv); used below by universal instantiation x := so+P, m := p, kv := q*(u+1)
    x_, m_, kv_ = z3.Ints("x m kv")
    mulmod = z3.Implies(z3.And(m_ >= 1, x_ == m_ * kv_), x_ % m_ == 0)
    step("mulmod", [], mulmod)
    mulmod_inst = z3.substitute(mulmod, (x_, so + P), (m_, p), (kv_, kq))
    known = list(H)
    for name, extra, concl in script:
        use = known + extra
        if name.startswith("window.5"): use = [p >= 1, so + P == p * kq, mulmod_inst]
        if name.startswith("window.6"): use = [p >= 1, o % p == 0, (so + P) % p == 0, o + size <= so + P, size >= 1]
        step(name, use, concl); known.append(concl)
    out.append(res("pow2.lemmas", "cover", OK, time.time() - t0, "z3", steps=len(out)))
    return dict(results=out, functions=["(sidecar lemmas about 2**k used by the C13 proofs)"], samples=[dict(lemmas="pos, mono, strict, split, eval, window", how="explicit induction / proof script, each step one z3 query over an uninterpreted pow2")])

# =====================================================================================================================================
# result helpers
# =====================================================================================================================================
def _agg(prefix, obl, kind="pysym"):
    """one obligation per clause name: proved iff proved on every explored path; unknown is reported as unknown"""
    by = {}
    for n, s, m in obl: by.setdefault(n, []).append((s, m))
    out = []
    for n, l in by.items():
        st = NOINPUT if any(s == "FAILED" for s, _ in l) else (UNKNOWN if any(s != "proved" for s, _ in l) else PROVED)
        info = {}
        bad = [m for s, m in l if s == "FAILED" and m is not None]
        if bad: info["model"] = {str(d): str(bad[0][d]) for d in bad[0].decls() if d.arity() == 0}
        out.append(res(f"{prefix}.{n}", kind, st, 0, BACKEND, paths=len(l), **info))
    return out

# =====================================================================================================================================
# log2_int and SoCRegion.__init__
# =====================================================================================================================================
def _run_log2(wrong=False):
    _init_z3()
    stats = dict(returned=0)
    def run(ctx):
        n = SymInt(z3.Int("n")); ctx.assume(n >= 1)
        r = S.log2_int(n, False)                                  # the real migen function
        stats["returned"] += 1
        p = 2**r
        ctx.check("post.r>=0", r >= 0)
        ctx.check("post.2**r>=n", p >= n)
        ctx.check("post.2**r<2n", p < 2 * n)
        ctx.check("post.n==1=>r==0", z3.Implies(toint(n) == 1, toint(r) == 0))
        if wrong: ctx.check("wrong.2**r>n", p > n)
    paths, obl = explore(run)
    return paths, obl, stats

def c_log2_int():
    t0 = time.time()
    paths, obl, stats = _run_log2()
    out = _agg("log2_int(n,False)", obl)
    _, obl2, _ = _run_log2(wrong=True)
    refuted = any(s == "FAILED" for n, s, _ in obl2 if n.startswith("wrong."))
    out.append(res("log2_int.cover.returns;wrong-postcondition(2**r>n)-refuted", "cover", OK if stats["returned"] >= 1 and refuted else VACUOUS, time.time() - t0, "pysym", paths=paths))
    return dict(results=out, functions=["migen.fhdl.bitcontainer.log2_int (as used by litex.soc.integration.soc)"], samples=[dict(function="log2_int", paths=paths, n="symbolic, n >= 1")])

def _run_region(wrong=False):
    _init_z3()
    stats = dict(returned=0, rounded=0, exact=0)
    def run(ctx):
        origin = SymInt(z3.Int("origin")); size = SymInt(z3.Int("size")); ctx.assume(size >= 1)
        r = S.SoCRegion(origin=origin, size=size, cached=False)    # the real constructor
        stats["returned"] += 1
        p = toint(r.size_pow2); k = BITLEN(size.t - 1)
        ctx.check("post.size_pow2-is-2**k,k>=0", z3.And(p == POW2(k), k >= 0))
        ctx.check("post.size_pow2>=size", p >= size.t)
        ctx.check("post.size_pow2<2*size", p < 2 * size.t)
        ctx.check("post.size_pow2>=1", p >= 1)
        ctx.check("post.fields-kept", z3.BoolVal(r.origin is origin and r.size is size and r.cached is False and r.linker is False and r.mode == "rw" and r.decode is True))
        if wrong: ctx.check("wrong.size_pow2>size", p > size.t)
    paths, obl = explore(run)
    return paths, obl, stats

def c_region_init():
    t0 = time.time()
    paths, obl, stats = _run_region()
    out = _agg("SoCRegion.__init__", obl)
    _, obl2, _ = _run_region(wrong=True)
    refuted = any(s == "FAILED" for n, s, _ in obl2 if n.startswith("wrong."))
    out.append(res("SoCRegion.__init__.cover.both-branches(rounded/exact);wrong-postcondition-refuted", "cover", OK if paths >= 2 and refuted else VACUOUS, time.time() - t0, "pysym", paths=paths))
    return dict(results=out, functions=["litex.soc.integration.soc.SoCRegion.__init__"], samples=[dict(function="SoCRegion.__init__", paths=paths, size="symbolic, size >= 1")])

# =====================================================================================================================================
# alloc_region (through add_region with origin=None)
# =====================================================================================================================================
FIELDS = {"origin": "int", "size": "int", "size_pow2": "int", "linker": "bool", "cached": "bool"}
IOFIELDS = {"origin": "int", "size": "int", "size_pow2": "int", "log2": "int", "linker": "bool", "cached": "bool"}
def ov_t(o0, p0, o1, p1): return z3.And(o0 < o1 + p1, o1 < o0 + p0)        # the two half-open windows [o, o+p) intersect

class AVC(VC):
    """VC whose for-loops may iterate a dict view of a symbolic dict directly (for k, v in d.items()); remembers the cut position"""
    def __init__(self, loops): VC.__init__(self, loops); self.st = {}
    def for_begin(self, lid, iterable, L):
        if isinstance(iterable, SymKeys): iterable = SymList(iterable)
        st = VC.for_begin(self, lid, iterable, L); self.st[lid] = st; return st

FEASIBILITY_TIMEOUT_MS = 3000     # path feasibility queries: `unknown` counts as feasible (a path is never dropped), so a timeout is sound
LOOP_SEARCH, LOOP_ORIGIN, LOOP_ALLOCATED = 0, 1, 2      # pre-order numbers of the loops of alloc_region

def _run_alloc(cached, address_width=32, wrong=None):
    _init_z3()
    stats = dict(returned=0, raised=0, name_rejected=0)
    a, b_ = z3.Ints("a b")
    def run(ctx):
        ctx.solver.set("timeout", FEASIBILITY_TIMEOUT_MS)
        seq = SymRecordSeq("R", FIELDS); regs = SymDict(seq)
        ios = SymRecordSeq("IO", IOFIELDS); ioregs = SymDict(ios)
        ctx.assume(SymBool(seq.len >= 0)); ctx.assume(SymBool(ios.len >= 0))
        o0, p0, l0 = seq.fn["origin"], seq.fn["size_pow2"], seq.fn["linker"]
        # class invariant of the handler (the one c_add_region proves for fixed origins): non-linker windows pairwise disjoint
        ctx.assume(SymBool(z3.ForAll([a, b_], z3.Implies(z3.And(0 <= a, a < b_, b_ < seq.len), z3.Or(l0(a), l0(b_), z3.Not(ov_t(o0(a), p0(a), o0(b_), p0(b_))))))))
        # every IO region is a SoCRegion object: the postcondition of its constructor (case SoCRegion.__init__)
        ctx.assume(SymBool(z3.ForAll([a], z3.Implies(z3.And(0 <= a, a < ios.len),
                    z3.And(ios.fn["size"](a) >= 1, ios.fn["log2"](a) >= 0, ios.fn["size_pow2"](a) == POW2(ios.fn["log2"](a)),
                           ios.fn["size_pow2"](a) >= ios.fn["size"](a), ios.fn["size_pow2"](a) < 2 * ios.fn["size"](a))))))
        bus = S.SoCBusHandler.__new__(S.SoCBusHandler)
        bus.logger = logging.getLogger("x"); bus.logger.disabled = True
        bus.regions = regs; bus.io_regions = ioregs; bus.io_regions_check = True; bus.address_width = address_width
        size = SymInt(z3.Int("size")); ctx.assume(size >= 1)
        def org(L): return toint(L["origin"])
        def pair_ok_c(x, c): return z3.Or(l0(x), z3.Not(ov_t(o0(x), p0(x), toint(c.origin), toint(c.size_pow2))))
        loops = {
            LOOP_ORIGIN:    dict(havoc={"origin": "int"}, inv=lambda L: org(L) >= toint(L["search_region"].origin)),
            LOOP_ALLOCATED: dict(pos="j", inv=lambda L: z3.And(z3.BoolVal(L["overlap"] is False),
                                                               z3.ForAll([a], z3.Implies(z3.And(0 <= a, a < toint(L["j"])), pair_ok_c(a, L["candidate"]))))),
        }
        if not cached: loops[LOOP_SEARCH] = dict(pos="s", inv=lambda L: z3.BoolVal(True))
        vc = AVC(loops)
        fn, src = rewrite(S.SoCBusHandler.alloc_region, loops, vc)
        assert src.count("__vc.for_begin") == (1 if cached else 2) and src.count("__vc.loop_begin(1,") == 1, "loop structure of alloc_region changed"
        got = {}
        def alloc(name, sz, ca=True):
            got["entered"] = True
            c = fn(bus, name, sz, ca)
            got["c"] = c
            # ---- postcondition of alloc_region itself -----------------------------------------------------------------------------
            co, cs, cp = toint(c.origin), toint(c.size), toint(c.size_pow2)
            if cached: so, sp, ssz, slog = z3.IntVal(0), z3.IntVal(2**address_width), z3.IntVal(2**address_width - 1), z3.IntVal(address_width)   # the "main" search region built by alloc_region
            else:
                s_ = toint(vc.st[LOOP_SEARCH]["pos"])
                ctx.check("alloc.post.search-region-is-an-IO-region", z3.And(0 <= s_, s_ < ios.len))
                so, sp, ssz, slog = ios.fn["origin"](s_), ios.fn["size_pow2"](s_), ios.fn["size"](s_), ios.fn["log2"](s_)
            k = BITLEN(size.t - 1)
            ctx.check("alloc.post.candidate-is-the-request", z3.And(z3.BoolVal(c.size is sz and c.cached is ca and c.linker is False and type(c) is S.SoCRegion), cp == POW2(k), cp >= cs, cp < 2 * cs, cp >= 1))
            ctx.check("alloc.post.origin-aligned-on-size_pow2", co % cp == 0)
            # PROPERTY clause (unconditional): the granted extent [origin, origin+size) lies inside the search region it was found in
            if cached: ctx.check("alloc.post.extent-inside-address-space", z3.And(co >= 0, co + cs <= 2**address_width))
            else:      ctx.check("alloc.post.extent-inside-the-IO-region", z3.And(co >= so, co + cs <= so + ssz))
            ctx.check("alloc.post.window-disjoint-from-every-non-linker-region", z3.ForAll([a], z3.Implies(z3.And(0 <= a, a < seq.len), pair_ok_c(a, c))))
            # decoded window: inside the search region's power-of-two window when that region's origin is aligned on it (lemma window, instance)
            ctx.assume(z3.And(L_window(k, slog, so, co, cs), *([POW2(z3.IntVal(address_width)) == 2**address_width] if cached else [])))
            if cached:
                ctx.check("alloc.post.decoded-window-inside-address-space", z3.And(co >= 0, co + cp <= 2**address_width))
            else:
                ctx.check("alloc.post.IO-region-origin-aligned=>decoded-window-inside-the-power-of-two-window-of-the-IO-region", z3.Implies(so % sp == 0, z3.And(co >= so, co + cp <= so + sp)))
                ctx.check("alloc.post.IO-region-aligned-power-of-two=>decoded-window-inside-IO-region", z3.Implies(z3.And(so % sp == 0, ssz == sp), z3.And(co >= so, co + cp <= so + ssz)))
            if wrong == "end": ctx.check("wrong.origin+size_pow2<search-end", co + cp < so + ssz)
            if wrong == "io": ctx.check("wrong.decoded-window-inside-IO-region(unconditional)", co + cp <= so + ssz)
            return c
        bus.alloc_region = alloc
        region = S.SoCRegion.__new__(S.SoCRegion)
        region.origin = None; region.size = size; region.cached = cached; region.linker = False; region.mode = "rw"; region.decode = True
        try:
            S.SoCBusHandler.add_region(bus, "newname", region)
        except S.SoCError:
            elab.restore_stderr()
            if "c" in got: ctx.check("add_region.no-error-after-successful-allocation", z3.BoolVal(False))
            else: stats["raised" if "entered" in got else "name_rejected"] += 1
            ctx.check("raise.state-unchanged", z3.BoolVal(len(regs.extra) == 0 and len(ioregs.extra) == 0))
            return
        stats["returned"] += 1
        # ---- postcondition of add_region(origin=None): the class invariant is re-established over the extended collection -------------
        ctx.check("add_region.post.added", z3.BoolVal(len(regs.extra) == 1 and regs.extra[0][0] == "newname" and regs.extra[0][1] is got["c"] and len(ioregs.extra) == 0))
        c = got["c"]; n1 = seq.len + 1
        def O(f, x): return z3.If(x == seq.len, (tobool if FIELDS[f] == "bool" else toint)(getattr(c, f)), seq.fn[f](x))
        ctx.check("add_region.post.invariant(pairwise-disjoint-windows)", z3.ForAll([a, b_], z3.Implies(z3.And(0 <= a, a < b_, b_ < n1),
                    z3.Or(O("linker", a), O("linker", b_), z3.Not(ov_t(O("origin", a), O("size_pow2", a), O("origin", b_), O("size_pow2", b_)))))))
    paths, obl = explore(run, max_paths=4000)
    elab.restore_stderr()
    return paths, obl, stats

def c_alloc(cached, address_width=32):
    t0 = time.time()
    paths, obl, stats = _run_alloc(cached, address_width)
    tag = f"alloc_region[{'cached' if cached else 'uncached'},aw{address_width}]"
    out = _agg(tag, obl)
    for r_ in out:
        if r_["name"].endswith("alloc.post.extent-inside-the-IO-region") and r_["status"] == NOINPUT:
            # native replay of the counterexample class (IO region of non-power-of-two size) through the unmodified functions
            import io as _io, contextlib, importlib.util
            spec = importlib.util.spec_from_file_location("replay_alloc_region_io", "/verif/tools/replay_alloc_region_io.py"); rp = importlib.util.module_from_spec(spec); spec.loader.exec_module(rp)
            buf = _io.StringIO()
            with contextlib.redirect_stdout(buf): hit = rp.scenario("A", (0x9000_0000, 0x3000_0000), [0x1000_0000, 0x1000_0000, 0x1000_0000, 0x0800_0000])
            r_["replay_info"] = buf.getvalue()[-600:]
            if hit: r_["status"] = VIOLATED; r_["replay"] = "tools/replay_alloc_region_io.py"
    have = {n for n, _, _ in obl}
    want = {"loop1.init", "loop1.step", "loop2.init", "loop2.step", "alloc.post.window-disjoint-from-every-non-linker-region", "add_region.post.invariant(pairwise-disjoint-windows)"}
    # vacuity: a deliberately wrong postcondition must be refuted
    _, obl2, _ = _run_alloc(cached, address_width, wrong="end")
    refuted = any(s == "FAILED" for n, s, _ in obl2 if n.startswith("wrong."))
    out.append(res(f"{tag}.cover.returns-and-raises;wrong-postcondition-refuted", "cover",
                   OK if stats["returned"] > 0 and stats["raised"] > 0 and stats["name_rejected"] > 0 and want <= have and refuted and paths > 3 else VACUOUS, time.time() - t0, "pysym", paths=paths, **stats))
    return dict(results=out, functions=["litex.soc.integration.soc.SoCBusHandler.alloc_region", "litex.soc.integration.soc.SoCBusHandler.add_region (origin=None branch)",
                                        "litex.soc.integration.soc.SoCBusHandler.check_regions_overlap (two-element call, run unmodified)", "litex.soc.integration.soc.SoCRegion.__init__"],
                samples=[dict(function="alloc_region", cached=cached, address_width=address_width, paths=paths, state="arbitrary handler state satisfying the class invariant; unbounded symbolic regions and io_regions; symbolic size >= 1",
                              loops="for search_regions (cut, uncached) / while origin (cut, continue handled) / for self.regions (cut, break handled)")])

# =====================================================================================================================================
# generic_platform.ConstraintManager.request / lookup_request from an arbitrary manager state
# =====================================================================================================================================
from litex.build import generic_platform as GP
_STR = {}
def _code(s_):                                 # a concrete Python str as a name identity (distinct strings, distinct identities)
    return z3.IntVal(_STR.setdefault(s_, len(_STR)))
class PName:
    """resource[0] of a symbolic resource"""
    def __init__(self, t): self.t = t
    def __eq__(self, o):
        if isinstance(o, str): return SymBool(self.t == _code(o))
        if isinstance(o, PName): return SymBool(self.t == o.t)
        return NotImplemented
    def __ne__(self, o): return ~self.__eq__(o)
    __hash__ = None
class PRes:
    """one resource tuple (name, number, *constraints) of a platform description; identity rid, name/number functions of the identity;
    the constraint tail is concrete (one shape per case); == is identity (ASSUMPTIONS)"""
    def __init__(self, rid, tail): self.rid, self.tail = rid, tail
    def __getitem__(self, i):
        if isinstance(i, slice):
            if (i.start, i.stop, i.step) == (2, None, None): return self.tail
            raise Unsupported("resource slice")
        if i == 0: return PName(RES_NAME(self.rid))
        if i == 1: return SymInt(RES_NUM(self.rid))
        return self.tail[i - 2]
    def __eq__(self, o): return isinstance(o, PRes) and bool(SymBool(self.rid == o.rid))
    __hash__ = None
class PList:
    """list of resources of unknown length: element i is the resource at(i).  Supports what ConstraintManager uses: iteration (cut by the
    rewrite), remove(x) with CPython's meaning (delete the FIRST element equal to x, ValueError if there is none)"""
    def __init__(self, name, tail):
        f = z3.Function(name, I, I); self.at = lambda i: f(i); self.len = z3.Int(f"{name}.len"); self.tail = tail; self.removed = None
    def __getitem__(self, i):
        it = toint(i); pysym.CTX.assume(z3.And(it >= 0, it < self.len)); return PRes(self.at(it), self.tail)
    def __iter__(self): raise Unsupported("iteration over a symbolic list that was not cut by the rewrite")
    def remove(self, x):
        c = pysym.CTX; i_ = z3.Int("i_")
        if not SymBool(z3.Exists([i_], z3.And(0 <= i_, i_ < self.len, self.at(i_) == x.rid))): raise ValueError("list.remove(x): x not in list")
        f = c.fresh("first"); at = self.at
        c.assume(z3.And(0 <= f, f < self.len, at(f) == x.rid, z3.ForAll([i_], z3.Implies(z3.And(0 <= i_, i_ < f), at(i_) != x.rid))))
        self.at = lambda i: z3.If(i < f, at(i), at(i + 1)); self.len = self.len - 1; self.removed = f
class PObj:
    """the Signal/Record stored beside matched entry i"""
    def __init__(self, i): self.i = i
    def __getattr__(self, n):
        if n.startswith("__"): raise AttributeError(n)
        return ("attribute", n, self.i)
class PMatched:
    """list of (resource, obj) pairs of unknown length plus concretely appended pairs"""
    def __init__(self, name, tail):
        f = z3.Function(name, I, I); self.res = lambda i: f(i); self.len0 = z3.Int(f"{name}.len"); self.tail = tail; self.extra = []
    def total_len(self): return self.len0 + len(self.extra)
    def __iter__(self): raise Unsupported("iteration over a symbolic list that was not cut by the rewrite")
    def append(self, x): self.extra.append(x)
    def __getitem__(self, i):
        it = toint(i)
        for j, e in enumerate(self.extra):
            if SymBool(it == self.len0 + j): return e
        pysym.CTX.assume(z3.And(it >= 0, it < self.len0)); return (PRes(self.res(it), self.tail), PObj(it))
class PVC(VC):
    def __init__(self, loops): VC.__init__(self, loops); self.st = {}
    def len(self, x):
        if isinstance(x, PList): return SymInt(x.len)
        if isinstance(x, PMatched): return SymInt(x.total_len())
        return VC.len(self, x)
    def for_begin(self, lid, iterable, L):
        st = VC.for_begin(self, lid, iterable, L); self.st[lid] = st; return st

def _tails():
    return {"pins":      (GP.Pins("A1 A2"),),
            "record":    (GP.Subsignal("tx", GP.Pins("B1")), GP.Subsignal("rx", GP.Pins("B2"), GP.Inverted()), GP.IOStandard("LVCMOS33")),
            "info":      (GP.Pins("C1"), GP.Inverted(), GP.PlatformInfo("x"), GP.Misc("y"))}

def _cm_state(ctx, tail):
    ctx.solver.set("timeout", FEASIBILITY_TIMEOUT_MS)
    A = PList("available", tail); M = PMatched("matched", tail)
    ctx.assume(SymBool(A.len >= 0)); ctx.assume(SymBool(M.len0 >= 0))
    return A, M
def _cm_inv(Aat, Alen, Mres, Mlen):
    """no resource occurs twice in available, twice in matched, or in both"""
    a, b_ = z3.Ints("a b")
    return z3.And(z3.ForAll([a, b_], z3.Implies(z3.And(0 <= a, a < b_, b_ < Alen), Aat(a) != Aat(b_))),
                  z3.ForAll([a, b_], z3.Implies(z3.And(0 <= a, a < b_, b_ < Mlen), Mres(a) != Mres(b_))),
                  z3.ForAll([a, b_], z3.Implies(z3.And(0 <= a, a < Alen, 0 <= b_, b_ < Mlen), Aat(a) != Mres(b_))))

def _run_request(shape, numbered, loose, wrong=False):
    _init_z3()
    stats = dict(returned=0, raised=0, none=0)
    tail = _tails()[shape]
    a = z3.Int("a")
    def run(ctx):
        A, M = _cm_state(ctx, tail)
        A0at, A0len, M0res, M0len = A.at, A.len, M.res, M.len0
        ctx.assume(SymBool(_cm_inv(A0at, A0len, M0res, M0len)))
        cm = GP.ConstraintManager.__new__(GP.ConstraintManager); cm.available = A; cm.matched = M; cm.platform_commands = []
        name = "thing"; number = SymInt(z3.Int("number")) if numbered else None
        def match(r): return z3.And(RES_NAME(r) == _code(name), *([RES_NUM(r) == number.t] if numbered else []))
        loops = {0: dict(pos="i", inv=lambda L: z3.ForAll([a], z3.Implies(z3.And(0 <= a, a < toint(L["i"])), z3.Not(match(A0at(a))))))}
        vc = PVC(loops)
        lk, src = rewrite(GP._lookup, loops, vc)
        assert src.count("__vc.for_begin(0,") == 1, "loop structure of _lookup changed"
        rq, _ = rewrite(GP.ConstraintManager.request, {}, vc)
        rq.__globals__["_lookup"] = lk
        rq.__globals__["str"] = lambda x: "0" if isinstance(x, SymInt) else str(x)      # decimal numeral of a non-negative int: only used as identifier suffix of the new Signal/Record
        if numbered: ctx.assume(number >= 0)
        unchanged = lambda: z3.BoolVal(cm.available is A and cm.matched is M and A.removed is None and not M.extra)
        try:
            obj = rq(cm, name, number, loose)
        except GP.ConstraintError:
            stats["raised"] += 1
            ctx.check("raise=>nothing-available-matches-the-request", z3.ForAll([a], z3.Implies(z3.And(0 <= a, a < A0len), z3.Not(match(A0at(a))))))
            ctx.check("raise=>not-loose", z3.BoolVal(not loose))
            ctx.check("raise=>state-unchanged", unchanged()); return
        except ValueError:
            ctx.check("no-ValueError-from-list.remove", z3.BoolVal(False)); return
        if obj is None:
            stats["none"] += 1
            ctx.check("None=>loose,nothing-available-matches,state-unchanged", z3.And(z3.BoolVal(bool(loose)), unchanged(), z3.ForAll([a], z3.Implies(z3.And(0 <= a, a < A0len), z3.Not(match(A0at(a)))))))
            return
        stats["returned"] += 1
        f = A.removed
        ctx.check("post.exactly-one-entry-left-available,one-entered-matched", z3.BoolVal(cm.available is A and cm.matched is M and f is not None and len(M.extra) == 1))
        if f is None or len(M.extra) != 1: return
        g_res, g_obj = M.extra[0]
        g = g_res.rid
        ctx.check("post.granted-resource-matches-the-request", match(g))
        ctx.check("post.granted-is-the-FIRST-matching-available-resource", z3.And(0 <= f, f < A0len, A0at(f) == g, z3.ForAll([a], z3.Implies(z3.And(0 <= a, a < f), z3.Not(match(A0at(a)))))))
        ctx.check("post.returned-object-is-stored-with-the-resource", z3.BoolVal(g_obj is obj and isinstance(obj, (GP.Signal, GP.Record))))
        ctx.check("post.available-afterwards=available-without-that-entry", z3.And(A.len == A0len - 1, z3.ForAll([a], z3.Implies(z3.And(0 <= a, a < A.len), A.at(a) == z3.If(a < f, A0at(a), A0at(a + 1))))))
        ctx.check("post.granted-was-not-matched-before", z3.ForAll([a], z3.Implies(z3.And(0 <= a, a < M0len), M0res(a) != g)))
        ctx.check("post.granted-no-longer-available", z3.ForAll([a], z3.Implies(z3.And(0 <= a, a < A.len), A.at(a) != g)))
        M1res = lambda i: z3.If(i == M0len, g, M0res(i))
        ctx.check("post.invariant(no-resource-twice-or-in-both-lists)", _cm_inv(A.at, A.len, M1res, M0len + 1))
        if wrong: ctx.check("wrong.granted-is-the-LAST-available-entry", f == A0len - 1)
    paths, obl = explore(run, max_paths=4000)
    return paths, obl, stats

def c_cm_request(shape, numbered, loose):
    t0 = time.time()
    paths, obl, stats = _run_request(shape, numbered, loose)
    tag = f"ConstraintManager.request[{shape},{'number' if numbered else 'number=None'},{'loose' if loose else 'strict'}]"
    out = _agg(tag, obl)
    _, obl2, _ = _run_request(shape, numbered, loose, wrong=True)
    refuted = any(s == "FAILED" for n, s, _ in obl2 if n.startswith("wrong."))
    ok = stats["returned"] > 0 and (stats["none"] if loose else stats["raised"]) > 0 and refuted and {"loop0.init", "loop0.step"} <= {n for n, _, _ in obl}
    out.append(res(f"{tag}.cover.grants-and-rejects;wrong-postcondition-refuted", "cover", OK if ok else VACUOUS, time.time() - t0, "pysym", paths=paths, **stats))
    return dict(results=out, functions=["litex.build.generic_platform.ConstraintManager.request", "litex.build.generic_platform._lookup", "litex.build.generic_platform._resource_type"],
                samples=[dict(function="ConstraintManager.request", shape=shape, paths=paths, state="arbitrary manager state satisfying the invariant; unbounded symbolic available/matched lists; symbolic number")])

def _run_lookup(numbered, loose, sub, wrong=False):
    _init_z3()
    stats = dict(returned=0, raised=0, none=0)
    a = z3.Int("a")
    def run(ctx):
        A, M = _cm_state(ctx, _tails()["pins"])
        cm = GP.ConstraintManager.__new__(GP.ConstraintManager); cm.available = A; cm.matched = M; cm.platform_commands = []
        name = "thing"; number = SymInt(z3.Int("number")) if numbered else None
        def match(r): return z3.And(RES_NAME(r) == _code(name), *([RES_NUM(r) == number.t] if numbered else []))
        loops = {0: dict(pos="i", inv=lambda L: z3.ForAll([a], z3.Implies(z3.And(0 <= a, a < toint(L["i"])), z3.Not(match(M.res(a))))))}
        vc = PVC(loops)
        fn, src = rewrite(GP.ConstraintManager.lookup_request, loops, vc)
        assert src.count("__vc.for_begin(0,") == 1, "loop structure of lookup_request changed"
        unchanged = lambda: z3.BoolVal(cm.available is A and cm.matched is M and A.removed is None and not M.extra)
        nomatch = z3.ForAll([a], z3.Implies(z3.And(0 <= a, a < M.len0), z3.Not(match(M.res(a)))))
        try:
            obj = fn(cm, name + (":sub" if sub else ""), number, loose)
        except GP.ConstraintError:
            stats["raised"] += 1
            ctx.check("raise=>no-matched-resource-matches(available-is-not-consulted)", nomatch)
            ctx.check("raise=>not-loose,state-unchanged", z3.And(z3.BoolVal(not loose), unchanged())); return
        if obj is None:
            stats["none"] += 1
            ctx.check("None=>loose,no-matched-resource-matches,state-unchanged", z3.And(z3.BoolVal(bool(loose)), unchanged(), nomatch)); return
        stats["returned"] += 1
        if sub:
            ctx.check("post.returns-attribute-of-a-matched-object", z3.BoolVal(isinstance(obj, tuple) and obj[:2] == ("attribute", "sub")))
            g = obj[2] if isinstance(obj, tuple) else None
        else:
            ctx.check("post.returns-a-matched-object", z3.BoolVal(isinstance(obj, PObj)))
            g = obj.i if isinstance(obj, PObj) else None
        if g is None: return
        ctx.check("post.it-is-the-object-of-the-FIRST-matched-resource-that-matches", z3.And(0 <= g, g < M.len0, match(M.res(g)), z3.ForAll([a], z3.Implies(z3.And(0 <= a, a < g), z3.Not(match(M.res(a)))))))
        ctx.check("post.state-unchanged", unchanged())
        if wrong: ctx.check("wrong.it-is-entry-0", g == 0)
    paths, obl = explore(run, max_paths=4000)
    return paths, obl, stats

def c_cm_lookup(numbered, loose, sub=False):
    t0 = time.time()
    paths, obl, stats = _run_lookup(numbered, loose, sub)
    tag = f"ConstraintManager.lookup_request[{'number' if numbered else 'number=None'},{'loose' if loose else 'strict'}{',name:sub' if sub else ''}]"
    out = _agg(tag, obl)
    _, obl2, _ = _run_lookup(numbered, loose, sub, wrong=True)
    refuted = any(s == "FAILED" for n, s, _ in obl2 if n.startswith("wrong."))
    ok = stats["returned"] > 0 and (stats["none"] if loose else stats["raised"]) > 0 and refuted and {"loop0.init", "loop0.step"} <= {n for n, _, _ in obl}
    out.append(res(f"{tag}.cover.finds-and-rejects;wrong-postcondition-refuted", "cover", OK if ok else VACUOUS, time.time() - t0, "pysym", paths=paths, **stats))
    return dict(results=out, functions=["litex.build.generic_platform.ConstraintManager.lookup_request"],
                samples=[dict(function="ConstraintManager.lookup_request", paths=paths, state="arbitrary manager state; unbounded symbolic matched list")])

def cases(tier):
    cs = [Case("pow2-lemmas", c_pow2_lemmas), Case("log2_int(proof)", c_log2_int), Case("SoCRegion.__init__(proof)", c_region_init),
          Case("alloc_region(proof,cached,aw32)", c_alloc, True, 32), Case("alloc_region(proof,uncached,aw32)", c_alloc, False, 32)]
    cs += [Case("ConstraintManager.request(proof,pins,number,strict)", c_cm_request, "pins", True, False),
           Case("ConstraintManager.request(proof,record,number=None,strict)", c_cm_request, "record", False, False),
           Case("ConstraintManager.request(proof,info,number,loose)", c_cm_request, "info", True, True),
           Case("ConstraintManager.lookup_request(proof,number,strict)", c_cm_lookup, True, False),
           Case("ConstraintManager.lookup_request(proof,number=None,loose)", c_cm_lookup, False, True),
           Case("ConstraintManager.lookup_request(proof,number,strict,name:sub)", c_cm_lookup, True, False, True)]
    if tier == "thorough": cs += [Case("alloc_region(proof,cached,aw64)", c_alloc, True, 64), Case("alloc_region(proof,uncached,aw64)", c_alloc, False, 64)]
    return cs

ASSUMPTIONS = [
    "C13 proofs (E3): Python ints are mathematical integers; `%` with a positive divisor is the Euclidean remainder (obligation size_pow2 >= 1 is proved where a symbolic divisor occurs); dict iteration is insertion order; logging/colorer/str.format have no effect on results; no aliasing between the symbolic records handed in",
    "builtin semantics assumed for the proxies: for an int k >= 0, 2**k is defined by 2**0 = 1 and 2**k = 2 * 2**(k-1); for an int x >= 0, x.bit_length() is 0 if x == 0 and otherwise the unique k > 0 with 2**(k-1) <= x < 2**k (Python language reference); "
    "only instances of these two definitions and of the lemmas proved by explicit induction in case `pow2-lemmas` are ever given to the solver; a negative bit_length argument or exponent is an obligation (must not occur), not an assumption",
    "log2_int is NOT replaced: the real migen function runs on the proxy (SymInt gains bit_length and 2**r in this module, additively); its contract (r >= 0, n <= 2**r < 2n for n >= 1) is proved as case `log2_int(proof)`",
    "alloc_region / add_region(origin=None): request size is an int >= 1 (SoCRegion of size 0 or a non-int size is outside the proof); handler state = any regions dict whose non-linker power-of-two windows are pairwise disjoint (the invariant c_add_region establishes) and any io_regions dict whose values are SoCRegion objects "
    "(constructor postcondition of case `SoCRegion.__init__(proof)`); `cached` is exactly True or False; linker regions are exempt from the overlap test by design of check_regions_overlap; termination of the search is not proved (partial correctness); no completeness claim (an error may be raised although a free slot exists)",
    "alloc_region decoded window: inside the IO region is proved under the condition `IO region origin aligned on its power-of-two size and size a power of two` (all in-tree CPUs with power-of-two IO regions); without alignment the decoded window can extend beyond the IO region (tools/replay_alloc_region_io.py scenario B, observation); the declared extent [origin, origin+size) is proved inside unconditionally",
    "ConstraintManager: a resource tuple is modelled by its identity; name and number are functions of the identity; tuple == between resources is identity (Pins/Subsignal/... define no __eq__, so two distinct io entries never compare equal unless they are the same objects); names are compared by equality only; requested numbers are >= 0 or None; "
    "str(number) is a legal identifier suffix; the constraint tail (Pins / Subsignals / Inverted / PlatformInfo) is concrete, three shapes; list.remove(x) deletes the first element equal to x; manager state = any available/matched lists in which no resource occurs twice or in both (established by __init__ from a duplicate-free io list and preserved by request, proved)",
]
