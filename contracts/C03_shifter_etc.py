"""C03 (remaining stream.py elements): PipelinedActor (the valid/first/last pipeline every latency-N actor is built on), Shifter,
Monitor (sys-domain counters), Endpoint.connect with keep/omit (as used by PipeReady, Converter and packet.PacketFIFO),
BufferizeEndpoints variants and Pipeline with bare Endpoints.  Cast, Pipeline(modules), BufferizeEndpoints(sink+source) are in stream_cases.py.
Same STREAM-REFINE schema (streamlib.fifo_like): the source shows the head of a ghost queue pushed by sink handshakes and popped by
source handshakes.  Pipeline invariants are read off the circuit: stage k holds what the output would show after k more steps."""
import z3
from vf.elab import L, locals_of, mk
from vf.hw import *
from migen import *
from litex.gen import LiteXModule
from litex.soc.interconnect import stream
from vf.core import Case
from contracts.streamlib import fifo_like, select, tok, tok_sigs, fire, ep_inputs, producer_holds, hold_clause
from contracts.stream_cases import LAYOUT, LAYOUT_P, _ep, chain_hints

PROP = "C03"

def _named(h, name): return [s for s in h.ts.state if s.backtrace and s.backtrace[-1][0] == name]     # creation order = pipeline order (input side first)

def advancer(h, ready):
    """adv(e): value of the register expression e after one pipeline step with the consumer ready"""
    rv = h.v(ready)
    return lambda e: z3.substitute(h.inline_comb(h.primed(e)), (rv, K(1, 1)))

def slot_hints(h, slots):
    """slots [(occupied Bool, token BV)] from the output side to the input side: the j-th occupied slot holds ghost token j"""
    LW = h.qlen.size(); cnt = K(0, LW)
    for i, (occ, t) in enumerate(slots):
        for j in range(min(i + 1, len(h.q))):
            h.hint(f"slot{i}@{j}", z3.Implies(z3.And(occ, cnt == K(j, LW)), t == h.q[j]))
        cnt = cnt + z3.If(occ, K(1, LW), K(0, LW))
    h.hint("qlen=occupied", h.qlen == cnt)

# ---------------------------------------------------------------------------------------------------
class _Pipe(stream.PipelinedActor):
    """smallest user of PipelinedActor: the payload/param registers a latency-N actor adds, clocked by pipe_ce (as Shifter, StreamEncoder do)"""
    def __init__(self, layout, latency):
        self.sink = stream.Endpoint(layout); self.source = stream.Endpoint(layout)
        stream.PipelinedActor.__init__(self, latency)
        for (s_i, _), (s_o, _) in zip(list(self.sink.payload.iter_flat()) + list(self.sink.param.iter_flat()), list(self.source.payload.iter_flat()) + list(self.source.param.iter_flat())):
            x = s_i
            for i in range(latency):
                x_n = Signal(len(s_i)); self.sync += If(self.pipe_ce, x_n.eq(x)); x = x_n
            self.comb += s_o.eq(x)

def c_pipelined(latency, layout=LAYOUT):
    d = mk(_Pipe, _ep(layout), latency)
    if latency == 0:
        h = fifo_like("PipelinedActor(latency=0)", d, 0, None, bypass=True, N=1)
    else:
        h = fifo_like(f"PipelinedActor(latency={latency})", d, latency, None, latency=latency)
        vs = _named(h, "valid_n")
        if len(vs) == latency:
            adv = advancer(h, d.source.ready); t = tok(h, d.source); slots = []
            for vr in reversed(vs):
                slots.append((b(h.v(vr)), t)); t = adv(t)
            slot_hints(h, slots)
    # the documented side outputs: busy = some token inside, pipe_ce = the pipeline moves (consumer ready or output stage empty)
    h.ensure("ens.busy", b(h.v(d.busy)) == (h.qlen != 0))
    h.ensure("ens.ce", b(h.v(d.pipe_ce)) == z3.Or(b(h.v(d.source.ready)), z3.Not(b(h.v(d.source.valid)))))
    h.ensure("ens.ready", h.v(d.sink.ready) == h.v(d.pipe_ce))
    h.functions = ["litex.soc.interconnect.stream.PipelinedActor.__init__", "litex.soc.interconnect.stream.PipelinedActor.build_binary_control", "litex.soc.interconnect.stream.BinaryActor.__init__"]
    return h

# ---------------------------------------------------------------------------------------------------
def c_shifter(dw=4):
    """Shifter: output word k = bits [shift, shift+dw) of {data(k+1), data(k)} ("accumulate current/last sink.data, select output data
    based on shift"): a bit-stream realignment.  Flags travel with the token; the low dw-shift bits come from the token itself, the high
    shift bits from its successor."""
    d = mk(stream.Shifter, dw)
    h = fifo_like(f"Shifter({dw})", d, 2, None, latency=2, extra_inputs=[d.shift])
    SW = d.shift.nbits; sh = h.v(d.shift); q = h.q; qlen = h.qlen; LW = qlen.size()
    src = h.v(d.source.data); nonempty = qlen != K(0, LW)
    def data(t): return z3.Extract(dw - 1, 0, t)           # token order: first, last, data
    def flags(t): return z3.Extract(dw + 1, dw, t)
    del h.ensures["ens.head"]
    p_sh = h.prev("shift", sh); p_stall = h.prev("stall", bv1(z3.And(b(h.v(d.source.valid)), z3.Not(b(h.v(d.source.ready))))))
    h.assume(z3.Implies(b(p_stall), sh == p_sh), "configuration input (Shifter.shift) held while an offer is pending on the port it steers")
    h.ensure("ens.head.flags", z3.Implies(b(h.v(d.source.valid)), z3.And(nonempty, cat(h.v(d.source.first), h.v(d.source.last)) == flags(q[0]))))
    low = [z3.Implies(sh == K(s, SW), z3.Extract(dw - s - 1, 0, src) == z3.Extract(dw - 1, s, data(q[0]))) for s in range(dw)]
    h.ensure("ens.head.low", z3.Implies(b(h.v(d.source.valid)), z3.And(*low)))                           # the token's own bits, moved down by `shift`
    high = [z3.Implies(sh == K(s, SW), z3.Extract(dw - 1, dw - s, src) == z3.Extract(s - 1, 0, data(q[1]))) for s in range(1, dw)]
    h.ensure("ens.head.high", z3.Implies(z3.And(b(h.v(d.source.valid)), uge(qlen, 2)), z3.And(*high)))   # completed by the low bits of the successor, when it is there
    # the successor is NOT waited for: the pipeline moves whenever the consumer is ready, so after an upstream pause a token is handed
    # over with `shift` bits taken from sink.data of an idle cycle (valid low)
    last0 = b(z3.Extract(dw, dw, q[0]))
    h.finding("finding.shifter-pause", z3.Implies(z3.And(b(h.v(d.source.valid)), z3.Not(last0), sh != K(0, SW)), uge(qlen, 2)),
              "stream.Shifter (shift != 0) hands over a non-last token whose successor has not been accepted: its upper `shift` bits are whatever was on sink.data while sink.valid was low (upstream pause inside a packet corrupts the realigned data)")
    r = L(d, "r"); vs = _named(h, "valid_n"); fs = _named(h, "first_n"); ls = _named(h, "last_n")
    if r is not None and r in h.ts.var and len(vs) == 2 and len(fs) == 2 and len(ls) == 2:
        R = h.v(r)
        slots = [(b(h.v(vs[1])), cat(h.v(fs[1]), h.v(ls[1]), z3.Extract(dw - 1, 0, R))), (b(h.v(vs[0])), cat(h.v(fs[0]), h.v(ls[0]), z3.Extract(2 * dw - 1, dw, R)))]
        slot_hints(h, slots)
    h.cover("cover.shifted", z3.And(fire(h, d.source), sh == K(dw - 1, SW), uge(qlen, 2)), depth=6)
    h.cover("cover.pause", z3.And(fire(h, d.source), sh != K(0, SW), qlen == K(1, LW)), depth=6)
    h.functions = ["litex.soc.interconnect.stream.Shifter.__init__", "litex.soc.interconnect.stream.PipelinedActor.build_binary_control"]
    return h

# ---------------------------------------------------------------------------------------------------
def c_monitor(width=3, delimiter="last"):
    """Monitor, sys domain: the four counters count exactly the cycles of their kind since the last reset (saturating at 2**width-1);
    latch copies them, two synchroniser stages later the CSR shows the copy"""
    class Top(LiteXModule):
        def __init__(self):
            self.ep = stream.Endpoint(LAYOUT)
            self.m = stream.Monitor(self.ep, count_width=width, with_tokens=True, with_overflows=True, with_underflows=True, with_packets=True, packet_delimiter=delimiter)
    d = mk(Top); m = d.m; ep = d.ep
    h = HwCheck(f"Monitor(width={width},{delimiter})", d, [ep.valid, ep.ready, ep.first, ep.last, m.reset, m.latch, m._reset.re, m._latch.re])
    X = h.v; MAX = (1 << width) - 1; GW = width + 3; GMAX = (1 << GW) - 1
    reset = z3.Or(b(X(m._reset.re)), b(X(m.reset))); latch = z3.Or(b(X(m._latch.re)), b(X(m.latch)))
    v, r_ = b(X(ep.valid)), b(X(ep.ready))
    kinds = [("tokens", m.token_counter, m._tokens, z3.And(v, r_)), ("overflows", m.overflow_counter, m._overflows, z3.And(v, z3.Not(r_))),
             ("underflows", m.underflow_counter, m._underflows, z3.And(z3.Not(v), r_)), ("packets", m.packet_counter, m._packets, z3.And(v, r_, b(X(getattr(ep, delimiter)))))]
    for nm, ctr, csr, en in kinds:
        cnt, lat = L(ctr, "_count"), L(ctr, "_count_latched")
        n = h.ghost(f"n.{nm}", GW); h.ghost_next(n, z3.If(reset, K(0, GW), z3.If(z3.And(en, n != K(GMAX, GW)), n + 1, n)))      # events since the last reset (wide, sticky)
        spec = z3.If(z3.UGE(n, K(MAX, GW)), K(MAX, width), z3.Extract(width - 1, 0, n))
        h.hint(f"{nm}.count", X(cnt) == spec)
        h.ensure(f"ens.{nm}.count", X(cnt) == spec)
        gl = h.ghost(f"l.{nm}", width); h.ghost_next(gl, z3.If(reset, K(0, width), z3.If(latch, spec, gl)))                        # value at the last latch (0 after a reset)
        h.hint(f"{nm}.latched", X(lat) == gl)
        h.ensure(f"ens.{nm}.latched", X(lat) == gl)
        h.ensure_seq(f"ens.{nm}.csr", lambda at, csr=csr, gl=gl: at(X(csr.status), 2) == at(gl, 0), steps=3)                      # CSR = latched copy, two cycles later (MultiReg)
    h.cover("cover.saturate", z3.And(X(L(m.token_counter, "_count")) == K(MAX, width), h.ghosts["n.tokens"][0] == K(MAX + 1, GW)), depth=MAX + 3)
    h.cover("cover.latch", z3.And(X(m._tokens.status) == K(2, width), X(m._overflows.status) == K(1, width), X(m._packets.status) == K(1, width)), depth=9)
    h.functions = ["litex.soc.interconnect.stream.Monitor.__init__ (clock_domain=sys)", "litex.soc.interconnect.stream.Monitor.MonitorCounter.__init__"]
    return h

# ---------------------------------------------------------------------------------------------------
def c_connect(variant):
    """Endpoint.connect(slave, keep=/omit=): exactly the selected fields are driven (master-to-slave: valid, first, last, payload, param;
    slave-to-master: ready); everything else is left alone.  Variants are the ones stream.py / packet.py use."""
    class Top(LiteXModule):
        def __init__(self):
            self.a = stream.Endpoint(_ep(LAYOUT_P)); self.b = stream.Endpoint(_ep(LAYOUT_P))
            kw = {"full": {}, "omit_ready": dict(omit={"ready"}), "keep_param": dict(keep={"p"}), "keep_payload_last": dict(keep={"data", "last"}),
                  "omit_valid_ready": dict(omit={"valid", "ready"}), "omit_last_ready_dummy": dict(omit={"last", "ready", "dummy"})}[variant]
            self.comb += self.a.connect(self.b, **kw)
    d = mk(Top); a, bb = d.a, d.b
    m2s = {"valid": (a.valid, bb.valid), "first": (a.first, bb.first), "last": (a.last, bb.last), "data": (a.data, bb.data), "p": (a.p, bb.p)}
    kept = {"full": {"valid", "first", "last", "data", "p", "ready"}, "omit_ready": {"valid", "first", "last", "data", "p"}, "keep_param": {"p"},
            "keep_payload_last": {"data", "last"}, "omit_valid_ready": {"first", "last", "data", "p"}, "omit_last_ready_dummy": {"valid", "first", "data", "p"}}[variant]
    # inputs: the master's outgoing fields and the slave's ready; every field that must be left alone is an input too (the harness
    # refuses a design that drives an input, and co-simulation would show a difference)
    ins = [s for s, _ in m2s.values()] + [bb.ready] + [m2s[f][1] for f in m2s if f not in kept] + ([a.ready] if "ready" not in kept else [])
    h = HwCheck(f"Endpoint.connect({variant})", d, ins)
    for f in sorted(kept - {"ready"}): h.ensure(f"ens.{f}", h.v(m2s[f][1]) == h.v(m2s[f][0]))
    if "ready" in kept: h.ensure("ens.ready", h.v(a.ready) == h.v(bb.ready))
    driven = {s for s in h.ts.comb_targets}
    for f in m2s:
        if f not in kept and m2s[f][1] in driven: h.ensure(f"ens.{f}.untouched", z3.BoolVal(False))
    if "ready" not in kept and a.ready in driven: h.ensure("ens.ready.untouched", z3.BoolVal(False))
    h.ensure("ens.driven", z3.BoolVal({f for f in m2s if m2s[f][1] in driven} | ({"ready"} if a.ready in driven else set()) == kept))   # exactly the selected fields are driven
    if {"valid", "ready"} <= kept:
        h.cover("cover.deliver", z3.And(fire(h, bb), h.v(bb.data) == K(5, 4)), depth=1)
    else:
        f0 = sorted(kept)[0]; h.cover("cover.field", h.v(m2s[f0][1]) == K((1 << m2s[f0][1].nbits) - 1, m2s[f0][1].nbits), depth=1)
    h.functions = ["litex.soc.interconnect.stream.Endpoint.connect (migen Record.connect keep/omit on the nested payload/param layout)", "litex.soc.interconnect.stream.EndpointDescription.get_full_layout"]
    return h

# ---------------------------------------------------------------------------------------------------
def c_bufferize(which, pv, pr):
    """BufferizeEndpoints on a pass-through module: sink only / source only, with pipe_valid / pipe_ready buffers"""
    class Inner(LiteXModule):
        def __init__(self):
            self.sink = stream.Endpoint(LAYOUT); self.source = stream.Endpoint(LAYOUT)
            self.comb += self.sink.connect(self.source)
    eps = {"sink": {"sink": stream.DIR_SINK}, "source": {"source": stream.DIR_SOURCE}, "both": {"sink": stream.DIR_SINK, "source": stream.DIR_SOURCE}}[which]
    d = mk(lambda: stream.BufferizeEndpoints(eps, pipe_valid=pv, pipe_ready=pr)(Inner()))
    nb = len(eps); cap = nb * (int(pv) + int(pr))
    h = fifo_like(f"BufferizeEndpoints({which},pv={pv},pr={pr})", d, cap, None, bypass=(pr and not pv and nb == 1), latency=cap)
    bufs = [m for _, m in d._submodules if isinstance(m, stream.Buffer)]
    # buffers in pipeline order: the sink buffer feeds the inner module, the source buffer follows it
    order = sorted(bufs, key=lambda m: 0 if (m.sink is d.sink) else 1)
    chain_hints(h, order)
    h.functions = ["litex.soc.interconnect.stream.BufferizeEndpoints.transform_instance", "litex.soc.interconnect.stream.Buffer.__init__"]
    return h

def c_pipeline_ep():
    """Pipeline whose first and last members are bare Endpoints (Pipeline.do_finalize accepts Endpoints as members)"""
    class Top(LiteXModule):
        def __init__(self):
            self.sink = stream.Endpoint(LAYOUT); self.source = stream.Endpoint(LAYOUT)
            self.buf = stream.Buffer(LAYOUT, pipe_valid=True, pipe_ready=False)
            self.p = stream.Pipeline(self.sink, self.buf, self.source)
    d = mk(Top)
    h = fifo_like("Pipeline(Endpoint,Buffer,Endpoint)", d, 1, None, latency=1)
    chain_hints(h, [d.buf])
    h.functions = ["litex.soc.interconnect.stream.Pipeline.do_finalize (Endpoint members)"]
    return h

def _c(fn, *a, **k): return select(fn(*a, **k), PROP)

def cases(tier):
    cs = [("PipelinedActor(0)", c_pipelined, 0), ("PipelinedActor(1)", c_pipelined, 1), ("PipelinedActor(2)", c_pipelined, 2), ("PipelinedActor(3,param)", c_pipelined, 3, LAYOUT_P),
          ("Shifter(4)", c_shifter, 4), ("Shifter(3)", c_shifter, 3),
          ("Monitor(3,last)", c_monitor, 3, "last"), ("Monitor(2,first)", c_monitor, 2, "first"),
          ("BufferizeEndpoints(sink)", c_bufferize, "sink", True, False), ("BufferizeEndpoints(source,pr)", c_bufferize, "source", False, True),
          ("BufferizeEndpoints(both,pv+pr)", c_bufferize, "both", True, True),
          ("Pipeline(Endpoint,Buffer,Endpoint)", c_pipeline_ep)]
    cs += [(f"Endpoint.connect({v})", c_connect, v) for v in ("full", "omit_ready", "keep_param", "keep_payload_last", "omit_valid_ready", "omit_last_ready_dummy")]
    if tier == "thorough":
        cs += [("PipelinedActor(4)", c_pipelined, 4), ("Shifter(8)", c_shifter, 8), ("Monitor(5,last)", c_monitor, 5, "last")]
    return [Case(c[0], _c, *c[1:]) for c in cs]

ASSUMPTIONS = ["PipelinedActor is exercised through the smallest user (payload/param registers clocked by pipe_ce, as Shifter and the 8b/10b stream wrappers do); the base class itself only carries valid/first/last",
               "Shifter: the shift input is unconstrained except that it is held while the source is stalled (as Multiplexer.sel / Gate.enable in stream_cases.py); the data clauses are stated for the value it has in the cycle the token is shown",
               "Monitor: sys clock domain only (the PulseSynchronizer path of other domains is C05 territory); reset/latch from logic and from the CSR strobes are unconstrained inputs; counters checked at widths 2/3 (quick), 5 (thorough)",
               "Endpoint.connect: the fields that must be left alone are declared as free inputs of the harness; a connect that drove one of them is reported by ens.driven"]
