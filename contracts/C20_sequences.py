"""C20: "the parameters placed on the emitted primitive instance equal that configuration" also when the helper is used in steps.
A clocking helper must not carry hidden state from one computation to the next: the call sequence
    register_clkin; create_clkout(A); compute_config(); create_clkout(B); finalize
(compute_config is public and is what users call to probe feasibility) must emit exactly the instance that
    register_clkin; create_clkout(A); create_clkout(B); finalize
emits.  Executed on the real classes (bounded: the request grid below); the single-shot instance itself is proved against the configuration
for all configurations in C20_instance_params.py."""
import time
from vf import elab
from vf.core import Case, VIOLATED, BOUNDED_OK, VACUOUS, OK
from vf.hw import res
from migen import Signal, ClockDomain, Instance
from migen.fhdl.structure import Constant

def _params(pll):
    import io, contextlib
    with contextlib.redirect_stdout(io.StringIO()): pll.finalize()          # some helpers pretty-print their analog settings
    out = []
    for sp in pll.get_fragment().specials:
        if isinstance(sp, Instance):
            ps = {}
            for it in sp.items:
                if isinstance(it, Instance.Parameter):
                    v = it.value; ps[it.name] = v.value if isinstance(v, Constant) else (str(v) if not isinstance(v, (int, float, str)) else v)
            out.append((sp.of, ps))
    return sorted(out, key=lambda x: x[0])

def _families():
    from litex.soc.cores.clock import xilinx_s7, xilinx_us, xilinx_usp, lattice_ecp5, lattice_nx, intel_cyclone4
    fam = [("S7PLL", lambda: xilinx_s7.S7PLL(speedgrade=-1), 100e6, [(50e6, 0), (75e6, 90), (25e6, 0)]),
           ("S7MMCM", lambda: xilinx_s7.S7MMCM(speedgrade=-1), 100e6, [(62.5e6, 0), (125e6, 0), (200e6, 0)]),
           ("USMMCM", lambda: xilinx_us.USMMCM(speedgrade=-2), 125e6, [(100e6, 0), (50e6, 0)]),
           ("USPMMCM", lambda: xilinx_usp.USPMMCM(speedgrade=-1), 100e6, [(150e6, 0), (75e6, 0)]),
           ("ECP5PLL", lambda: lattice_ecp5.ECP5PLL(), 100e6, [(50e6, 0), (75e6, 0), (25e6, 90)]),
           ("NXPLL", lambda: lattice_nx.NXPLL(), 100e6, [(50e6, 0), (25e6, 0)]),
           ("CycloneIVPLL", lambda: intel_cyclone4.CycloneIVPLL(speedgrade="-6"), 50e6, [(100e6, 0), (25e6, 0)])]
    return fam

def c_sequences():
    t0 = time.time(); out = []; n = 0
    for name, mkpll, fin, outs in _families():
        for k in range(1, len(outs)):          # compute_config() called after the first k outputs, then the remaining ones are added
            def build(probe):
                pll = mkpll(); pll.logger.disabled = True
                pll.register_clkin(Signal(), fin)
                for j, (f, ph) in enumerate(outs):
                    if probe and j == k:
                        import io, contextlib
                        with contextlib.redirect_stdout(io.StringIO()): pll.compute_config()
                    import inspect
                    kw = dict(with_reset=False) if "with_reset" in inspect.signature(pll.create_clkout).parameters else {}
                    pll.create_clkout(ClockDomain(f"cd{j}"), f, phase=ph, **kw)
                return _params(pll)
            tag = f"ens.no-hidden-state[{name}: compute_config() after {k} of {len(outs)} outputs]"
            try:
                ref = build(False)
            except Exception as e:
                elab.restore_stderr(); out.append(res(tag, "bounded", VACUOUS, 0, "executed", info=f"reference flow raised {type(e).__name__}: {e}")); continue
            try:
                got = build(True)
            except Exception as e:
                elab.restore_stderr(); n += 1
                out.append(res(tag, "bounded", VIOLATED, 0, "executed (real helper classes)", info=f"the stepwise flow raised {type(e).__name__}: {e} although the single-shot flow emits {ref[0][0] if ref else '?'}")); continue
            elab.restore_stderr(); n += 1
            diff = [(a[0], {p: (a[1].get(p), b[1].get(p)) for p in set(a[1]) | set(b[1]) if a[1].get(p) != b[1].get(p)}) for a, b in zip(ref, got) if a != b]
            out.append(res(tag, "bounded", BOUNDED_OK if ref and ref == got else VIOLATED, 0, "executed (real helper classes): instance parameters of both flows compared", info=str(diff[:1])[:600] if diff else ""))
    out.append(res("cover.sequences-run", "cover", OK if n >= 8 else VACUOUS, time.time() - t0, "executed", sequences=n))
    return dict(results=out, functions=["litex.soc.cores.clock.*: compute_config / create_clkout / do_finalize call sequences (bounded)"], samples=[dict(bounded="helper call sequences", sequences=n)])

def cases(tier):
    return [Case("helpers.call-sequences(bounded)", c_sequences)]

ASSUMPTIONS = ["C20 call sequences: BOUNDED (7 helper classes x the listed requests): compute_config() called between create_clkout() calls must not change the finally emitted instance"]
