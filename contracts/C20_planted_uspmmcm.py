"""C20 / USPMMCM (overrides compute_config with its own fractional search, not under the completeness proof of C20_complete.py):
BOUNDED stand-in for 'a request is refused only if no setting inside the ranges satisfies it' at the BOUNDARIES of the declared ranges.
Planted requests: a witness setting (D, M, d0, d1) is chosen so that it is the ONLY setting of the declared ranges that meets the request
(argument below), the request is built from it with margin 1e-9, and the real compute_config must return a configuration that meets it.
Uniqueness: clkout1 is asked for VCO/1 (integer divider range starts at 1), so any other setting must have VCO' = r*VCO with r a positive
integer; the VCO window [800, 1600] MHz around 1200 MHz leaves r = 1; with D = 3 and M = 128 no other (D', M') of the ranges gives M'/D' = 128/3,
and with d0 = 128.0 no other CLKOUT0_DIVIDE_F gives the requested clkout0 at that VCO."""
import time
from fractions import Fraction as Fr
from vf import elab
from vf.core import Case, VIOLATED, BOUNDED_OK, VACUOUS, OK
from vf.hw import res
from migen import Signal

def _mk(fin, outs, speedgrade=-1):
    from litex.soc.cores.clock import xilinx_usp
    pll = xilinx_usp.USPMMCM(speedgrade=speedgrade); pll.logger.disabled = True
    pll.clkin_freq = fin
    for n, (f, m) in enumerate(outs): pll.clkouts[n] = (Signal(), f, 0, m)
    pll.nclkouts = len(outs)
    return pll

def c_planted():
    t0 = time.time(); out = []; n = 0
    # (D, M, d0, d1): VCO = 1200 MHz in every witness
    witnesses = [(3, Fr(128), Fr(4), 1), (3, Fr(128), Fr(128), 1), (2, Fr(96), Fr(128), 1), (1, Fr(2), Fr(2), 1), (1, Fr(17, 8), Fr(17, 8), 1),
                 (3, Fr(1023, 8), Fr(1023, 8), 1), (106, Fr(128), Fr(16), 1)]
    for D, M, d0, d1 in witnesses:
        vco = Fr(1200_000_000) if D != 106 else None
        if D == 106:      # largest input divider: fin = 800 MHz (speed grade -1 maximum is 800 MHz), VCO = 800e6*128/106
            fin = Fr(800_000_000); vco = fin * M / D
            if not (Fr(800_000_000) <= vco <= Fr(1600_000_000)): continue
        else: fin = vco * D / M
        if not (Fr(10_000_000) <= fin <= Fr(800_000_000)): continue
        outs = [(float(vco / d0), 1e-9), (float(vco / d1), 1e-9)]
        name = f"ens.complete.planted(D={D},M={float(M)},d0={float(d0)},d1={d1}: clkin {float(fin) / 1e6:.6f} MHz, outs {outs[0][0] / 1e6:.6f} / {outs[1][0] / 1e6:.6f} MHz)"
        n += 1
        try:
            cfg = _mk(float(fin), outs).compute_config()
        except ValueError as e:
            out.append(res(name, "bounded", VIOLATED, 0, "executed (real USPMMCM.compute_config)", info=f"refused ({e}) although divclk_divide={D}, clkfbout_mult={float(M)}, clkout0_divide={float(d0)}, clkout1_divide={d1} is inside the declared ranges and meets the request exactly")); continue
        finally:
            elab.restore_stderr()
        v = Fr(fin) * Fr(cfg["clkfbout_mult"]) / cfg["divclk_divide"]
        ok = all(abs(v / Fr(cfg[f"clkout{k}_divide"]) - Fr(outs[k][0])) <= Fr(outs[k][0]) * Fr(1, 10**8) for k in range(2)) and Fr(800_000_000) <= v <= Fr(1600_000_000)
        out.append(res(name, "bounded", BOUNDED_OK if ok else VIOLATED, 0, "executed (real USPMMCM.compute_config), recomputed with exact rationals", info="" if ok else f"returned {cfg}"))
    out.append(res("cover.planted-requests-generated", "cover", OK if n >= 5 else VACUOUS, time.time() - t0, "executed", requests=n))
    return dict(results=out, functions=["litex.soc.cores.clock.xilinx_usp.USPMMCM.compute_config (completeness at the range boundaries, bounded)"], samples=[dict(bounded="USPMMCM planted boundary requests", requests=n)])

def cases(tier):
    return [Case("USPMMCM.complete.planted(bounded)", c_planted)]

ASSUMPTIONS = ["USPMMCM completeness: BOUNDED stand-in only (planted requests whose unique solution sits on a boundary of the declared ranges: CLKFBOUT_MULT_F 2.0/2.125/127.875/128.0, CLKOUT0_DIVIDE_F 2.0/2.125/127.875/128.0, DIVCLK_DIVIDE 1/106); soundness of every returned configuration is proved in C20_clocks_ext.py"]
