"""C07: Wishbone adapters and memories are transparent to the master (flat byte-addressable memory).
Symbolic-address method (M3): rigid constants pick an arbitrary byte (word gw, lane gl); ghost gv is its specified content.
Stateless translators get transaction-translation contracts (M5)."""
import z3
from .wblib import *
from litex.soc.interconnect import csr_bus
from litex.soc.integration.soc import SoCRegion
from vf.core import Case

def lane_of(word, l, nlanes):
    r = z3.Extract(8 * nlanes - 1, 8 * (nlanes - 1), word)
    for j in reversed(range(nlanes - 1)): r = z3.If(l == K(j, l.size()), z3.Extract(8 * j + 7, 8 * j, word), r)
    return r
def selbit(sel, l, nlanes):
    r = z3.Extract(nlanes - 1, nlanes - 1, sel)
    for j in reversed(range(nlanes - 1)): r = z3.If(l == K(j, l.size()), z3.Extract(j, j, sel), r)
    return b(r)

def c_sram(depth, dw=32, read_only=False, init=None):
    bus = wishbone.Interface(data_width=dw, adr_width=30, bursting=False)
    d = mk(wishbone.SRAM, depth * dw // 8, read_only=read_only, init=init, bus=bus)
    h = HwCheck(f"wishbone.SRAM({depth}x{dw},ro={read_only},init={'yes' if init else 'no'})", d, m_inputs(bus))
    AW = (depth - 1).bit_length(); NL = dw // 8; LW = max(1, (NL - 1).bit_length())
    gw = h.const("gw", AW); gl = h.const("gl", LW)
    h.assume(ult(gl, NL) if (1 << LW) > NL else z3.BoolVal(True))
    mem = h.ts.mems[d.mem]
    def memrd(a):
        r = h.v(mem[depth - 1])
        for j in reversed(range(depth - 1)): r = z3.If(a == K(j, AW), h.v(mem[j]), r)
        return r
    if init:
        iv = K(0, 8)
        for w_ in range(depth):
            for l_ in range(NL):
                val = ((init[w_] if w_ < len(init) else 0) >> (8 * l_)) & 0xff
                iv = z3.If(z3.And(gw == K(w_, AW), gl == K(l_, LW)), K(val, 8), iv)
    else:
        iv = 0
    gv = h.ghost("gv", 8, iv)
    p_pend = master_holds(h, bus)
    rq = req(h, bus); ack = b(h.v(bus.ack)); we = b(h.v(bus.we))
    at_g = z3.Extract(AW - 1, 0, h.v(bus.adr)) == gw
    wr_now = z3.And(rq, we, at_g, selbit(h.v(bus.sel), gl, NL))
    h.ghost_next(gv, gv if read_only else z3.If(wr_now, lane_of(h.v(bus.dat_w), gl, NL), gv))
    h.hint("mem=gv", lane_of(memrd(gw), gl, NL) == gv)
    # the read address register created for the WRITE_FIRST port follows the held request
    p_adr = z3.Extract(AW - 1, 0, h.held[""].adr)
    for s in h.ts.state:
        if s.nbits == AW and s not in h.ts.orig_signals: h.hint(f"adrreg:{s.duid}", h.v(s) == p_adr)
    h.hint("ack->pend", z3.Implies(ack, b(p_pend)))
    p_ack = h.prev("ack", h.v(bus.ack)); h.hint("p_ack", p_ack == p_ack)
    h.ensure("ens.read", z3.Implies(z3.And(ack, z3.Not(we), at_g), lane_of(h.v(bus.dat_r), gl, NL) == gv))
    h.ensure("ens.ack-only-if-req", z3.Implies(ack, rq))
    h.ensure("ens.ack1", z3.Implies(ack, z3.Not(b(h.n(bus.ack)))))                   # one ack per classic cycle
    h.ensure("ens.write", lane_of(h.primed(memrd(gw)), gl, NL) == (gv if read_only else z3.If(wr_now, lane_of(h.v(bus.dat_w), gl, NL), gv)))   # tracked byte changes iff an enabled write selects it
    if read_only: h.ensure("ens.ro", lane_of(h.primed(memrd(gw)), gl, NL) == lane_of(memrd(gw), gl, NL))
    h.respond("resp.ack", rq, ack, 2)
    h.cover("cover.readack", z3.And(ack, z3.Not(we), at_g), depth=3)
    if not read_only: h.cover("cover.changed", gv != (iv if not isinstance(iv, int) else K(iv, 8)), depth=3)
    h.functions = ["litex.soc.interconnect.wishbone.SRAM.__init__"]
    h.cosim_cycles = 12
    return h

def c_down(dw_from, dw_to, aw=8):
    r = dw_from // dw_to
    m = wishbone.Interface(data_width=dw_from, adr_width=aw); s = wishbone.Interface(data_width=dw_to, adr_width=aw + (r.bit_length() - 1))
    d = mk(wishbone.DownConverter, m, s)
    h = HwCheck(f"wishbone.DownConverter({dw_from}->{dw_to})", d, m_inputs(m) + s_inputs(s))
    pend = master_holds(h, m); slave_legal(h, s)
    rq = req(h, m); sreq = req(h, s)
    h.assume(z3.And(h.v(m.cti) == K(0, 3), h.v(m.bte) == K(0, 2)), "classic cycles (burst tag translation is tier 2)")
    h.assume(z3.Not(b(h.v(s.err))), "slave does not raise err (DownConverter does not forward err)")
    KW = max(2, r.bit_length() + 1)
    k = h.ghost("k", KW)
    def sub(sig, width, j): return z3.Extract(width * (j + 1) - 1, width * j, h.v(sig))
    def pick(fn):
        e = fn(r - 1)
        for j in reversed(range(r - 1)): e = z3.If(k == K(j, KW), fn(j), e)
        return e
    sel_k = pick(lambda j: sub(m.sel, dw_to // 8, j)); dat_k = pick(lambda j: sub(m.dat_w, dw_to, j))
    skip = z3.And(rq, sel_k == K(0, dw_to // 8))
    sdone = z3.And(sreq, b(h.v(s.ack)))
    adv = z3.Or(sdone, skip)
    lastk = k == K(r - 1, KW)
    mack = b(h.v(m.ack))
    h.ghost_next(k, z3.If(z3.Or(mack, z3.Not(b(h.v(m.cyc)))), K(0, KW), z3.If(adv, k + 1, k)))
    rd = [h.ghost(f"rd{j}", dw_to) for j in range(r)]
    for j in range(r): h.ghost_next(rd[j], z3.If(z3.And(sdone, k == K(j, KW)), h.v(s.dat_r), rd[j]))
    cnt = L(d, "count"); dat_r = L(d, "dat_r")
    if cnt is not None and cnt in h.ts.var: h.hint("count=k", zx(h.v(cnt), KW) == k)
    h.hint("k<r", ult(k, r)); h.hint("idle->k0", z3.Implies(z3.Not(b(pend)), k == K(0, KW)))
    if dat_r is not None and dat_r in h.ts.var:
        for j in range(r - 1):
            for kk in range(j + 1, r):
                pos = r - kk + j
                h.hint(f"sr{j}@{kk}", z3.Implies(z3.And(k == K(kk, KW), z3.Extract(dw_to // 8 * (j + 1) - 1, dw_to // 8 * j, h.held[""].sel) != K(0, dw_to // 8), b(pend)),
                                                 z3.Extract(dw_to * (pos + 1) - 1, dw_to * pos, h.v(dat_r)) == rd[j]))
    h.use_auto = True
    # translation contract: sub-access k of a master cycle is exactly (adr*r + k, lane-k data, lane-k sel); unselected sub-words are skipped
    h.ensure("ens.s_req",  z3.And(b(h.v(s.cyc)) == z3.And(rq, z3.Not(skip)), b(h.v(s.stb)) == z3.And(rq, z3.Not(skip))))
    h.ensure("ens.s_adr",  z3.Implies(sreq, h.v(s.adr) == z3.Concat(h.v(m.adr), z3.Extract(r.bit_length() - 2, 0, k))))
    h.ensure("ens.s_data", z3.Implies(sreq, z3.And(h.v(s.dat_w) == dat_k, h.v(s.sel) == sel_k, h.v(s.we) == h.v(m.we))))
    h.ensure("ens.m_ack",  mack == z3.And(rq, adv, lastk))                 # acknowledged exactly once, with the last sub-access
    lanes = []
    for j in range(r):
        seln = z3.Extract(dw_to // 8 * (j + 1) - 1, dw_to // 8 * j, h.v(m.sel)) != K(0, dw_to // 8)
        val = z3.If(z3.And(k == K(j, KW)), h.v(s.dat_r), rd[j]) if j == r - 1 else rd[j]
        lanes.append(z3.Implies(seln, z3.Extract(dw_to * (j + 1) - 1, dw_to * j, h.v(m.dat_r)) == val))
    h.ensure("ens.m_dat_r", z3.Implies(z3.And(mack, z3.Not(b(h.v(m.we)))), z3.And(*lanes)))
    h.respond("resp.ack", z3.And(rq, z3.Or(z3.Not(sreq), b(h.v(s.ack)))), mack, r)
    h.cover("cover.ack", mack, depth=r + 2)
    h.functions = ["litex.soc.interconnect.wishbone.DownConverter.__init__"]
    return h

def c_up(dw_from, dw_to, aw=8, via_converter=False):
    r = dw_to // dw_from; lb = r.bit_length() - 1
    m = wishbone.Interface(data_width=dw_from, adr_width=aw); s = wishbone.Interface(data_width=dw_to, adr_width=aw - lb)
    d = mk(wishbone.Converter if via_converter else wishbone.UpConverter, m, s)
    h = HwCheck(f"wishbone.{'Converter' if via_converter else 'UpConverter'}({dw_from}->{dw_to})", d, m_inputs(m) + s_inputs(s))
    lane = z3.Extract(lb - 1, 0, h.v(m.adr))
    h.ensure("ens.ctrl", z3.And(h.v(s.cyc) == h.v(m.cyc), h.v(s.stb) == h.v(m.stb), h.v(s.we) == h.v(m.we), h.v(m.ack) == h.v(s.ack), h.v(m.err) == h.v(s.err)))
    h.ensure("ens.adr", h.v(s.adr) == z3.Extract(aw - 1, lb, h.v(m.adr)))
    for j in range(r):
        on = lane == K(j, lb)
        h.ensure(f"ens.lane{j}", z3.Implies(on, z3.And(z3.Extract(dw_from // 8 * (j + 1) - 1, dw_from // 8 * j, h.v(s.sel)) == h.v(m.sel),
                                                     z3.Extract(dw_from * (j + 1) - 1, dw_from * j, h.v(s.dat_w)) == h.v(m.dat_w),
                                                     h.v(m.dat_r) == z3.Extract(dw_from * (j + 1) - 1, dw_from * j, h.v(s.dat_r)))))
        h.ensure(f"ens.others{j}", z3.Implies(z3.Not(on), z3.Extract(dw_from // 8 * (j + 1) - 1, dw_from // 8 * j, h.v(s.sel)) == K(0, dw_from // 8)))
    h.functions = ["litex.soc.interconnect.wishbone.UpConverter.__init__"] + (["litex.soc.interconnect.wishbone.Converter.__init__"] if via_converter else [])
    return h

def c_same_width():
    m = wishbone.Interface(data_width=32, adr_width=30); s = wishbone.Interface(data_width=32, adr_width=30)
    d = mk(wishbone.Converter, m, s)
    h = HwCheck("wishbone.Converter(32->32)", d, m_inputs(m) + s_inputs(s))
    h.ensure("ens.m2s", z3.And(*[h.v(getattr(s, n)) == h.v(getattr(m, n)) for n in M2S]))
    h.ensure("ens.s2m", z3.And(*[h.v(getattr(m, n)) == h.v(getattr(s, n)) for n in S2M]))
    h.functions = ["litex.soc.interconnect.wishbone.Converter.__init__"]
    return h

def c_remapper(kind):
    m = wishbone.Interface(data_width=32, adr_width=30); s = wishbone.Interface(data_width=32, adr_width=30)
    if kind == "origin":
        origin, size, src, dst = 0x1000_0000, 0x1_0000, [], []
    elif kind == "regions":
        origin, size = 0, None
        src = [SoCRegion(origin=0x0000_0000, size=0x1000), SoCRegion(origin=0x4000_0000, size=0x800)]
        dst = [SoCRegion(origin=0x2000_0000, size=0x1000), SoCRegion(origin=0x0000_8000, size=0x800)]
    elif kind == "regions-unaligned":
        # source/destination origins that are not multiples of the region size, a size that is not a power of two, a later region overriding an earlier one
        origin, size = 0, None
        src = [SoCRegion(origin=0x4000_0800, size=0x1800), SoCRegion(origin=0x0000_0c00, size=0x0c00), SoCRegion(origin=0x0000_1000, size=0x0400)]
        dst = [SoCRegion(origin=0x2000_0400, size=0x1800), SoCRegion(origin=0x7000_0100, size=0x0c00), SoCRegion(origin=0x1234_5000, size=0x0400)]
    else:
        origin, size = 0x8000_0000, 0x1000_0000
        src = [SoCRegion(origin=0x8000_1000, size=0x1000)]; dst = [SoCRegion(origin=0x0000_0000, size=0x1000)]
    d = mk(wishbone.Remapper, m, s, origin, size, src, dst)
    h = HwCheck(f"wishbone.Remapper({kind})", d, m_inputs(m) + s_inputs(s))
    A = h.v(m.adr)
    lsz = ((size if size is not None else 2**32).bit_length() - 1) - 2
    mask = (1 << lsz) - 1
    a1 = K((origin >> 2) & (2**30 - 1), 30) | (A & K(mask & (2**30 - 1), 30))
    spec = a1
    ba = z3.Concat(z3.BitVecVal(0, 2), a1, z3.BitVecVal(0, 2))          # byte address, 34 bits
    for sr, ds in zip(src, dst):
        inreg = z3.And(z3.UGE(ba, z3.BitVecVal(sr.origin, 34)), z3.ULT(ba, z3.BitVecVal(sr.origin + sr.size, 34)))
        spec = z3.If(inreg, z3.Extract(31, 2, z3.BitVecVal(ds.origin, 34) + ba - z3.BitVecVal(sr.origin, 34)), spec)
    h.ensure("ens.adr", h.v(s.adr) == spec)
    h.ensure("ens.m2s", z3.And(*[h.v(getattr(s, n)) == h.v(getattr(m, n)) for n in M2S if n != "adr"]))
    h.ensure("ens.s2m", z3.And(*[h.v(getattr(m, n)) == h.v(getattr(s, n)) for n in S2M]))
    h.functions = ["litex.soc.interconnect.wishbone.Remapper.__init__"]
    return h

def c_down_restart(dw_from, dw_to, aw=8):
    """DownConverter after a cycle the master ABANDONED (cyc dropped without an acknowledge: bus time-out on the master side, withdrawn request - no assumption on
    the master here): the next access starts with its first sub-word again, whatever happened before"""
    r = dw_from // dw_to; LB = r.bit_length() - 1
    m = wishbone.Interface(data_width=dw_from, adr_width=aw); s = wishbone.Interface(data_width=dw_to, adr_width=aw + LB)
    d = mk(wishbone.DownConverter, m, s)
    h = HwCheck(f"wishbone.DownConverter({dw_from}->{dw_to}).restart", d, m_inputs(m) + s_inputs(s))
    rq = req(h, m); sreq = req(h, s); full = h.v(m.sel) == K((1 << (dw_from // 8)) - 1, dw_from // 8)
    h.ensure_seq("ens.restart-at-the-first-sub-word", lambda at: z3.Implies(z3.And(at(z3.Not(b(h.v(m.cyc))), 0), at(z3.And(rq, full), 1)),
                                                                          at(z3.And(sreq, z3.Extract(LB - 1, 0, h.v(s.adr)) == K(0, LB), z3.Extract(aw + LB - 1, LB, h.v(s.adr)) == h.v(m.adr)), 1)))
    h.cover("cover.request-after-idle", z3.And(rq, full, sreq), depth=2)
    h.functions = ["litex.soc.interconnect.wishbone.DownConverter.__init__ (sub-word counter reset)"]
    return h

def c_wb2csr(register, addressing="word"):
    wb = wishbone.Interface(data_width=32, adr_width=30 if addressing == "word" else 32, addressing=addressing); cs = csr_bus.Interface(data_width=32, address_width=14)
    d = mk(wishbone.Wishbone2CSR, wb, cs, register)
    h = HwCheck(f"wishbone.Wishbone2CSR(register={register},{addressing})", d, m_inputs(wb) + [cs.dat_r])
    pend = master_holds(h, wb)
    rq = req(h, wb); ack = b(h.v(wb.ack)); sel_any = h.v(wb.sel) != K(0, 4)
    sh = 0 if addressing == "word" else 2
    wadr = z3.Extract(13 + sh, sh, h.v(wb.adr))
    # ghost: phase of the translation of the current wishbone cycle: 0 idle, 1 = CSR access issued (strobe cycle), 2 = ack cycle
    acc = z3.Or(b(h.v(cs.we)), b(h.v(cs.re)))
    n_acc = h.ghost("n_acc", 2)            # CSR strobes issued for the pending wishbone cycle
    h.ghost_next(n_acc, z3.If(ack, K(0, 2), z3.If(z3.And(acc, n_acc != K(3, 2)), n_acc + 1, n_acc)))
    h.use_auto = True
    h.hint("n_acc<=1", ule(n_acc, 1))
    # exactly one CSR access per wishbone cycle, with the cycle's address / data / direction; none when no byte is selected
    h.ensure("ens.csr.access", z3.Implies(acc, z3.And(b(pend) if register else rq, h.v(cs.adr) == wadr, b(h.v(cs.we)) == z3.And(b(h.v(wb.we)), sel_any), b(h.v(cs.re)) == z3.And(z3.Not(b(h.v(wb.we))), sel_any),
                                                      z3.Implies(b(h.v(cs.we)), h.v(cs.dat_w) == h.v(wb.dat_w)), n_acc == K(0, 2))))
    h.ensure("ens.csr.once", z3.Implies(z3.And(ack, sel_any), z3.Or(n_acc == K(1, 2), acc) if not register else n_acc == K(1, 2)))
    h.ensure("ens.ack-only-if-req", z3.Implies(ack, rq))
    h.ensure("ens.ack1", z3.Implies(ack, z3.Not(b(h.n(wb.ack)))))
    if register:
        # the registered bridge drives the CSR address for ONE cycle (its strobe cycle): the address lines of several CSR masters are OR-ed by
        # csr_bus.InterconnectShared, so an address left standing would be merged into another master's access
        try: h.hint("adr!=0->WRITE-READ", z3.Implies(h.v(cs.adr) != K(0, 14), h.v(d.fsm.state) == K(d.fsm.encoding["WRITE-READ"], h.v(d.fsm.state).size())))
        except Exception: pass
        h.ensure_seq("ens.csr.adr-driven-for-one-cycle-only", lambda at: z3.Implies(at(h.v(cs.adr) != K(0, 14), 0), at(h.v(cs.adr) == K(0, 14), 1)))
    # read data: the CSR bus answers one cycle after the strobe; the bridge returns exactly that word with the ack
    p_re = h.prev("re", h.v(cs.re)); p2_re = h.prev("re2", p_re)
    h.ensure("ens.read-data", z3.Implies(ack, h.v(wb.dat_r) == h.v(cs.dat_r)))
    h.ensure("ens.read-timing", z3.Implies(z3.And(ack, z3.Not(b(h.v(wb.we))), sel_any), b(p_re) if not register else b(p_re)))
    h.respond("resp.ack", rq, ack, 4)
    h.cover("cover.ack", ack, depth=5)
    h.functions = ["litex.soc.interconnect.wishbone.Wishbone2CSR.__init__"]
    return h

def cases(tier):
    cs = [Case("SRAM(8x32)", c_sram, 8), Case("SRAM(4x32,ro)", c_sram, 4, 32, True, [0x11223344, 0xa5a5a5a5, 0, 0xdeadbeef]),
          Case("SRAM(4x32,init)", c_sram, 4, 32, False, [0x11223344, 0xa5a5a5a5, 0x01020304]), Case("SRAM(4x64)", c_sram, 4, 64),
          Case("DownConverter(32->16)", c_down, 32, 16), Case("DownConverter(32->8)", c_down, 32, 8), Case("DownConverter(64->32)", c_down, 64, 32), Case("DownConverter(64->32).restart", c_down_restart, 64, 32), Case("DownConverter(32->8).restart", c_down_restart, 32, 8),
          Case("UpConverter(16->32)", c_up, 16, 32), Case("UpConverter(8->32)", c_up, 8, 32), Case("Converter(32->64)", c_up, 32, 64, 8, True), Case("Converter(32->32)", c_same_width),
          Case("Remapper(origin)", c_remapper, "origin"), Case("Remapper(regions)", c_remapper, "regions"), Case("Remapper(both)", c_remapper, "both"), Case("Remapper(regions-unaligned)", c_remapper, "regions-unaligned"),
          Case("Wishbone2CSR(register=True)", c_wb2csr, True), Case("Wishbone2CSR(register=False)", c_wb2csr, False), Case("Wishbone2CSR(register=True,byte)", c_wb2csr, True, "byte")]
    if tier == "thorough":
        cs += [Case("SRAM(16x32)", c_sram, 16), Case("DownConverter(64->8)", c_down, 64, 8), Case("UpConverter(8->64)", c_up, 8, 64)]
    return cs

ASSUMPTIONS = ["M3 (paper): if for an arbitrary but fixed byte address every read returns the last enabled write to it, the device is a flat byte memory",
               "M5 (paper): a stateless translator that maps every master cycle to exactly the specified slave cycles and returns their data is, in front of a flat byte memory, a flat byte memory under the mapped address function",
               "wishbone.Cache: the backing memory is an abstract environment of which only the tracked byte is modelled (ghost bk); geometries from a grid (line = 1/2, 1, 2, 4 master words)", "SRAM burst cycles (cti/bte) are in C07_sram_burst.py; not covered: DownConverter burst tag translation, err forwarding in DownConverter"]

# ---------------------------------------------------------------------------------------------------------------------------
# wishbone.Cache (write-back): symbolic-address method with an ABSTRACT backing memory as environment (only its content at the
# tracked byte is modelled: ghost bk).  Invariant: the tracked byte's specified value gv is in the cache line when the line holds
# its tag (and has been filled), and in the backing memory whenever the line is not (hit and dirty).
def c_cache(dw_from, dw_to, cachesize, aw=6):
    from migen.fhdl.bitcontainer import log2_int
    ratio_up = max(dw_to // dw_from, 1); ratio_dn = max(dw_from // dw_to, 1)
    offsetbits = log2_int(ratio_up); wordbits = log2_int(ratio_dn)
    s_aw = aw - offsetbits + wordbits
    m = wishbone.Interface(data_width=dw_from, adr_width=aw); s = wishbone.Interface(data_width=dw_to, adr_width=s_aw)
    d = mk(wishbone.Cache, cachesize, m, s)
    h = HwCheck(f"wishbone.Cache({dw_from}->{dw_to},size={cachesize})", d, m_inputs(m) + s_inputs(s))
    pend = master_holds(h, m); slave_legal(h, s)
    h.assume(z3.Not(b(h.v(s.err))), "backing slave does not raise err (the cache does not forward err)")
    h.assume(z3.And(h.v(m.cti) == K(0, 3), h.v(m.bte) == K(0, 2)), "classic cycles on the master side")
    held = h.held[""]
    linebits = log2_int(cachesize) - offsetbits; tagbits = (s_aw - wordbits + offsetbits) - linebits     # addressbits = len(slave.adr)+offsetbits (for wordbits: slave.adr includes word)
    addressbits = aw
    tagbits = addressbits - offsetbits - linebits
    NLm = dw_from // 8; NLs = dw_to // 8
    GLW = max(1, (NLm - 1).bit_length())
    gw = h.const("gw", aw); gl = h.const("gl", GLW)
    if (1 << GLW) > NLm: h.assume(ult(gl, NLm))
    def parts(adr):
        off = z3.Extract(offsetbits - 1, 0, adr) if offsetbits else None
        line = z3.Extract(offsetbits + linebits - 1, offsetbits, adr)
        tag = z3.Extract(aw - 1, offsetbits + linebits, adr)
        return off, line, tag
    off_g, line_g, tag_g = parts(gw)
    # position of the tracked byte inside the cache line (line width LW bits) and inside the slave's words
    LWb = dw_to * ratio_dn                       # line width in bits
    NLl = LWb // 8
    PW = max(1, (NLl - 1).bit_length())
    if offsetbits:        # slave wider: line = one slave word = ratio_up master words, chooser/displacer with reverse=True
        pos = (zx(K(ratio_up - 1, offsetbits) - off_g, PW) * NLm) + zx(gl, PW) if PW >= offsetbits else None
    else:
        pos = zx(gl, PW)
    # slave word index inside the line (wordbits) and lane inside the slave word
    if wordbits:
        tw = z3.Extract(PW - 1, PW - wordbits, pos); slane = z3.Extract(PW - wordbits - 1, 0, pos)
    else:
        tw = None; slane = pos
    SLW = max(1, (NLs - 1).bit_length())
    slane = z3.Extract(SLW - 1, 0, zx(slane, max(SLW, slane.size()))) if slane.size() != SLW else slane
    data_mem = L(d, "data_mem"); tag_mem = L(d, "tag_mem"); word = L(d, "word")
    dcells = h.ts.mems[data_mem]; tcells = h.ts.mems[tag_mem]
    NLINES = len(dcells)
    def sel_cell(cells, line):
        r = h.v(cells[NLINES - 1])
        for j in reversed(range(NLINES - 1)): r = z3.If(line == K(j, linebits), h.v(cells[j]), r)
        return r
    def lane_bits(wordbv, p, nl):
        r = z3.Extract(8 * nl - 1, 8 * (nl - 1), wordbv)
        for j in reversed(range(nl - 1)): r = z3.If(p == K(j, p.size()), z3.Extract(8 * j + 7, 8 * j, wordbv), r)
        return r
    line_data = sel_cell(dcells, line_g); line_tag = sel_cell(tcells, line_g)
    TB = tcells[0].nbits - 1                      # tag field width as built (the constructor derives it from the slave's address width)
    tagz = lambda t: zx(t, TB) if t.size() <= TB else z3.Extract(TB - 1, 0, t)
    t_tag = z3.Extract(TB - 1, 0, line_tag); t_dirty = b(z3.Extract(TB, TB, line_tag))
    hit = t_tag == tagz(tag_g)
    data_lane = lane_bits(line_data, pos, NLl)
    # ghosts
    gv = h.ghost("gv", 8); bk = h.ghost("bk", 8)
    mack = b(h.v(m.ack)); rq = req(h, m); mwe = b(h.v(m.we))
    wr_now = z3.And(mack, mwe, h.v(m.adr) == gw, selbit(h.v(m.sel), gl, NLm))
    h.ghost_next(gv, z3.If(wr_now, lane_of(h.v(m.dat_w), gl, NLm), gv))
    # backing memory at the tracked byte: slave word address (tag, line[, word])
    if wordbits: sadr_g = z3.Concat(tagz(tag_g), line_g, tw)
    else: sadr_g = z3.Concat(tagz(tag_g), line_g)
    sadr_g = z3.Extract(s_aw - 1, 0, sadr_g) if sadr_g.size() > s_aw else zx(sadr_g, s_aw)
    sreq = req(h, s); sack = b(h.v(s.ack)); swe = b(h.v(s.we))
    at_bk = h.v(s.adr) == sadr_g
    h.ghost_next(bk, z3.If(z3.And(sreq, sack, swe, at_bk, selbit(h.v(s.sel), slane, NLs)), lane_bits(h.v(s.dat_w), slane, NLs), bk))
    h.assume(z3.Implies(z3.And(sreq, sack, z3.Not(swe), at_bk), lane_bits(h.v(s.dat_r), slane, NLs) == bk), "abstract backing memory: a read of the tracked byte returns its last written value (ghost bk); other addresses unconstrained")
    h.assume(bk == bk)
    # initial backing content arbitrary but equal to the spec value: gv starts as bk's initial value (both 0: tag memory starts with tag 0 clean lines of zeros)
    st, enc = d.fsm.state, d.fsm.encoding
    S = lambda n: eqc(h.v(st), enc[n])
    Lh = parts(held.adr)[1]; Th = parts(held.adr)[2]
    wv = h.v(word) if word is not None else None
    filled = z3.Not(z3.And(S("REFILL"), Lh == line_g, (z3.ULE(wv, tw) if wordbits else z3.BoolVal(True))))
    h.hint("I1.hit->data", z3.Implies(z3.And(hit, filled), data_lane == gv))
    h.hint("I2.clean->backing", z3.Implies(z3.Not(z3.And(hit, t_dirty)), bk == gv))
    if wordbits:
        h.hint("I3.evict-progress", z3.Implies(z3.And(S("EVICT"), Lh == line_g, hit, z3.UGT(wv, tw)), bk == gv))
    if TB > tagbits:       # the tag field is wider than the real tag (derived from the slave's address width): upper bits stay zero
        for j in range(NLINES): h.hint(f"tagmsb{j}", z3.Extract(TB - 1, tagbits, h.v(tcells[j])) == K(0, TB - tagbits))
    h.hint("busy->pend", z3.Implies(z3.Not(S("IDLE")), b(pend)))
    h.hint("st<n", ult(h.v(st), len(enc)))
    # evict only of a dirty line whose tag differs from the request; refill only into a line that already carries the requested tag, clean
    held_line_tag = sel_cell(tcells, Lh)
    h.hint("evict-state", z3.Implies(S("EVICT"), z3.And(b(z3.Extract(TB, TB, held_line_tag)), z3.Extract(TB - 1, 0, held_line_tag) != tagz(Th))))
    h.hint("refill-state", z3.Implies(S("REFILL"), z3.And(z3.Not(b(z3.Extract(TB, TB, held_line_tag))), z3.Extract(TB - 1, 0, held_line_tag) == tagz(Th))))
    # hidden read-address registers of the two memories follow the held request
    for sreg in h.ts.state:
        if sreg not in h.ts.orig_signals and sreg.nbits == linebits and sreg not in dcells and sreg not in tcells:
            h.hint(f"adrreg:{sreg.duid}", z3.Implies(b(pend), h.v(sreg) == Lh))
    aor = L(d, "adr_offset_r")
    if aor is not None and aor in h.ts.var: h.hint("offset_r", z3.Implies(b(pend), h.v(aor) == parts(held.adr)[0]))
    if wordbits: h.hint("word0", z3.Implies(z3.Or(S("IDLE"), S("TEST_HIT")), z3.BoolVal(True)))
    h.use_auto = False
    h.ensure("ens.read", z3.Implies(z3.And(mack, z3.Not(mwe), h.v(m.adr) == gw), lane_of(h.v(m.dat_r), gl, NLm) == gv))       # every read returns the last enabled write
    h.ensure("ens.ack-only-if-req", z3.Implies(mack, rq))
    h.ensure_seq("ens.ack1", lambda at: z3.Implies(at(mack, 0), z3.Not(at(mack, 1))))
    h.ensure("ens.slave-legal", z3.And(h.v(s.cyc) == h.v(s.stb), z3.Implies(sreq, h.v(s.sel) == K(2**NLs - 1, NLs))))
    h.respond("resp.ack", z3.And(rq, z3.Or(z3.Not(sreq), sack)), mack, 3 + 2 * ratio_dn + 1)
    h.cover("cover.hit-read", z3.And(mack, z3.Not(mwe), h.v(m.adr) == gw), depth=5)
    h.cover("cover.evict", S("EVICT"), depth=10)
    h.bmc_depth = 12; h.bmc_time = 60; h.cosim_cycles = 12
    h.functions = ["litex.soc.interconnect.wishbone.Cache.__init__", "litex.gen.genlib.misc.chooser/displacer/split"]
    return h

_cases_base = cases
def cases(tier):
    cs = _cases_base(tier)
    cs += [Case("Cache(32->32,size=4)", c_cache, 32, 32, 4, timeout=1200), Case("Cache(64->32,size=4)", c_cache, 64, 32, 4, timeout=1200), Case("Cache(32->64,size=4)", c_cache, 32, 64, 4, timeout=1200), Case("Cache(128->32,size=8)", c_cache, 128, 32, 8, timeout=1200), Case("Cache(32->128,size=8)", c_cache, 32, 128, 8, timeout=1200)]
    return cs
