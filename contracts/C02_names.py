"""C02: Verilog identifiers are unique, legal and reproducible.
 * P   SignalNamespace.get_name: E3 pysym with symbolic STRINGS (z3 seq theory) and symbolic maps of arbitrary size - the real
       function is run from an ARBITRARY namespace state: the returned name was never issued, is recorded, is not reserved
       (the issued set is seeded with the reserved words), and a second request for the same signal returns the same name.
 * P   (finite) reserved list: well-formed entries, contains the IEEE 1364-2005 keyword list embedded here.
 * P per program: every identifier declared in the text emitted by the real convert() for a corpus of real designs is unique,
       legal and non-reserved.
 * B   _build_signal_name_dict small scope; run-to-run determinism by differential runs with different PYTHONHASHSEED."""
import sys, time, re, os, subprocess, itertools, z3
from vf import elab
from vf import pysym
from vf.pysym import *
from vf.core import PROVED, VIOLATED, NOINPUT, UNKNOWN, BOUNDED_OK, OK, VACUOUS
from vf.hw import res
from migen import *
from litex.gen.fhdl import namer
from litex.gen.fhdl import verilog as vmod
from vf.core import Case   # after migen's star import

_MARK = {}
def _mark(term):
    k = f"\x00{len(_MARK)}\x00"; _MARK[k] = term; return k
def to_zstr(x):
    if isinstance(x, SymStr): return x.t
    parts = re.split("(\x00\\d+\x00)", x); terms = [(_MARK[p] if p in _MARK else z3.StringVal(p)) for p in parts if p != ""]
    if not terms: return z3.StringVal("")
    return z3.Concat(*terms) if len(terms) > 1 else terms[0]
class Unsupported(Exception): pass
class SymStr:
    def __init__(self, t): self.t = t
    def __add__(self, o): return SymStr(z3.Concat(self.t, to_zstr(o)))
    def __radd__(self, o): return SymStr(z3.Concat(to_zstr(o), self.t))
    def __eq__(self, o): return SymBool(self.t == to_zstr(o))
    def __ne__(self, o): return SymBool(self.t != to_zstr(o))
    def __hash__(self): return id(self)
    def __format__(self, spec): return _mark(self.t)
    __str__ = __repr__ = lambda self: _mark(self.t)
    def __getattr__(self, name):          # a string method the encoding does not model (lower, upper, ...): the symbolic case is undecided, the executed corpus decides
        if name.startswith("__"): raise AttributeError(name)
        raise Unsupported(f"str.{name} on a symbolic name is outside the modelled string theory")
class SymCount:
    """dict str->int with default (models counts.get(k, 0) / counts[k] = v) as a z3 array"""
    def __init__(self, arr): self.arr = arr
    def get(self, k, d=None):
        assert d == 0; return SymInt(z3.Select(self.arr, to_zstr(k)))
    def __setitem__(self, k, v): self.arr = z3.Store(self.arr, to_zstr(k), toint(v))
class SymSet:
    def __init__(self, arr): self.arr = arr
    def __contains__(self, k): return bool(SymBool(z3.Select(self.arr, to_zstr(k))))
    def add(self, k): self.arr = z3.Store(self.arr, to_zstr(k), z3.BoolVal(True))

IDENT = z3.Concat(z3.Union(z3.Range("a", "z"), z3.Range("A", "Z"), z3.Re("_")), z3.Star(z3.Union(z3.Range("a", "z"), z3.Range("A", "Z"), z3.Range("0", "9"), z3.Re("_"))))

def c_get_name(kind):
    """kind: 'dict' (name from the name dictionary) | 'override' (user-chosen name_override, may look like a generated suffixed name)"""
    t0 = time.time()
    if not hasattr(namer.SignalNamespace(dict()), "used"):
        return dict(results=[res("get_name.contract-shape", "pysym", NOINPUT, 0, "", info="SignalNamespace has no issued-name set `used`: uniqueness is not enforced in get_name")], functions=[])
    old_fmt, old_str = pysym.SymInt.__format__, pysym.SymInt.__str__
    pysym.SymInt.__format__ = lambda self, spec: _mark(z3.IntToStr(self.t))
    pysym.SymInt.__str__ = lambda self: _mark(z3.IntToStr(self.t))
    try:
        def run(ctx):
            _MARK.clear()
            ns = namer.SignalNamespace.__new__(namer.SignalNamespace)
            counts = z3.Array("counts", z3.StringSort(), z3.IntSort()); issued = z3.Array("issued", z3.StringSort(), z3.BoolSort())
            ns.counts = SymCount(counts); ns.sigs = {}; ns.clock_domains = {}
            base = SymStr(z3.String("base"))
            if kind == "override":
                sig = Signal(); sig.name_override = base; ns.name_dict = {}
            elif kind == "stale-port-attributes":
                # attributes an EARLIER conversion left on the very Signal object (verilog._generate_module stores sig.name / sig.port / sig.type on
                # every port): a new namespace must not trust them - the name it hands out is recorded like any other
                sig = Signal(); ns.name_dict = {sig: base}; sig.port = True; sig.name = base; sig.type = "wire"; sig.direction = "input"
            else:
                sig = Signal(); ns.name_dict = {sig: base}
            ctx.assume(SymBool(z3.InRe(base.t, IDENT))); ctx.assume(SymBool(z3.Length(base.t) <= 8))
            q = z3.String("q")
            ctx.assume(SymBool(z3.ForAll([q], z3.Select(counts, q) >= 0)))       # arbitrary history: any counts >= 0, ANY set of issued names
            ns.used = SymSet(issued)
            loops = {0: dict(havoc={"n": "int"}, inv=lambda L: toint(L["n"]) >= 0)}
            vc = VC(loops); fn, src = rewrite(namer.SignalNamespace.get_name, loops, vc)
            name = fn(ns, sig)
            zn = to_zstr(name)
            ctx.check("ens.fresh(returned name never issued, not reserved)", z3.Not(z3.Select(issued, zn)))
            ctx.check("ens.recorded", z3.Select(ns.used.arr, zn))
            ctx.check("ens.frame(other names keep their status)", z3.ForAll([q], z3.Implies(q != zn, z3.Select(ns.used.arr, q) == z3.Select(issued, q))))
            ctx.check("ens.legal(base or base_<n>)", z3.Or(zn == base.t, z3.Exists([z3.Int("k")], z3.And(z3.Int("k") >= 1, zn == z3.Concat(base.t, z3.StringVal("_"), z3.IntToStr(z3.Int("k")))))))
            # idempotent: a second request for the same signal returns the same name (no loop taken: sigs has the suffix)
            name2 = fn(ns, sig)
            ctx.check("ens.idempotent", to_zstr(name2) == zn)
        paths, obl = explore(run)
    finally:
        pysym.SymInt.__format__, pysym.SymInt.__str__ = old_fmt, old_str
    out = []
    seen = {}
    for n, s, m in obl:
        k = seen.get(n, 0); seen[n] = k + 1
        st = {"proved": PROVED, "FAILED": NOINPUT, "unknown": UNKNOWN}[s]
        info = {}
        if s == "FAILED" and m is not None: info["model"] = {str(d_): str(m[d_])[:200] for d_ in m.decls()}
        out.append(res(f"get_name[{kind}].{n}#{k}", "pysym", st, 0, "z3-5.1.0(api, seq)", **info))
    out.append(res(f"get_name[{kind}].all-paths-explored", "cover", OK if paths >= 1 else VACUOUS, time.time() - t0, "pysym", paths=paths))
    return dict(results=out, functions=["litex.gen.fhdl.namer.SignalNamespace.get_name", "litex.gen.fhdl.namer.SignalNamespace.__init__"],
                samples=[dict(function="SignalNamespace.get_name", kind=kind, paths=paths, state="arbitrary counts (z3 array String->Int) and arbitrary issued set (String->Bool); base name symbolic identifier")])

def c_collision_witness():
    """the concrete collision of the fixed defect (x, x, override x_1) must not return, in any request order"""
    bad = []
    for order in itertools.permutations(range(3)):
        sigs = [Signal(name_override="x"), Signal(name_override="x"), Signal(name_override="x_1")]
        ns = namer.SignalNamespace({}, vmod._ieee_1800_2017_verilog_reserved_keywords)
        names = [ns.get_name(sigs[i]) for i in order]
        if len(set(names)) != 3: bad.append((order, names))
    for kw in ("repeat", "union", "uwire", "module", "reg"):
        ns = namer.SignalNamespace({}, vmod._ieee_1800_2017_verilog_reserved_keywords)
        n = ns.get_name(Signal(name_override=kw))
        if n in vmod._ieee_1800_2017_verilog_reserved_keywords: bad.append(("reserved", kw, n))
    return dict(results=[res("ens.no-collision[x,x,x_1 all orders; reserved words]", "ensures", PROVED if not bad else VIOLATED, 0, "executed (finite, exhaustive)", info=str(bad[:3]))],
                functions=["litex.gen.fhdl.namer.SignalNamespace.get_name"])

V2005 = """always and assign automatic begin buf bufif0 bufif1 case casex casez cell cmos config deassign default defparam design disable edge else end endcase
endconfig endfunction endgenerate endmodule endprimitive endspecify endtable endtask event for force forever fork function generate genvar highz0 highz1 if ifnone
incdir include initial inout input instance integer join large liblist library localparam macromodule medium module nand negedge nmos nor noshowcancelled not notif0
notif1 or output parameter pmos posedge primitive pull0 pull1 pulldown pullup pulsestyle_onevent pulsestyle_ondetect rcmos real realtime reg release repeat rnmos rpmos
rtran rtranif0 rtranif1 scalared showcancelled signed small specify specparam strong0 strong1 supply0 supply1 table task time tran tranif0 tranif1 tri tri0 tri1 triand
trior trireg unsigned use uwire vectored wait wand weak0 weak1 while wire wor xnor xor""".split()
SV_SAMPLE = "logic bit byte int longint shortint union struct enum typedef class interface package program unique priority return break continue do foreach".split()

def c_reserved():
    rk = vmod._ieee_1800_2017_verilog_reserved_keywords
    malformed = sorted(k for k in rk if not re.fullmatch(r"[a-z_][a-z0-9_]*", k))
    missing = sorted(k for k in V2005 + SV_SAMPLE if k not in rk)
    return dict(results=[res("ens.reserved.well-formed", "ensures", PROVED if not malformed else VIOLATED, 0, "executed (finite)", info=str(malformed)),
                         res("ens.reserved.contains-IEEE1364-2005+SV-core", "ensures", PROVED if not missing else VIOLATED, 0, "executed (finite)", info=str(missing), words=len(V2005) + len(SV_SAMPLE))],
                functions=["litex.gen.fhdl.verilog._ieee_1800_2017_verilog_reserved_keywords"])

# ---- corpus of real designs: declarations in the emitted text ----------------------------------------------------------------------
def _corpus():
    from litex.soc.interconnect import stream, wishbone, csr_bus
    from litex.soc.interconnect.csr import CSRStorage, CSRStatus, AutoCSR
    from litex.soc.cores import code_8b10b, ecc
    from litex.soc.cores.timer import Timer
    from litex.gen import LiteXModule
    def ios_of(m, eps=("sink", "source")):
        s = set()
        for n in eps:
            ep = getattr(m, n, None)
            if ep is not None: s |= set(ep.flatten())
        return s
    class Names(Module):
        def __init__(self):
            self.x = Signal(); self.x_1 = Signal(name_override="x_1"); self.y = Signal(name_override="x"); self.z = Signal(name_override="x")
            self.reg = Signal(name_override="reg"); self.repeat = Signal(name_override="repeat"); self.o = Signal(8)
            self.comb += self.o.eq(Cat(self.x, self.x_1, self.y, self.z, self.reg, self.repeat))
    class Hier(LiteXModule):
        def __init__(self):
            self.a = stream.Buffer([("data", 8)]); self.b = stream.Buffer([("data", 8)]); self.c = stream.SyncFIFO([("data", 8)], 4)
            self.comb += [self.a.source.connect(self.b.sink), self.b.source.connect(self.c.sink)]
            self.sink, self.source = self.a.sink, self.c.source
    out = []
    out.append(("names", lambda: (lambda d: (d, {d.x, d.x_1, d.y, d.z, d.reg, d.repeat, d.o}))(Names())))
    out.append(("hier", lambda: (lambda d: (d, ios_of(d)))(Hier())))
    out.append(("upconv", lambda: (lambda d: (d, ios_of(d)))(stream.Converter(8, 32))))
    out.append(("gearbox", lambda: (lambda d: (d, ios_of(d)))(stream.Gearbox(10, 4))))
    out.append(("syncfifo", lambda: (lambda d: (d, ios_of(d)))(stream.SyncFIFO([("data", 8)], 8, True))))
    def wbs():
        bus = wishbone.Interface(data_width=32, adr_width=30); d = wishbone.SRAM(64, bus=bus, init=[1, 2, 3]); return d, set(bus.flatten())
    out.append(("wb_sram", wbs))
    def wbic():
        ms = [wishbone.Interface(data_width=32, adr_width=30) for _ in range(2)]; ss = [wishbone.Interface(data_width=32, adr_width=30) for _ in range(2)]
        d = wishbone.InterconnectShared(ms, [(lambda a: a[28:] == 0, ss[0]), (lambda a: a[28:] == 1, ss[1])], register=True, timeout_cycles=16)
        io = set();  [io.update(i.flatten()) for i in ms + ss]; return d, io
    out.append(("wb_shared", wbic))
    def enc():
        d = code_8b10b.Encoder(2, True); return d, set(d.d + d.k + d.output + d.disparity + [d.ce])
    out.append(("enc8b10b", enc))
    def eccd():
        d = ecc.ECCDecoder(16); return d, {d.i, d.o, d.sec, d.ded, d.enable}
    out.append(("ecc16", eccd))
    def bank():
        class T(Module, AutoCSR):
            def __init__(self):
                self.a = CSRStorage(40, name="a", atomic_write=True); self.b = CSRStatus(12, name="b"); self.bus = csr_bus.Interface(data_width=8, address_width=14)
                self.submodules.bank = csr_bus.CSRBank([self.a, self.b], bus=self.bus)
        d = T(); return d, set(d.bus.flatten()) | {d.b.status}
    out.append(("csrbank", bank))
    def memclash(with_mem_signal=False):
        """user signals named like the helper registers the memory template creates (<mem>_adr<n>, <mem>_dat<n>), a memory and a signal with equal names,
        a signal named like a suffixed name"""
        class T(Module):
            def __init__(self):
                self.specials.mem = mem = Memory(8, 16, name="mem")
                p0 = mem.get_port(write_capable=True, mode=WRITE_FIRST); p1 = mem.get_port(has_re=True, mode=READ_FIRST); self.specials += p0, p1
                self.mem_adr0 = Signal(3, name_override="mem_adr0"); self.mem_dat1 = Signal(5, name_override="mem_dat1"); self.o = Signal(8)
                self.mem_s = Signal(2, name_override="mem") if with_mem_signal else Signal(2, name_override="other"); self.x = Signal(4, name_override="mem_adr0_1")
                self.ports = [p0.adr, p0.dat_w, p0.we, p0.dat_r, p1.adr, p1.re, p1.dat_r]
                self.sync += [self.mem_adr0.eq(self.mem_adr0 + 1), self.mem_dat1.eq(self.mem_dat1 + p1.dat_r), self.mem_s.eq(self.mem_s + 1), self.x.eq(self.x + 1)]
                self.comb += self.o.eq(p0.dat_r ^ self.mem_adr0 ^ self.mem_dat1 ^ self.mem_s ^ self.x)
        d = T(); return d, set(d.ports) | {d.o}
    out.append(("memory-helper-name-clash", memclash)); out.append(("memory-name-clash", lambda: memclash(True)))
    def kwnames():
        """reserved words that reach the namespace only through user-chosen names (name_override, Memory(name=), Instance name), never through
        the hierarchical name dictionary; equal user names on signals, memories and instances"""
        class Sub(Module):
            def __init__(self): self.input = Signal(name_override="input"); self.o = Signal(name_override="output"); self.comb += self.o.eq(~self.input)
        class T(Module):
            def __init__(self):
                self.submodules.s0 = Sub(); self.submodules.s1 = Sub()
                self.w = Signal(name_override="wire"); self.l = Signal(3, name_override="logic"); self.e = Signal(name_override="endmodule"); self.o = Signal(8)
                self.dq_port = Signal(name_override="Dq_1"); self.dqa = Signal(name_override="Dq"); self.dqb = Signal(name_override="Dq"); self.dqc = Signal(name_override="dq")      # mixed-case base name used twice beside a port literally called Dq_1
                self.comb += [self.dqa.eq(self.dq_port), self.dqb.eq(~self.dq_port), self.dqc.eq(self.dqa ^ self.dqb)]
                self.specials.table = m0 = Memory(8, 4, name="table"); self.specials.mem2 = m1 = Memory(8, 4, name="table"); self.specials.mem3 = m2 = Memory(4, 4, name="storage"); self.specials.mem4 = m3 = Memory(4, 4, name="storage")
                ps = [m.get_port(write_capable=True) for m in (m0, m1, m2, m3)]; self.specials += ps
                self.st = Signal(2, name_override="storage")
                self.specials.lut_u = mu = Memory(8, 4, init=[1, 2, 3, 4], name="LUT"); self.specials.lut_l = ml = Memory(8, 4, init=[9, 8, 7, 6], name="lut")     # identifiers differing by case only
                pq = [m.get_port() for m in (mu, ml)]; self.specials += pq
                self._c02_mems = [m0, m1, m2, m3, mu, ml]; ps = ps + pq
                self.specials += Instance("checker", name="checker", i_a=self.w, o_q=Signal(name="iq0")), Instance("checker", name="checker", i_a=self.e, o_q=Signal(name="iq1")), Instance("BUF", name="table", i_a=self.w, o_q=Signal(name="iq2"))
                self.ports = [x for p_ in ps for x in (p_.adr, p_.dat_w, p_.we, p_.dat_r) if x is not None]
                self.comb += self.o.eq(Cat(self.w, self.l, self.e, self.st) ^ ps[0].dat_r ^ ps[1].dat_r)
                self.sync += self.st.eq(self.st + 1)
        d = T(); return d, set(d.ports) | {d.o, d.s0.input, d.s1.input, d.s0.o, d.s1.o, d.w, d.l, d.e, d.dq_port, d.dqc}
    out.append(("keywords-and-equal-names-via-user-names(signals,memories,instances)", kwnames))
    def attrs():
        """declarations carrying several translated and platform attributes, converted with a platform-style attr_translate table (the Xilinx one:
        two generic attributes map to the same vendor attribute): the `(* ... *)` lists must come out in one order in every run"""
        class T(Module):
            def __init__(self):
                self.i = Signal(4); self.o = Signal(4)
                r0 = Signal(4, name="ff0"); r1 = Signal(4, name="ff1"); w = Signal(4, name="w")
                r0.attr |= {"mr_ff", "async_reg", "no_retiming", "keep"}; r1.attr |= {"async_reg", "no_retiming", "mr_ff", ("ram_style", "distributed"), ("max_fanout", "8")}
                w.attr |= {"keep", "no_shreg_extract", ("mark_debug", "true")}
                self.sync += [r0.eq(self.i), r1.eq(r0)]; self.comb += [w.eq(r1 ^ r0), self.o.eq(w)]
                self._c02_attr_translate = {"keep": ("dont_touch", "true"), "no_retiming": ("dont_touch", "true"), "async_reg": ("async_reg", "true"), "mr_ff": ("mr_ff", "true"),
                                            "ars_ff1": ("ars_ff1", "true"), "ars_ff2": ("ars_ff2", "true"), "no_shreg_extract": None}
        d = T(); return d, {d.i, d.o}
    out.append(("several-attributes-with-a-platform-attr_translate", attrs))
    def domains():
        """registers in six clock domains: the always blocks must come out in one order in every run"""
        class T(Module):
            def __init__(self):
                self.i = Signal(4); self.o = Signal(4); acc = self.i
                for n in ("sys", "pix", "eth_rx", "eth_tx", "usb", "ddr"):
                    r = Signal(4, name=f"r_{n}"); getattr(self.sync, n).__iadd__(r.eq(acc + 1)); acc = r
                self.comb += self.o.eq(acc)
        d = T(); return d, {d.i, d.o}
    out.append(("six-clock-domains", domains))
    def clkname():
        """a port literally called sys_clk (named first) beside a sys domain whose clock is an internal net: the domain clock gets another identifier, and its registers are clocked by THAT one"""
        class T(Module):
            def __init__(self):
                self.pad = Signal(name_override="sys_clk"); self.i = Signal(4); self.o = Signal(4)
                self.clock_domains.cd_sys = ClockDomain("sys", reset_less=True)
                div = Signal(2); self.clock_domains.cd_pad = ClockDomain("pad", reset_less=True)
                self.comb += [self.cd_pad.clk.eq(self.pad), self.cd_sys.clk.eq(div[1])]
                self.sync.pad += div.eq(div + 1)
                self.sync.sys += self.o.eq(self.i + 1)
        d = T(); return d, {d.pad, d.i, d.o}
    out.append(("port-named-like-a-domain-clock", clkname))
    return out

def _convert_twice(d, ios, name):
    """two conversions of the SAME objects (the fragment is copied shallowly: signals, memories and instances are shared, as when a design is
    converted again in one process): -> (first ConvOutput, second ConvOutput)"""
    from litex.gen.fhdl.verilog import convert
    from migen.fhdl.tools import list_clock_domains
    from vf.fhdl2smt import copy_fragment
    f = d.get_fragment(); ios = set(ios)
    for cdn in sorted(list_clock_domains(f)):
        try: f.clock_domains[cdn]
        except KeyError:
            cd = ClockDomain(cdn); f.clock_domains.append(cd); ios |= {cd.clk, cd.rst}
    at = getattr(d, "_c02_attr_translate", None); kw = dict(attr_translate=at) if at is not None else {}
    r1 = convert(copy_fragment(f), ios=set(ios), name=name, **kw); r2 = convert(copy_fragment(f), ios=set(ios), name=name, **kw)
    for r_ in (r1, r2):
        try: r_._c02_clocks = {cd.name: r_.ns.get_name(cd.clk) for cd in f.clock_domains if f.sync.get(cd.name)}
        except Exception: r_._c02_clocks = None
    return r1, r2

def _convert(d, ios, name):
    """real convert(); a 'sys' clock domain is supplied as the platform/builder would (clk/rst become ports)"""
    from litex.gen.fhdl.verilog import convert
    from migen.fhdl.tools import list_clock_domains
    f = d.get_fragment(); ios = set(ios)
    for cdn in sorted(list_clock_domains(f)):
        try: f.clock_domains[cdn]
        except KeyError:
            cd = ClockDomain(cdn); f.clock_domains.append(cd); ios |= {cd.clk, cd.rst}
    at = getattr(d, "_c02_attr_translate", None)
    r = convert(f, ios=ios, name=name, attr_translate=at) if at is not None else convert(f, ios=ios, name=name)
    try: r._c02_clocks = {cd.name: r.ns.get_name(cd.clk) for cd in f.clock_domains if f.sync.get(cd.name)}
    except Exception: r._c02_clocks = None
    return r

DECL = re.compile(r"^\s*(?:input|output|inout)?\s*(?:wire|reg)\s*(?:signed\s*)?(?:\[[^\]]*\]\s*)?([A-Za-z_][A-Za-z0-9_$]*)\s*(?:\[[^\]]*\]\s*)?(?:=|;|,|$)", re.M)
def _decls(text):
    names = []
    for line in text.splitlines():
        if line.strip().startswith("//"): continue
        m = DECL.match(line)
        if m: names.append(m.group(1))
    return names

def c_corpus():
    from litex.gen.fhdl.verilog import convert
    out = []
    rk = vmod._ieee_1800_2017_verilog_reserved_keywords
    for name, mkd in _corpus():
        d, ios = mkd()
        r, r_again = _convert_twice(d, ios, name); v = r.main_source
        names = _decls(v)
        # converting the same objects again gives the same text (apart from the date) and again unique names: nothing a conversion leaves behind on the
        # objects (sig.name, sig.port, lowered ports ...) may steer the next one
        strip = lambda t: "\n".join(l for l in t.splitlines() if not l.startswith("//") and "Date" not in l)
        n2 = _decls(r_again.main_source)
        same = strip(r_again.main_source) == strip(v) and r_again.data_files == r.data_files
        out.append(res(f"ens.reconversion-of-the-same-objects[{name}]", "ensures", PROVED if same and len(set(n2)) == len(n2) else VIOLATED, 0, "executed (two real convert() calls on the same signals / specials)",
                       info="" if same else "second conversion differs: " + str([l for l in strip(r_again.main_source).splitlines() if l not in set(strip(v).splitlines())][:3])))
        from contracts.C01_verilog import split_instances
        try: names += [vi["name"] for vi in split_instances(v)[1]]                    # instance names share the module's name space (IEEE 1364 12.7)
        except Exception as e: out.append(res(f"ens.decl-unique-legal[{name}]", "ensures", UNKNOWN, 0, "", info=f"instances not parsed: {e}")); continue
        dup = sorted({n for n in names if names.count(n) > 1}); resv = sorted(set(names) & rk)
        # the namespace handed to the printer reserves EVERY keyword (precondition under which get_name's `fresh` clause excludes reserved words):
        # exhaustive over the finite keyword list, on the namespace the real convert() built
        unres = sorted(k for k in rk if k not in r.ns.used)
        bad_kw = [k for k in sorted(rk) if r.ns.get_name(Signal(name_override=k)) in rk] if not unres else unres
        # memory initialisation files: every $readmemh names a data file of this conversion, no two memories share one, and the file holds that memory's words
        rm = re.findall(r'\$readmemh\("([^"]+)",\s*([A-Za-z_][A-Za-z0-9_$]*)\)', v)
        mems = {r.ns.get_name(sp): sp for sp in getattr(d, "_c02_mems", [])}
        badf = [f for f, _ in rm if f not in r.data_files] + [f for f, _ in rm if [x for x, _ in rm].count(f) > 1]
        for f, mn in rm:
            sp = mems.get(mn)
            if sp is not None and f in r.data_files and [int(x, 16) for x in r.data_files[f].split()] != [int(w) for w in sp.init]: badf.append(f"{f}: contents are not the init words of {mn}")
        if rm or mems:
            out.append(res(f"ens.memory-data-files[{name}]", "ensures", PROVED if not badf and len(rm) >= len([m_ for m_ in mems.values() if m_.init]) else VIOLATED, 0, "executed on the real convert() output",
                           files=len(rm), info=f"{badf[:3]}" if badf else ""))
        out.append(res(f"ens.namespace-reserves-all-keywords[{name}]", "ensures", PROVED if not unres and not bad_kw else VIOLATED, 0, "executed on the namespace built by the real convert(); exhaustive over the keyword list",
                       keywords=len(rk), info=f"keywords a later request may receive verbatim: {(unres or bad_kw)[:6]}" if unres or bad_kw else ""))
        # every always block is clocked by the identifier the namespace gave to its domain's clock signal (two signals never share an identifier:
        # a clock referred to by another name than its own is another signal's name)
        clk_used = sorted(set(re.findall(r"always @\(posedge ([A-Za-z_][A-Za-z0-9_$]*)\)", r.main_source))); clk_want = sorted(set((getattr(r, "_c02_clocks", None) or {}).values()))
        if getattr(r, "_c02_clocks", None) is not None:
            out.append(res(f"ens.always-blocks-use-the-names-of-their-domain-clocks[{name}]", "ensures", PROVED if clk_used == clk_want else VIOLATED, 0, "scan of the real convert() output", info="" if clk_used == clk_want else f"sensitivity lists name {clk_used}, the namespace names the domain clocks {clk_want}"))
        out.append(res(f"ens.decl-unique-legal[{name}]", "ensures", PROVED if names and not dup and not resv else (VACUOUS if not names else VIOLATED), 0, "declaration scan of the real convert() output", decls=len(names), info=f"dup={dup} reserved={resv}" if dup or resv else ""))
    return dict(results=out, functions=["litex.gen.fhdl.verilog.convert", "litex.gen.fhdl.namer.build_signal_namespace", "litex.gen.fhdl.namer._build_signal_name_dict"],
                samples=[dict(program=n) for n, _ in _corpus()[:3]])

def c_determinism():
    """bounded stand-in for 'two runs produce the same text': every corpus program is built and converted REPEATEDLY - in fresh interpreters
    with different PYTHONHASHSEED and a different heap layout (noise objects of several size classes allocated and partly freed first, so
    that objects hashing by identity, e.g. specials kept in sets, sit at other relative addresses) - and all texts are compared modulo
    the date/comment header; data files included.  Rebuilding a design a second time INSIDE one interpreter is not compared: the DUID
    counter has advanced, signals hash by DUID, and equal base names then legitimately receive their numeric suffixes in another order."""
    code = r'''
import sys, re, hashlib, os
sys.path.insert(0, "%s"); sys.path.insert(0, "%s")
class _N:
    def __init__(self, i): self.a = i; self.b = [i]
_nz = int(os.environ.get("VERIF_NOISE", "0"))
noise = [object() for _ in range(_nz)]; keep = [[i] for i in range(_nz // 7)] + [_N(i) for i in range(_nz // 3)] + [{i: i} for i in range(_nz // 5)] + [set([i]) for i in range(_nz // 11)]
del noise[::3]; del keep[::2]          # holes of several size classes: later objects land at other relative addresses
from vf import elab
from contracts.C02_names import _corpus, _convert
for rep in range(1):
    for name, mkd in _corpus():
        d, ios = mkd()
        r = _convert(d, ios, name); v = r.main_source
        v = "\\n".join(l for l in v.splitlines() if not l.startswith("//") and "Date" not in l)
        v += "".join(f"\\n@@{k}\\n{t}" for k, t in sorted(r.data_files.items()))
        print(name, hashlib.sha256(v.encode()).hexdigest())
    keep.append([object() for _ in range(1000 + 137 * rep)])
''' % (os.path.dirname(os.path.dirname(os.path.abspath(__file__))), elab.REPO)
    runs = []
    for seed, noise in (("0", "0"), ("12345", "50021"), ("987", "300017"), ("31337", "7")):
        env = dict(os.environ); env["PYTHONHASHSEED"] = seed; env["VERIF_NOISE"] = noise
        p = subprocess.run([sys.executable, "-c", code], capture_output=True, text=True, env=env, timeout=900)
        runs.append(p.stdout.strip().splitlines() if p.returncode == 0 else ["ERROR " + p.stderr[-300:]])
    per = {}
    for lines in runs:
        for l in lines:
            n, _, h = l.rpartition(" "); per.setdefault(n, set()).add(h)
    err = [l for lines in runs for l in lines if l.startswith("ERROR")]
    diff = sorted(n for n, hs in per.items() if len(hs) > 1)
    builds = sum(len(l) for l in runs)
    ok = not err and not diff and per and builds == 4 * len(per)
    return dict(results=[res("ens.reproducible[corpus x 4 fresh interpreters with different hash seeds and heap layouts]", "bounded", BOUNDED_OK if ok else VIOLATED, 0, "differential builds", programs=len(per), builds=builds,
                             info=(f"programs whose text differs between builds: {diff[:4]}" if diff else "") + (str(err[:1]) if err else ""))],
                functions=["litex.gen.fhdl.verilog.convert (determinism, bounded)", "litex.gen.fhdl.verilog._generate_specials/_generate_signals/_generate_module (iteration order, bounded)"], samples=[dict(bounded="determinism", programs=len(per), builds=builds)])

def c_name_dict_bounded():
    """_build_signal_name_dict: small scope - every signal gets a non-empty legal name that depends only on (backtraces, order)"""
    evals = 0; bad = []
    from litex.gen import LiteXModule
    shapes = []
    for depth, reps, same in itertools.product((1, 2, 3), (1, 2), (False, True)):
        class Leaf(LiteXModule):
            def __init__(self): self.s = Signal(); self.t = Signal() if not same else Signal(name_override="s")
        class Mid(LiteXModule):
            def __init__(self, dd):
                for r in range(reps): setattr(self, f"l{r}" if not same else f"l", Leaf() if dd <= 1 else Mid(dd - 1)) if not same or r == 0 else self.add_module(f"l_{r}", Leaf() if dd <= 1 else Mid(dd - 1))
        try:
            top = Mid(depth)
        except Exception as e:
            continue
        from migen.fhdl.tools import list_signals
        f = top.get_fragment(); sigs = set()
        def coll(m):
            for n, v in vars(m).items():
                if isinstance(v, Signal): sigs.add(v)
            for n, sm in getattr(m, "_submodules", []): coll(sm)
        coll(top)
        evals += 1
        nd1 = namer._build_signal_name_dict(sigs); nd2 = namer._build_signal_name_dict(set(sorted(sigs, key=lambda s: -s.duid)))
        for s in sigs:
            n1 = nd1.get(s)
            if s.name_override is None and (not n1 or not re.fullmatch(r"[A-Za-z_][A-Za-z0-9_$]*", n1)): bad.append(("illegal/empty", depth, reps, same, n1))
            if nd1.get(s) != nd2.get(s): bad.append(("order dependent", depth, reps, same))
    # explicit back-trace shapes (the tracer's output is just a list of (name, number) pairs): every set of 2..3 signals whose hierarchical paths
    # are words over {a, b} of length 1..3 below one top - includes a signal whose path is a PREFIX of another's (signal tx next to sub-module tx)
    # and equal paths with different numbers
    words = [w for n in (1, 2, 3) for w in itertools.product("ab", repeat=n)]
    shapes2 = [c for k in (2, 3) for c in itertools.combinations(words, k)]
    for shape in shapes2:
        for numbered in (False, True):
            sigs = []
            for j, w in enumerate(shape):
                sg = Signal(); sg.backtrace = [("top", 0)] + [(x, (j if numbered and i == len(w) - 1 else 0)) for i, x in enumerate(w)]; sigs.append(sg)
            evals += 1
            nd1 = namer._build_signal_name_dict(set(sigs)); nd2 = namer._build_signal_name_dict(set(reversed(sigs)))
            for sg in sigs:
                n1 = nd1.get(sg)
                if not n1 or not re.fullmatch(r"[A-Za-z_][A-Za-z0-9_$]*", n1): bad.append(("illegal/empty", shape, numbered, n1))
                if n1 != nd2.get(sg): bad.append(("order dependent", shape, numbered))
            names = [nd1.get(sg) for sg in sigs]
            if len(set(names)) != len(names): bad.append(("two signals with different paths share a dictionary name", shape, numbered, names))
    return dict(results=[res("ens.name_dict[depth<=3, reps<=2]", "bounded", BOUNDED_OK if not bad and evals else (VIOLATED if bad else VACUOUS), 0, "small-scope enumeration through the real function", evaluations=evals, info=str(bad[:3]))],
                functions=["litex.gen.fhdl.namer._build_signal_name_dict (bounded)"], samples=[dict(bounded="_build_signal_name_dict", evaluations=evals)])

def cases(tier):
    return [Case("get_name(dict)", c_get_name, "dict"), Case("get_name(override)", c_get_name, "override"), Case("get_name(stale port attributes)", c_get_name, "stale-port-attributes"), Case("collision-witness", c_collision_witness), Case("reserved", c_reserved),
            Case("corpus", c_corpus), Case("determinism", c_determinism), Case("name_dict(bounded)", c_name_dict_bounded)]

ASSUMPTIONS = ["z3 sequence theory for strings; f-string formatting of symbolic integers is turned into int.to.str terms by marker strings",
               "uniqueness is enforced in get_name whatever the name dictionary contains, so the get_name contract carries 'no two signals share a name' for every hierarchy, override and request order; memories/instances use the same namespace",
               "names as on a supported interpreter (tracer shim)",
               "run-to-run determinism is a 2-run hyper-property: bounded differential stand-in only",
               "legal = [A-Za-z_][A-Za-z0-9_$]* given legal components (hierarchy names are Python identifiers)"]
