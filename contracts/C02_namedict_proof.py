"""C02 (name dictionary): what the name-dictionary builder must and must not be relied on for.

Result of the attempt to prove `_build_signal_name_dict_for_group` injective for arbitrary back-traces: the claim is FALSE, so it is not stated.
The final `disambiguate_signals_with_duid` step appends a bare index to colliding names (`a`, `a` -> `a0`, `a1`), which can hit a signal that
is legitimately called `a0`: back-traces [a], [a], [a0] give the dictionary names a0, a1, a0 (native witness below).  This does NOT violate C02,
because uniqueness of the emitted identifiers is enforced one level up: SignalNamespace.get_name returns a never-issued name for ANY base name
and ANY history (proved for all inputs in C02_names.py, cases get_name(dict) / get_name(override)).  What C02 needs from the dictionary is
therefore only: every signal gets a name that is a legal identifier and depends on nothing but the design (bounded stand-in in C02_names.py,
still bounded).  This module keeps the witness families as a regression check through the REAL namer: dictionary collision observed (recorded
as information), final names pairwise different and legal (labelled bounded: concrete families, not a proof)."""
import re, itertools
from vf import elab
from vf.core import Case, BOUNDED_OK, VIOLATED, VACUOUS
from vf.hw import res
from litex.gen.fhdl import namer

class _Sig:
    """minimal stand-in for a migen Signal as seen by namer.py (backtrace, duid, related, name_override)"""
    _n = 0
    def __init__(self, bt): _Sig._n += 1; self.backtrace = list(bt); self.duid = _Sig._n; self.related = None; self.name_override = None

FAMILIES = {
    "a,a,a0":              [[("a", None)], [("a", None)], [("a0", None)]],
    "m.a,m.a,m.a0":        [[("m", 0), ("a", None)], [("m", 0), ("a", None)], [("m", 0), ("a0", None)]],
    "x,x,x1,x0":           [[("top", None), ("x", None)], [("top", None), ("x", None)], [("top", None), ("x1", None)], [("top", None), ("x0", None)]],
    "x,x,x,x1,x2,x0,x0":   [[("x", None)]] * 3 + [[("x1", None)], [("x2", None)], [("x0", None)], [("x0", None)]],
}

def c_witness():
    out = []; evals = 0
    ident = re.compile(r"^[A-Za-z_][A-Za-z0-9_]*$")
    for fam, bts in FAMILIES.items():
        collided = False; bad = []
        for order in itertools.permutations(range(len(bts))):
            sigs = [_Sig(b) for b in bts]
            nd = namer._build_signal_name_dict(sigs); evals += 1
            dn = [nd[s] for s in sigs]
            if len(set(dn)) < len(dn): collided = True
            ns = namer.SignalNamespace(nd, reserved_keywords={"wire", "reg"})
            final = {}
            for i in order: final[i] = ns.get_name(sigs[i])
            again = [ns.get_name(sigs[i]) for i in range(len(sigs))]
            names = [final[i] for i in range(len(sigs))]
            if len(set(names)) < len(names): bad.append(("final names collide", order, names))
            if again != names: bad.append(("not idempotent", order))
            if not all(ident.match(x) for x in names): bad.append(("illegal identifier", names))
            if len(bts) > 4: break                                              # the largest family: one order only
        out.append(res(f"namedict[{fam}].final-identifiers-pairwise-different-and-legal(all request orders)", "bounded", BOUNDED_OK if not bad else VIOLATED, 0,
                       "real _build_signal_name_dict + SignalNamespace.get_name on a concrete witness family", dictionary_collision_observed=collided, info=str(bad[:2]) if bad else ""))
    out.append(res("namedict.cover.families-evaluated", "cover", "ok" if evals >= len(FAMILIES) else VACUOUS, 0, "native", evaluations=evals))
    return dict(results=out, functions=["litex.gen.fhdl.namer._build_signal_name_dict_for_group (bounded witness families)", "litex.gen.fhdl.namer.SignalNamespace.get_name"],
                samples=[dict(bounded="name dictionary witness families", evaluations=evals)])

def cases(tier):
    return [Case("namedict(non-injective witness families)", c_witness)]

ASSUMPTIONS = ["name dictionary (_build_signal_name_dict_for_group/_determine_name_usage/_set_number_usage): injectivity is NOT claimed - it is false (back-traces a, a, a0 -> a0, a1, a0); "
               "uniqueness of emitted identifiers rests on SignalNamespace.get_name alone (proved for every base name and history); legality/determinism of dictionary names stay bounded stand-ins"]
