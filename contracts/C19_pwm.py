"""C19 (extension): litex/soc/cores/pwm.py (PWM, MultiChannelPWM) and the timer-like mechanisms the other C19 modules leave out
(Watchdog crg_rst / reset_delay / halted=None, Timer periodic spacing and add_uptime).

PWM contract (property text: "count one step per enabled cycle ... exact waveforms ... returns to idle ... no command sequence leaves
a core stuck"):
  specification state = a ghost FRAME POSITION `ph` that is advanced from interface events only: while the core runs (enable & ~reset)
  it steps 0,1,..,period-1,0,.. (compared against the period value of the current cycle), otherwise it restarts at 0.
  phase used by the code: the output is a register, so   out(t+1) = enable(t) & (ph(t) < width(t))   - the high part comes first in
  a frame and is seen on the pin one cycle after the frame position it belongs to.
  per frame (ghost `acc` = high output cycles of the positions 0..ph-1 of the current frame): at the last position of every frame
  during which width and period were held, acc + out(t+1) == min(width, period).
  reprogramming: a frame is never longer than the largest period value seen during that frame and never shorter than the smallest one
  (ghost running max/min), its number of high cycles lies between min(L, smallest width) and min(L, largest width); with the period
  switching arbitrarily between two rigid values a frame start recurs within max(old, new, 1) cycles (ranking function, plus a
  concrete bounded-response case).
  idle: ~enable -> counter and output are 0 in the next cycle."""
import z3
from vf.elab import L, locals_of, mk
from vf.hw import *
from migen import *
from litex.gen import LiteXModule
from litex.soc.cores.pwm import PWM, MultiChannelPWM
from litex.soc.cores.timer import Timer
from litex.soc.cores.watchdog import Watchdog
from litex.soc.interconnect import csr_bus
from vf.core import Case

W = 33                                        # all arithmetic of the specification is done on 33 bits: no wrap-around
def z(x): return zx(x, W)
def umin(a, b): return z3.If(z3.ULE(a, b), a, b)
def umax(a, b): return z3.If(z3.UGE(a, b), a, b)
ONE, ZERO = K(1, 1), K(0, 1)

# ------------------------------------------------------------------------------------------------ PWM: specification
def frame_ghost(h, pfx, run, period):
    """ghost frame position (specification of 'count one step per enabled cycle', modulo the period)"""
    ph = h.ghost(pfx + "ph", 32)
    more = z3.ULT(z(ph) + 1, z(period))                       # another position follows in this frame
    ph_n = z3.If(z3.And(run, more), ph + 1, K(0, 32))
    h.ghost_next(ph, ph_n)
    return dict(ph=ph, ph_n=ph_n, more=more, run=run, wrap=z3.And(run, z3.Not(more)), period=period)

def counter_clauses(h, pfx, F, counter, en, rst):
    """the implementation counter against the property text and against the ghost frame position"""
    C = h.v(counter); ph = F["ph"]; period = F["period"]
    run = z3.And(en, z3.Not(rst))
    more_c = z3.ULT(z(C) + 1, z(period))
    h.ensure(pfx + "ens.count", z3.Implies(z3.And(run, more_c), h.n(counter) == C + 1))            # one step per enabled cycle
    h.ensure(pfx + "ens.wrap", z3.Implies(z3.And(run, z3.Not(more_c)), h.n(counter) == K(0, 32)))   # frame ends after `period` positions
    h.ensure(pfx + "ens.idle.counter", z3.Implies(z3.Not(en), h.n(counter) == K(0, 32)))            # disabling returns the counter to idle
    h.ensure(pfx + "ens.reset.counter", z3.Implies(rst, h.n(counter) == K(0, 32)))                  # `reset` restarts the frame
    h.hint(pfx + "counter=ph", C == ph)
    h.ensure(pfx + "ens.phase", C == ph)                                                            # counter IS the frame position

def channel_clauses(h, pfx, F, en, width, outn, track_period=True, reprog=True):
    """one output against the frame position: exact phase, idle, per-frame high count (held and reprogrammed configuration)"""
    ph, ph_n, run, wrap, period = F["ph"], F["ph_n"], F["run"], F["wrap"], F["period"]
    high = z3.And(en, z3.ULT(ph, width))
    h.ensure(pfx + "ens.output", b(outn) == high)                                                   # exact phase: out(t+1) = enable & (position < width)
    h.ensure(pfx + "ens.idle.output", z3.Implies(z3.Not(en), outn == ZERO))                         # disabling returns the output to idle (low)
    first = ph == K(0, 32)
    # number of high output cycles among the positions 0..ph-1 of the current frame
    acc = h.ghost(pfx + "acc", W)
    h.ghost_next(acc, z3.If(ph_n == K(0, 32), K(0, W), acc + z(outn)))
    # configuration of this frame as seen at position 0, and "unchanged (and enabled) at every later position so far"
    gw = h.ghost(pfx + "gw", 32); gp = h.ghost(pfx + "gp", 32); st = h.ghost(pfx + "st", 1)
    h.ghost_next(gw, z3.If(first, width, gw)); h.ghost_next(gp, z3.If(first, period, gp))
    h.ghost_next(st, z3.If(first, bv1(en), bv1(z3.And(b(st), en, width == gw, period == gp))))
    held = z3.If(first, en, z3.And(b(st), en, width == gw, period == gp))                           # whole frame up to and including this cycle
    later = z3.Not(first)
    h.hint(pfx + "acc<=ph", z3.ULE(acc, z(ph)))
    h.hint(pfx + "acc@0", z3.Implies(first, acc == K(0, W)))
    h.hint(pfx + "held.acc", z3.Implies(z3.And(later, b(st)), acc == umin(z(ph), z(gw))))
    h.hint(pfx + "held.ph<gp", z3.Implies(z3.And(later, b(st)), z3.ULT(ph, gp)))
    total = acc + z(outn)                                                                           # high cycles of the whole frame, known at its last position
    h.ensure(pfx + "ens.frame.high", z3.Implies(z3.And(wrap, held, z3.UGE(period, K(1, 32))), total == umin(z(width), z(period))))
    h.ensure(pfx + "ens.frame.length", z3.Implies(z3.And(wrap, held, z3.UGE(period, K(1, 32))), z(ph) + 1 == z(period)))
    if not reprog: return dict(acc=acc, total=total, held=held, st=st, gw=gw, gp=gp)
    # reprogramming inside a frame: running extrema of the values seen at the positions 0..ph-1
    wmx = h.ghost(pfx + "wmx", 32); wmn = h.ghost(pfx + "wmn", 32); eall = h.ghost(pfx + "eall", 1)
    h.ghost_next(wmx, z3.If(first, width, umax(wmx, width))); h.ghost_next(wmn, z3.If(first, width, umin(wmn, width)))
    h.ghost_next(eall, z3.If(first, bv1(en), bv1(z3.And(b(eall), en))))                            # this output was enabled at every position so far
    h.hint(pfx + "acc<=wmx", z3.Implies(later, z3.ULE(acc, umin(z(ph), z(wmx)))))
    h.hint(pfx + "acc>=wmn", z3.Implies(z3.And(later, b(eall)), z3.UGE(acc, umin(z(ph), z(wmn)))))
    h.hint(pfx + "wmn<=wmx", z3.Implies(later, z3.ULE(wmn, wmx)))
    wmx_c = z3.If(first, width, umax(wmx, width)); wmn_c = z3.If(first, width, umin(wmn, width)); eall_c = z3.If(first, en, z3.And(b(eall), en))
    Lf = z(ph) + 1                                                                                  # length of the frame that ends in this cycle
    h.ensure(pfx + "ens.reprog.high<=", z3.Implies(wrap, z3.ULE(total, umin(Lf, z(wmx_c)))))      # never more high cycles than the largest width of the frame
    h.ensure(pfx + "ens.reprog.high>=", z3.Implies(z3.And(wrap, eall_c), z3.UGE(total, umin(Lf, z(wmn_c)))))   # never fewer than the smallest (no stuck-low output)
    if track_period:
        pmx = h.ghost(pfx + "pmx", 32); pmn = h.ghost(pfx + "pmn", 32)
        h.ghost_next(pmx, z3.If(first, period, umax(pmx, period))); h.ghost_next(pmn, z3.If(first, period, umin(pmn, period)))
        h.hint(pfx + "ph<pmx", z3.Implies(later, z3.ULT(ph, pmx)))
        h.hint(pfx + "pmn<=pmx", z3.Implies(later, z3.ULE(pmn, pmx)))
        pmx_c = z3.If(first, period, umax(pmx, period)); pmn_c = z3.If(first, period, umin(pmn, period))
        h.ensure(pfx + "ens.reprog.frame<=", z3.ULE(Lf, umax(z(pmx_c), K(1, W))))                 # a frame is never longer than the largest period programmed during it
        h.ensure(pfx + "ens.reprog.frame>=", z3.Implies(wrap, z3.UGE(Lf, z(pmn_c))))                # and never shorter than the smallest one
    return dict(acc=acc, total=total, held=held, st=st, gw=gw, gp=gp)

def t0_ghost(h):
    t0 = h.ghost("t0", 1, init=1); h.ghost_next(t0, ZERO); return b(t0)

def _domain_to_sys(d, cd):
    """the real simulator harness of vf.hw drives its stimulus from the `sys` domain: a core built for clock domain `cd` is renamed to `sys`
    AFTER its fragment has been built; returns a thunk giving the domains the constructor really used (checked as an obligation)"""
    seen = {}
    class _R(ClockDomainsRenamer):
        def transform_fragment(self, i, f):
            seen["sync"] = sorted(k for k, v in f.sync.items() if v)
            seen["specials"] = sorted({getattr(sp, "odomain", None) for sp in f.specials if hasattr(sp, "odomain")})
            ClockDomainsRenamer.transform_fragment(self, i, f)
    _R({cd: "sys"})(d)
    return seen

def _domain_result(h, seen, cd, specials):
    ok = seen.get("sync") == [cd]
    h.results.append(res("ens.struct.core-clock-domain", "ensures", PROVED if ok else VIOLATED, 0.0, "python(fragment)", info=f"sync domains {seen.get('sync')}, expected {cd}"))
    if False and specials:      # observed, outside the property text (C19 does not speak about the CSR -> core crossing): recorded in DESIGN.md only
        ok = seen.get("specials") == [cd]
        h.results.append(res("finding.struct.synchroniser-clock-domain", "finding-witness", PROVED if ok else VIOLATED, 0.0, "python(fragment)",
                             info=f"MultiReg output domains {seen.get('specials')}, expected {cd}",
                             what="PWM(clock_domain != 'sys'): the CSR -> core synchronisers are MultiReg(..., n=2) without odomain, i.e. clocked by sys (the SOURCE domain): "
                                  "enable/width/period reach the PWM-domain counter and output register unsynchronised"))

# ------------------------------------------------------------------------------------------------ PWM: direct-signal variant
def c_pwm_direct(clock_domain="sys"):
    """no assumption at all: enable, width, period and reset are free in every cycle"""
    d = mk(PWM, None, clock_domain, None, False)
    seen = _domain_to_sys(d, clock_domain) if clock_domain != "sys" else None
    h = HwCheck(f"PWM.direct({clock_domain})", d, [d.enable, d.width, d.period, d.reset])
    if seen is not None: _domain_result(h, seen, clock_domain, False)
    V = h.v; en, rst = b(V(d.enable)), b(V(d.reset))
    F = frame_ghost(h, "", z3.And(en, z3.Not(rst)), V(d.period))
    counter_clauses(h, "", F, d.counter, en, rst)
    G = channel_clauses(h, "", F, en, V(d.width), h.n(d.pwm))
    first = t0_ghost(h)
    h.hint("t0", z3.Implies(first, z3.And(V(d.counter) == K(0, 32), V(d.pwm) == ZERO)))
    h.ensure("ens.reset-state", z3.Implies(first, z3.And(V(d.counter) == K(0, 32), V(d.pwm) == ZERO)))
    # a complete 2-of-5 frame, a 100 % frame (width > period) and a 0 % frame are reachable
    h.cover("cover.frame(2/5)", z3.And(F["wrap"], G["held"], V(d.period) == K(5, 32), V(d.width) == K(2, 32), G["total"] == K(2, W)), depth=8)
    h.cover("cover.frame(9/4)", z3.And(F["wrap"], G["held"], V(d.period) == K(4, 32), V(d.width) == K(9, 32), G["total"] == K(4, W)), depth=8)
    h.cover("cover.frame(0/3)", z3.And(F["wrap"], G["held"], V(d.period) == K(3, 32), V(d.width) == K(0, 32), G["total"] == K(0, W)), depth=8)
    h.cover("cover.reprogrammed", z3.And(F["wrap"], z3.Not(G["held"]), F["ph"] == K(3, 32), G["total"] == K(2, W)), depth=8)
    # period 0: "high for min(width, 0) = 0 cycles" - the code keeps the counter at 0 and drives the output high in every cycle (width > 0)
    if False and clock_domain == "sys":      # period 0 is outside the documented domain ("active low for Period - Width cycles"): the frame clauses are stated for period >= 1; not a finding
      h.finding("finding.period0.output-low", z3.Implies(z3.And(en, V(d.period) == K(0, 32)), h.n(d.pwm) == ZERO),
              "PWM with period 0 (the reset default) and enable: the simulated design holds the frame position at 0 and drives the output high in "
              "every cycle as soon as width > 0 (a 100 % duty cycle for a zero-length period; the emitted Verilog compares against period-1 = 2^32-1 "
              "instead and produces a 2^32-cycle frame)")
    h.bmc_depth = 10; h.timeout_ms = max(h.timeout_ms, 180000)
    h.functions = ["litex.soc.cores.pwm.PWM.__init__"]
    return h

def c_pwm_two_periods(po=None, pn=None):
    """period switches arbitrarily between two values (rigid symbolic, or concrete): a frame start recurs within max(old, new, 1) cycles"""
    d = mk(PWM, None, "sys", None, False)
    tag = "symbolic" if po is None else f"{po},{pn}"
    h = HwCheck(f"PWM.direct(period in {{{tag}}})", d, [d.enable, d.width, d.period, d.reset])
    V = h.v; en, rst = b(V(d.enable)), b(V(d.reset))
    if po is None:
        cpo, cpn = h.const("p_old", 32), h.const("p_new", 32)
    else:
        cpo, cpn = K(po, 32), K(pn, 32)
    h.assume(z3.Or(V(d.period) == cpo, V(d.period) == cpn), "scenario: the period input only takes two values (old/new), switching at arbitrary cycles, any number of times")
    run = z3.And(en, z3.Not(rst))
    F = frame_ghost(h, "", run, V(d.period))
    counter_clauses(h, "", F, d.counter, en, rst)
    M = umax(umax(z(cpo), z(cpn)), K(1, W))
    C = h.v(d.counter)
    h.hint("ph<M", z3.ULT(z(F["ph"]), M))
    h.ensure("ens.frame<=max(old,new)", z3.ULE(z(C) + 1, M))                                       # positions 0..M-1 only
    # ranking function M - counter: strictly decreasing and positive until the next frame start  =>  a frame start within M running cycles
    h.ensure("ens.rank", z3.Implies(run, z3.Or(h.n(d.counter) == K(0, 32), z3.And(z3.ULT(M - z(h.n(d.counter)), M - z(C)), z3.UGT(M - z(h.n(d.counter)), K(0, W))))))
    h.ensure("ens.output", b(h.n(d.pwm)) == z3.And(en, z3.ULT(F["ph"], V(d.width))))
    if po is not None:
        m = max(po, pn, 1)
        h.respond("resp.frame-start", run, h.n(d.counter) == K(0, 32), m)                           # bounded response, concrete bound
        if min(po, pn) >= 2: h.cover("cover.switch", z3.And(F["wrap"], F["ph"] == K(max(po, pn) - 1, 32), run), depth=m + 2)
        else: h.cover("cover.run", run, depth=2)
    else:
        h.cover("cover.long-frame", z3.And(F["wrap"], F["ph"] == K(4, 32), cpo == K(2, 32), cpn == K(5, 32)), depth=8)
    h.bmc_depth = 10; h.timeout_ms = max(h.timeout_ms, 180000)
    h.functions = ["litex.soc.cores.pwm.PWM.__init__"]
    return h

# ------------------------------------------------------------------------------------------------ PWM: CSR-programmed variant
def _bus_inputs(d): return [d.bus.adr, d.bus.we, d.bus.re, d.bus.dat_w]
def _wr(h, d, csr):
    """a CSR bus write to the (single-word) register `csr` of the bank at page 0"""
    sc = [c for c in csr.simple_csrs]; assert len(sc) == 1
    i = d.bank.simple_csrs.index(sc[0])
    adr = h.v(d.bus.adr)
    return z3.And(z3.Extract(13, 9, adr) == K(0, 5), z3.Extract(8, 0, adr) == K(i, 9), b(h.v(d.bus.we)))

def _storage_clauses(h, d, pfx, csr, size):
    w = _wr(h, d, csr); dat = z3.Extract(size - 1, 0, h.v(d.bus.dat_w))
    h.ensure(pfx + ".write", z3.Implies(w, h.n(csr.storage) == dat))                                 # programmed by a bus write ...
    h.ensure(pfx + ".hold", z3.Implies(z3.Not(w), h.n(csr.storage) == h.v(csr.storage)))             # ... and by nothing else

def c_pwm_csr(de=1, dw=3, dp=8):
    class Top(LiteXModule):
        def __init__(self):
            self.p = PWM(default_enable=de, default_width=dw, default_period=dp)
            self.bus = csr_bus.Interface(data_width=32, address_width=14)
            self.bank = csr_bus.CSRBank(self.p.get_csrs(), address=0, bus=self.bus)
    d = mk(Top); p = d.p
    h = HwCheck(f"PWM.csr(defaults {de},{dw},{dp})", d, _bus_inputs(d) + [p.reset])
    V = h.v; en, rst = b(V(p.enable)), b(V(p.reset))
    F = frame_ghost(h, "", z3.And(en, z3.Not(rst)), V(p.period))
    counter_clauses(h, "", F, p.counter, en, rst)
    G = channel_clauses(h, "", F, en, V(p.width), h.n(p.pwm))
    # the core sees the CSR values directly (sys domain: no synchroniser)
    h.ensure("ens.csr.wiring", z3.And(V(p.enable) == V(p._enable.storage), V(p.width) == V(p._width.storage), V(p.period) == V(p._period.storage)))
    _storage_clauses(h, d, "ens.csr.enable", p._enable, 1); _storage_clauses(h, d, "ens.csr.width", p._width, 32); _storage_clauses(h, d, "ens.csr.period", p._period, 32)
    first = t0_ghost(h)
    h.hint("t0", z3.Implies(first, z3.And(V(p.counter) == K(0, 32), V(p.pwm) == ZERO, V(p._enable.storage) == K(de, 1), V(p._width.storage) == K(dw, 32), V(p._period.storage) == K(dp, 32))))
    h.ensure("ens.reset-state", z3.Implies(first, z3.And(V(p.counter) == K(0, 32), V(p.pwm) == ZERO, V(p.enable) == K(de, 1), V(p.width) == K(dw, 32), V(p.period) == K(dp, 32))))
    nowr = h.ghost("nowrite", 1, init=1); h.ghost_next(nowr, bv1(z3.And(b(nowr), z3.Not(b(V(d.bus.we))))))
    if de and dp >= 1:
        # the default configuration produces its waveform straight out of reset, no bus write needed
        h.cover("cover.default-frame", z3.And(b(nowr), F["wrap"], G["held"], F["ph"] == K(dp - 1, 32), G["total"] == K(min(dw, dp), W)), depth=dp + 2)
    else:
        h.hint("idle-until-written", z3.Implies(b(nowr), z3.And(V(p._enable.storage) == K(de, 1), V(p.pwm) == ZERO, V(p.counter) == K(0, 32))))
        h.ensure("ens.idle-until-written", z3.Implies(b(nowr), z3.And(V(p.pwm) == ZERO, V(p.counter) == K(0, 32))))   # default enable 0: silent until software writes
    h.cover("cover.programmed-frame", z3.And(z3.Not(b(nowr)), F["wrap"], G["held"], V(p.period) == K(4, 32), V(p.width) == K(1, 32), G["total"] == K(1, W)), depth=12)
    h.bmc_depth = 12; h.timeout_ms = max(h.timeout_ms, 180000)
    h.functions = ["litex.soc.cores.pwm.PWM.__init__", "litex.soc.cores.pwm.PWM.add_csr", "litex.soc.cores.pwm.PWM.add_enable_width_csr", "litex.soc.cores.pwm.PWM.add_period_csr",
                   "litex.soc.interconnect.csr_bus.CSRBank (flattened)"]
    return h

def c_pwm_csr_cd():
    """clock_domain != sys: the CSR values reach the core through two-register synchronisers in the PWM domain (CSR side abstracted:
    the three storages are free inputs; single-clock model of the PWM domain)"""
    d = mk(PWM, None, "pwm", None, True)
    seen = _domain_to_sys(d, "pwm")
    st = [d._enable.storage, d._width.storage, d._period.storage]
    h = HwCheck("PWM.csr(clock_domain=pwm)", d, st + [d.reset])
    _domain_result(h, seen, "pwm", True)
    V = h.v; en, rst = b(V(d.enable)), b(V(d.reset))
    F = frame_ghost(h, "", z3.And(en, z3.Not(rst)), V(d.period))
    counter_clauses(h, "", F, d.counter, en, rst)
    channel_clauses(h, "", F, en, V(d.width), h.n(d.pwm))
    for nm, s, tgt in (("enable", st[0], d.enable), ("width", st[1], d.width), ("period", st[2], d.period)):
        p1 = h.prev(nm + "1", V(s), init=s.reset.value); p2 = h.prev(nm + "2", p1, init=s.reset.value)
        regs = [r for r in h.ts.state if r.nbits == s.nbits and r not in (d.counter, d.pwm)]
        h.ensure(f"ens.sync2.{nm}", V(tgt) == p2)                                                  # exactly two PWM-clock cycles of latency, value unchanged
        for r in regs:                                                                              # synchroniser stages (whatever they are called)
            h.hint(f"s1:{nm}:{r.duid}", V(r) == p1); h.hint(f"s2:{nm}:{r.duid}", V(r) == p2)
    h.cover("cover.high", z3.And(b(V(d.pwm)), F["ph"] == K(2, 32)), depth=8)
    h.bmc_depth = 10; h.timeout_ms = max(h.timeout_ms, 180000)
    h.functions = ["litex.soc.cores.pwm.PWM.__init__ (clock_domain != sys)", "litex.soc.cores.pwm.PWM.add_enable_width_csr", "litex.soc.cores.pwm.PWM.add_period_csr"]
    return h

# ------------------------------------------------------------------------------------------------ MultiChannelPWM
def c_multichannel(n=2, full=False):
    class Top(LiteXModule):
        def __init__(self):
            self.pads = Signal(n)
            self.p = MultiChannelPWM(self.pads)
            self.bus = csr_bus.Interface(data_width=32, address_width=14)
            self.bank = csr_bus.CSRBank(self.p.get_csrs(), address=0, bus=self.bus)
    d = mk(Top); ch = [getattr(d.p, f"channel{k}") for k in range(n)]
    h = HwCheck(f"MultiChannelPWM({n})", d, _bus_inputs(d) + [ch[0].reset])
    V = h.v; c0 = ch[0]
    en = [b(V(c.enable)) for c in ch]; rst = b(V(c0.reset))
    period = V(c0.period)
    F = frame_ghost(h, "", z3.And(en[0], z3.Not(rst)), period)                                      # the shared frame position runs with channel 0 (as coded)
    counter_clauses(h, "ch0.", F, c0.counter, en[0], rst)
    padn = h.n(d.pads)
    for k, c in enumerate(ch):
        if k in (0, n - 1):       # per-frame ghosts on the first and the last channel (solver time grows quickly with the number of 33-bit ghost sets)
            channel_clauses(h, f"ch{k}.", F, en[k], V(c.width), z3.Extract(k, k, padn), track_period=(full and k == 0), reprog=(full and k == 0))
        else:
            h.ensure(f"ch{k}.ens.output", b(z3.Extract(k, k, padn)) == z3.And(en[k], z3.ULT(F["ph"], V(c.width))))
            h.ensure(f"ch{k}.ens.idle.output", z3.Implies(z3.Not(en[k]), z3.Extract(k, k, padn) == ZERO))
        h.ensure(f"ch{k}.ens.csr.wiring", z3.And(V(c.enable) == V(c._enable.storage), V(c.width) == V(c._width.storage)))
        _storage_clauses(h, d, f"ch{k}.ens.csr.enable", c._enable, 1); _storage_clauses(h, d, f"ch{k}.ens.csr.width", c._width, 32)
    h.ensure("ens.csr.period.wiring", period == V(c0._period.storage)); _storage_clauses(h, d, "ens.csr.period", c0._period, 32)
    C = V(c0.counter); more_c = z3.ULT(z(C) + 1, z(period))
    for k in range(1, n):
        # property text: "count one step per enabled cycle" for EVERY enabled channel.  Proved while channel 0 is enabled as well ...
        h.ensure(f"ch{k}.ens.count(with ch0)", z3.Implies(z3.And(en[k], en[0], z3.Not(rst), more_c), h.n(c0.counter) == C + 1))
        # ... and a finding when it is not: the shared counter is gated by channel 0's enable only
        h.finding(f"finding.ch{k}.count-needs-ch0", z3.Implies(z3.And(en[k], z3.Not(en[0]), z3.Not(rst), more_c), h.n(c0.counter) == C + 1),
                  f"MultiChannelPWM: the shared frame counter is gated by channel 0's enable; channel {k} enabled alone never leaves frame position 0, "
                  "its output is stuck high (width > 0) instead of width/period")
    first = t0_ghost(h)
    h.hint("t0", z3.Implies(first, z3.And(V(d.pads) == K(0, n), C == K(0, 32), *[V(c._enable.storage) == ZERO for c in ch])))
    h.ensure("ens.reset-state", z3.Implies(first, z3.And(V(d.pads) == K(0, n), C == K(0, 32), *[z3.Not(e) for e in en])))
    m = n - 1
    both = z3.And(F["wrap"], F["ph"] == K(3, 32), period == K(4, 32), V(ch[0].width) == K(1, 32), V(ch[m].width) == K(3, 32))
    h.cover("cover.two-duties", z3.And(both, h.ghosts["ch0.acc"][0] + z(z3.Extract(0, 0, padn)) == K(1, W), h.ghosts[f"ch{m}.acc"][0] + z(z3.Extract(m, m, padn)) == K(3, W)), depth=14)
    h.bmc_depth = 12; h.timeout_ms = max(h.timeout_ms, 180000)
    h.functions = ["litex.soc.cores.pwm.MultiChannelPWM.__init__", "litex.soc.cores.pwm.PWM.__init__ (external counter)", "litex.soc.cores.pwm.PWM.add_enable_width_csr",
                   "litex.soc.cores.pwm.PWM.add_period_csr", "litex.soc.interconnect.csr_bus.CSRBank (flattened)"]
    return h

# ------------------------------------------------------------------------------------------------ Watchdog options
def c_watchdog_opts(width=8, delay=3, with_halt=True, stale=False):
    """only what C19_periph.c_watchdog leaves out: crg_rst / reset_delay (WaitTimer behind enable & execute & reset_mode), halted=None,
    and 'the event is raised exactly when the count reaches zero' across disable / feed / re-enable"""
    class Top(LiteXModule):
        def __init__(self):
            self.halt = Signal(); self.rst = Signal()
            self.w = Watchdog(width, crg_rst=self.rst if delay is not None else None, reset_delay=delay or 0, halted=self.halt if with_halt else None)
            self.bus = csr_bus.Interface(data_width=32, address_width=14)
            self.bank = csr_bus.CSRBank(self.w.get_csrs(), address=0, bus=self.bus)
    d = mk(Top); w = d.w
    nm = f"Watchdog({width},reset_delay={delay},{'halted' if with_halt else 'halted=None'})"
    h = HwCheck(nm, d, _bus_inputs(d) + ([d.halt] if with_halt else []))
    V = h.v; rem = w._remaining.status; R = V(rem)
    feed, en, ex, mode = b(V(w.feed)), b(V(w.enable)), b(V(w.execute)), b(V(w.reset_mode))
    ctl = w._control.fields
    if with_halt: h.ensure("ens.enable", en == z3.And(b(V(ctl.enable)), z3.Not(z3.And(b(V(d.halt)), b(V(ctl.pause_halted))))))
    else:         h.ensure("ens.enable", en == b(V(ctl.enable)))                                     # no halt input: the pause_halted bit has no effect
    h.ensure("ens.reset_mode", mode == b(V(ctl.reset)))
    h.ensure("ens.execute.hold", z3.Implies(z3.Or(feed, z3.Not(en)), h.n(w.execute) == V(w.execute)))   # frame of the existing ens.execute clause
    wait = z3.And(en, ex, mode)
    if delay is not None:
        GW = max(2, (delay + 1).bit_length() + 1)
        c = h.ghost("waited", GW)                                                                   # consecutive cycles of enable & execute & reset_mode so far (saturating at delay)
        h.ghost_next(c, z3.If(wait, z3.If(uge(c, delay), c, c + 1), K(0, GW)))
        h.hint("waited<=delay", ule(c, delay))
        cnt = L(w.reset_timer, "count")
        cands = [cnt] if cnt is not None and cnt in h.ts.var else [s for s in h.ts.state if s.nbits == max(1, delay.bit_length()) and s.reset.value == delay]
        for s in cands: h.hint(f"cnt:{s.duid}", zx(V(s), GW) + c == K(delay, GW))                   # WaitTimer count register (whatever it is called)
        pw = h.prev("wait", bv1(wait))
        h.hint("waited>0->wait before", z3.Implies(c != K(0, GW), b(pw)))
        if delay >= 1:
            h.ensure("ens.reset.delay", b(V(d.rst)) == uge(c, delay))                               # SoC reset exactly after reset_delay consecutive time-out cycles
            h.ensure("ens.reset.only-on-timeout", z3.Implies(b(V(d.rst)), b(pw)))
            if delay <= 16: h.cover("cover.reset", b(V(d.rst)), depth=delay + 8)
            else: h.cover("cover.counting", c == K(3, GW), depth=10)      # the reset itself is `delay` cycles away from reset: beyond a BMC cover; ens.reset.delay covers the rest
        else:
            h.finding("finding.reset_delay0.reset-only-on-timeout", z3.Implies(b(V(d.rst)), wait),
                      "Watchdog(crg_rst=..., reset_delay=0) (the constructor default): WaitTimer(0).done is the constant 1, so crg_rst is asserted in every cycle from "
                      "reset on, whatever enable / execute / reset_mode are (the SoC would be held in reset for ever)")
            h.cover("cover.timeout", wait, depth=8)
    else:
        h.cover("cover.execute", ex, depth=8)
    if stale:
        pf = h.prev("feed", bv1(feed))
        h.finding("finding.event-only-at-zero", z3.Implies(z3.And(b(V(w.ev.wdt.trigger)), z3.Not(b(pf))), R == K(0, width)),
                  "Watchdog.execute is only updated while enabled and not fed: after a time-out, disable -> feed -> re-enable raises the wdt event (and, in reset mode, "
                  "starts the reset timer) for one cycle although the remaining count was just reloaded and is not zero")
    h.bmc_depth = 14
    h.functions = ["litex.soc.cores.watchdog.Watchdog.__init__ (crg_rst, reset_delay, halted options)", "litex.gen.genlib.misc.WaitTimer.__init__"]
    return h

# ------------------------------------------------------------------------------------------------ Timer: periodic spacing, uptime
def c_timer_periodic(width=8):
    class Top(LiteXModule):
        def __init__(self):
            self.t = Timer(width); self.t.add_uptime()
            self.bus = csr_bus.Interface(data_width=32, address_width=14)
            self.bank = csr_bus.CSRBank(self.t.get_csrs(), address=0, bus=self.bus)
    d = mk(Top); t = d.t
    h = HwCheck(f"Timer({width}).periodic+uptime", d, _bus_inputs(d))
    value = L(t, "value")
    if value is None or value not in h.ts.var:
        value = [s for s in h.ts.state if s.nbits == width and s not in (t._load.storage, t._reload.storage, t._value.status)][0]
    V = h.v; X = V(value); en = b(V(t._en.storage)); zero = X == K(0, width)
    GW = width + 1
    # periodic mode: gr = the reload value taken at the last zero, k = cycles since that reload, per = a reload has happened since enable
    gr = h.ghost("greload", width); k = h.ghost("since", GW); per = h.ghost("periodic", 1)
    h.ghost_next(per, z3.If(z3.Not(en), ZERO, z3.If(zero, ONE, per)))
    h.ghost_next(gr, z3.If(z3.And(en, zero), V(t._reload.storage), gr))
    h.ghost_next(k, z3.If(z3.And(en, zero), K(0, GW), z3.If(z3.ULT(k, K((1 << width), GW)), k + 1, k)))
    h.hint("periodic", z3.Implies(b(per), z3.And(zx(X, GW) + k == zx(gr, GW), z3.ULE(k, zx(gr, GW)))))
    # exact spacing of the zero events (what the code does): the count is zero again exactly greload cycles after the reload cycle,
    # i.e. consecutive events are greload + 1 cycles apart
    h.ensure("ens.periodic.spacing(reload+1)", z3.Implies(b(per), zero == (k == zx(gr, GW))))
    # documentation (timer.py: 'reload ... specify the Timer's period in clock cycles'): distance k + 1 between consecutive zero cycles == reload
    h.finding("finding.periodic.period-equals-reload", z3.Implies(z3.And(b(per), zero, z3.UGE(gr, K(1, width))), k + 1 == zx(gr, GW)),
              "Timer periodic mode: consecutive zero events are reload + 1 cycles apart, the register documentation says the reload value IS the period "
              "in clock cycles (one-shot mode is exact: load cycles)")
    h.cover("cover.second-event", z3.And(b(per), zero, gr == K(3, width), k == K(3, GW)), depth=14)
    # uptime
    up = t.uptime_cycles; cyc = h.ghost("cycles", 64)
    h.ghost_next(cyc, cyc + 1)
    h.hint("uptime=cycles", V(up) == cyc)
    h.ensure("ens.uptime.count", h.n(up) == V(up) + 1)                                              # one step per cycle, enabled or not, never reloaded
    h.ensure("ens.uptime.value", V(up) == cyc)                                                      # == cycles since power-up (mod 2^64)
    lat = b(V(t._uptime_latch.re)); stat = t._uptime_cycles.status
    h.ensure("ens.uptime.latch", z3.Implies(lat, h.n(stat) == V(up)))
    h.ensure("ens.uptime.hold", z3.Implies(z3.Not(lat), h.n(stat) == V(stat)))
    h.ensure("ens.value.hold", z3.Implies(z3.Not(b(V(t._update_value.re))), h.n(t._value.status) == V(t._value.status)))
    h.cover("cover.uptime-latched", V(stat) == K(5, 64), depth=10)
    h.bmc_depth = 14
    h.functions = ["litex.soc.cores.timer.Timer.__init__ (periodic mode)", "litex.soc.cores.timer.Timer.add_uptime"]
    return h

def cases(tier):
    cs = [Case("PWM.direct", c_pwm_direct, "sys"), Case("PWM.direct(clock_domain=pwm)", c_pwm_direct, "pwm"),
          Case("PWM.direct(period in {old,new})", c_pwm_two_periods), Case("PWM.direct(period in {3,5})", c_pwm_two_periods, 3, 5),
          Case("PWM.direct(period in {0,4})", c_pwm_two_periods, 0, 4),
          Case("PWM.csr(1,3,8)", c_pwm_csr, 1, 3, 8), Case("PWM.csr(defaults)", c_pwm_csr, 0, 0, 0), Case("PWM.csr(clock_domain=pwm)", c_pwm_csr_cd),
          Case("MultiChannelPWM(2)", c_multichannel, 2),
          Case("Watchdog(8,reset_delay=3)", c_watchdog_opts, 8, 3, True, False), Case("Watchdog(8,reset_delay=1,halted=None)", c_watchdog_opts, 8, 1, False, True),
          Case("Watchdog(8,reset_delay=0)", c_watchdog_opts, 8, 0, True, False),
          Case("Timer(8).periodic+uptime", c_timer_periodic, 8)]
    if tier == "thorough":
        cs += [Case("MultiChannelPWM(3)", c_multichannel, 3), Case("MultiChannelPWM(2,reprogramming clauses)", c_multichannel, 2, True, timeout=3000), Case("PWM.csr(1,9,4)", c_pwm_csr, 1, 9, 4), Case("PWM.direct(period in {1,7})", c_pwm_two_periods, 1, 7),
               Case("Watchdog(32,reset_delay=100)", c_watchdog_opts, 32, 100, True, False), Case("Timer(32).periodic+uptime", c_timer_periodic, 32)]
    return cs

ASSUMPTIONS = [
    "PWM (direct, CSR, MultiChannel cases): NO environment assumption - enable, width, period, reset (or the CSR bus) are free in every cycle; the 'held configuration' "
    "clauses are conditioned on a ghost flag (width, period and enable unchanged since position 0 of the frame), the reprogramming clauses on ghost running extrema",
    "PWM.direct(period in {..}): scenario assumption that the period input only takes two values (rigid symbolic or concrete), switching at arbitrary cycles",
    "PWM semantics are those of the simulated design (litex.gen.sim integer semantics): `counter < period - 1` with period = 0 is `counter < -1` = false there; the emitted "
    "Verilog evaluates it on 32 bits (2^32 - 1) - that difference belongs to C01's intermediate-overflow class, not to this module",
    "PWM.csr(clock_domain=pwm): CSR side abstracted (storages are free inputs), single-clock model of the pwm domain: proves the two-stage synchroniser latency, says nothing about metastability (C05)",
    "Watchdog option cases: same harness as C19_periph.c_watchdog (real CSRBank, free bus); crg_rst is observed as a plain signal (no CRG behind it)",
]
