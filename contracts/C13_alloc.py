"""C13: SoC resource allocation never hands out overlapping or out-of-range resources.
E3 pysym: the REAL functions of litex/soc/integration/soc.py are executed by CPython on z3-backed proxies; loops over unbounded
symbolic collections are cut by a mechanical AST rewrite of the function's current source around sidecar loop invariants.
Class invariants are proved as: from an ARBITRARY object state satisfying Inv, every mutator either raises SoCError or re-establishes Inv."""
import sys, time, logging, itertools, z3
from vf import elab
from vf import pysym
from vf.pysym import *
from vf.core import Case, PROVED, VIOLATED, NOINPUT, UNKNOWN, BOUNDED_OK, OK, VACUOUS
from vf.hw import res
from litex.soc.integration import soc as S

FIELDS = {"origin": "int", "size": "int", "size_pow2": "int", "linker": "bool", "cached": "bool"}
def ov_t(o0, p0, o1, p1): return z3.And(o0 < o1 + p1, o1 < o0 + p0)

def _results(prefix, paths, obl, t0, replay=None):
    out = []
    seen = {}
    for n, s, m in obl:
        k = seen.get(n, 0); seen[n] = k + 1
        st = {"proved": PROVED, "FAILED": NOINPUT, "unknown": UNKNOWN}[s]
        info = {}
        if s == "FAILED" and m is not None:
            info["model"] = {str(d_): str(m[d_]) for d_ in m.decls()}
            if replay is not None:
                try:
                    rp = replay(m)
                    info["replay_info"] = rp
                    if rp and rp.get("reproduced"): st = VIOLATED
                except Exception as e: info["replay_error"] = f"{type(e).__name__}: {e}"
        out.append(res(f"{prefix}.{n}#{k}", "pysym", st, 0, "z3-5.1.0(api)", **info))
    out.append(res(f"{prefix}.all-paths-explored", "cover", OK if paths > 0 else VACUOUS, time.time() - t0, "pysym", paths=paths))
    return out

def c_overlap_contract():
    """check_regions_overlap(regions): None => all non-linker pairs disjoint ; (n0,n1) => that pair overlaps (unbounded collection)"""
    t0 = time.time()
    def run(ctx):
        seq = SymRecordSeq("R", FIELDS); regs = SymDict(seq)
        ctx.assume(SymBool(seq.len >= 0))
        o, p, lk = seq.fn["origin"], seq.fn["size_pow2"], seq.fn["linker"]
        a, b_ = z3.Ints("a b")
        def pair_ok(x, y): return z3.Or(lk(x), lk(y), z3.Not(ov_t(o(x), p(x), o(y), p(y))))
        loops = {
            0: dict(havoc={"i": "int"}, inv=lambda L: z3.And(toint(L["i"]) >= 0, toint(L["i"]) <= seq.len,
                        z3.ForAll([a, b_], z3.Implies(z3.And(0 <= a, a < toint(L["i"]), a < b_, b_ < seq.len), pair_ok(a, b_))))),
            1: dict(pos="j", inv=lambda L: z3.And(toint(L["i"]) >= 0, toint(L["i"]) < seq.len,
                        z3.ForAll([b_], z3.Implies(z3.And(toint(L["i"]) < b_, b_ < toint(L["i"]) + 1 + toint(L["j"])), pair_ok(toint(L["i"]), b_))),
                        z3.ForAll([a, b_], z3.Implies(z3.And(0 <= a, a < toint(L["i"]), a < b_, b_ < seq.len), pair_ok(a, b_))))),
        }
        vc = VC(loops)
        fn, src = rewrite(S.SoCBusHandler.check_regions_overlap, loops, vc)
        r = fn(None, regs)
        if r is None:
            ctx.check("post.none=>pairwise-disjoint", z3.ForAll([a, b_], z3.Implies(z3.And(0 <= a, a < b_, b_ < seq.len), pair_ok(a, b_))))
        else:
            k0, k1 = r
            ctx.check("post.pair=>overlaps", z3.And(ov_t(o(k0.idx), p(k0.idx), o(k1.idx), p(k1.idx)), z3.Not(lk(k0.idx)), z3.Not(lk(k1.idx)), k0.idx < k1.idx, k1.idx < seq.len, k0.idx >= 0))
    paths, obl = explore(run)
    return dict(results=_results("check_regions_overlap", paths, obl, t0), functions=["litex.soc.integration.soc.SoCBusHandler.check_regions_overlap"],
                samples=[dict(function="check_regions_overlap", paths=paths, loop_invariants=2, collection="unbounded symbolic sequence of regions")])

def combined(regs, f):
    seq = regs.seq
    def g(i):
        t = seq.fn[f](i)
        for j, (k, v) in reversed(list(enumerate(regs.extra))):
            x = getattr(v, f)
            xt = tobool(x) if FIELDS[f] == "bool" else toint(x)
            t = z3.If(i == seq.len + j, xt, t)
        return t
    return g

def c_add_region(io_check=False):
    """from an arbitrary handler state satisfying Inv (non-linker regions pairwise disjoint on their power-of-two windows),
    add_region(name, r) with a fixed-origin region either raises SoCError or re-establishes Inv"""
    t0 = time.time()
    def run(ctx):
        seq = SymRecordSeq("R", FIELDS); regs = SymDict(seq)
        ctx.assume(SymBool(seq.len >= 0))
        a, b_ = z3.Ints("a b")
        bus = S.SoCBusHandler.__new__(S.SoCBusHandler)
        bus.logger = logging.getLogger("x"); bus.logger.disabled = True
        bus.regions = regs; bus.io_regions = {}; bus.io_regions_check = io_check; bus.address_width = 32
        o0, p0, l0 = seq.fn["origin"], seq.fn["size_pow2"], seq.fn["linker"]
        inv0 = z3.ForAll([a, b_], z3.Implies(z3.And(0 <= a, a < b_, b_ < seq.len), z3.Or(l0(a), l0(b_), z3.Not(ov_t(o0(a), p0(a), o0(b_), p0(b_))))))
        ctx.assume(SymBool(inv0))
        r = S.SoCRegion.__new__(S.SoCRegion)
        r.origin = SymInt(z3.Int("n.origin")); r.size = SymInt(z3.Int("n.size")); r.size_pow2 = SymInt(z3.Int("n.pow2"))
        r.linker = SymBool(z3.Bool("n.linker")); r.cached = True; r.mode = "rw"; r.decode = True; r.logger = bus.logger
        ctx.assume((r.origin >= 0) & (r.size > 0) & (r.size_pow2 >= r.size))
        def O(f): return combined(regs, f)
        def pair_ok(x, y): return z3.Or(O("linker")(x), O("linker")(y), z3.Not(ov_t(O("origin")(x), O("size_pow2")(x), O("origin")(y), O("size_pow2")(y))))
        def tl(): return toint(regs.total_len())
        loops = {
            0: dict(havoc={"i": "int"}, inv=lambda L: z3.And(toint(L["i"]) >= 0, toint(L["i"]) <= tl(),
                        z3.ForAll([a, b_], z3.Implies(z3.And(0 <= a, a < toint(L["i"]), a < b_, b_ < tl()), pair_ok(a, b_))))),
            1: dict(pos="j", inv=lambda L: z3.And(toint(L["i"]) >= 0, toint(L["i"]) < tl(),
                        z3.ForAll([b_], z3.Implies(z3.And(toint(L["i"]) < b_, b_ < toint(L["i"]) + 1 + toint(L["j"])), pair_ok(toint(L["i"]), b_))),
                        z3.ForAll([a, b_], z3.Implies(z3.And(0 <= a, a < toint(L["i"]), a < b_, b_ < tl()), pair_ok(a, b_))))),
        }
        vc = VC(loops)
        fn, _ = rewrite(S.SoCBusHandler.check_regions_overlap, loops, vc)
        bus.check_regions_overlap = lambda regions, check_linker=False: fn(bus, regions, check_linker)
        name_present = "newname" in regs
        try:
            S.SoCBusHandler.add_region(bus, "newname", r)
        except S.SoCError:
            elab.restore_stderr()
            return
        ctx.check("post.inv", z3.ForAll([a, b_], z3.Implies(z3.And(0 <= a, a < b_, b_ < tl()), pair_ok(a, b_))))
        ctx.check("post.added", z3.BoolVal(len(regs.extra) == 1 and regs.extra[0][1] is r))
    paths, obl = explore(run)
    elab.restore_stderr()
    return dict(results=_results("add_region", paths, obl, t0), functions=["litex.soc.integration.soc.SoCBusHandler.add_region", "litex.soc.integration.soc.SoCBusHandler.check_regions_overlap (loop-cut, inlined)"],
                samples=[dict(function="add_region", paths=paths, state="arbitrary handler state satisfying the class invariant; unbounded symbolic region collection")])

# ---- location handlers: injective names -> numbers inside [0, n_locs) -------------------------------------------------------------
class _SymName:
    def __init__(self, t): self.t = t
    def __format__(self, spec): return f"<name {self.t}>"
    __str__ = __repr__ = lambda self: f"<name {self.t}>"
    def __hash__(self): return id(self)
    def __eq__(self, o): return isinstance(o, _SymName) and bool(SymBool(self.t == o.t))
class _SymLocs:
    """dict proxy: names are symbolic identities (ints); content = z3 arrays present[name], val[name]"""
    def __init__(self, pres, val): self.pres, self.val = pres, val
    def keys(self): return _View(self, "k")
    def values(self): return _View(self, "v")
    def items(self): raise Unsupported("items")
    def __getitem__(self, name): return SymInt(z3.Select(self.val, name.t))
    def __setitem__(self, name, n):
        self.pres = z3.Store(self.pres, name.t, z3.BoolVal(True)); self.val = z3.Store(self.val, name.t, toint(n))
    def get(self, name, default=None): raise Unsupported("get")
class _View:
    def __init__(self, d, kind): self.d, self.kind = d, kind
    def __contains__(self, x):
        if self.kind == "k": return bool(SymBool(z3.Select(self.d.pres, x.t)))
        if x is None: return False
        k = z3.Int("k")
        return bool(SymBool(z3.Exists([k], z3.And(z3.Select(self.d.pres, k), z3.Select(self.d.val, k) == toint(x)))))
    def __len__(self): return 1

def c_lochandler(n_locs=32, mode="fixed"):
    t0 = time.time()
    models = []
    def run(ctx):
        hnd = S.SoCLocHandler.__new__(S.SoCLocHandler)
        hnd.logger = logging.getLogger("x"); hnd.logger.disabled = True
        hnd.name = "IRQ"; hnd.n_locs = n_locs
        pres = z3.Array("pres", z3.IntSort(), z3.BoolSort()); val = z3.Array("val", z3.IntSort(), z3.IntSort())
        locs = _SymLocs(pres, val); hnd.locs = locs
        a, b_ = z3.Ints("a b")
        def inv(P, V): return z3.And(z3.ForAll([a, b_], z3.Implies(z3.And(z3.Select(P, a), z3.Select(P, b_), a != b_), z3.Select(V, a) != z3.Select(V, b_))),
                                     z3.ForAll([a], z3.Implies(z3.Select(P, a), z3.And(z3.Select(V, a) >= 0, z3.Select(V, a) < n_locs))))
        ctx.assume(SymBool(inv(pres, val)))
        name = _SymName(z3.Int("name"))
        n = SymInt(z3.Int("n")) if mode == "fixed" else None
        try:
            S.SoCLocHandler.add(hnd, name, n, use_loc_if_exists=(mode == "reuse"))
        except S.SoCError:
            elab.restore_stderr(); return
        ctx.check("post.inv(injective,in-range)", inv(locs.pres, locs.val))
        ctx.check("post.granted", z3.And(z3.Select(locs.pres, name.t), z3.Select(locs.val, name.t) >= 0, z3.Select(locs.val, name.t) < n_locs))
        ctx.check("post.frame", z3.ForAll([a], z3.Implies(a != name.t, z3.And(z3.Select(locs.pres, a) == z3.Select(pres, a), z3.Select(locs.val, a) == z3.Select(val, a)))))
    paths, obl = explore(run, max_paths=5000)
    elab.restore_stderr()
    def replay(m):
        # native replay of the counter-model: an empty handler and the model's location number
        nv = [m[d_] for d_ in m.decls() if str(d_) == "n"]
        if not nv: return dict(reproduced=False)
        nv = nv[0].as_long()
        hd = S.SoCLocHandler("IRQ", n_locs); hd.logger = logging.getLogger("x"); hd.logger.disabled = True
        try: hd.add("client", nv)
        except S.SoCError: elab.restore_stderr(); return dict(reproduced=False, n=nv)
        return dict(reproduced=not (0 <= hd.locs["client"] < n_locs), n=nv, granted=hd.locs["client"], call=f"SoCLocHandler('IRQ', {n_locs}).add('client', {nv})")
    return dict(results=_results(f"SoCLocHandler.add[{mode},n_locs={n_locs}]", paths, obl, t0, replay if mode == "fixed" else None),
                functions=["litex.soc.integration.soc.SoCLocHandler.add", "litex.soc.integration.soc.SoCLocHandler.alloc"],
                samples=[dict(function="SoCLocHandler.add", mode=mode, paths=paths, state="arbitrary name->number map satisfying the invariant (z3 arrays)")])

# ---- bounded stand-ins (labelled; never counted as proved) ------------------------------------------------------------------------
def c_alloc_bounded():
    """alloc_region / add_region with automatic origins: exhaustive small scope through the real functions"""
    evals = 0; bad = []
    sizes = [0x100, 0x300, 0x400, 0x1000, 0x1800, 0x10000]
    for io_size in (0x1000, 0x4000):
        for seq in itertools.product(sizes, repeat=3):
            for cached_mask in itertools.product([True, False], repeat=3):
                bus = S.SoCBusHandler(standard="wishbone", data_width=32, address_width=32); elab.restore_stderr()
                bus.add_region("io", S.SoCIORegion(origin=0x8000, size=io_size, cached=False))
                acc = []
                for k, (sz, ca) in enumerate(zip(seq, cached_mask)):
                    evals += 1
                    try:
                        bus.add_region(f"r{k}", S.SoCRegion(origin=None, size=sz, cached=ca)); acc.append(bus.regions[f"r{k}"])
                    except S.SoCError:
                        bus.regions.pop(f"r{k}", None)
                    finally: elab.restore_stderr()
                for x in range(len(acc)):
                    r = acc[x]
                    if r.origin % r.size_pow2: bad.append(("unaligned", seq, cached_mask))
                    if r.origin < 0 or r.origin + r.size_pow2 > 2**32: bad.append(("outside address space", seq, cached_mask))
                    if not r.cached and not (0x8000 <= r.origin and r.origin + r.size_pow2 <= 0x8000 + io_size): bad.append(("uncached outside IO region", seq, cached_mask))
                    for y in range(x + 1, len(acc)):
                        q = acc[y]
                        if r.origin < q.origin + q.size_pow2 and q.origin < r.origin + r.size_pow2: bad.append(("overlap", seq, cached_mask))
    st = BOUNDED_OK if not bad else VIOLATED
    return dict(results=[res("alloc_region[<=3 requests,6 sizes,2 IO sizes]", "bounded", st, 0, "exhaustive small-scope enumeration through the real functions", evaluations=evals, info=str(bad[:3]))],
                functions=["litex.soc.integration.soc.SoCBusHandler.alloc_region (bounded)"], samples=[dict(bounded="alloc_region", evaluations=evals)])

def c_region_pow2():
    bad = []
    n = 0
    for size in list(range(1, 5000)) + [2**k + d for k in range(12, 33) for d in (-1, 0, 1)]:
        n += 1
        r = S.SoCRegion(origin=0, size=size)
        p = r.size_pow2
        if not (p >= size and p & (p - 1) == 0 and (p == 1 or p // 2 < size)): bad.append(size)
    return dict(results=[res("SoCRegion.size_pow2[1..4999 + around 2^12..2^32]", "bounded", BOUNDED_OK if not bad else VIOLATED, 0, "evaluation of the real constructor", evaluations=n, info=str(bad[:5]))],
                functions=["litex.soc.integration.soc.SoCRegion.__init__ (bounded)"], samples=[dict(bounded="SoCRegion.size_pow2", evaluations=n)])

def c_platform_bounded():
    """ConstraintManager.request/lookup_request: a resource is granted at most once and leaves `available` exactly when it enters `matched`"""
    from litex.build.generic_platform import ConstraintManager, Pins, Subsignal, ConstraintError
    io = [("led", 0, Pins("A1")), ("led", 1, Pins("A2")), ("uart", 0, Subsignal("tx", Pins("B1")), Subsignal("rx", Pins("B2"))), ("clk", 0, Pins("C1"))]
    reqs = [("led", 0), ("led", 1), ("led", None), ("uart", 0), ("uart", None), ("clk", None), ("nope", None), ("led", 2)]
    evals = 0; bad = []
    for seq in itertools.product(range(len(reqs)), repeat=3):
        cm = ConstraintManager(list(io), [])
        granted = []
        for k in seq:
            name, num = reqs[k]; evals += 1
            try:
                cm.request(name, num); 
                res_ = cm.matched[-1][0]
                if not (res_[0] == name and (num is None or res_[1] == num)): bad.append(("granted resource does not match the request", seq, (name, num), res_[:2]))
                if res_ in granted: bad.append(("granted twice", seq))
                granted.append(res_)
                if res_ in cm.available: bad.append(("still available", seq))
            except ConstraintError: pass
        if len(cm.available) + len(granted) != len(io): bad.append(("count", seq))
        for (name, num) in reqs:
            try:
                cm.lookup_request(name, num if num is not None else 0, loose=False)
                if not any(r_[0] == name and (num is None or r_[1] == num) for r_ in granted): bad.append(("lookup of ungranted", seq, name, num))
            except ConstraintError: pass
    return dict(results=[res("ConstraintManager.request[<=3 requests x 8 request kinds]", "bounded", BOUNDED_OK if not bad else VIOLATED, 0, "exhaustive small-scope enumeration through the real functions", evaluations=evals, info=str(bad[:3]))],
                functions=["litex.build.generic_platform.ConstraintManager.request/lookup_request (bounded)"], samples=[dict(bounded="ConstraintManager", evaluations=evals)])

def c_platform_clients_bounded():
    """request / request_all / request_remaining in every order (<= 3 calls out of 12 kinds, loose requests included): whatever a call RETURNS to its client, no platform signal
    is handed to two clients ("platform IO resources ... are each granted to at most one client"), judged on the returned objects - not on the manager's books"""
    from litex.build.generic_platform import ConstraintManager, Pins, Subsignal, ConstraintError
    from migen.fhdl.tools import list_signals
    from migen.genlib.record import Record
    io = [("led", 0, Pins("A1")), ("led", 1, Pins("A2")), ("led", 2, Pins("A3")), ("uart", 0, Subsignal("tx", Pins("B1")), Subsignal("rx", Pins("B2"))), ("clk", 0, Pins("C1"))]
    ops = [("request", "led", 0), ("request", "led", 1), ("request", "led", 2), ("request", "led", None), ("request_all", "led", None), ("request_remaining", "led", None),
           ("request", "uart", None), ("request", "uart", 0), ("request_all", "clk", None), ("request_loose", "led", 0), ("request_loose", "uart", 0), ("request_loose", "led", None)]
    def leaves(o):
        if isinstance(o, Record): return [x for x in o.flatten()]
        return list(list_signals(o))
    evals = 0; bad = []
    for seq in itertools.product(range(len(ops)), repeat=3):
        cm = ConstraintManager(list(io), []); owner = {}
        for pos, k in enumerate(seq):
            op, name, num = ops[k]; evals += 1
            try: r = cm.request(name, num) if op == "request" else (cm.request(name, num, loose=True) if op == "request_loose" else getattr(cm, op)(name))
            except (ConstraintError, ValueError): continue
            if r is None: continue              # a loose request that found nothing grants nothing
            for sg in leaves(r):
                if id(sg) in owner and owner[id(sg)] != pos:
                    bad.append(dict(sequence=[f"{ops[j][0]}({ops[j][1]!r}{'' if ops[j][2] is None else ', ' + str(ops[j][2])})" for j in seq], what=f"call #{pos} received a signal already handed to call #{owner[id(sg)]}")); break
                owner[id(sg)] = pos
        if len(bad) > 5: break
    return dict(results=[res("ConstraintManager.request/request_all/request_remaining[<=3 calls x 12 kinds]: no signal handed to two clients", "bounded", BOUNDED_OK if not bad else VIOLATED, 0,
                             "exhaustive small-scope enumeration through the real functions", evaluations=evals, witness=bad[:3], replayed=True)],
                functions=["litex.build.generic_platform.ConstraintManager.request_all/request_remaining (bounded, judged on the returned signals)"], samples=[dict(bounded="ConstraintManager clients", evaluations=evals)])

def c_decoders(tier):
    from contracts.C06_wishbone_ic import c_decoder_window
    out = []
    for dw in (32, 64):
        for ok in ("zero", "mid", "top"):
            out += c_decoder_window(list(range(2, 33)), dw, ok)["results"]
    return dict(results=out, functions=["litex.soc.integration.soc.SoCRegion.decoder"])

def c_decoder_align(tier):
    """SoCRegion.decoder: for EVERY origin >= 0, per (decoded size 2**e, declared size rounding up to it, bus width): the decoder is refused
    (SoCError) exactly when the origin is not aligned on the DECODED (power-of-two) size - 'aligned to their decoded size ... no address
    selects two slaves'; the real function runs on a symbolic origin"""
    t0 = time.time(); out = []
    exps = [2, 3, 5, 12, 16, 20, 31] if tier == "quick" else list(range(2, 32))
    for dw in (32, 64):
        class B: data_width = dw; address_width = 32
        for e in exps:
            P = 1 << e
            for sz in sorted({P, P - (P >> 2) if e >= 3 else P, (P >> 1) + 1 if e >= 2 else P}):
                r0 = S.SoCRegion(origin=0, size=sz)
                if r0.size_pow2 != P: continue
                def run(ctx, sz=sz, P=P):
                    origin = SymInt(z3.Int("origin")); ctx.assume(origin >= 0)
                    r = S.SoCRegion(origin=origin, size=sz); r.logger = logging.getLogger("x"); r.logger.disabled = True
                    try:
                        r.decoder(B)
                    except S.SoCError:
                        elab.restore_stderr(); ctx.check("refused=>origin-not-aligned-on-decoded-size", z3.Int("origin") % P != 0); return
                    ctx.check("accepted=>origin-aligned-on-decoded-size", z3.Int("origin") % P == 0)
                paths, obl = explore(run)
                elab.restore_stderr()
                def replay(m, sz=sz, P=P):
                    ov = [m[d_] for d_ in m.decls() if str(d_) == "origin"]
                    if not ov: return dict(reproduced=False)
                    ov = ov[0].as_long(); rr = S.SoCRegion(origin=ov, size=sz); rr.logger = logging.getLogger("x"); rr.logger.disabled = True
                    try: rr.decoder(B); refused = False
                    except S.SoCError: elab.restore_stderr(); refused = True
                    return dict(reproduced=refused != (ov % P != 0), origin=hex(ov), size=hex(sz), decoded_size=hex(P), refused=refused, call=f"SoCRegion(origin={ov:#x}, size={sz:#x}).decoder(bus {dw}-bit)")
                rs = _results(f"SoCRegion.decoder.align[size={sz:#x},2**{e},dw={dw}]", paths, obl, t0, replay)
                if paths < 2: rs.append(res(f"SoCRegion.decoder.align[size={sz:#x},2**{e},dw={dw}].both-outcomes-reachable", "cover", VACUOUS, 0, "pysym", paths=paths))
                out += rs
    return dict(results=out, functions=["litex.soc.integration.soc.SoCRegion.decoder (alignment test, all origins)"],
                samples=[dict(function="SoCRegion.decoder", origin="symbolic int >= 0", sizes="2**e and two non-power-of-two sizes rounding up to it")])

def c_reserved_locations(kind, k):
    """SoCIRQHandler / SoCCSRHandler constructors with k reserved entries whose NUMBERS are symbolic (names concrete and different): whatever the
    constructor's internal shape, when it returns (and the handler is enabled) every recorded location is inside [0, n_locs), no two names share
    a number, and a later add()/alloc() of a new client never receives a reserved number.  No source rewriting: independent of loop structure."""
    t0 = time.time(); names = [f"rsv{i}" for i in range(k)]
    def build(vals):
        if kind == "irq": h = S.SoCIRQHandler(n_irqs=32, reserved_irqs=dict(zip(names, vals)))
        else: h = S.SoCCSRHandler(data_width=32, address_width=14, alignment=32, paging=0x800, ordering="big", reserved_csrs=dict(zip(names, vals)))
        return h
    def run(ctx):
        vals = [SymInt(z3.Int(f"n{i}")) for i in range(k)]
        lg = logging.getLogger("SoCIRQHandler" if kind == "irq" else "SoCCSRHandler"); lg.disabled = True; logging.getLogger("SoCLocHandler").disabled = True
        try:
            h = build(vals)
        except S.SoCError:
            elab.restore_stderr(); return
        elab.restore_stderr(); h.logger.disabled = True
        N = h.n_locs
        locs = dict(h.locs)
        ctx.check("post.reserved-entries-recorded-or-refused", z3.BoolVal(set(locs) == set(names)))
        for nm_, v in locs.items(): ctx.check(f"post.in-range[{nm_}]", z3.And(toint(v) >= 0, toint(v) < N))
        for a_, b_ in itertools.combinations(sorted(locs), 2): ctx.check(f"post.different-numbers[{a_},{b_}]", toint(locs[a_]) != toint(locs[b_]))
        if kind == "irq": h.enable()
        try:
            h.add("client")                                   # automatic allocation for a new client
        except S.SoCError:
            elab.restore_stderr(); return
        got = h.locs["client"]
        for nm_, v in locs.items(): ctx.check(f"post.new-client-number-differs-from[{nm_}]", toint(got) != toint(v))
        ctx.check("post.new-client-in-range", z3.And(toint(got) >= 0, toint(got) < N))
    paths, obl = explore(run, max_paths=4000)
    elab.restore_stderr()
    def replay(m):
        vs = []
        for i in range(k):
            d_ = [m[x] for x in m.decls() if str(x) == f"n{i}"]; vs.append(d_[0].as_long() if d_ else 0)
        try: h = build(vs)
        except S.SoCError: elab.restore_stderr(); return dict(reproduced=False, numbers=vs, outcome="refused")
        elab.restore_stderr(); vals = list(h.locs.values())
        bad = len(set(vals)) != len(vals) or any(not (0 <= v < h.n_locs) for v in vals)
        return dict(reproduced=bad, numbers=vs, recorded=dict(h.locs), n_locs=h.n_locs, call=f"{'SoCIRQHandler' if kind == 'irq' else 'SoCCSRHandler'}(reserved={dict(zip(names, vs))})")
    out = _results(f"{'SoCIRQHandler' if kind == 'irq' else 'SoCCSRHandler'}.__init__[{k} reserved, symbolic numbers]", paths, obl, t0, replay)
    return dict(results=out, functions=[f"litex.soc.integration.soc.{'SoCIRQHandler' if kind == 'irq' else 'SoCCSRHandler'}.__init__ (reserved entries; executed unmodified)", "litex.soc.integration.soc.SoCLocHandler.add/alloc"],
                samples=[dict(function="handler constructor", reserved=k, numbers="symbolic ints")])

def cases(tier):
    return [Case("check_regions_overlap", c_overlap_contract), Case("add_region", c_add_region), Case("add_region(io_check)", c_add_region, True),
            Case("SoCLocHandler.add(fixed)", c_lochandler, 32, "fixed"), Case("SoCLocHandler.add(alloc)", c_lochandler, 8, "alloc"), Case("SoCLocHandler.add(reuse)", c_lochandler, 32, "reuse"),
            Case("alloc_region(bounded)", c_alloc_bounded), Case("SoCRegion.size_pow2(bounded)", c_region_pow2), Case("ConstraintManager(bounded)", c_platform_bounded), Case("ConstraintManager.clients(bounded)", c_platform_clients_bounded),
            Case("SoCRegion.decoder", c_decoders, tier), Case("SoCRegion.decoder.align", c_decoder_align, tier)] + \
           [Case(f"{kind}-handler.reserved({k})", c_reserved_locations, kind, k) for kind in ("irq", "csr") for k in (0, 1, 2)]

ASSUMPTIONS = ["Python semantics assumed by the E3 encoding: ints are mathematical; dict iteration is insertion order; logging/colorer/str.format have no effect on results; no aliasing between the symbolic records handed in",
               "SoCRegion.size_pow2 >= size is assumed in add_region's proof; the constructor's own relation is proved in C13_alloc_proofs.py (SoCRegion.__init__(proof))",
               "the bounded enumerations of alloc_region, SoCRegion.size_pow2 and ConstraintManager are kept as cross-checks (labelled bounded, not counted as proved) beside the all-input proofs in C13_alloc_proofs.py",
               "linker regions are exempt from the overlap check by design of check_regions_overlap (check_linker=False); not listed as a finding"]
