"""C06: Wishbone interconnect routes each cycle to one slave and answers only its master.
Real wishbone.Arbiter / Decoder / InterconnectShared / Crossbar / InterconnectPointToPoint with decoders produced by the real
SoCRegion.decoder; masters are any Wishbone-classic masters, slaves any legal slaves with any latency."""
import z3
from .wblib import *
from litex.soc.integration.soc import SoCRegion
from vf.core import Case

class Bus: data_width = 32; address_width = 32
REGIONSETS = {
    "A": [(0x1000_0000, 0x1000), (0x2000_0000, 0x2000), (0x3000_0000, 0x4000)],
    "B": [(0x0000_0000, 0x8000), (0x0000_8000, 0x1000), (0x8000_0000, 0x8000_0000)],       # adjacent windows, a huge window
    "C": [(0x4000_0000, 0x1800), (0x4000_2000, 0x0800), (0xf000_0000, 0x10000)],           # non power-of-two sizes (decoded on size_pow2)
}
def mk_regions(setname, ns):
    return [SoCRegion(origin=o, size=s) for o, s in REGIONSETS[setname][:ns]]
def match(r, adr):       # the property's window: word address adr selects region r iff origin <= adr*4 < origin + size_pow2
    lo = r.origin >> 2; hi = (r.origin + r.size_pow2) >> 2
    return z3.And(z3.UGE(zx(adr, 31), K(lo, 31)), z3.ULT(zx(adr, 31), K(hi, 31)))

def c_arbiter(n):
    masters = [wishbone.Interface(data_width=32, adr_width=30) for _ in range(n)]; target = wishbone.Interface(data_width=32, adr_width=30)
    d = mk(wishbone.Arbiter, masters, target)
    ins = [target.ack, target.dat_r, target.err]
    for m in masters: ins += m_inputs(m)
    h = HwCheck(f"wishbone.Arbiter({n})", d, ins)
    g = h.v(d.rr.grant); GW = g.size()
    h.assume(z3.Implies(z3.Or(b(h.v(target.ack)), b(h.v(target.err))), z3.And(b(h.v(target.cyc)), b(h.v(target.stb)))), "target acks/errs only a presented cyc&stb")
    h.hint("grant<n", ult(g, n))
    h.ensure("ens.grant-exists", ult(g, n))
    for i, m in enumerate(masters):
        rq = b(h.v(m.cyc)); granted = eqc(g, i)
        p_wait = h.prev(f"wait{i}", bv1(z3.And(rq, z3.Not(granted))))
        h.assume(z3.Implies(b(p_wait), rq), "a master waiting for the bus keeps cyc asserted")
        w = h.ghost(f"passed{i}", 3)                                           # grant changes seen while waiting
        changed = h.n(d.rr.grant) != g
        h.ghost_next(w, z3.If(z3.And(rq, z3.Not(granted)), z3.If(changed, w + 1, w), K(0, 3)))
        dist = z3.URem(K(i + n, 4) - zx(g, 4), K(n, 4))                        # circular distance from the owner to master i
        h.hint(f"fair{i}", z3.ULE(zx(w, 4) + dist, K(n - 1, 4)))
        h.hint(f"idle{i}", z3.Implies(z3.Not(b(p_wait)), w == K(0, 3)))
        h.ensure(f"ens.fair{i}", ule(w, n - 1))                                  # granted after at most n-1 completed cycles of other masters
        h.ensure(f"ens.ack{i}", z3.And(b(h.v(m.ack)) == z3.And(granted, b(h.v(target.ack))), b(h.v(m.err)) == z3.And(granted, b(h.v(target.err)))))
        h.ensure(f"ens.own{i}", z3.Implies(z3.And(granted, rq), eqc(h.n(d.rr.grant), i)))      # the owner keeps the bus while it holds cyc (stb may drop)
        h.ensure(f"ens.fwd{i}", z3.Implies(granted, z3.And(*[h.v(getattr(target, nme)) == h.v(getattr(m, nme)) for nme in M2S])))
        h.ensure(f"ens.data{i}", h.v(m.dat_r) == h.v(target.dat_r))
        h.respond(f"resp.grant{i}", z3.And(rq, *[z3.Not(b(h.v(o.cyc))) for j, o in enumerate(masters) if j != i]), granted, 2)
    h.cover("cover.switch", h.n(d.rr.grant) != g, depth=3)
    h.functions = ["litex.soc.interconnect.wishbone.Arbiter.__init__", "migen.genlib.roundrobin.RoundRobin (flattened)"]
    return h

def c_ic(kind, nm, ns, register, rset, madr=None):
    """madr: address widths of the masters (default 30 each); a narrower master reaches only the low part of the map, the interconnect must
    still route the wider masters by their FULL address"""
    masters = [wishbone.Interface(data_width=32, adr_width=(madr[i] if madr else 30)) for i in range(nm)]
    slaves  = [wishbone.Interface(data_width=32, adr_width=30) for _ in range(ns)]
    regions = mk_regions(rset, ns)
    decs = [r.decoder(Bus) for r in regions]                                   # real SoCRegion.decoder
    cls = wishbone.InterconnectShared if kind == "shared" else wishbone.Crossbar
    d = mk(cls, masters, list(zip(decs, slaves)), register, None)
    ins = []
    for m in masters: ins += m_inputs(m)
    for s in slaves: ins += s_inputs(s)
    h = HwCheck(f"wishbone.{cls.__name__}({nm}x{ns},register={register},regions={rset}{',madr=' + str(madr) if madr else ''})", d, ins)
    V = h.v
    def mv(m, nme): return zx(V(m.adr), 30) if nme == "adr" else V(getattr(m, nme))
    for s in slaves: slave_legal(h, s)
    for i, m in enumerate(masters): master_holds(h, m, name=str(i))
    def sel_by(grant, sigs):
        r = sigs[-1]
        for i in reversed(range(len(sigs) - 1)): r = z3.If(grant == K(i, grant.size()), sigs[i], r)
        return r
    # disjoint windows never both match (all addresses)
    a = h.const("a", 30)
    h.ensure("ens.decode-disjoint", z3.And(*[z3.Not(z3.And(match(regions[x], a), match(regions[y], a))) for x in range(ns) for y in range(x + 1, ns)]))
    if kind == "shared":
        grant = V(d.arbiter.rr.grant) if nm > 1 else K(0, 1)
        g = lambda nme: sel_by(grant, [mv(m, nme) for m in masters])
        gcyc, gstb, gadr = g("cyc"), g("stb"), g("adr")
        if nm > 1: h.hint("grant<n", ult(grant, nm)); h.ensure("ens.grant-exists", ult(grant, nm))
        h.ensure("ens.mutex", z3.AtMost(*[b(V(s.cyc)) for s in slaves], 1))
        h.ensure("ens.route", z3.And(*[b(V(slaves[j].cyc)) == z3.And(b(gcyc), match(regions[j], gadr)) for j in range(ns)]))      # incl. no match => no slave cyc
        h.ensure("ens.fwd", z3.And(*[V(getattr(slaves[j], nme)) == g(nme) for j in range(ns) for nme in M2S if nme != "cyc"]))
        anyack = z3.Or(*[b(V(s.ack)) for s in slaves]); anyerr = z3.Or(*[b(V(s.err)) for s in slaves])
        for i, m in enumerate(masters):
            owner = (grant == K(i, grant.size())) if nm > 1 else z3.BoolVal(True)
            h.ensure(f"ens.resp{i}", z3.And(b(V(m.ack)) == z3.And(owner, anyack), b(V(m.err)) == z3.And(owner, anyerr)))
            h.ensure(f"ens.once{i}", z3.Implies(z3.Or(b(V(m.ack)), b(V(m.err))), req(h, m)))                     # a termination only for a pending request of this master
            if nm > 1: h.ensure(f"ens.own{i}", z3.Implies(z3.And(owner, b(V(m.cyc))), h.n(d.arbiter.rr.grant) == K(i, grant.size())))
        # read data of the answering slave
        p_cont = h.prev("cont", bv1(z3.And(b(gcyc), b(gstb))))
        p_adr = h.prev("gadr", gadr); p_grant = h.prev("grant", zx(grant, 2))
        continuing = z3.And(b(p_cont), p_adr == gadr, p_grant == zx(grant, 2))
        for i, m in enumerate(masters):
            for j, s in enumerate(slaves):
                clause = lambda extra: z3.Implies(z3.And(b(V(m.ack)), b(V(s.ack)), *extra), V(m.dat_r) == V(s.dat_r))
                if not register:
                    h.ensure(f"ens.data{i}.{j}", clause([]))
                else:
                    h.ensure(f"ens.data{i}.{j}@later-cycles", clause([continuing]))
                    if i == 0 and j == ns - 1 and ns > 1:
                        h.finding(f"finding.data{i}.{j}@first-cycle-ack", clause([]),
                                  "wishbone.Decoder(register=True) muxes dat_r with a one-cycle-old slave select while ack is combinational: a slave that acknowledges in the first cycle of a request returns another slave's (or no) read data")
        if register:
            # registered select equals the select of the previous cycle's address
            ssr = L(d.decoder, "slave_sel_r")
    else:
        arbs = [m for _, m in d._submodules if isinstance(m, wishbone.Arbiter)]
        if len(arbs) != ns:       # a crossbar is one decoder per master and ONE ARBITER PER SLAVE: with another shape some slave has no path (reported, not a harness fault)
            return dict(results=[res("ens.route.crossbar-has-one-arbiter-per-slave", "ensures", VIOLATED, 0, "executed (elaboration)", replayed=True,
                                     witness=dict(construction=f"wishbone.Crossbar({nm} masters, {ns} slaves)", arbiters=len(arbs), slaves=ns))],
                        functions=["litex.soc.interconnect.wishbone.Crossbar.__init__"], samples=[])
        for j, s in enumerate(slaves):
            grant = V(arbs[j].rr.grant) if nm > 1 else K(0, 1)
            g = lambda nme: sel_by(grant, [mv(m, nme) for m in masters])
            if nm > 1: h.hint(f"grant{j}<n", ult(grant, nm)); h.ensure(f"ens.grant-exists{j}", ult(grant, nm))
            # slave j is driven by exactly the master its arbiter designates, and sees cyc iff that master addresses its window
            h.ensure(f"ens.route{j}", b(V(s.cyc)) == z3.And(b(g("cyc")), match(regions[j], g("adr"))))
            h.ensure(f"ens.fwd{j}", z3.And(*[V(getattr(s, nme)) == g(nme) for nme in M2S if nme != "cyc"]))
            for i, m in enumerate(masters):
                owner = (grant == K(i, grant.size())) if nm > 1 else z3.BoolVal(True)
                if nm > 1: h.ensure(f"ens.own{j}.{i}", z3.Implies(z3.And(owner, b(V(m.cyc)), match(regions[j], V(m.adr))), h.n(arbs[j].rr.grant) == K(i, grant.size())))
        for i, m in enumerate(masters):
            gr = [(V(arbs[j].rr.grant) == K(i, V(arbs[j].rr.grant).size())) if nm > 1 else z3.BoolVal(True) for j in range(ns)]
            h.ensure(f"ens.resp{i}", z3.And(b(V(m.ack)) == z3.Or(*[z3.And(gr[j], b(V(slaves[j].ack))) for j in range(ns)]),
                                            b(V(m.err)) == z3.Or(*[z3.And(gr[j], b(V(slaves[j].err))) for j in range(ns)])))
            h.ensure(f"ens.once{i}", z3.Implies(z3.Or(b(V(m.ack)), b(V(m.err))), req(h, m)))
            h.ensure(f"ens.row-mutex{i}", z3.AtMost(*[z3.And(gr[j], b(V(slaves[j].cyc))) for j in range(ns)], 1))     # a master drives at most one slave
            if not register:
                for j, s in enumerate(slaves):
                    h.ensure(f"ens.data{i}.{j}", z3.Implies(z3.And(b(V(m.ack)), gr[j], b(V(s.ack))), V(m.dat_r) == V(s.dat_r)))
    h.cover("cover.ack", z3.And(b(V(masters[-1].ack)), b(V(slaves[-1].ack))), depth=4)
    h.use_auto = False
    h.functions = [f"litex.soc.interconnect.wishbone.{cls.__name__}.__init__", "litex.soc.interconnect.wishbone.Arbiter.__init__", "litex.soc.interconnect.wishbone.Decoder.__init__",
                   "litex.soc.integration.soc.SoCRegion.decoder", "litex.soc.integration.soc.SoCRegion.__init__"]
    return h

def c_p2p():
    m = wishbone.Interface(data_width=32, adr_width=30); s = wishbone.Interface(data_width=32, adr_width=30)
    d = mk(wishbone.InterconnectPointToPoint, m, s)
    h = HwCheck("wishbone.InterconnectPointToPoint", d, m_inputs(m) + s_inputs(s))
    h.ensure("ens.m2s", z3.And(*[h.v(getattr(s, n)) == h.v(getattr(m, n)) for n in M2S]))
    h.ensure("ens.s2m", z3.And(*[h.v(getattr(m, n)) == h.v(getattr(s, n)) for n in S2M]))
    h.functions = ["litex.soc.interconnect.wishbone.InterconnectPointToPoint.__init__", "litex.soc.interconnect.wishbone.Interface.connect"]
    return h

def c_decoder_window(sizes_exp, dw, origin_kind):
    """SoCRegion.decoder accepts exactly the addresses of the power-of-two window (all addresses), per (size exponent, bus data width, origin)"""
    from migen import Signal
    out = []
    class B: data_width = dw; address_width = 32
    shift = (dw // 8).bit_length() - 1
    aw = 32 - shift
    for e in sizes_exp:
        if e < shift: continue          # a window smaller than one bus word cannot be decoded at word granularity
        size = 1 << e
        for origin in {"zero": [0], "mid": [size * 3, size * 5], "top": [(1 << 32) - size]}[origin_kind]:
            if origin + size > (1 << 32): continue
            for sz in sorted({size, size - (size >> 2) if size >= 8 * (dw // 8) else size}):       # non power-of-two size rounds up to the same window
                r = SoCRegion(origin=origin, size=sz)
                a = Signal(aw)
                try: expr = r.decoder(B)(a)
                except Exception as e:           # an aligned region inside the address space must get a decoder: a refusal is reported, not a harness crash
                    import sys
                    if sys.stderr is None: sys.stderr = sys.__stderr__
                    out.append(res(f"ens.window[origin={origin:#x},size={sz:#x},dw={dw}]", "ensures", VIOLATED, 0, "executed", info=f"SoCRegion(origin={origin:#x}, size={sz:#x}).decoder raised {type(e).__name__} although the origin is aligned on the decoded size {r.size_pow2:#x}")); continue
                class Top(Module):
                    def __init__(self):
                        self.o = Signal(); self.a = a
                        self.comb += self.o.eq(expr)
                d = Top(); h = HwCheck(f"decoder(origin={origin:#x},size={sz:#x},dw={dw})", d, [a])
                A = zx(h.v(a), 34) << shift if False else z3.Concat(z3.BitVecVal(0, 2), h.v(a), z3.BitVecVal(0, shift))
                spec = z3.And(z3.UGE(A, z3.BitVecVal(origin, 34)), z3.ULT(A, z3.BitVecVal(origin + r.size_pow2, 34)))
                st, _, be, t = h._solve(h.ts.comb_constraints() + [b(h.v(d.o)) != spec])
                out.append(res(f"ens.window[origin={origin:#x},size={sz:#x},dw={dw}]", "ensures", PROVED if st == "unsat" else (UNKNOWN if st == "unknown" else NOINPUT), t, be))
    # an unaligned origin is rejected
    from litex.soc.integration.soc import SoCError
    import sys
    try:
        SoCRegion(origin=0x1000, size=0x2000).decoder(B); ok = False
    except SoCError: ok = True
    finally:
        if sys.stderr is None: sys.stderr = sys.__stderr__
    out.append(res(f"ens.unaligned-rejected[dw={dw}]", "ensures", PROVED if ok else VIOLATED, 0, "executed"))
    return dict(results=out, functions=["litex.soc.integration.soc.SoCRegion.decoder"])

def c_handler_map(scenario):
    """address maps produced by the real SoCBusHandler (allocated and explicit origins, non power-of-two sizes): every
    accepted set of regions has pairwise disjoint decoders over ALL addresses, so no address selects two slaves"""
    import sys
    from litex.soc.integration.soc import SoCBusHandler, SoCError, SoCIORegion
    bus = SoCBusHandler(standard="wishbone", data_width=32, address_width=32)
    if sys.stderr is None: sys.stderr = sys.__stderr__
    bus.add_region("io", SoCIORegion(origin=0x8000_0000, size=0x8000_0000, cached=False))
    reqs = {"alloc": [("a", None, 0x1800, True), ("b", None, 0x0800, True), ("c", None, 0x1000, True), ("d", None, 0x3000, False), ("e", None, 0x100, False)],
            "explicit": [("a", 0x0000_0000, 0x1800, True), ("b", 0x0000_1800, 0x0800, True), ("c", 0x0000_2000, 0x0800, True), ("d", 0x9000_0000, 0x3000, False), ("e", 0x9000_3000, 0x1000, False), ("f", 0x9000_4000, 0x1000, False)],
            "mixed": [("a", 0x1000_0000, 0x2400, True), ("b", None, 0x1000_0000, True), ("c", None, 0x2400, True), ("d", 0x1000_3000, 0x1000, True), ("e", 0x1000_4000, 0x400, True)]}[scenario]
    accepted = {}
    for name, origin, size, cached in reqs:
        try:
            bus.add_region(name, SoCRegion(origin=origin, size=size, cached=cached))
            accepted[name] = bus.regions[name]
        except SoCError:
            bus.regions.pop(name, None)
        finally:
            if sys.stderr is None: sys.stderr = sys.__stderr__
    names = list(accepted)
    a = Signal(30)
    class Top(Module):
        def __init__(self):
            self.sel = Signal(len(names))
            for k, nme in enumerate(names): self.comb += self.sel[k].eq(accepted[nme].decoder(Bus)(a))
    d = Top(); h = HwCheck(f"SoCBusHandler.map({scenario})", d, [a])
    out = []
    for x in range(len(names)):
        for y in range(x + 1, len(names)):
            st, _, be, t = h._solve(h.ts.comb_constraints() + [z3.Extract(x, x, h.v(d.sel)) == 1, z3.Extract(y, y, h.v(d.sel)) == 1])
            out.append(res(f"ens.no-double-select[{names[x]},{names[y]}]", "ensures", PROVED if st == "unsat" else (UNKNOWN if st == "unknown" else NOINPUT), t, be,
                           info="" if st == "unsat" else f"{accepted[names[x]].origin:#x}+{accepted[names[x]].size:#x} vs {accepted[names[y]].origin:#x}+{accepted[names[y]].size:#x}"))
    out.append(res("cover.accepted>=3", "cover", OK if len(names) >= 3 else VACUOUS, 0, "executed", accepted=names))
    return dict(results=out, functions=["litex.soc.integration.soc.SoCBusHandler.add_region", "litex.soc.integration.soc.SoCBusHandler.alloc_region", "litex.soc.integration.soc.SoCBusHandler.check_regions_overlap", "litex.soc.integration.soc.SoCRegion.decoder"])

def cases(tier):
    cs = [Case(f"Arbiter({n})", c_arbiter, n) for n in (2, 3, 4)]
    grid = [(1, 1), (1, 2), (2, 1), (2, 2), (3, 3), (2, 3), (3, 2), (1, 3), (3, 1)] if tier == "thorough" else [(1, 2), (2, 2), (3, 3), (2, 1), (1, 3)]
    for kind in ("shared", "crossbar"):
        for register in (False, True):
            for k, (nm, ns) in enumerate(grid):
                rset = "ABC"[k % 3]
                cs.append(Case(f"{kind}({nm}x{ns},register={register},regions={rset})", c_ic, kind, nm, ns, register, rset))
    for kind in ("shared", "crossbar"):         # masters of different address widths, the narrower one first
        for register in (False, True):
            cs.append(Case(f"{kind}(2x3,register={register},regions=B,madr=[14,30])", c_ic, kind, 2, 3, register, "B", [14, 30]))
    # the shared interconnect WITH its time-out (the default of SoCBusHandler): "each request receives exactly one termination ... reach the issuing
    # master": the contracts of C11 (transparency while the slave answers in time, forced termination exactly at expiry, recovery) are obligations of C06 too
    from contracts.C11_timeout import c_wb_shared_timeout
    cs += [Case("InterconnectShared(2x2,timeout=4)", c_wb_shared_timeout, 2, 2, 4), Case("InterconnectShared(2x3,timeout=3,register)", c_wb_shared_timeout, 2, 3, 3, True)]
    cs.append(Case("p2p", c_p2p))
    cs += [Case(f"SoCBusHandler.map({sc})", c_handler_map, sc) for sc in ("alloc", "explicit", "mixed")]
    cs += [Case(f"decoder(dw={dw},{ok})", c_decoder_window, list(range(2, 33)), dw, ok) for dw in (32, 64) for ok in ("zero", "mid", "top")]
    return cs

ASSUMPTIONS = ["masters x slaves grid 1..3 x 1..3 (quick: 5 shapes), three region sets incl. adjacent and non power-of-two sized windows, 30-bit word addresses",
               "fairness (a requester is granted after at most n-1 grant changes) is proved on the Arbiter; inside the interconnects it follows by composition (paper)",
               "register=True read data is proved for slaves that do not answer in the first cycle of a request; the first-cycle case is a listed known finding"]

# ---- the interconnect SoCBusHandler.do_finalize builds from add_master / add_slave (selection p2p / shared / crossbar, decoders, timeout wiring)
def c_handler_finalize(scenario):
    from litex.gen import LiteXModule
    """routing by address on the interconnect the REAL SoCBusHandler builds: a slave sees a cycle only for addresses of its window, an address
    that matches no region is presented to no slave and is terminated exactly once (bus time-out) so that the master is not stuck"""
    import sys
    from litex.soc.integration.soc import SoCBusHandler, SoCIORegion, SoCError
    from contracts import wblib
    nm, slaves, ic = {"1x1@nonzero": (1, [(0x1000_0000, 0x1000)], "shared"), "1x1@0": (1, [(0x0000_0000, 0x1000)], "shared"), "1x1@0,full": (1, [(0x0000_0000, 0x1_0000_0000)], "shared"),
                      "2x2,shared": (2, [(0x1000_0000, 0x1000), (0x2000_0000, 0x800)], "shared"), "2x2,crossbar": (2, [(0x1000_0000, 0x1000), (0x2000_0000, 0x800)], "crossbar"),
                      # a slave at origin 0 whose PORT is exactly as wide as its region (4 KiB memory on a 12-bit byte address port) beside another slave:
                      # the window is decided on the handler's address space, not on the slave port's
                      "1x2,one-region-without-decoder": (1, [(0x1000_0000, 0x1000), (0x2000_0000, 0x1000)], "shared"), "2x2,one-region-without-decoder,crossbar": (2, [(0x1000_0000, 0x1000), (0x2000_0000, 0x1000)], "crossbar"),
                      "1x2,region-reserved-first": (1, [(0x1000_0000, 0x1000), (0x2000_0000, 0x800)], "shared"), "2x2,region-reserved-first,crossbar": (2, [(0x1000_0000, 0x1000), (0x2000_0000, 0x800)], "crossbar"),
                      "1x2,narrow-port@0": (1, [(0x0000_0000, 0x1000), (0x4000_0000, 0x1000)], "shared"), "2x2,narrow-port@0,crossbar": (2, [(0x0000_0000, 0x1000), (0x4000_0000, 0x1000)], "crossbar")}[scenario]
    narrow = "narrow-port" in scenario; nodec = "without-decoder" in scenario
    TO = 4
    class Top(LiteXModule):
        def __init__(self):
            self.bus = bus = SoCBusHandler(standard="wishbone", data_width=32, address_width=32, timeout=TO, interconnect=ic, interconnect_register=False)
            self.ms = [wishbone.Interface(data_width=32, address_width=32, addressing="word") for _ in range(nm)]
            self.ss = [wishbone.Interface(data_width=32, address_width=(12 if narrow and k_ == 0 else 32), addressing="word") for k_, _ in enumerate(slaves)]
            for i, m in enumerate(self.ms): bus.add_master(f"m{i}", m)
            if "region-reserved-first" in scenario:
                # the region of s0 is reserved first (add_region), another slave is added, then s0's slave port is attached to its reserved region:
                # the order of the handler's region and slave tables differs, each slave must still be selected by ITS region
                bus.add_region("s0", SoCRegion(origin=slaves[0][0], size=slaves[0][1]))
                bus.add_slave("s1", self.ss[1], SoCRegion(origin=slaves[1][0], size=slaves[1][1]))
                bus.add_slave("s0", self.ss[0])
            else:
                for i, (s_, (o, sz)) in enumerate(zip(self.ss, slaves)): bus.add_slave(f"s{i}", s_, SoCRegion(origin=o, size=sz, decode=not (nodec and i == 0)))
    try:
        d = mk(Top); d.bus.finalize() if not d.bus.finalized else None
    except SoCError:
        # a region whose decoder is disabled answers every address: beside a second slave it must be refused (or, if built, the routing clauses below decide)
        if sys.stderr is None: sys.stderr = sys.__stderr__
        if not nodec: raise
        return dict(results=[res("ens.route.undecoded-region-beside-another-slave:refused-or-routed-by-address", "ensures", OK, 0, "executed", info="refused (SoCError)")],
                    functions=["litex.soc.integration.soc.SoCBusHandler.do_finalize (regions with decode=False)"], samples=[dict(scenario=scenario)])
    if sys.stderr is None: sys.stderr = sys.__stderr__
    ins = []
    for m in d.ms: ins += wblib.m_inputs(m)
    for s_ in d.ss: ins += wblib.s_inputs(s_)
    h = HwCheck(f"SoCBusHandler.finalize({scenario})", d, ins)
    for i, m in enumerate(d.ms): wblib.master_holds(h, m, f"m{i}")
    for i, s_ in enumerate(d.ss): wblib.slave_legal(h, s_, f"s{i}")
    V = h.v
    def inwin(adr, o, sz):                                   # word address inside the power-of-two window of the region
        p2 = 1 << (sz - 1).bit_length()
        return z3.And(z3.UGE(zx(adr, 34) << 2, K(o, 34)), z3.ULT(zx(adr, 34) << 2, K(o + p2, 34)))
    for k, (s_, (o, sz)) in enumerate(zip(d.ss, slaves)):
        srq = wblib.req(h, s_)
        h.ensure(f"ens.route.s{k}", z3.Implies(srq, z3.Or(*[z3.And(wblib.req(h, m), z3.Extract(V(s_.adr).size() - 1, 0, V(m.adr)) == V(s_.adr), inwin(V(m.adr), o, sz)) for m in d.ms])))   # presented only for addresses of its window, by a requesting master
    if nm == 1:
        m = d.ms[0]; unm = z3.And(wblib.req(h, m), *[z3.Not(inwin(V(m.adr), o, sz)) for (o, sz) in slaves])
        h.ensure("ens.unmapped.no-slave", z3.Implies(unm, z3.Not(z3.Or(*[wblib.req(h, s_) for s_ in d.ss]))))
        h.respond("resp.unmapped.terminated", unm, z3.And(b(V(m.ack))), TO + 3, start=unm)       # the bus time-out answers: the master is never stuck
        mapped = [z3.And(wblib.req(h, m), inwin(V(m.adr), o, sz)) for (o, sz) in slaves]
        for k, s_ in enumerate(d.ss): h.ensure(f"ens.mapped.s{k}", z3.Implies(mapped[k], z3.And(wblib.req(h, s_), V(m.ack) == V(s_.ack) if TO is None else z3.Implies(b(V(s_.ack)), b(V(m.ack))))))
    if scenario == "1x1@0":
        # one master, one slave at origin 0 whose region is SMALLER than the address space: do_finalize picks InterconnectPointToPoint (no decoder, no time-out)
        what = ("SoCBusHandler.do_finalize uses InterconnectPointToPoint whenever there is one master and one slave at origin 0, whatever the region's size: addresses beyond "
                "the region (0x1000 and up for a 4 KiB region) are presented to the slave and there is no bus time-out, although they match no region")
        for n_ in ("ens.route.s0", "ens.unmapped.no-slave"):
            h.finding("finding.p2p-no-decode." + n_.split(".", 1)[1], h.ensures.pop(n_), what)
        h.responds.pop("resp.unmapped.terminated", None)
    h.use_auto = True
    h.cover("cover.access", z3.Or(*[z3.And(wblib.req(h, s_), b(V(s_.ack))) for s_ in d.ss]), depth=4)
    h.bmc_depth = TO + 6
    h.functions = ["litex.soc.integration.soc.SoCBusHandler.do_finalize (interconnect selection, decoders, time-out)", "litex.soc.integration.soc.SoCBusHandler.add_master/add_slave"]
    return h

_cases_c06 = cases
def cases(tier):
    return _cases_c06(tier) + [Case(f"SoCBusHandler.finalize({sc})", c_handler_finalize, sc) for sc in ("1x1@nonzero", "1x1@0", "1x1@0,full", "2x2,shared", "2x2,crossbar", "1x2,narrow-port@0", "2x2,narrow-port@0,crossbar", "1x2,one-region-without-decoder", "2x2,one-region-without-decoder,crossbar", "1x2,region-reserved-first", "2x2,region-reserved-first,crossbar")]
