"""C13 (extension): the remaining functions the property names, by engine E3 (vf/pysym.py): the REAL functions of
litex/soc/integration/soc.py and litex/build/generic_platform.py run under CPython on z3-backed proxies, loops over unbounded
collections are cut by the mechanical AST rewrite around sidecar invariants.

  check_region_is_in / check_region_is_io   against their set-theoretic specification (all origins/sizes, unbounded io_regions)
  add_region (fixed origin / SoCIORegion / unsupported object)   from an ARBITRARY handler state: names unique over regions and
                                            io_regions, IO/cached rule, pairwise disjoint windows re-established, frame
  SoCLocHandler.add/alloc with a SYMBOLIC n_locs (loop over range(n_locs) cut), SoCCSRHandler.__init__/add/address_map/add_region,
  SoCIRQHandler.__init__/add                class invariant (names -> numbers injective, 0 <= n < n_locs) from an arbitrary state;
                                            CSR pages inside the CSR address space implied by address_width/alignment/paging
  SoCBusHandler.add_slave / add_master      name uniqueness (hardware adapters stubbed)
  ConstraintManager.get_sig_constraints / get_io_signals / add_extension / request_all / request_remaining
  SoC.finalize                              what it re-checks, as a labelled BOUNDED stand-in on real SoCCore builds
"""
import sys, time, logging, itertools, z3
from vf import elab, pysym
from vf.pysym import SymInt, SymBool, SymRecordSeq, SymRecord, SymDict, SymKeys, SymList, SymKey, VC, rewrite, explore, toint, tobool, PathEnd, Unsupported
from vf.core import Case, PROVED, VIOLATED, NOINPUT, UNKNOWN, BOUNDED_OK, OK, VACUOUS, FAULT
from vf.hw import res
from litex.soc.integration import soc as S
from litex.build import generic_platform as GP
import contracts.C13_alloc_proofs as AP          # pow2 theory (SymInt gains bit_length / 2**r there, additively), AVC, _agg
from contracts.C13_alloc_proofs import AVC, _agg, ov_t

BACKEND = AP.BACKEND
FEAS_MS = 2000     # path-feasibility queries only: `unknown` keeps the path (sound); obligations are decided by Ctx.check with its own 20 s limit
I = CAT = SUF = None
def _init():
    """z3 declarations are made when a case runs, never at import (the runner imports every module of the property before it forks its workers)"""
    global I, CAT, SUF
    AP._init_z3()
    I = z3.IntSort(); CAT = z3.Function("str.cat", I, I, I); SUF = z3.Function("str.cat_underscore", I, I)
def _quiet(o):
    o.logger = logging.getLogger("x"); o.logger.disabled = True
    for n in ("SoCCSRHandler", "SoCIRQHandler", "SoCRegion", "SoCBusHandler", "SoC"): logging.getLogger(n).disabled = True
    return o

# =====================================================================================================================================
# proxies
# =====================================================================================================================================
class Name:
    """a string known only by its identity (names are compared by equality only); `+` gives some other string"""
    def __init__(self, t): self.t = t
    def __format__(self, spec): return f"<name {self.t}>"
    __str__ = __repr__ = lambda self: f"<name {self.t}>"
    def __hash__(self): return id(self)
    def __eq__(self, o): return isinstance(o, Name) and (o is self or bool(SymBool(self.t == o.t)))
    def __ne__(self, o): return not self.__eq__(o)
    def __add__(self, o):
        """string concatenation, uninterpreted: name + "_" is SUF(name), name + other_name is CAT(name, other_name); any other suffix gives some string"""
        if isinstance(o, Name): return Name(CAT(self.t, o.t))
        if o == "_": return Name(SUF(self.t))
        return Name(pysym.CTX.fresh("concat"))
    def __radd__(self, o): return Name(pysym.CTX.fresh("concat"))
    def upper(self): return self

class NDict(SymDict):
    """SymDict whose key set is known: `name in d` is decided by the set K of the names of the symbolic prefix (a z3 array name -> bool) and the
    concretely added items.  A dict holds each key once by construction; which entry of the prefix carries which name is not needed by any clause."""
    def __init__(self, seq):
        SymDict.__init__(self, seq); self.K = z3.Array(f"{seq.name}.names", I, z3.BoolSort())
    def has(self, t, old=False):
        return z3.Or(z3.Select(self.K, t), *([] if old else [k.t == t for k, _ in self.extra if isinstance(k, Name)]))
    def __contains__(self, key):
        if not isinstance(key, Name): raise Unsupported("NDict key")
        for k, _ in self.extra:
            if k is key: return True
        return bool(SymBool(self.has(key.t)))
    def get(self, key, default=None):
        if key in self:
            for k, v in self.extra:
                if k is key: return v
            return _SomeEntry()
        return default
class _SomeEntry:
    """the value a symbolic dict holds for a present name (never inspected by the functions under contract)"""

FIELDS = {"origin": "int", "size": "int", "size_pow2": "int", "linker": "bool", "cached": "bool"}
def inside(ro, rs, co, cs):                  # extent [ro, ro+rs) inside [co, co+cs), as check_region_is_in computes it
    return z3.And(ro >= co, ro + rs <= co + cs)
def inside_set(ro, rs, co, cs):              # the same, set-theoretically: every address of the region is an address of the container
    x = z3.Int("x")
    return z3.ForAll([x], z3.Implies(z3.And(ro <= x, x < ro + rs), z3.And(co <= x, x < co + cs)))

def _explore(run, **kw):
    """explore() + the rule that an exception the function under contract is not declared to raise is a failed obligation, not a harness fault
    (a crash such as a TypeError / IndexError / KeyError of the real code must be visible as a violation)"""
    def guarded(ctx):
        try: return run(ctx)
        except (PathEnd, Unsupported, AssertionError): raise
        except (S.SoCError, GP.ConstraintError) as e:
            elab.restore_stderr(); ctx.check(f"no-undeclared-exception:{type(e).__name__}-escaped-the-harness", z3.BoolVal(False))
        except Exception as e:
            elab.restore_stderr(); ctx.check(f"no-undeclared-exception:{type(e).__name__}", z3.BoolVal(False))
    return explore(guarded, **kw)

class SidecarMismatch(Exception): pass
def _sidecar_ok(cond, msg):
    if not cond: raise SidecarMismatch(msg)

def _wrap(tag, runner, functions, state, need=(), min_paths=1, extra_cover=lambda stats: True, replay=None):
    """runner(wrong) -> (paths, obligations, stats).  The case runs ONCE with its deliberately wrong postcondition(s) switched on: Ctx.check never
    changes the path condition, so the `wrong.*` clauses cannot influence the others; they are taken out of the reported obligations and must be
    REFUTED (vacuity guard: the solver can tell a false clause from a true one in this very setting)"""
    t0 = time.time()
    paths, obl_all, stats = runner(True)
    obl = [o for o in obl_all if not o[0].startswith("wrong.")]
    out = _agg(tag, obl)
    if replay is not None:
        for r_ in out:
            if r_["status"] == NOINPUT and "model" in r_ and ".finding." not in r_["name"]:
                try:
                    rp = replay(r_["model"]); r_["replay_info"] = rp
                    if rp and rp.get("reproduced"): r_["status"] = VIOLATED
                except Exception as e: r_["replay_error"] = f"{type(e).__name__}: {e}"
                finally: elab.restore_stderr()
    refuted = any(s == "FAILED" for n, s, _ in obl_all if n.startswith("wrong."))
    have = {n for n, _, _ in obl}
    ok = refuted and set(need) <= have and paths >= min_paths and extra_cover(stats)
    out.append(res(f"{tag}.cover.paths;wrong-postcondition-refuted", "cover", OK if ok else VACUOUS, time.time() - t0, "pysym", paths=paths, refuted=refuted,
                   missing=sorted(set(need) - have), **{k: v for k, v in stats.items() if isinstance(v, (int, str, bool))}))
    elab.restore_stderr()
    return dict(results=out, functions=functions, samples=[dict(function=tag, paths=paths, state=state)])

# =====================================================================================================================================
# check_region_is_in / check_region_is_io
# =====================================================================================================================================
def _mk_region(prefix, cls=S.SoCRegion, cached=None, origin=True):
    r = cls.__new__(cls)
    r.origin = SymInt(z3.Int(f"{prefix}.origin")) if origin else None
    r.size = SymInt(z3.Int(f"{prefix}.size")); r.size_pow2 = SymInt(z3.Int(f"{prefix}.pow2"))
    r.linker = SymBool(z3.Bool(f"{prefix}.linker")); r.cached = SymBool(z3.Bool(f"{prefix}.cached")) if cached is None else cached
    r.mode = "rw"; r.decode = True; r.type = ""; _quiet(r)
    return r

def _run_is_in(wrong):
    _init()
    stats = dict(true=0, false=0)
    def run(ctx):
        r = _mk_region("r"); c = _mk_region("c")
        ctx.assume(r.size >= 1)                                            # a region has at least one byte (SoCRegion.__init__(proof): size >= 1 is its precondition)
        got = S.SoCBusHandler.check_region_is_in(None, r, c)
        ctx.check("post.returns-a-bool", z3.BoolVal(got is True or got is False))
        stats["true" if got else "false"] += 1
        ro, rs, co, cs = toint(r.origin), toint(r.size), toint(c.origin), toint(c.size)
        ctx.check("post.result==(every-address-of-region-is-an-address-of-container)", z3.BoolVal(bool(got)) == inside_set(ro, rs, co, cs))
        ctx.check("post.boundary:region-ending-exactly-at-the-container-end-is-inside", z3.Implies(z3.And(ro >= co, ro + rs == co + cs), z3.BoolVal(bool(got))))
        ctx.check("post.boundary:one-byte-beyond-the-container-end-is-outside", z3.Implies(ro + rs == co + cs + 1, z3.BoolVal(not got)))
        ctx.check("post.boundary:starting-one-byte-before-the-container-is-outside", z3.Implies(ro == co - 1, z3.BoolVal(not got)))
        if wrong: ctx.check("wrong.result==(strictly-inside)", z3.BoolVal(bool(got)) == z3.And(ro > co, ro + rs < co + cs))
    paths, obl = _explore(run)
    return paths, obl, stats

def _mint(model, key, default=0):
    v = model.get(key); return int(v) if v is not None and v.lstrip("-").isdigit() else default
def _replay_is_in(model):
    """the counter-model's two regions through the unmodified function under plain CPython, against the set-theoretic answer"""
    ro, rs, co, cs = (_mint(model, k, d) for k, d in (("r.origin", 0), ("r.size", 1), ("c.origin", 0), ("c.size", 0)))
    r = S.SoCRegion.__new__(S.SoCRegion); r.origin, r.size = ro, rs
    c = S.SoCRegion.__new__(S.SoCRegion); c.origin, c.size = co, cs
    got = S.SoCBusHandler.check_region_is_in(None, r, c)
    want = co <= ro and (ro + rs - 1) <= (co + cs - 1)            # first and last byte of the region are bytes of the container
    return dict(reproduced=bool(got) != want, call=f"check_region_is_in(region(origin={ro}, size={rs}), container(origin={co}, size={cs}))", returned=got, expected=want)

def c_is_in():
    return _wrap("check_region_is_in", _run_is_in, ["litex.soc.integration.soc.SoCBusHandler.check_region_is_in"],
                 "symbolic origin/size of region (size >= 1) and container (any ints)", replay=_replay_is_in, min_paths=4, extra_cover=lambda s: s["true"] >= 1 and s["false"] >= 3)

def _is_io_loops(ios, r):
    a = z3.Int("a")
    def in_io(x): return inside(toint(r.origin), toint(r.size), ios.fn["origin"](x), ios.fn["size"](x))
    def some(n): return z3.Exists([a], z3.And(0 <= a, a < n, in_io(a)))
    loops = {0: dict(pos="s", havoc={"is_io": "bool"}, inv=lambda L: tobool(L["is_io"]) == some(toint(L["s"])))}
    return loops, some

def _run_is_io(wrong):
    _init()
    stats = dict(returned=0)
    def run(ctx):
        ctx.solver.set("timeout", FEAS_MS)
        ios = SymRecordSeq("IO", FIELDS); ioregs = NDict(ios); ctx.assume(SymBool(ios.len >= 0))
        r = _mk_region("r"); ctx.assume(r.size >= 1)
        bus = _quiet(S.SoCBusHandler.__new__(S.SoCBusHandler)); bus.io_regions = ioregs
        loops, some = _is_io_loops(ios, r)
        vc = AVC(loops)
        fn, src = rewrite(S.SoCBusHandler.check_region_is_io, loops, vc)
        _sidecar_ok(src.count("__vc.for_begin(0,") == 1, "loop structure of check_region_is_io changed")
        got = fn(bus, r)
        stats["returned"] += 1
        a, x = z3.Ints("a x")
        ctx.check("post.result==(inside-some-IO-region)", tobool(got) == some(ios.len))
        ro, rs = toint(r.origin), toint(r.size)
        ctx.check("post.result==(some-IO-region-contains-every-address-of-the-region)",
                  tobool(got) == z3.Exists([a], z3.And(0 <= a, a < ios.len, z3.ForAll([x], z3.Implies(z3.And(ro <= x, x < ro + rs), z3.And(ios.fn["origin"](a) <= x, x < ios.fn["origin"](a) + ios.fn["size"](a)))))))
        ctx.check("post.no-IO-region=>False", z3.Implies(ios.len == 0, z3.Not(tobool(got))))
        ctx.check("post.io_regions-unchanged", z3.BoolVal(bus.io_regions is ioregs and not ioregs.extra))
        if wrong: ctx.check("wrong.result==(inside-the-LAST-IO-region)", tobool(got) == z3.And(ios.len > 0, inside(ro, rs, ios.fn["origin"](ios.len - 1), ios.fn["size"](ios.len - 1))))
    paths, obl = _explore(run)
    return paths, obl, stats

def c_is_io():
    return _wrap("check_region_is_io", _run_is_io, ["litex.soc.integration.soc.SoCBusHandler.check_region_is_io", "litex.soc.integration.soc.SoCBusHandler.check_region_is_in (run unmodified inside the cut loop)"],
                 "unbounded symbolic io_regions; symbolic region (size >= 1)", need=("loop0.init", "loop0.step"), extra_cover=lambda s: s["returned"] >= 1)

# =====================================================================================================================================
# add_region: fixed origin (SoCRegion), SoCIORegion, unsupported object - from an arbitrary handler state
# =====================================================================================================================================
def _combined(d, f):
    """field f of entry x of dict d = symbolic prefix followed by the concretely added items"""
    seq = d.seq
    def g(i):
        t = seq.fn[f](i)
        for j, (k, v) in reversed(list(enumerate(d.extra))):
            xv = getattr(v, f); xt = tobool(xv) if FIELDS[f] == "bool" else toint(xv)
            t = z3.If(i == seq.len + j, xt, t)
        return t
    return g
def _pair_ok(d):
    O = lambda f: _combined(d, f)
    return lambda x, y: z3.Or(O("linker")(x), O("linker")(y), z3.Not(ov_t(O("origin")(x), O("size_pow2")(x), O("origin")(y), O("size_pow2")(y))))
def _disjoint(d, n=None):
    a, b_ = z3.Ints("a b"); n = toint(d.total_len()) if n is None else n
    return z3.ForAll([a, b_], z3.Implies(z3.And(0 <= a, a < b_, b_ < n), _pair_ok(d)(a, b_)))
def _overlap_loops(d):
    """sidecar invariants of the two loops of check_regions_overlap over dict d (same as contracts/C13_alloc.py)"""
    a, b_ = z3.Ints("a b"); pair_ok = _pair_ok(d)
    def tl(): return toint(d.total_len())
    return {0: dict(havoc={"i": "int"}, inv=lambda L: z3.And(toint(L["i"]) >= 0, toint(L["i"]) <= tl(),
                        z3.ForAll([a, b_], z3.Implies(z3.And(0 <= a, a < toint(L["i"]), a < b_, b_ < tl()), pair_ok(a, b_))))),
            1: dict(pos="j", inv=lambda L: z3.And(toint(L["i"]) >= 0, toint(L["i"]) < tl(),
                        z3.ForAll([b_], z3.Implies(z3.And(toint(L["i"]) < b_, b_ < toint(L["i"]) + 1 + toint(L["j"])), pair_ok(toint(L["i"]), b_))),
                        z3.ForAll([a, b_], z3.Implies(z3.And(0 <= a, a < toint(L["i"]), a < b_, b_ < tl()), pair_ok(a, b_)))))}

def _bus_state(ctx, address_width=32, inv_regs=False, inv_io=False):
    """arbitrary handler state; the part of the class invariant a case relies on is assumed: non-linker windows of `regions` pairwise disjoint (inv_regs),
    non-linker windows of `io_regions` pairwise disjoint (inv_io)"""
    ctx.solver.set("timeout", FEAS_MS)
    seq = SymRecordSeq("R", FIELDS); regs = NDict(seq); ios = SymRecordSeq("IO", FIELDS); ioregs = NDict(ios)
    ctx.assume(SymBool(z3.And(seq.len >= 0, ios.len >= 0)))
    if inv_regs: ctx.assume(SymBool(_disjoint(regs, seq.len)))
    if inv_io: ctx.assume(SymBool(_disjoint(ioregs, ios.len)))
    bus = _quiet(S.SoCBusHandler.__new__(S.SoCBusHandler))
    bus.regions = regs; bus.io_regions = ioregs; bus.address_width = address_width; bus.masters = {}; bus.slaves = {}
    return bus, seq, regs, ios, ioregs

def _install_overlap(bus, d_of):
    """bus.check_regions_overlap := the real function with both loops cut (invariants over the dict it is called with)"""
    def call(regions, check_linker=False):
        loops = _overlap_loops(regions); vc = VC(loops)
        fn, src = rewrite(S.SoCBusHandler.check_regions_overlap, loops, vc)
        _sidecar_ok(src.count("__vc.loop_begin(0,") == 1 and src.count("__vc.for_begin(1,") == 1, "loop structure of check_regions_overlap changed")
        return fn(bus, regions, check_linker)
    bus.check_regions_overlap = call

def _run_add_fixed(wrong, address_width=32):
    _init()
    stats = dict(accepted=0, raised=0, accepted_cached=0, accepted_uncached=0)
    def run(ctx):
        bus, seq, regs, ios, ioregs = _bus_state(ctx, address_width, inv_regs=True)
        bus.io_regions_check = SymBool(z3.Bool("io_regions_check"))
        r = _mk_region("n"); name = Name(z3.Int("name"))
        ctx.assume((r.origin >= 0) & (r.size >= 1) & (r.size_pow2 >= r.size))          # SoCRegion.__init__(proof): size_pow2 >= size for size >= 1
        dup = z3.Or(regs.has(name.t, old=True), ioregs.has(name.t, old=True))
        loops, some = _is_io_loops(ios, r); vc = AVC(loops)
        is_io_fn, src = rewrite(S.SoCBusHandler.check_region_is_io, loops, vc)
        bus.check_region_is_io = lambda region: is_io_fn(bus, region)
        _install_overlap(bus, regs)
        is_io = some(ios.len); ca = tobool(r.cached); ioc = tobool(bus.io_regions_check)
        io_bad = z3.And(ioc, z3.Or(z3.And(is_io, ca), z3.And(z3.Not(is_io), z3.Not(ca))))
        a = z3.Int("a")
        ro, rp, rl = toint(r.origin), toint(r.size_pow2), tobool(r.linker)
        ovl = z3.Exists([a], z3.And(0 <= a, a < seq.len, z3.Not(seq.fn["linker"](a)), z3.Not(rl), ov_t(seq.fn["origin"](a), seq.fn["size_pow2"](a), ro, rp)))
        try:
            S.SoCBusHandler.add_region(bus, name, r)
        except S.SoCError:
            elab.restore_stderr(); stats["raised"] += 1
            ctx.check("raise=>(duplicate-name-or-IO/cached-rule-broken-or-window-overlaps-an-existing-region)", z3.Or(dup, io_bad, ovl))
            ctx.check("raise.io_regions-unchanged", z3.BoolVal(bus.io_regions is ioregs and not ioregs.extra))
            return
        stats["accepted"] += 1
        ctx.check("post.name-was-not-used-by-any-region-or-IO-region", z3.Not(dup))
        ctx.check("post.added-exactly-this-region-under-this-name;io_regions-unchanged", z3.BoolVal(bus.regions is regs and len(regs.extra) == 1 and regs.extra[0][0] is name and regs.extra[0][1] is r and bus.io_regions is ioregs and not ioregs.extra))
        ctx.check("post.invariant(pairwise-disjoint-windows)", _disjoint(regs))
        ctx.check("post.window-disjoint-from-every-existing-non-linker-region", z3.Not(ovl))
        ctx.check("post.io-check=>uncached-region-lies-inside-an-IO-region", z3.Implies(z3.And(ioc, z3.Not(ca)), is_io))
        ctx.check("post.io-check=>region-inside-an-IO-region-is-uncached", z3.Implies(z3.And(ioc, is_io), z3.Not(ca)))
        # candidate finding: nothing confines a FIXED-origin region to the address space of the bus
        # (the property demands address-space containment for AUTOMATICALLY allocated regions only: the clause is not stated, the observation is in DESIGN.md;
        #  native demonstration kept as tools/replay_add_region_outside_address_space.py)
        if wrong: ctx.check("wrong.accepted=>cached", ca)
    paths, obl = _explore(run, max_paths=4000)
    return paths, obl, stats

def c_add_fixed():
    out = _wrap("add_region[fixed-origin]", _run_add_fixed, ["litex.soc.integration.soc.SoCBusHandler.add_region (fixed-origin branch, io_regions_check symbolic)",
                "litex.soc.integration.soc.SoCBusHandler.check_region_is_io (loop-cut, inlined)", "litex.soc.integration.soc.SoCBusHandler.check_regions_overlap (loop-cut, inlined)"],
                "arbitrary handler state satisfying the class invariant (unbounded regions and io_regions, symbolic names); symbolic region, symbolic cached / linker / io_regions_check",
                need=("loop0.init", "loop0.step", "loop1.init", "loop1.step"), extra_cover=lambda s: s["accepted"] >= 2 and s["raised"] >= 3)
    return _mark_findings(out, "add_region range-checks nothing for a fixed-origin region: a region lying beyond 2**address_width is accepted, and SoC.finalize builds it with a decoder that never matches",
                          "replay_add_region_outside_address_space")

def _run_add_io(wrong):
    _init()
    stats = dict(accepted=0, raised=0)
    def run(ctx):
        bus, seq, regs, ios, ioregs = _bus_state(ctx, inv_io=True)
        bus.io_regions_check = True
        r = _mk_region("n", cls=S.SoCIORegion); name = Name(z3.Int("name"))
        ctx.assume((r.origin >= 0) & (r.size >= 1) & (r.size_pow2 >= r.size))
        dup = z3.Or(regs.has(name.t, old=True), ioregs.has(name.t, old=True))
        _install_overlap(bus, ioregs)
        a = z3.Int("a")
        ro, rp, rl = toint(r.origin), toint(r.size_pow2), tobool(r.linker)
        ovl = z3.Exists([a], z3.And(0 <= a, a < ios.len, z3.Not(ios.fn["linker"](a)), z3.Not(rl), ov_t(ios.fn["origin"](a), ios.fn["size_pow2"](a), ro, rp)))
        try:
            S.SoCBusHandler.add_region(bus, name, r)
        except S.SoCError:
            elab.restore_stderr(); stats["raised"] += 1
            ctx.check("raise=>(duplicate-name-or-window-overlaps-an-existing-IO-region)", z3.Or(dup, ovl))
            ctx.check("raise.regions-unchanged", z3.BoolVal(bus.regions is regs and not regs.extra))
            return
        stats["accepted"] += 1
        ctx.check("post.name-was-not-used-by-any-region-or-IO-region", z3.Not(dup))
        ctx.check("post.added-exactly-this-IO-region-under-this-name;regions-unchanged", z3.BoolVal(bus.io_regions is ioregs and len(ioregs.extra) == 1 and ioregs.extra[0][0] is name and ioregs.extra[0][1] is r and bus.regions is regs and not regs.extra))
        ctx.check("post.invariant(IO-regions-pairwise-disjoint-windows)", _disjoint(ioregs))
        ctx.check("post.window-disjoint-from-every-existing-non-linker-IO-region", z3.Not(ovl))
        if wrong: ctx.check("wrong.accepted=>no-IO-region-before", ios.len == 0)
    paths, obl = _explore(run, max_paths=4000)
    return paths, obl, stats

def c_add_io():
    return _wrap("add_region[SoCIORegion]", _run_add_io, ["litex.soc.integration.soc.SoCBusHandler.add_region (SoCIORegion branch)", "litex.soc.integration.soc.SoCBusHandler.check_regions_overlap (loop-cut, inlined)"],
                 "arbitrary handler state satisfying the class invariant; symbolic IO region", need=("loop0.init", "loop0.step", "loop1.init", "loop1.step"),
                 extra_cover=lambda s: s["accepted"] >= 1 and s["raised"] >= 2)

def _run_add_other(wrong):
    _init()
    stats = dict(raised=0, accepted=0)
    def run(ctx):
        bus, seq, regs, ios, ioregs = _bus_state(ctx); bus.io_regions_check = True
        name = Name(z3.Int("name"))
        for obj in (object(), None, 0x1000, S.SoCCSRRegion(0, 32, None)):
            try: S.SoCBusHandler.add_region(bus, name, obj)
            except S.SoCError: elab.restore_stderr(); stats["raised"] += 1
            else: stats["accepted"] += 1
        ctx.check("post.object-that-is-no-SoCRegion-is-never-accepted", z3.BoolVal(stats["accepted"] == 0))
        ctx.check("post.state-unchanged", z3.BoolVal(bus.regions is regs and not regs.extra and bus.io_regions is ioregs and not ioregs.extra))
        if wrong: ctx.check("wrong.name-unused", z3.Not(z3.Or(regs.has(name.t), ioregs.has(name.t))))
    paths, obl = _explore(run)
    return paths, obl, stats
def c_add_other():
    return _wrap("add_region[not-a-region]", _run_add_other, ["litex.soc.integration.soc.SoCBusHandler.add_region (unsupported-object branch)"], "arbitrary handler state; four objects that are not SoCRegion instances",
                 extra_cover=lambda s: s["raised"] >= 4)

# =====================================================================================================================================
# location handlers: SoCLocHandler.add/alloc with a symbolic n_locs; SoCCSRHandler / SoCIRQHandler
# =====================================================================================================================================
class Locs:
    """the `locs` dict of a location handler in an arbitrary state: present[name], val[name] (z3 arrays over name identities) plus the GHOST
    inverse used[number] / owner[number] (specification state: which numbers are taken and by whom).  `n in locs.values()` is answered from the ghost,
    which the class invariant ties to the dict (see loc_inv): this keeps every query free of quantifier alternation."""
    def __init__(self, pres, val, used, owner): self.pres, self.val, self.used, self.owner = pres, val, used, owner
    @staticmethod
    def fresh(tag=""):
        c = pysym.CTX
        if tag == "": mk = lambda n, srt: z3.Const(n, srt)
        else: mk = lambda n, srt: c.fresh(n + tag, srt)
        AB, AI = z3.ArraySort(I, z3.BoolSort()), z3.ArraySort(I, I)
        return Locs(mk("pres", AB), mk("val", AI), mk("used", AB), mk("owner", AI))
    @staticmethod
    def empty(): return Locs(z3.K(I, z3.BoolVal(False)), z3.K(I, z3.IntVal(0)), z3.K(I, z3.BoolVal(False)), z3.K(I, z3.IntVal(0)))
    def keys(self): return _LView(self, "k")
    def values(self): return _LView(self, "v")
    def items(self): raise Unsupported("locs.items")
    def __getitem__(self, name):
        pysym.CTX.check("locs[name]:name-is-present(no-KeyError)", z3.Select(self.pres, name.t))
        return SymInt(z3.Select(self.val, name.t))
    def get(self, name, default=None):
        return SymInt(z3.Select(self.val, name.t)) if bool(SymBool(z3.Select(self.pres, name.t))) else default
    def __setitem__(self, name, n):
        k, nt = name.t, toint(n)
        if nt is None: raise Unsupported("locs value")
        used = z3.If(z3.Select(self.pres, k), z3.Store(self.used, z3.Select(self.val, k), z3.BoolVal(False)), self.used)      # overwriting a present name frees its number
        self.pres = z3.Store(self.pres, k, z3.BoolVal(True)); self.val = z3.Store(self.val, k, nt)
        self.used = z3.Store(used, nt, z3.BoolVal(True)); self.owner = z3.Store(self.owner, nt, k)
    def snapshot(self): return Locs(self.pres, self.val, self.used, self.owner)
class _LView:
    def __init__(self, d, kind): self.d, self.kind = d, kind
    def __contains__(self, x):
        if self.kind == "k": return bool(SymBool(z3.Select(self.d.pres, x.t)))
        if x is None: return False                        # the values are ints (class invariant)
        return bool(SymBool(z3.Select(self.d.used, toint(x))))
def loc_inv(l, n_locs):
    """class invariant of a location handler: names -> numbers is injective and every number lies in [0, n_locs); with the ghost inverse:
    every present name owns its number, every used number is the number of its (present) owner"""
    k, m = z3.Ints("k m"); P, V, U, O = l.pres, l.val, l.used, l.owner
    return z3.And(z3.ForAll([k], z3.Implies(z3.Select(P, k), z3.And(z3.Select(V, k) >= 0, z3.Select(V, k) < n_locs, z3.Select(U, z3.Select(V, k)), z3.Select(O, z3.Select(V, k)) == k))),
                  z3.ForAll([m], z3.Implies(z3.Select(U, m), z3.And(z3.Select(P, z3.Select(O, m)), z3.Select(V, z3.Select(O, m)) == m))))
def loc_inv_plain(l, n_locs):
    """the same invariant without the ghost: injective, in range (what the property states) - proved to follow from loc_inv"""
    a, b_ = z3.Ints("a b"); P, V = l.pres, l.val
    return z3.And(z3.ForAll([a, b_], z3.Implies(z3.And(z3.Select(P, a), z3.Select(P, b_), a != b_), z3.Select(V, a) != z3.Select(V, b_))),
                  z3.ForAll([a], z3.Implies(z3.Select(P, a), z3.And(z3.Select(V, a) >= 0, z3.Select(V, a) < n_locs))))

class SymRange:
    """range(n) for a symbolic n: element i is i, length max(n, 0)"""
    def __init__(self, n): self.n = toint(n)
    def __getitem__(self, i): return SymInt(toint(i))
    def length(self): return SymInt(z3.If(self.n > 0, self.n, 0))
class Reserved:
    """the reserved_csrs / reserved_irqs dict handed to a constructor: unknown length, entry i = (name rname(i), number rnum(i) or None)"""
    def __init__(self, tag):
        self.len = z3.Int(f"{tag}.len"); self.rname = z3.Function(f"{tag}.name", I, I); self.rnum = z3.Function(f"{tag}.num", I, I); self.none = z3.Function(f"{tag}.isNone", I, z3.BoolSort())
    def items(self): return self
    def __getitem__(self, i):
        it = toint(i)
        return (Name(self.rname(it)), None if bool(SymBool(self.none(it))) else SymInt(self.rnum(it)))
    def length(self): return SymInt(self.len)
class HVC(AVC):
    """AVC + loops that modify the heap: sp["heap"](locals) replaces the modified object state by fresh symbols between `check init` and `assume inv`"""
    def len(self, x):
        if isinstance(x, (SymRange, Reserved)): return x.length()
        return AVC.len(self, x)
    def for_begin(self, lid, iterable, L):
        sp = self.loops[lid]
        if "heap" not in sp: return AVC.for_begin(self, lid, iterable, L)
        C = pysym.CTX; pos_name = sp["pos"]; st = {"it": iterable}
        L0 = dict(L); L0[pos_name] = SymInt(z3.IntVal(0))
        C.check(f"loop{lid}.init", sp["inv"](L0))
        sp["heap"](L)
        hv = {pos_name: SymInt(C.fresh(pos_name))}
        for n, kind in sp.get("havoc", {}).items(): hv[n] = kind(L) if callable(kind) else (SymBool(C.fresh(n, z3.BoolSort())) if kind == "bool" else SymInt(C.fresh(n)))
        L2 = dict(L); L2.update(hv)
        C.assume(hv[pos_name] >= 0); C.assume(hv[pos_name] <= self.len(iterable)); C.assume(sp["inv"](L2))
        st["hv"] = hv; st["pos"] = hv[pos_name]; self.st[lid] = st
        return st

    def loop_begin(self, lid, L):
        sp = self.loops[lid]
        if "heap" not in sp: return AVC.loop_begin(self, lid, L)
        C = pysym.CTX
        C.check(f"loop{lid}.init", sp["inv"](L))
        sp["heap"](L)
        hv = {n: (kind(L) if callable(kind) else (SymBool(C.fresh(n, z3.BoolSort())) if kind == "bool" else SymInt(C.fresh(n)))) for n, kind in sp.get("havoc", {}).items()}
        L2 = dict(L); L2.update(hv); C.assume(sp["inv"](L2))
        return hv

def _alloc_cut(hnd):
    """the real SoCLocHandler.alloc with its loop over range(self.n_locs) cut: invariant `every number below the position is used`"""
    m = z3.Int("m")
    loops = {0: dict(pos="p", inv=lambda L: z3.ForAll([m], z3.Implies(z3.And(0 <= m, m < toint(L["p"])), z3.Select(L["self"].locs.used, m))))}
    vc = HVC(loops)
    fn, src = rewrite(S.SoCLocHandler.alloc, loops, vc)
    _sidecar_ok(src.count("__vc.for_begin(0,") == 1, "loop structure of SoCLocHandler.alloc changed")
    fn.__globals__["range"] = SymRange
    return lambda name: fn(hnd, name)

def _mk_handler(cls, ctx):
    ctx.solver.set("timeout", FEAS_MS)
    hnd = _quiet(cls.__new__(cls))
    hnd.name = {S.SoCLocHandler: "LOC", S.SoCCSRHandler: "CSR", S.SoCIRQHandler: "IRQ"}[cls]
    hnd.n_locs = SymInt(z3.Int("n_locs")); hnd.locs = Locs.fresh()
    ctx.assume(SymBool(loc_inv(hnd.locs, hnd.n_locs.t)))
    hnd.alloc = _alloc_cut(hnd)
    if cls is S.SoCIRQHandler: hnd.enabled = SymBool(z3.Bool("enabled"))
    return hnd

def _check_add_post(ctx, hnd, old, name, n, reuse, stats, prefix="post."):
    """postcondition of an accepted add(name, n, use_loc_if_exists=reuse) from the state `old`"""
    l = hnd.locs; N = hnd.n_locs.t; k, m = z3.Ints("k m")
    was = z3.Select(old.pres, name.t); g = z3.Select(l.val, name.t)
    ctx.check(prefix + "invariant(names->numbers-injective,numbers-in-[0,n_locs))", z3.And(loc_inv(l, N), loc_inv_plain(l, N)))
    ctx.check(prefix + "granted:name-present,0<=number<n_locs", z3.And(z3.Select(l.pres, name.t), g >= 0, g < N))
    ctx.check(prefix + "frame:every-other-name-keeps-its-number", z3.ForAll([k], z3.Implies(k != name.t, z3.And(z3.Select(l.pres, k) == z3.Select(old.pres, k), z3.Select(l.val, k) == z3.Select(old.val, k)))))
    ctx.check(prefix + "name-was-present-before=>reuse-requested-and-state-unchanged", z3.Implies(was, z3.And(tobool(reuse), g == z3.Select(old.val, name.t), l.used == old.used)))
    ctx.check(prefix + "new-name=>its-number-was-granted-to-no-other-client", z3.Implies(z3.Not(was), z3.And(z3.Not(z3.Select(old.used, g)),
                    z3.ForAll([k], z3.Implies(z3.And(z3.Select(old.pres, k)), z3.Select(old.val, k) != g)))))
    if n is not None: ctx.check(prefix + "new-name=>granted-the-requested-number", z3.Implies(z3.Not(was), g == toint(n)))
    else: ctx.check(prefix + "new-name=>granted-the-lowest-free-number", z3.Implies(z3.Not(was), z3.ForAll([m], z3.Implies(z3.And(0 <= m, m < g), z3.Select(old.used, m)))))

def _run_loc_add(wrong, cls=S.SoCLocHandler, fixed=True):
    _init()
    stats = dict(accepted=0, raised=0, reused=0)
    def run(ctx):
        hnd = _mk_handler(cls, ctx); old = hnd.locs.snapshot(); N = hnd.n_locs.t
        ctx.check("pre.ghost-invariant=>plain-invariant(injective,in-range)", loc_inv_plain(old, N))
        name = Name(z3.Int("name")); n = SymInt(z3.Int("n")) if fixed else None
        reuse = SymBool(z3.Bool("use_loc_if_exists"))
        m = z3.Int("m")
        was = z3.Select(old.pres, name.t)
        try:
            cls.add(hnd, name, n, use_loc_if_exists=reuse)
        except S.SoCError:
            elab.restore_stderr(); stats["raised"] += 1
            l = hnd.locs
            ctx.check("raise.state-unchanged", z3.And(l.pres == old.pres, l.val == old.val, l.used == old.used, l.owner == old.owner))
            why = [z3.And(was, z3.Not(tobool(reuse)))]
            if fixed: why += [z3.Select(old.used, n.t), n.t < 0, n.t >= N]
            else: why += [z3.ForAll([m], z3.Implies(z3.And(0 <= m, m < N), z3.Select(old.used, m)))]
            if cls is S.SoCIRQHandler: why += [z3.Not(tobool(hnd.enabled))]
            ctx.check("raise=>(name-already-used-or-number-already-used-or-out-of-range/no-free-number" + ("-or-IRQs-not-enabled)" if cls is S.SoCIRQHandler else ")"), z3.Or(*why))
            return
        stats["accepted"] += 1
        if cls is S.SoCIRQHandler: ctx.check("post.accepted=>IRQs-enabled", tobool(hnd.enabled))
        _check_add_post(ctx, hnd, old, name, n, reuse, stats)
        if wrong: ctx.check("wrong.granted-number-is-0", z3.Select(hnd.locs.val, name.t) == 0)
    paths, obl = _explore(run, max_paths=4000)
    return paths, obl, stats

def _replay_loc_add(clsname):
    def replay(model):
        """the counter-model's n_locs / n on an EMPTY handler of the unmodified class (catches range defects; a state-dependent defect is not replayed)"""
        if "n" not in model: return dict(reproduced=False)
        n, N = _mint(model, "n"), _mint(model, "n_locs")
        hd = S.SoCLocHandler("LOC", N); _quiet(hd)
        try: hd.add("client", n)
        except S.SoCError: elab.restore_stderr(); return dict(reproduced=False, n=n, n_locs=N)
        return dict(reproduced=not (0 <= hd.locs["client"] < N), call=f"SoCLocHandler('LOC', {N}).add('client', {n})", granted=hd.locs["client"])
    return replay

def c_loc_add(clsname, fixed):
    cls = getattr(S, clsname)
    tag = f"{clsname}.add[{'n' if fixed else 'n=None(alloc)'},n_locs-symbolic]"
    need = () if fixed else ("loop0.init", "loop0.step")
    return _wrap(tag, lambda w: _run_loc_add(w, cls, fixed), [f"litex.soc.integration.soc.{clsname}.add", "litex.soc.integration.soc.SoCLocHandler.add"] + ([] if fixed else ["litex.soc.integration.soc.SoCLocHandler.alloc (loop over range(n_locs) cut)"]),
                 "arbitrary name->number map satisfying the class invariant (z3 arrays + ghost inverse), SYMBOLIC n_locs, symbolic name / number / use_loc_if_exists" + (" / enabled" if cls is S.SoCIRQHandler else ""),
                 need=need, extra_cover=lambda s: s["accepted"] >= 2 and s["raised"] >= 2, replay=_replay_loc_add(clsname) if fixed else None)

# ---- constructors --------------------------------------------------------------------------------------------------------------------
class _Opaque:
    """value that only reaches a log message"""
    def __format__(self, spec): return "<opaque>"
    __str__ = __repr__ = lambda self: "<opaque>"
class CInt(SymInt):
    """SymInt for constructor parameters: 2**x stays a CInt and `/` (true division, only used to print KiB figures) gives an opaque value"""
    def __rpow__(self, base, mod=None): return CInt(AP._rpow(self, base, mod).t)
    def __truediv__(self, o): return _Opaque()
    def __rtruediv__(self, o): return _Opaque()
    __hash__ = SymInt.__hash__

def _sub(cls):
    """subclass of the real handler class that differs in one point only: the EMPTY dict the constructor stores in self.locs is represented by the
    empty symbolic map (so that the real add/alloc called by the constructor run on the proxy); alloc is the loop-cut real alloc"""
    class X(cls):
        @property
        def locs(self): return self.__dict__["_locs"]
        @locs.setter
        def locs(self, v):
            if isinstance(v, dict):
                if v: raise Unsupported("non-empty dict literal stored in locs")
                v = Locs.empty()
            self.__dict__["_locs"] = v
        def alloc(self, name): return _alloc_cut(self)(name)
    X.__name__ = cls.__name__; X.__qualname__ = cls.__qualname__
    return X

def _reserved_loop(rsv, n_locs_of):
    """sidecar invariant of `for name, n in reserved.items(): self.add(name, n)`: the class invariant holds and every reserved entry handled so far
    is present (with its number when one was given); the loop modifies self.locs (heap havoc)"""
    a = z3.Int("a")
    def inv(L):
        h = L["self"]; l = h.locs; kpos = toint(L["k"])
        return z3.And(loc_inv(l, n_locs_of(h)), z3.ForAll([a], z3.Implies(z3.And(0 <= a, a < kpos), z3.And(z3.Select(l.pres, rsv.rname(a)), z3.Or(rsv.none(a), z3.Select(l.val, rsv.rname(a)) == rsv.rnum(a))))))
    def heap(L): L["self"].locs = Locs.fresh("!h")
    return {0: dict(pos="k", inv=inv, heap=heap)}, inv

CSR_DW, CSR_AW, CSR_AL, CSR_PG, CSR_ORD = [8, 32], [14, 15, 16, 17, 18], [32], [0x400, 0x800, 0x1000, 0x2000, 0x4000], ["big", "little"]
def _member(t, vals): return z3.Or(*[t == v for v in vals])

def _run_csr_init(wrong, ordering="big"):
    """the real constructor, unmodified, on ALL int configurations, with no reserved entries"""
    _init()
    AP._init_z3()
    stats = dict(returned=0, raised=0)
    def run(ctx):
        ctx.solver.set("timeout", FEAS_MS)
        ctx.assume(z3.And(*[AP.pow2_def(z3.IntVal(i)) for i in range(0, 20)]))          # instances of the definition of 2**k (k = 0..19)
        dw, aw, al, pg = CInt(z3.Int("data_width")), CInt(z3.Int("address_width")), CInt(z3.Int("alignment")), CInt(z3.Int("paging"))
        ctx.assume(z3.And(aw.t >= 0, pg.t != 0))          # a negative width makes 2**x a float, paging 0 a ZeroDivisionError (both before any check): outside the contract
        X = _sub(S.SoCCSRHandler)
        h = X.__new__(X)
        legal = z3.And(_member(dw.t, CSR_DW), _member(aw.t, CSR_AW), _member(al.t, CSR_AL), _member(pg.t, CSR_PG), z3.BoolVal(ordering in CSR_ORD), dw.t <= al.t)
        try:
            S.SoCCSRHandler.__init__(h, data_width=dw, address_width=aw, alignment=al, paging=pg, ordering=ordering, reserved_csrs={})
        except S.SoCError:
            elab.restore_stderr(); stats["raised"] += 1
            ctx.check("raise=>illegal-configuration", z3.Not(legal))
            if wrong: ctx.check("wrong.raise=>data_width-unsupported", z3.Not(_member(dw.t, CSR_DW)))
            return
        stats["returned"] += 1
        N = toint(h.n_locs); l = h.locs
        ctx.check("post.configuration-is-a-supported-one", legal)
        ctx.check("post.fields-kept", z3.BoolVal(h.data_width is dw and h.address_width is aw and h.alignment is al and h.paging is pg and h.ordering == ordering and h.masters == {} and h.regions == {} and h.name == "CSR"))
        ctx.check("post.pages-tile-the-CSR-space:n_locs*paging==(alignment//8)*2**address_width==2**(address_width+2)", z3.And(N * pg.t == (al.t / 8) * AP.POW2(aw.t), N >= 1, (al.t / 8) * AP.POW2(aw.t) == 4 * AP.POW2(aw.t)))
        ctx.check("post.no-location-granted-yet(invariant-holds-trivially)", z3.And(l.pres == z3.K(I, z3.BoolVal(False)), l.used == z3.K(I, z3.BoolVal(False)), loc_inv(l, N)))
        # every page of the handler lies inside the bus region add_csr_bridge creates for the CSR space (2**(address_width+2) bytes): for ALL page numbers
        n_ = z3.Int("n_")
        ctx.check("post.every-location-0<=n<n_locs-is-a-page-inside-the-CSR-space:0<=paging*n,paging*(n+1)<=2**(address_width+2)", z3.ForAll([n_], z3.Implies(z3.And(0 <= n_, n_ < N), z3.And(pg.t * n_ >= 0, pg.t * (n_ + 1) <= 4 * AP.POW2(aw.t)))))
        if wrong: ctx.check("wrong.n_locs==32", N == 32)
    paths, obl = _explore(run, max_paths=6000)
    return paths, obl, stats

def _replay_csr_init(ordering):
    def replay(model):
        dw, aw, al, pg = (_mint(model, k) for k in ("data_width", "address_width", "alignment", "paging"))
        try: h = S.SoCCSRHandler(data_width=dw, address_width=aw, alignment=al, paging=pg, ordering=ordering)
        except S.SoCError: elab.restore_stderr(); return dict(reproduced=False, note="rejected")
        legal = dw in CSR_DW and aw in CSR_AW and al in CSR_AL and pg in CSR_PG and ordering in CSR_ORD
        return dict(reproduced=(not legal) or h.n_locs * pg != 2**(aw + 2), call=f"SoCCSRHandler(data_width={dw}, address_width={aw}, alignment={al}, paging={pg}, ordering={ordering!r})", n_locs=h.n_locs, csr_space_bytes=2**(aw + 2))
    return replay

def c_csr_init(ordering):
    legal = ordering in CSR_ORD
    return _wrap(f"SoCCSRHandler.__init__[ordering={ordering!r}]", lambda w: _run_csr_init(w, ordering), ["litex.soc.integration.soc.SoCCSRHandler.__init__", "litex.soc.integration.soc.SoCLocHandler.__init__"],
                 "ALL int data_width / address_width >= 0 / alignment / paging != 0 (symbolic); reserved_csrs = {}", replay=_replay_csr_init(ordering),
                 extra_cover=(lambda s: s["returned"] == 50 and s["raised"] >= 4) if legal else (lambda s: s["returned"] == 0 and s["raised"] >= 1))

def _run_csr_reserved(wrong, address_width=14, paging=0x800):
    """the constructor's loop over an UNBOUNDED reserved_csrs dict (loop cut; the loop modifies self.locs), at one legal configuration"""
    _init()
    stats = dict(returned=0, raised=0)
    def run(ctx):
        ctx.solver.set("timeout", FEAS_MS)
        rsv = Reserved("reserved"); ctx.assume(SymBool(rsv.len >= 0))
        X = _sub(S.SoCCSRHandler)
        loops, inv = _reserved_loop(rsv, lambda h: toint(h.n_locs)); vc = HVC(loops)
        init, src = rewrite(S.SoCCSRHandler.__init__, loops, vc)
        _sidecar_ok(src.count("__vc.for_begin(0,") == 1 and "reserved_csrs.items()" in src, "loop structure of SoCCSRHandler.__init__ changed")
        h = X.__new__(X); a = z3.Int("a")
        try:
            init(h, data_width=32, address_width=address_width, alignment=32, paging=paging, ordering="big", reserved_csrs=rsv)
        except S.SoCError:
            elab.restore_stderr(); stats["raised"] += 1
            ctx.check("raise=>a-reserved-entry-was-rejected", rsv.len > 0)
            return
        stats["returned"] += 1
        N = h.n_locs; l = h.locs
        ctx.check("post.n_locs", z3.BoolVal(N == 4 * 2**address_width // paging))
        ctx.check("post.invariant(names->numbers-injective,numbers-in-[0,n_locs))", z3.And(loc_inv(l, N), loc_inv_plain(l, N)))
        ctx.check("post.every-reserved-CSR-holds-its-requested-page", z3.ForAll([a], z3.Implies(z3.And(0 <= a, a < rsv.len), z3.And(z3.Select(l.pres, rsv.rname(a)), z3.Or(rsv.none(a), z3.Select(l.val, rsv.rname(a)) == rsv.rnum(a))))))
        ctx.check("post.reserved-names-are-pairwise-different,numbers-too", z3.ForAll([a], z3.Implies(z3.And(0 <= a, a < rsv.len), z3.And(z3.Select(l.val, rsv.rname(a)) >= 0, z3.Select(l.val, rsv.rname(a)) < N))))
        if wrong: ctx.check("wrong.at-most-one-reserved-entry", rsv.len <= 1)
    paths, obl = _explore(run, max_paths=6000)
    return paths, obl, stats

def c_csr_reserved(address_width, paging):
    return _wrap(f"SoCCSRHandler.__init__[reserved_csrs,aw={address_width},paging=0x{paging:x}]", lambda w: _run_csr_reserved(w, address_width, paging),
                 ["litex.soc.integration.soc.SoCCSRHandler.__init__ (loop over reserved_csrs cut)", "litex.soc.integration.soc.SoCLocHandler.add", "litex.soc.integration.soc.SoCLocHandler.alloc (loop-cut)"],
                 "unbounded symbolic reserved_csrs dict (symbolic names; numbers symbolic or None); one legal configuration",
                 need=("loop0.init", "loop0.step"), extra_cover=lambda s: s["returned"] >= 1 and s["raised"] >= 2)

def _run_irq_init(wrong):
    _init()
    stats = dict(returned=0, raised=0)
    def run(ctx):
        ctx.solver.set("timeout", FEAS_MS)
        n_irqs = CInt(z3.Int("n_irqs")); rsv = Reserved("reserved"); ctx.assume(SymBool(rsv.len >= 0))
        X = _sub(S.SoCIRQHandler)
        EMPTY = z3.K(I, z3.BoolVal(False))
        loops = {0: dict(pos="k", heap=lambda L: None, inv=lambda L: z3.And(toint(L["k"]) == 0, L["self"].locs.pres == EMPTY, L["self"].locs.used == EMPTY, z3.BoolVal(L["self"].enabled is False)))}
        vc = HVC(loops)
        init, src = rewrite(S.SoCIRQHandler.__init__, loops, vc)
        _sidecar_ok(src.count("__vc.for_begin(0,") == 1 and "reserved_irqs.items()" in src, "loop structure of SoCIRQHandler.__init__ changed")
        h = X.__new__(X)
        try:
            init(h, n_irqs=n_irqs, reserved_irqs=rsv)
        except S.SoCError:
            elab.restore_stderr(); stats["raised"] += 1
            ctx.check("raise=>(more-than-32-IRQs-or-a-reserved-entry)", z3.Or(n_irqs.t > 32, rsv.len > 0))
            return
        stats["returned"] += 1
        ctx.check("post.n_locs==n_irqs<=32", z3.And(z3.BoolVal(h.n_locs is n_irqs), n_irqs.t <= 32))
        ctx.check("post.no-IRQ-granted-yet,handler-disabled", z3.And(h.locs.pres == EMPTY, h.locs.used == EMPTY, loc_inv(h.locs, n_irqs.t), z3.BoolVal(h.enabled is False and h.name == "IRQ")))
        ctx.check("post.(observation)returns-only-without-reserved-entries", rsv.len == 0)     # add() raises while the handler is not enabled, and __init__ leaves it disabled
        if wrong: ctx.check("wrong.n_irqs==32", n_irqs.t == 32)
    paths, obl = _explore(run)
    return paths, obl, stats

def c_irq_init():
    return _wrap("SoCIRQHandler.__init__", _run_irq_init, ["litex.soc.integration.soc.SoCIRQHandler.__init__", "litex.soc.integration.soc.SoCIRQHandler.add (called by the constructor)"],
                 "ALL int n_irqs (symbolic), unbounded symbolic reserved_irqs dict", need=("loop0.init",), extra_cover=lambda s: s["returned"] >= 1 and s["raised"] >= 2)

# ---- SoCCSRHandler.address_map / add_region -------------------------------------------------------------------------------------------
def _run_address_map(wrong, with_memory=False):
    _init()
    stats = dict(accepted=0, raised=0)
    def run(ctx):
        hnd = _mk_handler(S.SoCCSRHandler, ctx); old = hnd.locs.snapshot(); N = hnd.n_locs.t
        name = Name(z3.Int("name")); m = z3.Int("m"); k = z3.Int("k")
        memid = z3.Int("memory.id") if with_memory else z3.IntVal(0)
        OV = z3.Function("memory.name_override", I, I)
        class Mem: name_override = Name(OV(memid))
        if with_memory: ctx.assume(memid != 0)
        def mangle(n_, m_): return z3.If(m_ == 0, n_, CAT(SUF(n_), OV(m_)))
        key = mangle(name.t, memid)
        # GHOST: which keys address_map has already handed out, and to which client (module name, memory id; 0 = the module's CSR bank)
        handed = z3.Array("ghost.handed", I, z3.BoolSort()); cl_name = z3.Array("ghost.client.name", I, I); cl_mem = z3.Array("ghost.client.memory", I, I)
        # ghost invariant `a handed key is present and is the mangled name of the client it was handed to`, instantiated at the one key this call touches
        ctx.assume(z3.Implies(z3.Select(handed, key), z3.And(z3.Select(old.pres, key), key == mangle(z3.Select(cl_name, key), z3.Select(cl_mem, key)))))
        try:
            got = S.SoCCSRHandler.address_map(hnd, name, Mem if with_memory else None)
        except S.SoCError:
            elab.restore_stderr(); stats["raised"] += 1
            l = hnd.locs
            ctx.check("raise.state-unchanged", z3.And(l.pres == old.pres, l.val == old.val, l.used == old.used))
            ctx.check("raise=>name-is-new-and-no-free-page", z3.And(z3.Not(z3.Select(old.pres, key)), z3.ForAll([m], z3.Implies(z3.And(0 <= m, m < N), z3.Select(old.used, m)))))
            return
        stats["accepted"] += 1
        final = Name(key)
        ctx.check("post.returns-the-page-recorded-for-the-(mangled)-name", z3.And(z3.Select(hnd.locs.pres, key), toint(got) == z3.Select(hnd.locs.val, key)))
        ctx.check("post.page-inside-[0,n_locs)", z3.And(toint(got) >= 0, toint(got) < N))
        _check_add_post(ctx, hnd, old, final, None, True, stats)
        # each CSR page is granted to at most one client: a key already handed to a client must belong to THIS client (candidate finding: the mangling is not injective)
        ctx.check("finding.page-was-not-already-handed-to-a-different-client", z3.Implies(z3.Select(handed, key), z3.And(z3.Select(cl_name, key) == name.t, z3.Select(cl_mem, key) == memid)))
        if wrong: ctx.check("wrong.name-was-new", z3.Not(z3.Select(old.pres, key)))
    paths, obl = _explore(run, max_paths=4000)
    return paths, obl, stats

def _replay_tool(fname, func="scenario", *args):
    import io as _io, contextlib, importlib.util
    spec = importlib.util.spec_from_file_location(fname, f"/verif/tools/{fname}.py"); rp = importlib.util.module_from_spec(spec); spec.loader.exec_module(rp)
    buf = _io.StringIO()
    lvl = logging.root.manager.disable
    try:
        with contextlib.redirect_stdout(buf): hit = getattr(rp, func)(*args)
    finally: logging.disable(lvl); elab.restore_stderr()
    return bool(hit), buf.getvalue()[-900:]

def _mark_findings(out, what, tool):
    for r_ in out["results"]:
        if ".finding." in r_["name"]:
            r_["kind"] = "finding-witness"; r_["what"] = what
            if r_["status"] == NOINPUT:
                hit, txt = _replay_tool(tool); r_["replay_info"] = txt
                if hit: r_["status"] = VIOLATED; r_["replay"] = f"tools/{tool}.py"
    return out

def c_address_map(with_memory):
    out = _wrap(f"SoCCSRHandler.address_map[memory={'given' if with_memory else 'None'}]", lambda w: _run_address_map(w, with_memory),
                ["litex.soc.integration.soc.SoCCSRHandler.address_map", "litex.soc.integration.soc.SoCLocHandler.add (use_loc_if_exists=True)", "litex.soc.integration.soc.SoCLocHandler.alloc (loop-cut)"],
                "arbitrary name->page map satisfying the class invariant, symbolic n_locs; symbolic module name / memory name; ghost record of the clients already served",
                need=("loop0.init", "loop0.step"), extra_cover=lambda s: s["accepted"] >= 2 and s["raised"] >= 1)
    return _mark_findings(out, "SoCCSRHandler.address_map hands the CSR page of an existing client to a different client when module + '_' + memory name equals another module's name (mangling not injective, use_loc_if_exists=True)",
                          "replay_csr_name_mangling_collision")

def _run_csr_add_region(wrong):
    _init()
    stats = dict(accepted=0, raised=0)
    def run(ctx):
        ctx.solver.set("timeout", FEAS_MS)
        hnd = _quiet(S.SoCCSRHandler.__new__(S.SoCCSRHandler))
        seq = SymRecordSeq("CR", {"origin": "int"}); regs = NDict(seq); ctx.assume(SymBool(seq.len >= 0)); hnd.regions = regs
        name = Name(z3.Int("name")); region = S.SoCCSRRegion(SymInt(z3.Int("origin")), 32, None)
        dup = regs.has(name.t, old=True)
        try:
            S.SoCCSRHandler.add_region(hnd, name, region)
        except S.SoCError:
            elab.restore_stderr(); stats["raised"] += 1; return
        stats["accepted"] += 1
        ctx.check("post.region-recorded-under-the-name", z3.BoolVal(hnd.regions is regs and len(regs.extra) == 1 and regs.extra[0][0] is name and regs.extra[0][1] is region))
        ctx.check("finding.name-was-not-already-used-by-another-CSR-region", z3.Not(dup))
        if wrong: ctx.check("wrong.no-region-before", seq.len == 0)
    paths, obl = _explore(run)
    return paths, obl, stats

def c_csr_add_region():
    out = _wrap("SoCCSRHandler.add_region", _run_csr_add_region, ["litex.soc.integration.soc.SoCCSRHandler.add_region"], "arbitrary regions dict (unbounded), symbolic name", extra_cover=lambda s: s["accepted"] >= 1)
    return _mark_findings(out, "SoCCSRHandler.add_region has no checks ('FIXME: add checks'): a second region with a name already in use silently replaces the first (reached from SoC.finalize through the same name mangling collision)",
                          "replay_csr_name_mangling_collision")

# =====================================================================================================================================
# generic_platform.ConstraintManager: get_sig_constraints / get_io_signals / add_extension / request_all / request_remaining
# (resource model of contracts/C13_alloc_proofs.py: a resource is its identity, name/number are functions of it, the constraint tail is concrete)
# =====================================================================================================================================
def _uf(tag, *sorts):
    c = pysym.CTX; c.k += 1
    return z3.Function(f"{tag}!{c.k}", *sorts)
class MObj:
    """the Record stored beside matched entry i; whether it (still) has the sub-signal `n` is the symbolic HAS(i, n) (a Signal may have been removed from it)"""
    def __init__(self, i, has): self.__dict__.update(i=i, has=has)
    def __getattr__(self, n):
        if n.startswith("__"): raise AttributeError(n)
        if not bool(SymBool(self.has(self.i, AP._code(n)))): raise AttributeError(n)
        return ("attribute", n, self.i)
class MList(AP.PMatched):
    def __init__(self, name, tail, mkobj): AP.PMatched.__init__(self, name, tail); self.mkobj = mkobj
    def __getitem__(self, i):
        it = toint(i)
        for j, e in enumerate(self.extra):
            if SymBool(it == self.len0 + j): return e
        pysym.CTX.assume(z3.And(it >= 0, it < self.len0)); return (AP.PRes(self.res(it), self.tail), self.mkobj(it))
class RL:
    """a Python list built by a cut loop: symbolic prefix of length len0 whose element j is described by GHOST coordinates (src(j), sub(j)) - the matched
    entry and the sub-signal it was made from - followed by the items appended in the current iteration.  idx(i, s) is the ghost inverse."""
    def __init__(self, tag="r"):
        self.len0 = pysym.CTX.fresh(f"{tag}.len"); self.src = _uf(f"{tag}.src", I, I); self.sub = _uf(f"{tag}.sub", I, I); self.idx = _uf(f"{tag}.idx", I, I, I); self.extra = []
    def append(self, x): self.extra.append(x)
    def length(self): return SymInt(self.len0 + len(self.extra))
class SymSetP:
    """a Python set built by a cut loop: its elements are flattened IO signals, identified by (matched entry i, position k in obj.flatten());
    member(i, k) describes the symbolic part, `extra` the elements added in the current iteration"""
    def __init__(self, *a):
        if a: raise Unsupported("set(iterable)")
        self.member = lambda i_, k_: z3.BoolVal(False); self.extra = []
    def havoc(self): f = _uf("set.member", I, I, z3.BoolSort()); self.member = lambda i_, k_: f(i_, k_); self.extra = []
    def add(self, x): self.extra.append((x.oi, x.ok))
    def update(self, it):
        for x in it: self.add(x)
    def has(self, i_, k_): return z3.Or(self.member(i_, k_), *[z3.And(i_ == a, k_ == b) for a, b in self.extra])
    def length(self): raise Unsupported("len(set)")
class SObj(GP.Signal):
    """a Signal stored beside matched entry i (or the k-th signal of the Record stored there); the real Signal constructor is not run"""
    def __init__(self, i, k=0): self.__dict__.update(oi=i, ok=k)
    __hash__ = None
class RObj:
    def __init__(self, i, n): self.oi, self.n = i, n
    def flatten(self): return [SObj(self.oi, k) for k in range(self.n)]
class XList(AP.PList):
    """AP.PList + what add_extension / request_all need: copy, concatenation, extend; GHOST emb: position in the list -> position in the list it was
    derived from by removals (kept by remove)"""
    def __init__(self, name, tail):
        AP.PList.__init__(self, name, tail); self.emb = None; self.last_removed = None
    def copy(self):
        c = XList.__new__(XList); c.__dict__.update(self.__dict__); return c
    def __add__(self, o):
        if not isinstance(o, AP.PList): return NotImplemented
        c = self.copy(); a0, l0, a1 = self.at, self.len, o.at
        c.at = lambda i: z3.If(i < l0, a0(i), a1(i - l0)); c.len = l0 + o.len; return c
    def extend(self, o):
        a0, l0, a1 = self.at, self.len, o.at
        self.at = lambda i: z3.If(i < l0, a0(i), a1(i - l0)); self.len = l0 + o.len
    def remove(self, x):
        emb = self.emb
        AP.PList.remove(self, x)
        f = self.removed; self.last_removed = (f, emb)
        if emb is not None: self.emb = lambda i: z3.If(i < f, emb(i), emb(i + 1))
class GVC(HVC):
    def len(self, x):
        if isinstance(x, AP.PList): return SymInt(x.len)
        if isinstance(x, AP.PMatched): return SymInt(x.total_len())
        if isinstance(x, (RL, SymSetP)): return x.length()
        return HVC.len(self, x)
    def list(self, x=()):
        if isinstance(x, AP.PList): return x.copy()
        return HVC.list(self, x)

def _lexlt(a0, a1, b0, b1): return z3.Or(a0 < b0, z3.And(a0 == b0, a1 < b1))

def _run_sig_constraints(wrong, shape="pins"):
    _init()
    AP._init_z3()
    stats = dict(returned=0)
    tail = AP._tails()[shape]
    subs = [e for e in tail if isinstance(e, GP.Subsignal)]
    nsub = max(1, len(subs))
    def run(ctx):
        ctx.solver.set("timeout", FEAS_MS)
        HAS = z3.Function("obj.has_subsignal", I, I, z3.BoolSort())
        M = MList("matched", tail, lambda i: MObj(i, HAS)); ctx.assume(SymBool(M.len0 >= 0))
        cm = GP.ConstraintManager.__new__(GP.ConstraintManager); cm.matched = M; cm.available = AP.PList("available", tail); cm.platform_commands = []
        cm.connector_manager = GP.ConnectorManager([])
        a, b_, j, j2 = z3.Ints("a b j j2")
        def expect(e, i_, s_):
            """the tuple appended for matched entry i_, sub-signal number s_ is exactly that resource's constraint: (its signal, the pins of the description, the other constraints, (name, number, sub-signal name))"""
            sig, pins, others, ident = e
            rid = M.res(i_)
            if subs:
                sb = subs[s_]; top = [x for x in tail if not isinstance(x, GP.Subsignal)]
                want_pins, want_others = GP._separate_pins(top + sb.constraints)
                okc = isinstance(sig, tuple) and sig[:2] == ("attribute", sb.name) and ident[2] == sb.name and pins == want_pins and len(others) == len(want_others) and all(x is y for x, y in zip(others, want_others))
                io = sig[2] if isinstance(sig, tuple) else None
            else:
                want_pins, want_others = GP._separate_pins(list(tail))
                okc = isinstance(sig, MObj) and ident[2] is None and pins == want_pins and len(others) == len(want_others) and all(x is y for x, y in zip(others, want_others))
                io = sig.i if isinstance(sig, MObj) else None
            if not okc or io is None: return z3.BoolVal(False)
            return z3.And(io == i_, ident[0].t == AP.RES_NAME(rid), toint(ident[1]) == AP.RES_NUM(rid))
        def coords(r, pos):
            """(total length, SRC, SUB, IDX, well-formedness of the items appended in this iteration) of the list r"""
            if isinstance(r, list):
                assert not r; return z3.IntVal(0), (lambda x: z3.IntVal(-1)), (lambda x: z3.IntVal(-1)), (lambda i_, s_: z3.IntVal(-1)), z3.BoolVal(True)
            SRC, SUB, IDX, wf = r.src, r.sub, r.idx, []
            for e_i, e in enumerate(r.extra):
                sname = e[3][2]; s_ = [x.name for x in subs].index(sname) if subs else 0
                wf.append(expect(e, pos, s_))
                SRC = (lambda f, n_=e_i: lambda x: z3.If(x == r.len0 + n_, pos, f(x)))(SRC)
                SUB = (lambda f, n_=e_i, sv=s_: lambda x: z3.If(x == r.len0 + n_, sv, f(x)))(SUB)
                IDX = (lambda f, n_=e_i, sv=s_: lambda i_, q_: z3.If(z3.And(i_ == pos, q_ == sv), r.len0 + n_, f(i_, q_)))(IDX)
            return r.len0 + len(r.extra), SRC, SUB, IDX, z3.And(*wf) if wf else z3.BoolVal(True)
        def present(i_, s_): return HAS(i_, AP._code(subs[s_].name)) if subs else z3.BoolVal(True)
        def inv_at(r, done, pos_cur):
            TL, SRC, SUB, IDX, wf = coords(r, pos_cur)
            cl = [TL >= 0, wf,
                  z3.ForAll([j], z3.Implies(z3.And(0 <= j, j < TL), z3.And(0 <= SRC(j), SRC(j) < done, 0 <= SUB(j), SUB(j) < nsub))),
                  z3.ForAll([j, j2], z3.Implies(z3.And(0 <= j, j < j2, j2 < TL), _lexlt(SRC(j), SUB(j), SRC(j2), SUB(j2))))]
            if not subs: cl += [TL == done, z3.ForAll([j], z3.Implies(z3.And(0 <= j, j < TL), SRC(j) == j))]      # without sub-signals: exactly one item per entry
            for s_ in range(nsub):
                cl.append(z3.ForAll([a], z3.Implies(z3.And(0 <= a, a < done, present(a, s_)), z3.And(0 <= IDX(a, z3.IntVal(s_)), IDX(a, z3.IntVal(s_)) < TL, SRC(IDX(a, z3.IntVal(s_))) == a, SUB(IDX(a, z3.IntVal(s_))) == s_))))
            return z3.And(*cl), (TL, SRC, SUB, IDX)
        def inv(L):
            q = toint(L["q"]); r = L["r"]
            # loop_init: q = 0, r = []; loop step: called with q = position + 1 and r = prefix + the items of entry `position`
            return inv_at(r, q, q - 1)[0]
        loops = {0: dict(pos="q", heap=lambda L: None, havoc={"r": lambda L: RL("r")}, inv=inv)}
        vc = GVC(loops)
        fn, src = rewrite(GP.ConstraintManager.get_sig_constraints, loops, vc)
        _sidecar_ok(src.count("__vc.for_begin(0,") == 1 and "self.matched" in src, "loop structure of get_sig_constraints changed")
        r = fn(cm)
        stats["returned"] += 1
        ctx.check("post.returns-the-list;manager-state-unchanged", z3.BoolVal(isinstance(r, RL) and not r.extra and cm.matched is M and not M.extra))
        if not isinstance(r, RL): return
        (_, (TL, SRC, SUB, IDX)) = inv_at(r, M.len0, M.len0)
        ctx.check("post.every-constraint-belongs-to-a-MATCHED-resource(nothing-for-available/unknown-ones)", z3.ForAll([j], z3.Implies(z3.And(0 <= j, j < TL), z3.And(0 <= SRC(j), SRC(j) < M.len0))))
        ctx.check("post.each-(matched-resource,sub-signal)-appears-at-most-once,in-request-order", z3.ForAll([j, j2], z3.Implies(z3.And(0 <= j, j < j2, j2 < TL), _lexlt(SRC(j), SUB(j), SRC(j2), SUB(j2)))))
        # IDX (ghost of the loop invariant) = position of the constraint of (entry, sub-signal) in the list: Skolem form of `there is a position j with ...`
        ctx.check("post.every-matched-resource-has-its-constraint(for-each-sub-signal-the-object-still-has),at-position-IDX", z3.And(*[z3.ForAll([a], z3.Implies(z3.And(0 <= a, a < M.len0, present(a, s_)),
                    z3.And(0 <= IDX(a, z3.IntVal(s_)), IDX(a, z3.IntVal(s_)) < TL, SRC(IDX(a, z3.IntVal(s_))) == a, SUB(IDX(a, z3.IntVal(s_))) == s_))) for s_ in range(nsub)]))
        if not subs: ctx.check("post.exactly-one-constraint-per-matched-resource", z3.And(TL == M.len0, z3.ForAll([j], z3.Implies(z3.And(0 <= j, j < TL), SRC(j) == j))))
        # identifiers (name, number, sub-signal) are pairwise different when the description has no two resources with the same (name, number)  [sub-signal names of the shape are pairwise different]
        uniq_desc = z3.ForAll([a, b_], z3.Implies(z3.And(0 <= a, a < b_, b_ < M.len0), z3.Not(z3.And(AP.RES_NAME(M.res(a)) == AP.RES_NAME(M.res(b_)), AP.RES_NUM(M.res(a)) == AP.RES_NUM(M.res(b_))))))
        ident_eq = lambda x, y: z3.And(AP.RES_NAME(M.res(SRC(x))) == AP.RES_NAME(M.res(SRC(y))), AP.RES_NUM(M.res(SRC(x))) == AP.RES_NUM(M.res(SRC(y))), SUB(x) == SUB(y))
        ctx.check("post.description-has-unique-(name,number)=>constraint-identifiers-(name,number,sub-signal)-pairwise-different", z3.Implies(z3.And(uniq_desc, z3.BoolVal(len({x.name for x in subs}) == len(subs))), z3.ForAll([j, j2], z3.Implies(z3.And(0 <= j, j < j2, j2 < TL), z3.Not(ident_eq(j, j2))))))
        # vacuity guard: the path condition admits the scenario `one matched resource with all its sub-signals, one constraint per sub-signal`
        if wrong:
            wit = [M.len0 == 1, TL == nsub] + [present(z3.IntVal(0), s_) for s_ in range(nsub)]
            for s_ in range(nsub): wit += [SRC(z3.IntVal(s_)) == 0, SUB(z3.IntVal(s_)) == s_, IDX(z3.IntVal(0), z3.IntVal(s_)) == s_]
            ctx.check("wrong.not(one-matched-resource,one-constraint-per-sub-signal)", z3.Not(z3.And(*wit)))
    paths, obl = _explore(run, max_paths=4000)
    return paths, obl, stats

def c_sig_constraints(shape):
    return _wrap(f"ConstraintManager.get_sig_constraints[{shape}]", lambda w: _run_sig_constraints(w, shape), ["litex.build.generic_platform.ConstraintManager.get_sig_constraints", "litex.build.generic_platform._separate_pins",
                 "litex.build.generic_platform.ConnectorManager.resolve_identifiers (concrete pins, no connector)"],
                 "unbounded symbolic matched list (one constraint shape), symbolic presence of each sub-signal in the stored Record", need=("loop0.init", "loop0.step"), extra_cover=lambda s: s["returned"] >= 1)

def _run_io_signals(wrong, shape="pins"):
    _init()
    AP._init_z3()
    stats = dict(returned=0)
    tail = AP._tails()[shape]
    nflat = max(1, len([e for e in tail if isinstance(e, GP.Subsignal)]))
    is_record = any(isinstance(e, GP.Subsignal) for e in tail)
    def run(ctx):
        ctx.solver.set("timeout", FEAS_MS)
        M = MList("matched", tail, (lambda i: RObj(i, nflat)) if is_record else (lambda i: SObj(i))); ctx.assume(SymBool(M.len0 >= 0))
        cm = GP.ConstraintManager.__new__(GP.ConstraintManager); cm.matched = M; cm.available = AP.PList("available", tail)
        a, k = z3.Ints("a k")
        def inv(L):
            q = toint(L["q"]); r = L["r"]
            return z3.ForAll([a, k], r.has(a, k) == z3.And(0 <= a, a < q, 0 <= k, k < nflat))
        loops = {0: dict(pos="q", heap=lambda L: L["r"].havoc(), inv=inv)}
        vc = GVC(loops)
        fn, src = rewrite(GP.ConstraintManager.get_io_signals, loops, vc)
        _sidecar_ok(src.count("__vc.for_begin(0,") == 1, "loop structure of get_io_signals changed")
        fn.__globals__["set"] = SymSetP
        r = fn(cm)
        stats["returned"] += 1
        ctx.check("post.returns-the-set;manager-state-unchanged", z3.BoolVal(isinstance(r, SymSetP) and not r.extra and cm.matched is M and not M.extra))
        ctx.check("post.the-set-holds-exactly-the-signals-of-the-objects-of-MATCHED-resources", z3.ForAll([a, k], r.has(a, k) == z3.And(0 <= a, a < M.len0, 0 <= k, k < nflat)))
        if wrong: ctx.check("wrong.only-the-first-matched-object", z3.ForAll([a, k], z3.Implies(r.has(a, k), a == 0)))
    paths, obl = _explore(run)
    return paths, obl, stats

def c_io_signals(shape):
    return _wrap(f"ConstraintManager.get_io_signals[{shape}]", lambda w: _run_io_signals(w, shape), ["litex.build.generic_platform.ConstraintManager.get_io_signals"],
                 "unbounded symbolic matched list; stored objects are Signals (pins) or Records of two signals (record)", need=("loop0.init", "loop0.step"), extra_cover=lambda s: s["returned"] >= 1)

def _run_add_extension(wrong, prepend=False):
    """two explorations: (shape) from ANY lists - no assumption at all, so a wrong concatenation gets a concrete counter-model -, (inv) from a state
    satisfying the manager invariant with an extension of new, pairwise different resources"""
    _init()
    AP._init_z3()
    stats = dict(returned=0)
    tail = AP._tails()["pins"]
    def mk(ctx, with_inv):
        ctx.solver.set("timeout", FEAS_MS)
        A = XList("available", tail); M = AP.PMatched("matched", tail); E = XList("io", tail)
        ctx.assume(SymBool(z3.And(A.len >= 0, M.len0 >= 0, E.len >= 0)))
        A0at, A0len, Eat, Elen = A.at, A.len, E.at, E.len
        a, b_ = z3.Ints("a b")
        if with_inv:
            ctx.assume(SymBool(AP._cm_inv(A0at, A0len, M.res, M.len0)))
            # environment: the extension lists every resource once and none of them is already known to the manager
            ctx.assume(SymBool(z3.And(z3.ForAll([a, b_], z3.Implies(z3.And(0 <= a, a < b_, b_ < Elen), Eat(a) != Eat(b_))),
                                      z3.ForAll([a, b_], z3.Implies(z3.And(0 <= a, a < Elen, 0 <= b_, b_ < A0len), Eat(a) != A0at(b_))),
                                      z3.ForAll([a, b_], z3.Implies(z3.And(0 <= a, a < Elen, 0 <= b_, b_ < M.len0), Eat(a) != M.res(b_))))))
        cm = GP.ConstraintManager.__new__(GP.ConstraintManager); cm.available = A; cm.matched = M; cm.platform_commands = []
        fn, src = rewrite(GP.ConstraintManager.add_extension, {}, GVC({}))
        fn(cm, E, prepend)
        return cm, M, E, A0at, A0len, Eat, Elen
    def run_shape(ctx):
        cm, M, E, A0at, A0len, Eat, Elen = mk(ctx, False); stats["returned"] += 1
        N = cm.available; a = z3.Int("a")
        want = (lambda i: z3.If(i < Elen, Eat(i), A0at(i - Elen))) if prepend else (lambda i: z3.If(i < A0len, A0at(i), Eat(i - A0len)))
        ctx.check("post.available==" + ("io++available" if prepend else "available++io"), z3.And(N.len == A0len + Elen, z3.ForAll([a], z3.Implies(z3.And(0 <= a, a < N.len), N.at(a) == want(a)))))
        ctx.check("post.matched-and-io-unchanged", z3.BoolVal(cm.matched is M and not M.extra and E.at is Eat and E.len is Elen))
        if wrong: ctx.check("wrong.first-available-resource-unchanged", z3.Implies(A0len > 0, N.at(0) == A0at(0)) if prepend else z3.Implies(N.len > 0, N.at(N.len - 1) == A0at(A0len - 1)))
    def run_inv(ctx):
        cm, M, E, A0at, A0len, Eat, Elen = mk(ctx, True); stats["returned"] += 1
        N = cm.available
        ctx.check("post.invariant(no-resource-twice-or-in-both-lists)", AP._cm_inv(N.at, N.len, M.res, M.len0))
    p1, o1 = _explore(run_shape); p2, o2 = _explore(run_inv)
    return p1 + p2, o1 + o2, stats

def c_add_extension(prepend):
    return _wrap(f"ConstraintManager.add_extension[prepend={prepend}]", lambda w: _run_add_extension(w, prepend), ["litex.build.generic_platform.ConstraintManager.add_extension"],
                 "any available/matched/io lists (shape clauses); a state satisfying the invariant and an unbounded extension list of new, pairwise different resources (invariant clause)", extra_cover=lambda s: s["returned"] >= 2)

class _NamedVC(GVC):
    """GVC whose loop obligations carry a prefix (two rewritten functions with a loop 0 each take part in one case)"""
    def __init__(self, loops, prefix): GVC.__init__(self, loops); self.prefix = prefix
    def _ren(self, n0):
        ob = pysym.CTX.obligations
        for x in range(n0, len(ob)):
            if ob[x][0].startswith("loop"): ob[x] = (self.prefix + ob[x][0],) + tuple(ob[x][1:])
    def for_begin(self, lid, it, L):
        n0 = len(pysym.CTX.obligations)
        try: return GVC.for_begin(self, lid, it, L)
        finally: self._ren(n0)
    def for_end(self, lid, st, L):
        n0 = len(pysym.CTX.obligations)
        try: return GVC.for_end(self, lid, st, L)
        finally: self._ren(n0)
class OList:
    """the local list r of request_all / request_remaining: only its length matters (its items are the returned Signals/Records)"""
    def __init__(self): self.len0 = pysym.CTX.fresh("r.len"); self.extra = []
    def append(self, x): self.extra.append(x)
    def length(self): return SymInt(self.len0 + len(self.extra))
GVC_len0 = GVC.len
def _gvc_len(self, x):
    if isinstance(x, OList): return x.length()
    return GVC_len0(self, x)
GVC.len = _gvc_len

def _run_request_loop(wrong, which="request_all", shape="pins"):
    """request_all(name) / request_remaining(name): the real function with its `while True` loop cut; the real request() and _lookup() (loop cut) run inside"""
    _init()
    AP._init_z3()
    stats = dict(returned=0, raised=0)
    tail = AP._tails()[shape]; numbered = which == "request_all"
    name = "thing"; NM = AP._code(name)
    def run(ctx):
        ctx.solver.set("timeout", 400)        # feasibility only (every such query here is a satisfiable formula with quantifiers that z3 answers `unknown`): the path is kept
        A0 = XList("available", tail); M0 = AP.PMatched("matched", tail)
        ctx.assume(SymBool(z3.And(A0.len >= 0, M0.len0 >= 0)))
        A0at, A0len, M0res, M0len = A0.at, A0.len, M0.res, M0.len0
        ctx.assume(SymBool(AP._cm_inv(A0at, A0len, M0res, M0len)))
        A0.emb = lambda i: i
        cm = GP.ConstraintManager.__new__(GP.ConstraintManager); cm.available = A0; cm.matched = M0; cm.platform_commands = []
        a, b_, i_ = z3.Ints("a b i_")
        def match(g, num): return z3.And(AP.RES_NAME(g) == NM, *([AP.RES_NUM(g) == num] if numbered else []))
        # ---- callee: the real _lookup, loop cut (invariant over ITS arguments), and the real request around it
        lk_loops = {0: dict(pos="i", inv=lambda L: z3.ForAll([a], z3.Implies(z3.And(0 <= a, a < toint(L["i"])),
                        z3.Not(z3.And(AP.RES_NAME(L["description"].at(a)) == AP._code(L["name"]), *([AP.RES_NUM(L["description"].at(a)) == toint(L["number"])] if L["number"] is not None else []))))))}
        lk, src = rewrite(GP._lookup, lk_loops, _NamedVC(lk_loops, "_lookup."))
        _sidecar_ok(src.count("__vc.for_begin(0,") == 1, "loop structure of _lookup changed")
        rq, _ = rewrite(GP.ConstraintManager.request, {}, GVC({}))
        rq.__globals__["_lookup"] = lk
        rq.__globals__["str"] = lambda x: "0" if isinstance(x, SymInt) else str(x)
        cm.request = lambda nm, number=None, loose=False: rq(cm, nm, number, loose)
        # ---- the cut loop of request_all / request_remaining
        W = _uf("ghost.W", I, I)                         # GHOST: position in the ORIGINAL available list of the i-th granted resource
        def state(cmx, r):
            A, M = cmx.available, cmx.matched
            jl = toint(r.length()) if isinstance(r, OList) else z3.IntVal(len(r))
            Mres = M.res
            for e_i, (g_res, _o) in enumerate(M.extra): Mres = (lambda f, n_=e_i, g=g_res.rid: lambda x: z3.If(x == M.len0 + n_, g, f(x)))(Mres)
            return A, Mres, M.len0 + len(M.extra), jl
        def inv(L):
            cmx = L["self"]; A, Mres, Mlen, jl = state(cmx, L["r"])
            emb = A.emb; Wf = W
            if A.last_removed is not None:                  # ghost update for the resource granted in this iteration: it sat at position f of the list before the removal
                f, emb_before = A.last_removed; Wf = lambda x: z3.If(x == jl - 1, emb_before(f), W(x))
            return z3.And(AP._cm_inv(A.at, A.len, Mres, Mlen),
                          jl >= 0, Mlen == M0len + jl, A.len == A0len - jl,
                          z3.ForAll([a], z3.Implies(z3.And(0 <= a, a < M0len), Mres(a) == M0res(a))),
                          z3.ForAll([a], z3.Implies(z3.And(0 <= a, a < jl), match(Mres(M0len + a), a))),
                          z3.ForAll([a], z3.Implies(z3.And(0 <= a, a < A.len), z3.And(0 <= emb(a), emb(a) < A0len, A.at(a) == A0at(emb(a))))),
                          z3.ForAll([a, b_], z3.Implies(z3.And(0 <= a, a < b_, b_ < A.len), emb(a) < emb(b_))),
                          z3.ForAll([a], z3.Implies(z3.And(0 <= a, a < jl), z3.And(0 <= Wf(a), Wf(a) < A0len, A0at(Wf(a)) == Mres(M0len + a)))),
                          z3.Implies(jl == 0, z3.ForAll([a], z3.Implies(z3.And(0 <= a, a < A.len), A.at(a) == A0at(a)))))
        def heap(L):
            cmx = L["self"]
            A = XList(f"available!{ctx.k}", tail); ctx.k += 1; e = _uf("ghost.emb", I, I); A.emb = lambda i: e(i)
            M = AP.PMatched(f"matched!{ctx.k}", tail); ctx.k += 1
            cmx.available = A; cmx.matched = M
        loops = {0: dict(heap=heap, havoc={"r": lambda L: OList()}, inv=inv)}
        vc = GVC(loops)
        fn, src = rewrite(getattr(GP.ConstraintManager, which), loops, vc)
        assert src.count("__vc.loop_begin(0,") == 1, f"loop structure of {which} changed"
        fn.__globals__["Cat"] = lambda r: ("Cat", r)
        try:
            out = fn(cm, name)
        except ValueError:
            stats["raised"] += 1
            A, M = cm.available, cm.matched
            ctx.check("ValueError=>nothing-granted,state-unchanged", z3.And(A.len == A0len, z3.ForAll([a], z3.Implies(z3.And(0 <= a, a < A0len), A.at(a) == A0at(a))),
                                                                             z3.BoolVal(not M.extra), M.len0 == M0len, z3.ForAll([a], z3.Implies(z3.And(0 <= a, a < M0len), M.res(a) == M0res(a)))))
            ctx.check("ValueError=>no-available-resource-matches-" + ("(name,0)" if numbered else "name"), z3.ForAll([a], z3.Implies(z3.And(0 <= a, a < A0len), z3.Not(match(A0at(a), 0)))))
            return
        except GP.ConstraintError:
            ctx.check("no-ConstraintError-escapes", z3.BoolVal(False)); return
        stats["returned"] += 1
        r = out[1]
        A, Mres, Mlen, jl = state(cm, r)
        ctx.check("post.returns-Cat-of-the-granted-objects,at-least-one", z3.And(z3.BoolVal(out[0] == "Cat" and isinstance(r, OList) and not r.extra), jl >= 1))
        ctx.check("post.invariant(no-resource-twice-or-in-both-lists)", AP._cm_inv(A.at, A.len, Mres, Mlen))
        ctx.check("post.matched==matched0++granted;granted[i]-matches-" + ("(name,i)" if numbered else "name"), z3.And(Mlen == M0len + jl, z3.ForAll([a], z3.Implies(z3.And(0 <= a, a < M0len), Mres(a) == M0res(a))),
                                                                   z3.ForAll([a], z3.Implies(z3.And(0 <= a, a < jl), match(Mres(M0len + a), a)))))
        # the position functions W (granted resource -> its position in the ORIGINAL available list) and emb (position afterwards -> original position) are ghosts
        # of the loop invariant; stating the clauses with them (Skolem form of `there is a position ...`) keeps every obligation free of quantifier alternation
        emb = A.emb
        ctx.check("post.every-granted-resource-was-available-before(at-position-W(i)-of-the-original-list)", z3.ForAll([a], z3.Implies(z3.And(0 <= a, a < jl), z3.And(0 <= W(a), W(a) < A0len, A0at(W(a)) == Mres(M0len + a)))))
        ctx.check("post.no-granted-resource-is-available-any-more", z3.ForAll([a, b_], z3.Implies(z3.And(0 <= a, a < jl, 0 <= b_, b_ < A.len), A.at(b_) != Mres(M0len + a))))
        ctx.check("post.no-granted-resource-was-matched-before", z3.ForAll([a, b_], z3.Implies(z3.And(0 <= a, a < jl, 0 <= b_, b_ < M0len), M0res(b_) != Mres(M0len + a))))
        ctx.check("post.granted-resources-pairwise-different(each-to-one-client)", z3.ForAll([a, b_], z3.Implies(z3.And(0 <= a, a < b_, b_ < jl), Mres(M0len + a) != Mres(M0len + b_))))
        ctx.check("post.available-afterwards-is-a-subsequence-of-available-before(order-kept),shorter-by-the-number-granted", z3.And(A.len == A0len - jl,
                    z3.ForAll([a], z3.Implies(z3.And(0 <= a, a < A.len), z3.And(0 <= emb(a), emb(a) < A0len, A.at(a) == A0at(emb(a))))),
                    z3.ForAll([a, b_], z3.Implies(z3.And(0 <= a, a < b_, b_ < A.len), emb(a) < emb(b_)))))
        ctx.check("post.stops-only-when-" + ("(name,len(r))-is-not-available" if numbered else "no-resource-of-that-name-is-available"), z3.ForAll([a], z3.Implies(z3.And(0 <= a, a < A.len), z3.Not(match(A.at(a), jl)))))
        # vacuity guard: the path condition admits the scenario `one available resource, it matches, nothing matched before`
        if wrong: ctx.check("wrong.not(one-available-resource,nothing-matched-before,one-granted)", z3.Not(z3.And(A0len == 1, M0len == 0, jl == 1, W(0) == 0, A.len == 0)))
    paths, obl = _explore(run, max_paths=4000)
    return paths, obl, stats

def c_request_loop(which, shape):
    return _wrap(f"ConstraintManager.{which}[{shape}]", lambda w: _run_request_loop(w, which, shape), [f"litex.build.generic_platform.ConstraintManager.{which}", "litex.build.generic_platform.ConstraintManager.request (run unmodified inside the cut loop)",
                 "litex.build.generic_platform._lookup (loop-cut)"], "arbitrary manager state satisfying the invariant (unbounded available / matched lists)",
                 need=("loop0.init", "loop0.step", "_lookup.loop0.init", "_lookup.loop0.step"), extra_cover=lambda s: s["returned"] >= 1 and s["raised"] >= 1)

# =====================================================================================================================================
# SoCBusHandler.add_slave / add_master: names (the bus adapters / remappers they build are hardware and are stubbed)
# =====================================================================================================================================
def _run_add_slave(wrong, with_region=True):
    _init()
    stats = dict(accepted=0, raised=0)
    def run(ctx):
        bus, seq, regs, ios, ioregs = _bus_state(ctx, inv_regs=True)
        bus.io_regions_check = False
        sl = SymRecordSeq("SL", {"x": "int"}); slaves = NDict(sl); ctx.assume(SymBool(sl.len >= 0)); bus.slaves = slaves
        bus.add_adapter = lambda name, interface, direction="m2s": ("adapted", interface, direction)
        _install_overlap(bus, regs)
        name = Name(z3.Int("name")); slave = object()
        r = _mk_region("n", cached=True) if with_region else None
        if r is not None: ctx.assume((r.origin >= 0) & (r.size >= 1) & (r.size_pow2 >= r.size))
        in_regs, in_io, in_sl = regs.has(name.t, old=True), ioregs.has(name.t, old=True), slaves.has(name.t, old=True)
        try:
            S.SoCBusHandler.add_slave(bus, name, slave, r)
        except S.SoCError:
            elab.restore_stderr(); stats["raised"] += 1
            ctx.check("raise.slaves-unchanged", z3.BoolVal(bus.slaves is slaves and not slaves.extra))
            return
        stats["accepted"] += 1
        ctx.check("post.name-was-not-a-slave-before(each-slave-name-granted-once)", z3.Not(in_sl))
        ctx.check("post.slave-recorded-under-the-name(adapted-s2m)", z3.BoolVal(len(slaves.extra) == 1 and slaves.extra[0][0] is name and slaves.extra[0][1] == ("adapted", slave, "s2m")))
        if with_region:
            ctx.check("post.region-name-was-unused,region-added,windows-pairwise-disjoint", z3.And(z3.Not(in_regs), z3.Not(in_io), z3.BoolVal(len(regs.extra) == 1 and regs.extra[0][0] is name and regs.extra[0][1] is r), _disjoint(regs)))
        else:
            ctx.check("post.without-a-region-argument-a-region-of-that-name-exists;regions-unchanged", z3.And(in_regs, z3.BoolVal(not regs.extra and not ioregs.extra)))
        if wrong: ctx.check("wrong.no-slave-before", sl.len == 0)
    paths, obl = _explore(run, max_paths=4000)
    return paths, obl, stats
def c_add_slave(with_region):
    return _wrap(f"add_slave[{'region' if with_region else 'region=None'}]", lambda w: _run_add_slave(w, with_region), ["litex.soc.integration.soc.SoCBusHandler.add_slave", "litex.soc.integration.soc.SoCBusHandler.add_region"],
                 "arbitrary handler state (unbounded regions / io_regions / slaves, symbolic names); add_adapter stubbed", extra_cover=lambda s: s["accepted"] >= 1 and s["raised"] >= 2)

def _run_add_master(wrong):
    _init()
    stats = dict(accepted=0, raised=0)
    def run(ctx):
        bus, seq, regs, ios, ioregs = _bus_state(ctx)
        ms = SymRecordSeq("MS", {"x": "int"}); masters = NDict(ms); ctx.assume(SymBool(ms.len >= 0)); bus.masters = masters
        bus.add_adapter = lambda name, interface, direction="m2s": ("adapted", interface, direction)
        bus.add_remapper = lambda name, interface, origin, size: ("remapped", interface)
        name = Name(z3.Int("name")); master = object()
        was = masters.has(name.t, old=True)
        try:
            S.SoCBusHandler.add_master(bus, name, master)
        except S.SoCError:
            elab.restore_stderr(); stats["raised"] += 1
            ctx.check("raise=>name-already-a-master;masters-unchanged", z3.And(was, z3.BoolVal(not masters.extra))); return
        stats["accepted"] += 1
        ctx.check("post.name-was-not-a-master-before;master-recorded(adapted-m2s)", z3.And(z3.Not(was), z3.BoolVal(len(masters.extra) == 1 and masters.extra[0][0] is name and masters.extra[0][1] == ("adapted", master, "m2s"))))
        if wrong: ctx.check("wrong.no-master-before", ms.len == 0)
    paths, obl = _explore(run)
    return paths, obl, stats
def c_add_master():
    return _wrap("add_master", _run_add_master, ["litex.soc.integration.soc.SoCBusHandler.add_master"], "arbitrary masters dict (unbounded, symbolic names); add_adapter / add_remapper stubbed", extra_cover=lambda s: s["accepted"] >= 1 and s["raised"] >= 1)

# =====================================================================================================================================
# SoC.finalize: what it re-checks.  BOUNDED stand-in (concrete SoCCore(cpu_type=None) builds, labelled bounded, never counted as proved)
# =====================================================================================================================================
def _finalize_scenarios():
    from migen import Module, Signal, Memory
    from litex.gen import LiteXModule
    from litex.build.sim import SimPlatform
    from litex.soc.integration.soc_core import SoCCore
    from litex.soc.interconnect.csr import CSRStorage
    from litex.soc.interconnect import wishbone
    class P(SimPlatform):
        def __init__(self): SimPlatform.__init__(self, "SIM", [("sys_clk", 0, GP.Pins(1)), ("sys_rst", 0, GP.Pins(1))])
    class Per(LiteXModule):
        def __init__(self): self.r = CSRStorage(8, name="r")
    def base(**kw):
        soc = SoCCore(P(), 100e6, cpu_type=None, integrated_rom_size=0, integrated_sram_size=0x100, with_uart=False, with_timer=False, ident="", ident_version=False, **kw)
        elab.restore_stderr()
        soc.bus.add_master("tb", wishbone.Interface(data_width=32, address_width=32, addressing="word"))      # without a master no interconnect (and no decoder) is built at all
        return soc
    def good(soc): soc.add_ram("ram2", origin=0x2000_0000, size=0x1800); soc.p0 = Per()
    def unaligned(soc): soc.add_ram("ram2", origin=0x2000_0800, size=0x1000)                       # accepted by add_region; decoder() must reject it
    def on_csr(soc): soc.add_ram("ram2", origin=soc.mem_map["csr"], size=0x1000)                   # the CSR bridge region is only requested by finalize
    def csr_name(soc): soc.bus.add_region("csr", S.SoCRegion(origin=0x3000_0000, size=0x1000))     # the name finalize wants for the CSR bridge is taken
    def pages(soc):
        for k in range(5): setattr(soc, f"p{k}", Per())                                            # 4 pages only (address_width 14, paging 0x4000) + ctrl
    def nodecode(soc):
        soc.add_ram("ram2", origin=0x2000_0000, size=0x1000); soc.bus.regions["ram2"].decode = False
    def reset_adr(soc): soc.cpu.reset_address = 0x5000_0000; soc.cpu.reset_address_check = True
    def reset_ok(soc): soc.cpu.reset_address = soc.bus.regions["sram"].origin; soc.cpu.reset_address_check = True
    return base, [("well-formed", {}, good, False), ("fixed-region-not-aligned-on-its-decoded-size", {}, unaligned, True), ("region-where-the-CSR-bridge-goes", {}, on_csr, True),
                  ("name-csr-taken", {}, csr_name, True), ("more-CSR-clients-than-pages", dict(csr_paging=0x4000), pages, True), ("decoder-disabled-among-several-regions", {}, nodecode, True),
                  ("CPU-reset-address-in-no-region", {}, reset_adr, True), ("CPU-reset-address-in-sram", {}, reset_ok, False)]

def _soc_property_holds(soc):
    """the property, evaluated on a finalized SoC"""
    bad = []
    regs = list(soc.bus.regions.items())
    for x, (n0, r0) in enumerate(regs):
        if n0 in soc.bus.slaves and r0.origin % r0.size_pow2: bad.append(f"{n0} not aligned")
        if r0.origin < 0 or r0.origin + r0.size_pow2 > 2**soc.bus.address_width: bad.append(f"{n0} outside the address space")
        for n1, r1 in regs[x + 1:]:
            if not (r0.linker or r1.linker) and r0.origin < r1.origin + r1.size_pow2 and r1.origin < r0.origin + r0.size_pow2: bad.append(f"{n0}/{n1} overlap")
    pages = list(soc.csr.locs.values())
    if len(set(pages)) != len(pages): bad.append("CSR page granted twice")
    if any(not (0 <= n < soc.csr.n_locs and soc.csr.paging * (n + 1) <= soc.bus.regions["csr"].size) for n in pages): bad.append("CSR page outside the CSR space")
    clients = [m for _, _, m, _ in soc.csr_bankarray.banks] + [m for _, _, m, _ in soc.csr_bankarray.srams]
    if len(set(clients)) != len(clients): bad.append("two CSR clients on one page")
    return bad

def c_finalize_bounded():
    logging.disable(logging.CRITICAL)
    base, scen = _finalize_scenarios()
    out = []; n = 0
    for std in ("wishbone", "axi-lite"):
        for label, kw, prep, must_reject in scen:
            n += 1; info = ""
            try:
                soc = base(bus_standard=std, **kw); prep(soc)
                try:
                    soc.finalize(); elab.restore_stderr(); rejected = False
                except S.SoCError:
                    elab.restore_stderr(); rejected = True
                if must_reject: ok = rejected; info = "" if ok else "built without error"
                else:
                    bad = [] if rejected else _soc_property_holds(soc)
                    ok = (not rejected) and not bad; info = "rejected" if rejected else str(bad)
            except S.SoCError:
                elab.restore_stderr(); ok = must_reject; info = "rejected before finalize"
            out.append(res(f"SoC.finalize[{std},{label}]:" + ("rejected-with-SoCError" if must_reject else "builds;regions-disjoint,aligned,in-range;CSR-pages-unique,in-range"), "bounded", BOUNDED_OK if ok else VIOLATED, 0,
                           "execution of the real SoCCore(cpu_type=None)/SoC.finalize on one concrete design", info=info))
    return dict(results=out, functions=["litex.soc.integration.soc.SoC.finalize (bounded: 8 concrete designs x 2 bus standards)", "litex.soc.integration.soc.SoCBusHandler.do_finalize (bounded)", "litex.soc.integration.soc.SoC.add_csr_bridge (bounded)"],
                samples=[dict(bounded="SoC.finalize", evaluations=n)])

def cases(tier):
    cs = [Case("check_region_is_in(proof)", c_is_in), Case("check_region_is_io(proof)", c_is_io),
          Case("add_region(proof,fixed-origin,io-rule,names)", c_add_fixed), Case("add_region(proof,SoCIORegion)", c_add_io), Case("add_region(proof,not-a-region)", c_add_other)]
    for cn in ("SoCLocHandler", "SoCCSRHandler", "SoCIRQHandler"):
        cs += [Case(f"{cn}.add(proof,n,symbolic-n_locs)", c_loc_add, cn, True), Case(f"{cn}.add(proof,alloc,symbolic-n_locs)", c_loc_add, cn, False)]
    cs += [Case(f"SoCCSRHandler.__init__(proof,all-configurations,{o})", c_csr_init, o) for o in ("big", "little", "middle")]
    geoms = [(aw, pg) for aw in CSR_AW for pg in CSR_PG]          # every legal (address_width, paging) pair: 25 cases of ~5 s CPU each
    cs += [Case(f"SoCCSRHandler.__init__(proof,reserved_csrs,aw{aw},paging0x{pg:x})", c_csr_reserved, aw, pg) for aw, pg in geoms]
    cs += [Case("SoCIRQHandler.__init__(proof)", c_irq_init), Case("SoCCSRHandler.address_map(proof,memory=None)", c_address_map, False), Case("SoCCSRHandler.address_map(proof,memory)", c_address_map, True),
           Case("SoCCSRHandler.add_region(proof)", c_csr_add_region)]
    cs += [Case(f"ConstraintManager.get_sig_constraints(proof,{sh})", c_sig_constraints, sh) for sh in ("pins", "record", "info")]
    cs += [Case(f"ConstraintManager.get_io_signals(proof,{sh})", c_io_signals, sh) for sh in ("pins", "record")]
    cs += [Case(f"ConstraintManager.add_extension(proof,prepend={pp})", c_add_extension, pp) for pp in (False, True)]
    cs += [Case(f"ConstraintManager.{w}(proof,{sh})", c_request_loop, w, sh) for w, sh in (("request_all", "pins"), ("request_remaining", "pins"), ("request_remaining", "record"))]
    cs += [Case("add_slave(proof,region)", c_add_slave, True), Case("add_slave(proof,region=None)", c_add_slave, False), Case("add_master(proof)", c_add_master)]
    cs += [Case("SoC.finalize(bounded)", c_finalize_bounded)]
    return cs

ASSUMPTIONS = [
    "C13 handlers (E3): Python ints are mathematical integers; dict iteration is insertion order and a dict holds each key once; logging/colorer/str.format have no effect on results; no aliasing between the symbolic records handed in; "
    "an exception the function is not declared to raise (anything but SoCError / ConstraintError / ValueError where stated) is reported as a failed obligation `no-undeclared-exception`",
    "names are strings modelled by their identity and compared by equality only; the key set of a symbolic dict is a z3 set of identities; string concatenation is uninterpreted (name + '_' and a + b are functions of the identities, "
    "neither injective nor disjoint from plain names - real str concatenation is neither)",
    "bus regions handed to add_region / add_slave: origin >= 0 and size >= 1 are ints and size_pow2 >= size (constructor postcondition, case SoCRegion.__init__(proof) of C13_alloc_proofs); cached / linker / io_regions_check are arbitrary booleans; "
    "the fixed-origin case starts from any handler state whose non-linker windows in `regions` are pairwise disjoint, the SoCIORegion case from any state whose non-linker windows in `io_regions` are pairwise disjoint; nothing is assumed about which names are in use; "
    "after a SoCError the handler state is NOT claimed unchanged (add_region stores the region before it checks the overlap; SoCError is fatal for the build); linker regions are exempt from the overlap test by design",
    "the IO/cached rule of add_region is stated as the code implements it on the declared extent [origin, origin+size): with io_regions_check an accepted uncached region lies inside one IO region and an accepted region lying inside an IO region is uncached; "
    "a CACHED region that only partially overlaps an IO region is accepted, and the decoded power-of-two window of an uncached region may reach beyond the IO region (observations, the property text only constrains automatically allocated regions)",
    "location handlers (SoCLocHandler / SoCCSRHandler / SoCIRQHandler .add, .alloc, address_map): handler state = ANY name->number map satisfying the class invariant (injective, numbers in [0, n_locs)), given as z3 arrays with a ghost inverse (used / owner) that the invariant ties to the map; "
    "n_locs is ANY int (symbolic); the requested number is an int or None; use_loc_if_exists / enabled are arbitrary booleans; the values of `locs` are ints (part of the invariant); termination of alloc is not proved (partial correctness)",
    "SoCCSRHandler.__init__: data_width, address_width, alignment, paging are ANY ints with address_width >= 0 and paging != 0 (a negative width makes 2**x a float and paging 0 raises ZeroDivisionError before any check: outside the contract); ordering is one of the three strings tried ('big', 'little', 'middle'); "
    "2**k is the uninterpreted pow2 of C13_alloc_proofs with the instances k = 0..19 of its definition; the CSR space is the 2**(address_width+2)-byte bus region SoC.add_csr_bridge requests; "
    "the loop over reserved_csrs is proved for an UNBOUNDED symbolic dict (entries: any name, int or None) at every legal (address_width, paging) pair (25 cases; data_width 32, ordering 'big': neither is read by the loop)",
    "SoCIRQHandler.__init__: n_irqs is ANY int, reserved_irqs an unbounded symbolic dict; observation: the constructor leaves the handler disabled, so ANY reserved entry raises SoCError (over-rejection, not a violation of the property)",
    "address_map: the client of a call is (module name, memory or None); ghost record `handed` of the keys already served, with the ghost invariant instantiated at the key the call touches",
    "add_slave / add_master: add_adapter / add_remapper (hardware construction) are stubbed; the name is given (the automatic names 'slave<n>' / 'master<n>' are not modelled); add_slave runs with io_regions_check = False (the IO rule is covered by the add_region case)",
    "ConstraintManager (get_sig_constraints / get_io_signals / add_extension / request_all / request_remaining): resource model of C13_alloc_proofs (a resource tuple is its identity, name/number are functions of it, tuple == is identity, the constraint tail is concrete: shapes pins / record / info); the object stored with a matched resource is a proxy "
    "(for a Record: whether it still has sub-signal s is an arbitrary boolean per entry); pin identifiers are concrete and no connector is declared (resolve_identifiers runs on plain pin names); sub-signal names of a shape are pairwise different; "
    "identifiers (name, number, sub-signal) of the constraint list are pairwise different IF the platform description has no two resources with the same (name, number) (stated as hypothesis of that clause); "
    "add_extension's invariant clause assumes an extension of new, pairwise different resources (tools/replay_add_extension_twice.py shows what happens otherwise: observation); in request_all / request_remaining migen's Cat is stubbed, str(number) is a legal identifier suffix, "
    "the real request() runs inside the cut loop with _lookup's loop cut; termination is not proved",
    "SoC.finalize is covered by a BOUNDED stand-in only (8 concrete SoCCore(cpu_type=None) designs with one wishbone master x 2 bus standards): what finalize re-checks is (1) the CSR bridge region through add_slave/add_region (name 'csr' free, IO rule, no overlap), "
    "(2) do_finalize: at most one region when a decoder is disabled, and SoCRegion.decoder's alignment test for every region that has a slave - only when the bus has at least one master and one slave, "
    "(3) CSRBankArray -> address_map -> SoCLocHandler.add for every bank and CSR memory (page range / free page), (4) the CPU reset address lies in some region when cpu.reset_address_check; "
    "NOT re-checked: regions without a slave (alignment), linker regions (overlap), fixed-origin regions against the address space, names given to SoCCSRHandler.add_region, IRQ numbers",
    "path-feasibility queries use short solver time limits (0.4-2 s); `unknown` keeps the path, so a limit can only add paths, never drop one; every obligation is decided by Ctx.check (20 s limit, unknown is reported as undecided)",
]
