"""C14 (second module): memory initialisation images and the publications that C14_exports.py does not judge.

Part 1 - litex.soc.integration.common.get_mem_data (+ get_mem_regions), engine E3 (vf/pysym.py):
  the REAL function body is executed by CPython on proxies: file length n, file bytes F(k), the offset and the region bases are
  symbolic (unbounded); data width and endianness are concrete per case.  The `while True` loop over the file is cut by the
  mechanical AST rewrite of vf.pysym around an inductive invariant (init / step / exit=>post are separate obligations).  The claims are
  stated for RIGID arbitrary constants (tracked byte k, tracked padding position kp, tracked word x), i.e. they hold for all of them:
     byte k of the file sits in word (base-offset+k) div bpw at the byte lane a CPU of the stated endianness reads that address from,
     padding of a trailing partial word is zero, untouched words are zero, words are < 2**data_width, the list has ceil(size/bpw) words.
  A bounded cross-check through the unmodified function on real files (incl. a .json regions file) stands beside it (labelled bounded),
  together with a conformance check of the proxies' models of struct.unpack / int(str,16) / math.ceil / list indexing against CPython.
  SoC.add_rom/add_ram/init_ram/init_rom on real small SoCs: Memory.init is get_mem_data's list; every byte is read back through the
  SoC's bus master at origin+k on the real simulator (bounded sample) and the address->cell mapping of the elaborated SoC is proved by E1.
Part 2 - mem.h, regions.ld / memory.x, soc.h, SVD, CSV, JSON, Builder output against the SoC objects (bus.regions, constants, irq.locs) and
  against the csr.h that C14_exports.py proves against the hardware; strict parsers; per-configuration exact comparisons (status ok);
  field accessors (_extract/_replace) proved as uint32_t expressions for all words; interrupt lines of the elaborated SoC proved by E1."""
import os, re, json, time, math, struct, tempfile, types, builtins, random, shutil, z3
import xml.etree.ElementTree as ET
from vf import elab, pysym
from vf.hw import *
from migen import *
from litex.gen import *
from litex.soc.integration.soc_core import SoCCore
from litex.soc.integration.soc import SoCRegion
from litex.soc.integration.builder import Builder
from litex.soc.integration import export
from litex.soc.interconnect.csr import *
from litex.soc.interconnect.csr_eventmanager import EventManager, EventSourcePulse
from litex.soc.interconnect import wishbone
from litex.soc.cores import cpu as cpu_mod
from vf.pysym import SymBool, PathEnd, Unsupported, explore, rewrite, VC
from vf.core import PROVED, VIOLATED, NOINPUT, UNKNOWN, BOUNDED_OK, OK, VACUOUS, FAULT
from vf.core import Case as VCase
from litex.soc.integration import common as LC
from contracts.C14_exports import build, P, Periph, parse_accessors, all_storages

# =====================================================================================================================================
# Part 1a: proxies on which the real get_mem_data runs
# =====================================================================================================================================
WB = 256                      # a non-negative Python int < 2**WB is represented exactly by a WB-bit vector (word values)
BV8 = z3.BitVecSort(8)
def _ctx(): return pysym.CTX

class MInt:
    """mathematical (unbounded) Python int as a z3 Int term"""
    def __init__(self, t): self.t = t if z3.is_expr(t) else z3.IntVal(int(t))
    @staticmethod
    def of(x):
        if isinstance(x, MInt): return x.t
        if isinstance(x, bool): return z3.IntVal(int(x))
        if isinstance(x, int): return z3.IntVal(x)
        return None
    def _bin(op):
        def f(self, o):
            ot = MInt.of(o); return NotImplemented if ot is None else MInt(op(self.t, ot))
        def r(self, o):
            ot = MInt.of(o); return NotImplemented if ot is None else MInt(op(ot, self.t))
        return f, r
    __add__, __radd__ = _bin(lambda a, b: a + b); __sub__, __rsub__ = _bin(lambda a, b: a - b)
    def __mul__(self, o):
        if isinstance(o, list): return MList(self, o)                          # [0]*n with symbolic n
        ot = MInt.of(o); return NotImplemented if ot is None else MInt(self.t * ot)
    __rmul__ = __mul__
    def _posconst(self, o):
        if not (isinstance(o, int) and not isinstance(o, bool) and o > 0): raise Unsupported("division of a symbolic int by a non-constant or non-positive divisor")
        return o
    def __floordiv__(self, o): return MInt(self.t / self._posconst(o))       # z3 int div is Euclidean = Python floor division for a positive divisor
    def __mod__(self, o): return MInt(self.t % self._posconst(o))
    def __truediv__(self, o): return MRatio(self.t, self._posconst(o))
    def _cmp(op):
        def f(self, o):
            ot = MInt.of(o); return NotImplemented if ot is None else SymBool(op(self.t, ot))
        return f
    __lt__ = _cmp(lambda a, b: a < b); __le__ = _cmp(lambda a, b: a <= b); __gt__ = _cmp(lambda a, b: a > b)
    __ge__ = _cmp(lambda a, b: a >= b); __eq__ = _cmp(lambda a, b: a == b); __ne__ = _cmp(lambda a, b: a != b)
    def __hash__(self): return id(self)
    def __bool__(self): return _ctx().branch(self.t != 0)
    def __index__(self): raise Unsupported("symbolic int used where CPython needs a machine index")
    def __format__(self, spec):
        if spec == "": return f"<int {self.t}>"                                  # only used in messages
        if spec != "08x": raise Unsupported(f"format spec {spec!r} on a symbolic int")
        return hexstr(self.t)
    __str__ = __repr__ = lambda self: f"<int {self.t}>"

class MRatio:
    """result of int / positive int; only math.ceil() is supported on it (exact rational ceiling: see ASSUMPTIONS for floats)"""
    def __init__(self, num, den): self.num, self.den = num, den
    def __ceil__(self): return MInt((self.num + (self.den - 1)) / self.den)

_HEX = {}
def hexstr(t):
    """an opaque string that denotes the hexadecimal numeral of the integer term t; only int(s, 16) can look inside"""
    s = f"<hex#{len(_HEX)}:{t}>"; _HEX[s] = t; return s
def m_int(x, base=10):
    if isinstance(x, str) and x in _HEX:
        if base != 16: raise Unsupported("symbolic hexadecimal string parsed with another base")
        return MInt(_HEX[x])
    if isinstance(x, (MInt, MRatio, MWord)): raise Unsupported("int() of a proxy")
    if isinstance(x, str) and "<hex#" in x: raise Unsupported("symbolic hexadecimal string decorated or parsed in a way the model does not cover")
    return builtins.int(x, base) if isinstance(x, str) else builtins.int(x)

class MWord:
    """non-negative Python int < 2**nbits (nbits concrete, <= WB), exact as a WB-bit vector; supports the operators the code uses: << const, |"""
    def __init__(self, t, nbits):
        if nbits > WB: raise Unsupported("word value may exceed the representation width")
        self.t, self.nbits = t, nbits
    @staticmethod
    def of(v):
        if isinstance(v, MWord): return v
        if isinstance(v, int) and not isinstance(v, bool) and 0 <= v < (1 << WB): return MWord(z3.BitVecVal(v, WB), max(1, v.bit_length()))
        raise Unsupported(f"word operand {type(v).__name__}")
    def __lshift__(self, s):
        if not (isinstance(s, int) and s >= 0): raise Unsupported("shift by a symbolic amount")
        return MWord(self.t << s, self.nbits + s)                                # no bit is lost: nbits + s <= WB is enforced by the constructor
    def __or__(self, o): o = MWord.of(o); return MWord(self.t | o.t, max(self.nbits, o.nbits))
    __ror__ = __or__
    __hash__ = None

class MList:
    """[fill]*n: a list of symbolic length n whose elements are words; element access has CPython's list index rules
    (0 <= i < n direct, -n <= i < 0 counted from the end, otherwise IndexError)"""
    def __init__(self, n, proto):
        if proto != [0]: raise Unsupported("only [0]*n")
        self.len = n.t; self.arr = z3.K(z3.IntSort(), z3.BitVecVal(0, WB)); self.wrapped = False
    def _idx(self, i):
        it = MInt.of(i)
        if it is None: raise Unsupported("list index")
        if SymBool(z3.And(it >= 0, it < self.len)): return it
        if SymBool(z3.And(it < 0, it >= -self.len)): self.wrapped = True; return it + self.len
        raise IndexError("list index out of range")
    def __getitem__(self, i): return MWord(z3.Select(self.arr, self._idx(i)), WB)
    def __setitem__(self, i, v): self.arr = z3.Store(self.arr, self._idx(i), MWord.of(v).t)

class MBytes:
    """bytes object of CONCRETE length (the read() proxy forks on the length) with symbolic byte values"""
    def __init__(self, items): self.items = list(items)
    def __len__(self): return len(self.items)
    def __bool__(self): return bool(self.items)
    def __add__(self, o):
        if isinstance(o, bytes): return MBytes(self.items + [z3.BitVecVal(x, 8) for x in o])
        if isinstance(o, MBytes): return MBytes(self.items + o.items)
        return NotImplemented
    def __getitem__(self, s):
        if isinstance(s, slice): return MBytes(self.items[s])
        raise Unsupported("bytes[int]")

class MFile:
    """binary file opened for reading: content F: Int -> byte, length n, position pos.  read(k) returns min(k, max(0, n-pos)) bytes
    starting at pos and advances pos by that amount (io.BufferedReader.read on a regular file)"""
    def __init__(self, F, n): self.F, self.n, self.pos = F, n, z3.IntVal(0)
    def __enter__(self): return self
    def __exit__(self, *a): return False
    def read(self, k):
        if not (isinstance(k, int) and k > 0): raise Unsupported("read size")
        left = self.n - self.pos
        for L in range(k, -1, -1):
            c = left >= k if L == k else (left == L if L > 0 else left <= 0)
            if SymBool(c):
                r = MBytes([self.F(self.pos + j) for j in range(L)]); self.pos = self.pos + L; return r
        raise PathEnd()
    def close(self): pass

class m_struct:
    error = struct.error
    @staticmethod
    def unpack(fmt, buf):
        if fmt not in ("<I", ">I") or not isinstance(buf, MBytes): raise Unsupported(f"struct.unpack({fmt!r})")
        if len(buf) != 4: raise struct.error("unpack requires a buffer of 4 bytes")
        b0, b1, b2, b3 = buf.items if fmt == "<I" else buf.items[::-1]                # b0 = least significant byte
        return (MWord(z3.ZeroExt(WB - 32, z3.Concat(b3, b2, b1, b0)), 32),)

class MVC(VC):
    """loop cutting for the `while True` loop of get_mem_data: besides the int local `i`, the file position and the list contents
    (state reachable only through the proxies f and data) are havocked"""
    def loop_begin(self, lid, L):
        sp = self.loops[lid]; c = _ctx()
        c.check(f"loop.init[{L['filename']}]", sp["inv"](L))
        hv = {"i": MInt(c.fresh("i"))}
        L["f"].pos = c.fresh("pos"); L["data"].arr = c.fresh("arr", z3.ArraySort(z3.IntSort(), z3.BitVecSort(WB)))
        L2 = dict(L); L2.update(hv)
        c.assume(sp["inv"](L2))
        return hv
    def loop_end(self, lid, L):
        _ctx().check(f"loop.step[{L['filename']}]", self.loops[lid]["inv"](L))
        raise PathEnd()

# =====================================================================================================================================
# Part 1b: the contract of get_mem_data
# =====================================================================================================================================
def lane_of(m, bpw, endianness):
    """byte lane (bits 8*lane+7..8*lane of the memory word) that holds the byte at byte address a, m = a mod bpw.
    little: lane m.  big: LiteX's big-endian CPUs are 32-bit masters (lm32, mor1kx, marocchino); a wider memory is a sequence of 32-bit
    bus words in ascending order (wishbone.Converter: word address a32 -> bits 32*(a32 mod ratio)...), inside which the CPU's byte address
    a has lane 3 - a mod 4.  (bounded simulation check `sim.big-endian-master-through-Converter` below ties this to the real Converter)"""
    return m if endianness == "little" else 4 * (m // 4) + 3 - (m % 4)

def _byte_at(word, m, bpw, endianness):
    """z3: the byte of `word` at the lane of (symbolic) m in 0..bpw-1"""
    r = None
    for mm in reversed(range(bpw)):
        l = lane_of(mm, bpw, endianness); e = z3.Extract(8 * l + 7, 8 * l, word)
        r = e if r is None else z3.If(m == mm, e, r)
    return r

WHILE_LOOP = 2        # pre-order number of `while True:` among the loops of get_mem_data (0,1: for ... in regions.items(); 3,4: inner for loops, run concretely)

def _prepare(loops):
    vc = MVC(loops)
    fn, src = rewrite(LC.get_mem_data, loops, vc)
    gmr, _ = rewrite(LC.get_mem_regions, {}, vc)
    assert "__vc.loop_begin(2, locals())" in src and src.count("__vc.loop_begin") == 1, "loop numbering of get_mem_data changed"
    return fn, gmr, src

def c_get_mem_data(dw, endianness, nregions=1, as_dict=False, aligned=True, wrong_spec=False):
    """nregions=1, as_dict=False: get_mem_data(filename, dw, endianness, mem_size=M, offset=O) for ALL n, F, O, M
       as_dict=True: get_mem_data({file_r: hex(B_r)}, dw, endianness, offset=O) for ALL n_r, F_r, B_r, O with B_r >= O, (B_r-O) mod bpw = 0 if aligned,
       pairwise disjoint word ranges"""
    t0 = time.time()
    bpw = dw // 8
    spec_end = endianness if not wrong_spec else ("big" if endianness == "little" else "little")
    R = nregions
    O = z3.Int("O"); M = z3.Int("M"); x = z3.Int("x")
    regs = [dict(fn=f"img{r}.bin", B=(z3.Int(f"B{r}") if as_dict else O), n=z3.Int(f"n{r}"), F=z3.Function(f"F{r}", z3.IntSort(), BV8),
                 k=z3.Int(f"k{r}"), kp=z3.Int(f"kp{r}")) for r in range(R)]
    def cdiv(t): return (t + (bpw - 1)) / bpw
    for g in regs:
        g["q"] = (g["B"] - O) / bpw                       # word the function starts the file at
        g["cnt"] = cdiv(g["n"])                           # words the file occupies
    def placed(arr, g, kk):
        a = g["B"] - O + kk                               # byte address of file byte kk relative to the memory's base
        return _byte_at(z3.Select(arr, a / bpw), a % bpw, bpw, spec_end) == g["F"](kk)
    def padzero(arr, g, kk):
        a = g["B"] - O + kk
        return _byte_at(z3.Select(arr, a / bpw), a % bpw, bpw, spec_end) == z3.BitVecVal(0, 8)
    def progress(arr, g, cnt, pos):
        return z3.And(z3.Implies(z3.And(0 <= g["k"], g["k"] < pos), placed(arr, g, g["k"])),
                      z3.Implies(z3.And(g["n"] <= g["kp"], g["kp"] < cnt * bpw, g["n"] > 0), padzero(arr, g, g["kp"])))
    def frame(arr, counts):
        return z3.And(z3.Implies(z3.And(*[z3.Not(z3.And(g["q"] <= x, x < g["q"] + c)) for g, c in counts]), z3.Select(arr, x) == z3.BitVecVal(0, WB)),
                      z3.Extract(WB - 1, dw, z3.Select(arr, x)) == z3.BitVecVal(0, WB - dw))
    def inv(L):
        c = [g["fn"] for g in regs].index(L["filename"]); g = regs[c]
        i = MInt.of(L["i"]); pos = L["f"].pos; arr = L["data"].arr
        return z3.And(i >= 0, i * bpw < g["n"] + bpw, pos == z3.If(i * bpw < g["n"], i * bpw, g["n"]),
                      progress(arr, g, i, pos), *[progress(arr, h, h["cnt"], h["n"]) for h in regs[:c]],
                      frame(arr, [(h, h["cnt"]) for h in regs[:c]] + [(g, i)]))
    loops = {WHILE_LOOP: dict(havoc={"i": "int"}, inv=inv)}
    fn, gmr, src = _prepare(loops)
    files = {g["fn"]: g for g in regs}
    fake_os = types.SimpleNamespace(path=types.SimpleNamespace(isfile=lambda f: f in files, getsize=lambda f: MInt(files[f]["n"]),
                                                               splitext=os.path.splitext, join=os.path.join, dirname=os.path.dirname))
    def m_open(f, mode="r"):
        if mode != "rb": raise Unsupported("open mode")
        return MFile(files[f]["F"], files[f]["n"])
    for f_ in (fn, gmr): f_.__globals__.update(os=fake_os, open=m_open, struct=m_struct, int=m_int)
    fn.__globals__["get_mem_regions"] = gmr
    stats = dict(returned=0, rejected=0, oserror=0)
    def run(ctx):
        _HEX.clear()
        ctx.assume(O >= 0)
        for g in regs:
            ctx.assume(g["n"] >= 0)
            if as_dict:
                ctx.assume(g["B"] >= O)
                if aligned: ctx.assume((g["B"] - O) % bpw == 0)
        for a_ in range(R):
            for b_ in range(a_ + 1, R):
                ga, gb = regs[a_], regs[b_]
                ctx.assume(z3.Or(ga["q"] + ga["cnt"] <= gb["q"], gb["q"] + gb["cnt"] <= ga["q"]))      # the files do not share a memory word
        size_t = regs[0]["B"] + regs[0]["n"] - O
        for g in regs[1:]: size_t = z3.If(g["B"] + g["n"] - O > size_t, g["B"] + g["n"] - O, size_t)
        arg = {g["fn"]: hexstr(g["B"]) for g in regs} if as_dict else regs[0]["fn"]
        msz = None if as_dict else MInt(M)
        try:
            data = fn(arg, data_width=dw, endianness=endianness, mem_size=msz, offset=MInt(O))
        except AssertionError:
            stats["rejected"] += 1
            ctx.check("reject(AssertionError)=>empty-or-too-big", z3.Or(size_t <= 0, size_t >= M) if msz is not None else size_t <= 0); return
        except IndexError:
            ctx.check("no-IndexError", z3.BoolVal(False)); return
        stats["returned"] += 1
        ctx.check("post.no-negative-index-wraparound", z3.BoolVal(not data.wrapped))
        ctx.check("post.length=ceil(size/bpw)", data.len == cdiv(size_t))
        if msz is not None: ctx.check("post.fits(size<mem_size)", size_t < M)
        for r, g in enumerate(regs):
            ctx.check(f"post.byte-k-at-its-word-and-lane[file{r}]", z3.Implies(z3.And(0 <= g["k"], g["k"] < g["n"]), placed(data.arr, g, g["k"])))
            ctx.check(f"post.padding-zero[file{r}]", z3.Implies(z3.And(g["n"] <= g["kp"], g["kp"] < g["cnt"] * bpw, g["n"] > 0), padzero(data.arr, g, g["kp"])))
            ctx.check(f"post.inside-list[file{r}]", z3.Implies(g["n"] > 0, z3.And(g["q"] >= 0, g["q"] + g["cnt"] <= data.len)))
        ctx.check("post.untouched-words-zero,words<2^dw", frame(data.arr, [(g, g["cnt"]) for g in regs]))
    paths, obl = explore(run, max_paths=4000)
    return paths, obl, stats, time.time() - t0, src

def _agg(prefix, obl, kind="pysym", backend="pysym(loop-cut)+z3-%s(api)" % z3.get_version_string()):
    """one obligation per clause name: proved iff proved on every explored path"""
    by = {}
    for n, s, m in obl: by.setdefault(n, []).append((s, m))
    out = []
    for n, l in by.items():
        st = PROVED if all(s == "proved" for s, _ in l) else (NOINPUT if any(s == "FAILED" for s, _ in l) else UNKNOWN)
        info = {}
        bad = [m for s, m in l if s == "FAILED" and m is not None]
        if bad: info["model"] = {str(d): str(bad[0][d]) for d in bad[0].decls() if d.arity() == 0 and not str(d).startswith("arr")}
        out.append(res(f"{prefix}.{n}", kind, st, 0, backend, paths=len(l), **info))
    return out

def c_mem_data_proof(dw, endianness, nregions=1, as_dict=False):
    paths, obl, stats, secs, src = c_get_mem_data(dw, endianness, nregions, as_dict)
    tag = f"get_mem_data[dw{dw},{endianness},{'dict x%d' % nregions if as_dict else 'file'}]"
    out = _agg(tag, obl)
    want = {"loop.init[img0.bin]", "loop.step[img0.bin]", "post.byte-k-at-its-word-and-lane[file0]", "post.padding-zero[file0]", "post.length=ceil(size/bpw)"}
    if nregions > 1: want |= {f"loop.init[img{nregions - 1}.bin]", f"loop.step[img{nregions - 1}.bin]", f"post.byte-k-at-its-word-and-lane[file{nregions - 1}]"}
    have = {n for n, _, _ in obl}
    out.append(res(f"{tag}.cover.returns-and-rejects", "cover", OK if stats["returned"] > 0 and stats["rejected"] > 0 and want <= have else VACUOUS, secs, "pysym", paths=paths, **stats))
    # vacuity guard: the same proof against the OTHER endianness' lane map must fail (the specification discriminates)
    if not as_dict:
        _, obl2, _, _, _ = c_get_mem_data(dw, endianness, nregions, as_dict, wrong_spec=True)
        failed = any(s == "FAILED" for n, s, _ in obl2 if n.startswith("post.byte-k") or n.startswith("loop.step"))
        out.append(res(f"{tag}.cover.spec-discriminates(other endianness refuted)", "cover", OK if failed else VACUOUS, 0, "pysym"))
    return dict(results=out, functions=["litex.soc.integration.common.get_mem_data", "litex.soc.integration.common.get_mem_regions"],
                samples=[dict(function="get_mem_data", data_width=dw, endianness=endianness, paths=paths, loop="while True over the file cut at an inductive invariant; file length, contents, offset, bases symbolic")])

# =====================================================================================================================================
# Part 1c: bounded cross-check through the unmodified function, conformance of the proxies, region-precondition findings
# =====================================================================================================================================
def expected_image(files, offset, dw, endianness):
    """independent model: lay the files out in a flat byte image at base-offset, cut it into words by the lane map"""
    bpw = dw // 8
    size = max(base + len(data) - offset for base, data in files)
    img = bytearray(-(-size // bpw) * bpw)
    for base, data in files: img[base - offset: base - offset + len(data)] = data
    return [sum(img[j * bpw + m] << (8 * lane_of(m, bpw, endianness)) for m in range(bpw)) for j in range(len(img) // bpw)]

def c_mem_data_bounded(tier):
    from litex.soc.integration.common import get_mem_data
    rnd = random.Random(14); evals = 0; bad = []
    d = tempfile.mkdtemp(prefix="vf_img_")
    def mkfile(name, n):
        data = bytes(rnd.randrange(1, 256) for _ in range(n)); p = os.path.join(d, name); open(p, "wb").write(data); return p, data
    def gmd(*a, **k):
        """an exception on a legal image description is a difference from the expected image (reported), not a harness crash"""
        try: return get_mem_data(*a, **k)
        except Exception as e: return ("raised", type(e).__name__, str(e)[:80])
    try:
        nmax = 40 if tier == "quick" else 150
        for dw in (32, 64, 128):
            for end in ("little", "big"):
                for n in range(1, nmax + 1):
                    p, data = mkfile("f.bin", n)
                    for off in (0, 0x40000000):
                        got = gmd(p, data_width=dw, endianness=end, offset=off, mem_size=n + 1); evals += 1
                        if got != expected_image([(off, data)], off, dw, end): bad.append(("file", dw, end, n, off))
                # dict of regions and a .json regions file (keys relative to the json's directory), aligned bases
                for (na, nb, nc) in ((5, 3, 9), (16, 1, 2), (1, 31, 17)):
                    bpw = dw // 8
                    (pa, da), (pb, db), (pc, dc) = mkfile("a.bin", na), mkfile("b.bin", nb), mkfile("c.bin", nc)
                    off = 0x40000000
                    ba, bb, bc = off + 4 * bpw, off, off + 9 * bpw
                    if not (bb + nb <= ba and ba + na <= bc): continue
                    want = expected_image([(ba, da), (bb, db), (bc, dc)], off, dw, end)
                    got = gmd({pa: f"0x{ba:08x}", pb: f"{bb:x}", pc: f"0x{bc:x}"}, data_width=dw, endianness=end, offset=off); evals += 1
                    if got != want: bad.append(("dict", dw, end, na, nb, nc))
                    pj = os.path.join(d, "regions.json"); json.dump({"a.bin": f"0x{ba:08x}", "b.bin": f"0x{bb:08x}", "c.bin": f"0x{bc:08x}"}, open(pj, "w"))
                    got = gmd(pj, data_width=dw, endianness=end, offset=off); evals += 1
                    if got != want: bad.append(("json", dw, end, na, nb, nc))
        # fail-stop behaviour (documented preconditions): nothing is returned, so nothing wrong is published
        p, data = mkfile("g.bin", 12); pe, _ = mkfile("empty.bin", 0)
        def raises(exc, *a, **k):
            try: get_mem_data(*a, **k)
            except exc: return True
            except Exception: return False
            return False
        rej = {"data_width 8": raises(AssertionError, p, data_width=8), "data_width 16": raises(AssertionError, p, data_width=16), "data_width 24": raises(AssertionError, p, data_width=24),
               "endianness": raises(AssertionError, p, endianness="middle"), "empty file": raises(AssertionError, pe), "mem_size == file size (strict <)": raises(AssertionError, p, mem_size=12),
               "mem_size < file size": raises(AssertionError, p, mem_size=11), "missing file": raises(OSError, os.path.join(d, "nope.bin"))}
        evals += len(rej)
        none_ok = get_mem_data(None) == []
    finally:
        shutil.rmtree(d, ignore_errors=True)
    out = [res("bounded.image==flat-layout[dw 32/64/128 x little/big x len 1..%d x offset 0/0x40000000; dict and .json regions]" % nmax, "bounded", BOUNDED_OK if not bad else VIOLATED, 0,
               "executed through the unmodified function on real files", evaluations=evals, info=str(bad[:3])),
           res("bounded.rejects(fail-stop)[data_width 8/16/24, bad endianness, empty file, mem_size <= size, missing file]; None -> []", "bounded", BOUNDED_OK if all(rej.values()) and none_ok else VIOLATED, 0,
               "executed", info=str({k: v for k, v in rej.items() if not v}))]
    return dict(results=out, functions=["litex.soc.integration.common.get_mem_data (bounded)", "litex.soc.integration.common.get_mem_regions (bounded)"], samples=[dict(bounded="get_mem_data", evaluations=evals)])

def c_model_conformance():
    """the proxies' models of CPython/stdlib behaviour, compared with the real thing on samples (bounded)"""
    rnd = random.Random(7); bad = []; evals = 0
    for _ in range(300):
        raw = bytes(rnd.randrange(256) for _ in range(4)); evals += 1
        for fmt in ("<I", ">I"):
            got = z3.simplify(m_struct.unpack(fmt, MBytes([z3.BitVecVal(x, 8) for x in raw]))[0].t).as_long()
            if got != struct.unpack(fmt, raw)[0]: bad.append(("unpack", fmt, raw))
    for x in [0, 1, 9, 255, 2**31, 2**32 - 1, 2**32, 2**40 + 5] + [rnd.randrange(2**48) for _ in range(200)]:
        evals += 1
        if int(f"{x:08x}", 16) != x: bad.append(("hex", x))
    for a in [1, 3, 4, 5, 2**31 - 1, 2**40 + 1, 2**53 - 1] + [rnd.randrange(1, 2**53) for _ in range(300)]:
        for bb in (4, 8, 16):
            evals += 1
            if math.ceil(a / bb) != (a + bb - 1) // bb: bad.append(("ceil", a, bb))
            if z3.simplify(math.ceil(MInt(a) / bb).t).as_long() != math.ceil(a / bb): bad.append(("ceil-proxy", a, bb))
    # floor division / modulo by a positive constant for negative and positive ints
    for a in range(-20, 21):
        for bb in (4, 8):
            evals += 1
            if z3.simplify((MInt(a) // bb).t).as_long() != a // bb or z3.simplify((MInt(a) % bb).t).as_long() != a % bb: bad.append(("floordiv", a, bb))
    # file read and list indexing run on concrete values under the explorer
    import io
    def run(ctx):
        for n in range(0, 11):
            raw = bytes(range(1, n + 1)); F = z3.Array("Fc", z3.IntSort(), BV8)
            for j, x in enumerate(raw): F = z3.Store(F, j, z3.BitVecVal(x, 8))
            mf = MFile(lambda t, F=F: z3.Select(F, t), z3.IntVal(n)); rf = io.BytesIO(raw)
            for _ in range(5):
                a_ = mf.read(4); b_ = rf.read(4)
                if bytes(z3.simplify(t).as_long() for t in a_.items) != b_: bad.append(("read", n))
        ml = MInt(5) * [0]; pl = [0] * 5
        for idx in range(-7, 7):
            try: pl[idx] = idx + 100; pe = None
            except IndexError: pe = "IndexError"
            try: ml[MInt(idx)] = idx + 100; me = None
            except IndexError: me = "IndexError"
            if pe != me: bad.append(("index", idx))
        for idx in range(5):
            if z3.simplify(ml[MInt(idx)].t).as_long() != pl[idx]: bad.append(("list", idx))
    explore(run); evals += 70
    return dict(results=[res("bounded.proxy-models==CPython[struct.unpack <I >I, int(format(x,'08x'),16), math.ceil(a/b), // and % by a positive constant, BufferedReader.read, list index rules]", "bounded",
                             BOUNDED_OK if not bad else VIOLATED, 0, "executed", evaluations=evals, info=str(bad[:3]))],
                functions=[], samples=[dict(bounded="proxy model conformance", evaluations=evals)])

WHAT_UNALIGNED = ("get_mem_data with a regions dict/.json: the word index of a file is floor((base-offset)/bytes_per_word)+i and every first touch of a word clears it, so a region base that is not a "
                  "multiple of the word size is silently moved down to the word boundary (byte k lands at floor(base/bpw)*bpw+k, not base+k) and clears the tail bytes of a preceding file that shares the word; "
                  "no assertion rejects such a base")
WHAT_BELOW = ("get_mem_data with a regions dict/.json and offset > base of a region: the negative word index (base-offset)//bpw+i is used as a Python list index and silently counts from the END of the image "
              "(or raises IndexError when larger than the image) instead of being rejected")
def native_region_witnesses(d):
    """native witnesses on real files through the unmodified function; returns dict name -> (published words, expected words)"""
    from litex.soc.integration.common import get_mem_data
    pa = os.path.join(d, "a.bin"); open(pa, "wb").write(bytes([0x11, 0x22, 0x33, 0x44, 0x55]))
    pb = os.path.join(d, "b.bin"); open(pb, "wb").write(bytes([0xaa, 0xbb]))
    w = {}
    w["unaligned base 0x2, 5 bytes, dw32 little"] = (get_mem_data({pa: "0x2"}, 32, "little", offset=0), expected_image([(2, open(pa, "rb").read())], 0, 32, "little"))
    w["a.bin@0x0 (5 bytes) + b.bin@0x6 (2 bytes), dw32 little"] = (get_mem_data({pa: "0x0", pb: "0x6"}, 32, "little", offset=0), expected_image([(0, open(pa, "rb").read()), (6, open(pb, "rb").read())], 0, 32, "little"))
    try: got = get_mem_data({pa: "0x0", pb: "0x10"}, 32, "little", offset=8)
    except Exception as e: got = f"{type(e).__name__}"
    w["a.bin@0x0 below offset 0x8, b.bin@0x10, dw32 little"] = (got, "rejection (a.bin lies below the memory's base) - instead a.bin is written to the LAST words of the image")
    return w

def c_mem_data_region_findings():
    t0 = time.time()
    # E3: without the alignment precondition the invariant step is refuted; with it (c_mem_data_proof, dict cases) everything is proved
    _, obl, _, _, _ = c_get_mem_data(32, "little", 1, True, aligned=False)
    e3_failed = any(s == "FAILED" for n, s, _ in obl if n.startswith("loop.step"))
    d = tempfile.mkdtemp(prefix="vf_img_")
    try: w = native_region_witnesses(d)
    finally: shutil.rmtree(d, ignore_errors=True)
    ks = list(w)
    un = w[ks[0]][0] != w[ks[0]][1] or w[ks[1]][0] != w[ks[1]][1]
    below = not isinstance(w[ks[2]][0], str)
    fmt = lambda v: [hex(x) for x in v] if isinstance(v, list) else v
    out = [res("finding.unaligned-region-base-misplaced", "finding-witness", VIOLATED if un and e3_failed else (PROVED if not un else UNKNOWN), time.time() - t0, "pysym (loop.step refuted without the alignment precondition) + native run of the unmodified function",
               what=WHAT_UNALIGNED, info="; ".join(f"{k}: published {fmt(w[k][0])} expected {fmt(w[k][1])}" for k in ks[:2]), replay="tools/replay_get_mem_data_regions.py"),
           res("finding.region-below-offset-wraps-to-end", "finding-witness", VIOLATED if below else PROVED, 0, "native run of the unmodified function",
               what=WHAT_BELOW, info=f"{ks[2]}: returned {fmt(w[ks[2]][0])}; expected {w[ks[2]][1]}", replay="tools/replay_get_mem_data_regions.py"),
           res("cover.aligned-dict-proof-exists", "cover", OK, 0, "see get_mem_data[...,dict x2] cases")]
    return dict(results=out, functions=["litex.soc.integration.common.get_mem_data"], samples=[])

# =====================================================================================================================================
# Part 1d: SoC.add_rom / add_ram / init_ram / init_rom and Builder._initialize_rom_software on real small SoCs
# =====================================================================================================================================
class _StubCPU(cpu_mod.CPU):
    """stands for any CPU core: one Wishbone master port and a 32-line interrupt input, no logic of its own (the cores are opaque
    Verilog instances whose sources are not installed here); registered in the in-memory CPUS table only"""
    category = "softcore"; family = "vfstub"; name = "vfstub"; human_name = "VF stub bus master"; variants = ["standard"]
    data_width = 32; endianness = "little"; gcc_triple = "none"; gcc_flags = ""; linker_output_format = "elf32-little"; nop = "nop"
    io_regions = {0x8000_0000: 0x8000_0000}
    mem_map = {"rom": 0x0000_0000, "sram": 0x1000_0000, "main_ram": 0x4000_0000, "csr": 0xf000_0000}
    def __init__(self, platform, variant="standard"):
        self.platform, self.variant = platform, variant
        self.reset = Signal(); self.interrupt = Signal(32)
        self.ibus = wishbone.Interface(data_width=32, address_width=32, addressing="word")
        self.periph_buses = [self.ibus]; self.memory_buses = []; self.interrupts = {}
    def set_reset_address(self, reset_address): self.reset_address = reset_address
class _StubCPUBig(_StubCPU):
    name = "vfstubbig"; endianness = "big"; linker_output_format = "elf32-big"
cpu_mod.CPUS.setdefault("vfstub", _StubCPU); cpu_mod.CPUS.setdefault("vfstubbig", _StubCPUBig)

class Probe:
    """the elaborated SoC as a transition system (E1), unrolled N cycles from an idle state in which every control register holds its reset
    value and all CSR storages, staging registers and writable memory cells are arbitrary; the master holds one classic request until ack"""
    def __init__(self, name, soc, m, N):
        self.soc, self.m, self.N = soc, m, N
        h = self.h = HwCheck(name, soc, [m.adr, m.dat_w, m.sel, m.cyc, m.stb, m.we, m.cti, m.bte])
        self.sto = all_storages(soc)
        allvars = h._allvars(); self.at = at = h._at(allvars)
        pairs = h._pairs(); basec = h.base(); un = []
        for k in range(N):
            un += [at(c, k) for c in basec]
            if k > 0: un += [at(a, k) == at(e, k - 1) for a, e in pairs]
        memcells = set()
        for arr_ in h.ts.mems.values(): memcells |= set(arr_)
        free0 = set(self.sto.values()) | memcells | {s for s in h.ts.state if (s.name_override or "").endswith("_backstore")}
        idle0 = [at(z3.Not(b(h.v(m.ack))), 0)] + [at(h.v(s) == K(s.reset.value & ((1 << s.nbits) - 1), s.nbits), 0) for s in h.ts.state if s not in free0]
        self.solver = z3.Solver(); self.solver.add(*un); self.solver.add(*idle0)
    def held(self, addr, we, sel=15):
        h, m, at = self.h, self.m, self.at; cs = []
        for k in range(self.N):
            cs += [at(eqc(h.v(m.adr), (addr >> 2) & (2**30 - 1)), k), at(b(h.v(m.cyc)), k), at(b(h.v(m.stb)), k), at(h.v(m.we) == K(1 if we else 0, 1), k),
                   at(h.v(m.sel) == K(sel, 4), k), at(h.v(m.cti) == K(0, 3), k), at(h.v(m.bte) == K(0, 2), k)]
            if k > 0: cs.append(at(h.v(m.dat_w), k) == at(h.v(m.dat_w), 0))
        return cs
    def first_ack(self, k): return z3.And(self.at(b(self.h.v(self.m.ack)), k), *[z3.Not(self.at(b(self.h.v(self.m.ack)), j)) for j in range(k)])
    def prove(self, name, pre, goal_at_ack, kind="ensures", what=None):
        goal = z3.Or(*[z3.And(self.first_ack(k), goal_at_ack(k)) for k in range(1, self.N - 1)])
        t1 = time.time(); s = self.solver
        s.push(); s.set("timeout", 60000); s.add(*pre); s.add(z3.Not(goal)); rr = s.check(); s.pop()
        r = res(name, kind, PROVED if rr == z3.unsat else (UNKNOWN if rr == z3.unknown else NOINPUT), time.time() - t1, "z3-%s(api,incremental)" % z3.get_version_string())
        if what: r["what"] = what
        return r
    def sim(self, gen):
        from litex.gen.sim import run_simulation
        from vf.fhdl2smt import copy_fragment
        run_simulation(copy_fragment(self.h.ts.f0), gen)

def cpu_lane(k, endianness): return (k % 4) if endianness == "little" else 3 - (k % 4)     # byte lane of a 32-bit master of that endianness for byte address k

WHAT_ROM_STR = ("SoCCore(integrated_rom_init=<file name>) converts the file with get_mem_data(endianness='little') whatever the CPU is (marked FIXME in soc_core.py); "
                "with a big-endian CPU (lm32, mor1kx, marocchino) every ROM word is byte-swapped with respect to what the CPU fetches")

def c_soc_mem_init(bus_standard, endianness, rom_by, rom_mode="rx"):
    """rom_by: 'filename' SoCCore(integrated_rom_init=<path>) | 'add_rom' SoCCore(integrated_rom_init=get_mem_data(..., cpu endianness)) -> add_rom(contents)
               | 'builder' empty ROM, then the real Builder._initialize_rom_software (bios.bin -> get_mem_data -> SoC.init_rom)"""
    from litex.soc.integration.common import get_mem_data
    t0 = time.time(); rnd = random.Random(5)
    d = tempfile.mkdtemp(prefix="vf_soc_")
    try:
        rom_data = bytes(rnd.randrange(1, 256) for _ in range(37)); ram_data = bytes(rnd.randrange(1, 256) for _ in range(22))
        os.makedirs(os.path.join(d, "software", "bios")); rom_file = os.path.join(d, "software", "bios", "bios.bin"); ram_file = os.path.join(d, "ram.bin")
        open(rom_file, "wb").write(rom_data); open(ram_file, "wb").write(ram_data)
        rom_words = get_mem_data(rom_file, data_width=32, endianness=endianness)
        ram_words = get_mem_data(ram_file, data_width=32, endianness=endianness)
        rom_init = dict(filename=rom_file, add_rom=rom_words, builder=[])[rom_by]
        soc = SoCCore(P(), 100e6, cpu_type="vfstub" if endianness == "little" else "vfstubbig", bus_standard=bus_standard, csr_data_width=32,
                      integrated_rom_size=0x40, integrated_rom_init=rom_init, integrated_rom_mode=rom_mode, integrated_sram_size=0x100, with_uart=False, with_timer=True, ident="", ident_version=False)
        elab.restore_stderr()
        soc.add_ram("bootram", origin=0x2000_0000, size=0x80)
        soc.finalize(); elab.restore_stderr()
        soc.init_ram("bootram", contents=ram_words)
        if rom_by == "builder":
            bld = Builder(soc, output_dir=d, compile_software=False, compile_gateware=False)
            bld._initialize_rom_software()
    finally:
        shutil.rmtree(d, ignore_errors=True)
    m = soc.cpu.ibus
    finding = rom_by == "filename" and endianness == "big"
    out = []
    rom_o = soc.bus.regions["rom"].origin; ram_o = soc.bus.regions["bootram"].origin
    # ---- the lists handed to the memories
    out.append(res("finding.rom-image-endianness.init-list" if finding else "ens.rom.mem.init==get_mem_data(file, bus width, cpu endianness)", "finding-witness" if finding else "ensures",
                   (OK if not finding else PROVED) if list(soc.rom.mem.init) == rom_words else VIOLATED, 0, "executed (real SoCCore/SoC/Builder methods)",
                   info="" if list(soc.rom.mem.init) == rom_words else f"init[:2]={[hex(w) for w in list(soc.rom.mem.init)[:2]]} image[:2]={[hex(w) for w in rom_words[:2]]}",
                   **(dict(what=WHAT_ROM_STR, replay="tools/replay_rom_init_endianness.py") if finding else {})))
    out.append(res("ens.bootram.mem.init==get_mem_data(file)", "ensures", OK if list(soc.bootram.mem.init) == ram_words else VIOLATED, 0, "executed (SoC.init_ram)"))
    if "w" in rom_mode:
        # a WRITABLE region publishes its whole extent as usable memory (mem.h / regions.ld / JSON): initialising it must not shrink the memory behind it
        full = soc.rom.mem.depth * 4 >= soc.bus.regions["rom"].size
        out.append(res("ens.writable-rom keeps the published extent after init_rom (depth*4 >= region size)", "ensures", OK if full else VIOLATED, 0, "executed (real Builder._initialize_rom_software / SoC.init_rom)",
                       info="" if full else f"memory depth {soc.rom.mem.depth} words behind a published region of {soc.bus.regions['rom'].size:#x} bytes, mode {rom_mode}"))
        if not full: return dict(results=out, functions=["litex.soc.integration.soc.SoC.init_ram", "litex.soc.integration.soc.SoC.init_rom"], samples=[dict(config=f"{bus_standard},{endianness},rom by {rom_by},{rom_mode}")])
    if rom_by == "builder" and "w" not in rom_mode:
        out.append(res("ens.init_rom(auto_size): depth==len(image) and region size >= image", "ensures", OK if soc.rom.mem.depth == len(rom_words) and soc.bus.regions["rom"].size >= 4 * len(rom_words) else VIOLATED, 0, "executed"))
    # ---- E1: the elaborated SoC returns cell j for a read at origin+4j (ROM cells are constants of the extraction = their init value)
    p = Probe(f"SoC({bus_standard},{endianness},rom by {rom_by})", soc, m, 8 if bus_standard != "wishbone" else 6)
    h, at = p.h, p.at
    rom_cells = h.ts.mems[soc.rom.mem]; ram_cells = h.ts.mems[soc.bootram.mem]
    init_cells = [c.reset.value for c in rom_cells][:len(rom_words)]
    out.append(res("finding.rom-image-endianness.cells" if finding else "ens.rom.cells-power-up-with-image", "finding-witness" if finding else "ensures", (OK if not finding else PROVED) if init_cells == rom_words else VIOLATED, 0, "extraction (MemoryToArray reset values)",
                   **(dict(what=WHAT_ROM_STR, replay="tools/replay_rom_init_endianness.py") if finding else {})))
    out.append(res("ens.bootram.cells-power-up-with-image", "ensures", OK if [c.reset.value for c in ram_cells][:len(ram_words)] == ram_words else VIOLATED, 0, "extraction (MemoryToArray reset values)"))
    keep = [at(h.v(o), 0) for o in p.sto.values()]
    def unchanged(k): return [at(h.v(o), k + 1) == at(h.v(o), 0) for o in p.sto.values()]
    for j in range(len(rom_words)):
        a = rom_o + 4 * j
        want = K(soc.rom.mem.init[j], 32)
        if "w" in rom_mode:      # a writable ROM is a RAM with an initial image: the cells are state (power-up value = image, checked above), a read returns the cell
            out.append(p.prove(f"ens.read[writable rom word {j}@{a:#x} returns cell {j}]", p.held(a, False), lambda k, j=j: z3.And(at(h.v(m.dat_r), k) == at(h.v(rom_cells[j]), 0), *unchanged(k))))
            continue
        out.append(p.prove(f"ens.read[rom word {j}@{a:#x} returns the cell = Memory.init[{j}]]", p.held(a, False), lambda k, j=j, want=want: z3.And(at(h.v(m.dat_r), k) == want, at(h.v(rom_cells[j]), k) == want, *unchanged(k))))
    for j in (0, 5, len(ram_cells) - 1):
        a = ram_o + 4 * j
        out.append(p.prove(f"ens.read[bootram word {j}@{a:#x} returns cell {j}]", p.held(a, False), lambda k, j=j: z3.And(at(h.v(m.dat_r), k) == at(h.v(ram_cells[j]), 0), *unchanged(k))))
        out.append(p.prove(f"ens.write[bootram word {j}@{a:#x} sets cell {j} only]", p.held(a, True),
                           lambda k, j=j: z3.And(at(h.v(ram_cells[j]), k + 1) == at(h.v(m.dat_w), 0), *[at(h.v(c), k + 1) == at(h.v(c), 0) for i_, c in enumerate(ram_cells) if i_ != j], *unchanged(k))))
    neg = p.prove("neg", p.held(rom_o, False), lambda k: at(h.v(m.dat_r), k) == K(soc.rom.mem.init[1], 32))
    out.append(res("cover.wrong-rom-word-is-refuted", "cover", OK if neg["status"] == NOINPUT and soc.rom.mem.init[0] != soc.rom.mem.init[1] else VACUOUS, neg["secs"], neg["backend"]))
    if "w" not in rom_mode:
        out.append(p.prove(f"ens.write[rom@{rom_o:#x} is read-only: acknowledged, no cell and no CSR changes]", p.held(rom_o, True), lambda k: z3.And(*unchanged(k))))
    else:
        jl = soc.bus.regions["rom"].size // 4 - 1; al = rom_o + 4 * jl
        out.append(p.prove(f"ens.write[writable rom: last published word {jl}@{al:#x} sets cell {jl}]", p.held(al, True), lambda k: z3.And(at(h.v(rom_cells[jl]), k + 1) == at(h.v(m.dat_w), 0), *unchanged(k))))
    # ---- real simulator (bounded: this image): every byte of both files read back through the SoC's bus master at origin+k
    got = {}
    def gen():
        for name, o, data in (("rom", rom_o, rom_data), ("bootram", ram_o, ram_data)):
            g = []
            for k in range(len(data)):
                w = yield from m.read((o + k) >> 2)
                g.append((w >> (8 * cpu_lane(k, endianness))) & 0xff)
            got[name] = bytes(g)
            pad = yield from m.read((o + len(data)) >> 2)
            got[name + ".pad"] = [(pad >> (8 * cpu_lane(k, endianness))) & 0xff for k in range(len(data) % 4, 4)]
    p.sim(gen())
    okrom = got.get("rom") == rom_data and not any(got.get("rom.pad", [1]))
    out.append(res("finding.rom-image-endianness.readback" if finding else f"sim.rom-bytes-read-at-origin+k[{len(rom_data)} bytes, {endianness}-endian master lanes]", "finding-witness" if finding else "bounded", (BOUNDED_OK if not finding else PROVED) if okrom else VIOLATED, 0, "litex.gen.sim on the elaborated SoC",
                   info="" if okrom else f"file {rom_data[:8].hex()} read back {got.get('rom', b'')[:8].hex()}", **(dict(what=WHAT_ROM_STR, replay="tools/replay_rom_init_endianness.py") if finding else {})))
    okram = got.get("bootram") == ram_data and not any(got.get("bootram.pad", [1]))
    out.append(res(f"sim.bootram-bytes-read-at-origin+k[{len(ram_data)} bytes]", "bounded", BOUNDED_OK if okram else VIOLATED, 0, "litex.gen.sim on the elaborated SoC"))
    out.append(res("cover.soc-elaborated-and-read", "cover", OK if len(got) == 4 and len(rom_cells) >= len(rom_words) else VACUOUS, time.time() - t0, "E1 + litex.gen.sim"))
    return dict(results=out, functions=["litex.soc.integration.soc.SoC.add_rom", "litex.soc.integration.soc.SoC.add_ram", "litex.soc.integration.soc.SoC.init_ram", "litex.soc.integration.soc.SoC.init_rom",
                                        "litex.soc.integration.soc_core.SoCCore.__init__ (integrated_rom_init)", "litex.soc.integration.builder.Builder._initialize_rom_software"],
                samples=[dict(configuration=f"{bus_standard},{endianness},rom by {rom_by}", rom_words=len(rom_words))])

def c_big_endian_wide_memory(tier):
    """ties lane_of(..., 'big') for memories wider than 32 bits to the real hardware path: a 32-bit big-endian master (byte address k ->
    word address k//4, lane 3-k%4) reads, through the real wishbone.Converter, a 64-bit wishbone.SRAM initialised with
    get_mem_data(file, 64, 'big'); and the same for a little-endian master / 'little' image (bounded: real simulator, these images)"""
    from litex.soc.integration.common import get_mem_data
    from litex.gen.sim import run_simulation
    rnd = random.Random(3); bad = []; evals = 0
    d = tempfile.mkdtemp(prefix="vf_img_")
    try:
        for end in ("big", "little"):
            for n in ((21, 8) if tier == "quick" else (21, 8, 33, 1)):
                data = bytes(rnd.randrange(1, 256) for _ in range(n)); fn = os.path.join(d, "w.bin"); open(fn, "wb").write(data)
                words = get_mem_data(fn, data_width=64, endianness=end)
                class Top(Module):
                    def __init__(self):
                        self.m = wishbone.Interface(data_width=32, address_width=32, addressing="word")
                        self.s = wishbone.Interface(data_width=64, address_width=32, addressing="word")
                        self.submodules.conv = wishbone.Converter(self.m, self.s)
                        self.submodules.ram = wishbone.SRAM(0x40, init=words, bus=self.s)
                top = Top(); got = []
                def gen():
                    for k in range(n):
                        w = yield from top.m.read(k >> 2)
                        got.append((w >> (8 * cpu_lane(k, end))) & 0xff)
                run_simulation(top, gen()); evals += n
                if bytes(got) != data: bad.append((end, n, bytes(got).hex(), data.hex()))
    finally:
        shutil.rmtree(d, ignore_errors=True)
    return dict(results=[res("sim.32-bit-master-through-Converter-reads-byte-k[64-bit SRAM, get_mem_data(dw=64) big and little]", "bounded", BOUNDED_OK if not bad else VIOLATED, 0, "litex.gen.sim (real wishbone.Converter + wishbone.SRAM)",
                             evaluations=evals, info=str(bad[:2]))],
                functions=["litex.soc.integration.common.get_mem_data (bounded)"], samples=[dict(bounded="wide memory read by a 32-bit master", evaluations=evals)])

# =====================================================================================================================================
# Part 2: mem.h, regions.ld / memory.x, soc.h, JSON, CSV, SVD against the SoC objects and against csr.h
# =====================================================================================================================================
class Periph2(LiteXModule):
    """a peripheral with an interrupt line and a CSR constant"""
    def __init__(self):
        self.ctl = CSRStorage(12, name="ctl")
        self.wide = CSRStatus(70, name="wide")
        self.cfg = CSRStorage(name="cfg", fields=[CSRField("mode", size=3, offset=0), CSRField("gain", size=5, offset=8), CSRField("hi", size=2, offset=30)])
        self.magic = CSRConstant(0x5a, name="magic")
        self.trig = Signal()
        self.ev = EventManager(); self.ev.tick = EventSourcePulse(name="tick"); self.ev.finalize()
        self.comb += self.ev.tick.trigger.eq(self.trig)

class PinnedFirst(LiteXModule):
    """a register pinned to a slot of its bank (n=) so that a hole remains before it: the gatherer fills it with reserved placeholders, every publication
    (csr.h, JSON, CSV, SVD, generated documentation) must still give the register the address the bank decodes"""
    def __init__(self): self.r = CSRStorage(8, name="r"); self.s = CSRStatus(40, name="s"); self.late = CSRStorage(8, name="late", n=5); self.tail = CSRStatus(8, name="tail")

def build_ext(bus_standard="wishbone", csr_dw=32, paging=0x800, ordering="big", with_mem=False, cpu=None, fixed=False, irq=False):
    if cpu is None and not fixed and not irq:
        soc, m = build(bus_standard=bus_standard, csr_dw=csr_dw, paging=paging, ordering=ordering, with_mem=with_mem)       # the SoCs C14_exports.py proves against the hardware
        return soc, m
    soc = SoCCore(P(), 100e6, cpu_type=cpu, bus_standard=bus_standard, csr_data_width=csr_dw, csr_paging=paging, csr_ordering=ordering,
                  integrated_rom_size=0x40 if cpu else 0, integrated_rom_init=[0x11223344, 0x55667788] if cpu else [], integrated_sram_size=0x100,
                  with_uart=False, with_timer=True, ident="", ident_version=False)
    elab.restore_stderr()
    soc.periph = Periph(with_mem); soc.periph2 = Periph2()
    if fixed:
        soc.csr.add("periph", n=9); soc.csr.add("periph2", n=3)
        soc.aaa = PinnedFirst(); soc.csr.add("aaa", n=5)          # the alphabetically first bank is NOT the one at the lowest address (location 0 holds the controller)
    if irq: soc.irq.add("periph2", n=7)
    soc.add_constant("MY_CONST", 42); soc.add_config("GREETING", "Hello"); soc.add_constant("FLAG")
    soc.bus.add_region("shadow", SoCRegion(origin=0x5000_0000 if cpu else 0x0200_0000, size=0x1800, linker=True))
    if cpu: m = soc.cpu.ibus
    else:
        m = wishbone.Interface(data_width=32, address_width=32, addressing="word"); soc.bus.add_master("tb", m)
    soc.finalize(); elab.restore_stderr()
    return soc, m

class ParseError(Exception): pass
def _lines(txt, comment):
    return [l for l in txt.splitlines() if l.strip() and not l.startswith(comment)]
def parse_mem_h(txt):
    regs = {}; order = []; listed = None
    for l in _lines(txt, "//"):
        if re.fullmatch(r"#ifndef \w+|#endif|#define __GENERATED_MEM_H", l): continue
        mm = re.fullmatch(r"#define (\w+)_BASE 0x([0-9a-f]{8,})L", l)
        if mm: regs.setdefault(mm.group(1), {})["base"] = int(mm.group(2), 16); order.append(mm.group(1)); continue
        mm = re.fullmatch(r"#define (\w+)_SIZE 0x([0-9a-f]{8,})", l)
        if mm: regs.setdefault(mm.group(1), {})["size"] = int(mm.group(2), 16); continue
        mm = re.fullmatch(r'#define MEM_REGIONS "(.*)"', l)
        if mm:
            listed = {}
            for ent in mm.group(1).split("\\n"):
                e = re.fullmatch(r"(\w+) +0x([0-9a-f]{8,}) 0x([0-9a-f]+) ?", ent)
                if not e: raise ParseError(f"MEM_REGIONS entry {ent!r}")
                listed[e.group(1)] = (int(e.group(2), 16), int(e.group(3), 16))
            continue
        raise ParseError(f"mem.h line {l!r}")
    return {n: (v.get("base"), v.get("size")) for n, v in regs.items()}, listed
def parse_linker(txt):
    regs = {}; alias = {}; stext = None; inside = False
    for l in _lines(txt, "/*"):
        if l == "MEMORY {": inside = True; continue
        if l == "}": inside = False; continue
        mm = re.fullmatch(r"\t(\w+) : ORIGIN = 0x([0-9a-f]{8,}), LENGTH = 0x([0-9a-f]{8,})", l)
        if mm and inside: regs[mm.group(1)] = (int(mm.group(2), 16), int(mm.group(3), 16)); continue
        mm = re.fullmatch(r'REGION_ALIAS\("(\w+)", (\w+)\);', l)
        if mm and not inside: alias[mm.group(1)] = mm.group(2); continue
        mm = re.fullmatch(r"_stext = (0x[0-9a-f]+|0+);", l)
        if mm and not inside: stext = int(mm.group(1), 16); continue
        raise ParseError(f"linker line {l!r}")
    return regs, alias, stext
def _cval(v):
    if re.fullmatch(r"-?\d+", v): return int(v)
    if re.fullmatch(r'"[^"]*"', v): return v[1:-1]
    raise ParseError(f"constant value {v!r}")
def parse_soc_h(txt):
    defs = {}; funcs = {}; cur = None
    for l in _lines(txt, "//"):
        if re.fullmatch(r"#ifndef \w+|#endif.*|#define __GENERATED_SOC_H", l): continue
        mm = re.fullmatch(r"#define (\w+)", l)
        if mm: defs[mm.group(1)] = None; continue
        mm = re.fullmatch(r"#define (\w+) (.+)", l)
        if mm: defs[mm.group(1)] = _cval(mm.group(2)); continue
        mm = re.fullmatch(r"static inline (const char \*|int) (\w+)_read\(void\) \{", l)
        if mm: cur = (mm.group(2), mm.group(1)); continue
        mm = re.fullmatch(r"\treturn (.+);", l)
        if mm and cur: v = _cval(mm.group(1)); funcs[cur[0]] = v; assert (cur[1] == "int") == isinstance(v, int); continue
        if l == "}": cur = None; continue
        raise ParseError(f"soc.h line {l!r}")
    return defs, funcs
def parse_csr_h(txt, csr_base):
    addr = {mm.group(1).lower(): csr_base + int(mm.group(2), 16) for mm in re.finditer(r"^#define CSR_(\w+)_ADDR \(CSR_BASE \+ (0x[0-9a-f]+)L\)$", txt, re.M)}
    size = {mm.group(1).lower(): int(mm.group(2)) for mm in re.finditer(r"^#define CSR_(\w+)_SIZE (\d+)$", txt, re.M)}
    base = {mm.group(1).lower(): csr_base + int(mm.group(2), 16) for mm in re.finditer(r"^#define CSR_(\w+)_BASE \(CSR_BASE \+ (0x[0-9a-f]+)L\)$", txt, re.M)}
    cb = re.search(r"^#define CSR_BASE (0x[0-9a-f]+)L$", txt, re.M)
    size = {k: v for k, v in size.items() if k in addr}            # field _SIZE defines share the suffix
    if set(addr) != set(size) or not cb: raise ParseError("csr.h ADDR/SIZE defines do not pair up")
    return addr, size, base, int(cb.group(1), 16)
def parse_csv(txt):
    out = dict(csr_base={}, csr_register={}, constant={}, memory_region={})
    for l in _lines(txt, "#"):
        f = l.split(",")
        if len(f) != 5 or f[0] not in out: raise ParseError(f"csv row {l!r}")
        if f[0] == "csr_base":
            if not re.fullmatch(r"0x[0-9a-f]{8,}", f[2]) or f[3] or f[4]: raise ParseError(l)
            out[f[0]][f[1]] = int(f[2], 16)
        elif f[0] == "csr_register":
            if not re.fullmatch(r"0x[0-9a-f]{8,}", f[2]) or not f[3].isdigit() or f[4] not in ("ro", "rw"): raise ParseError(l)
            out[f[0]][f[1]] = (int(f[2], 16), int(f[3]), f[4])
        elif f[0] == "constant":
            if f[3] or f[4]: raise ParseError(l)
            out[f[0]][f[1]] = f[2]
        else:
            if not re.fullmatch(r"0x[0-9a-f]{8,}", f[2]) or not f[3].isdigit(): raise ParseError(l)
            out[f[0]][f[1]] = (int(f[2], 16), int(f[3]), f[4])
    return out
def parse_svd(txt):
    root = ET.fromstring(txt)
    if root.findtext("addressUnitBits") != "8" or root.findtext("width") != "32": raise ParseError("svd header")
    per = {}
    for p in root.find("peripherals"):
        name = p.findtext("name"); base = int(p.findtext("baseAddress"), 16); regs = []
        for r in p.find("registers"):
            desc = r.findtext("description") or ""
            bits = re.match(r"Bits? (\d+)(?:-(\d+))? of `(\w+)`\.", desc)
            regs.append(dict(name=r.findtext("name"), off=int(r.findtext("addressOffset"), 16), size=int(r.findtext("size")),
                             bits=(int(bits.group(1)), int(bits.group(2) or bits.group(1))) if bits else None))
        irq = p.find("interrupt")
        per[name] = dict(base=base, regs=regs, irq=None if irq is None else (irq.findtext("name"), int(irq.findtext("value"))),
                         block=int(p.find("addressBlock").findtext("size"), 16))
    ve = root.find("vendorExtensions")
    mems = {r.findtext("name"): (int(r.findtext("baseAddress"), 16), int(r.findtext("size"), 16)) for r in (ve.find("memoryRegions") or [])}
    consts = {c.get("name"): c.get("value") for c in ve.find("constants")}
    return per, mems, consts

WHAT_LITTLE = ("csr_ordering='little': the exporters (csr.h accessors, SVD sub-register names and bit ranges) describe multi-word CSRs most-significant-word-first, the hardware places "
               "the least significant word at the lowest address (same root cause as the listed finding SoC(wishbone,csr32,little)/finding.*)")

def c_exports(cfgname, **cfg):
    t0 = time.time()
    soc, m = build_ext(**cfg)
    out = []
    def chk(name, ok, info="", kind="ensures", what=None):
        r = res(name, kind, (OK if kind != "finding-witness" else PROVED) if ok else VIOLATED, 0, "executed (real exporters on the elaborated SoC, strict parsers)", info="" if ok else str(info)[:600])
        if what: r["what"] = what
        if kind == "finding-witness": r["replay"] = "tools/replay_svd_little_order.py"
        out.append(r); return ok
    truth_regions = {n: (r.origin, r.size) for n, r in soc.bus.regions.items()}
    csr_base = soc.bus.regions["csr"].origin
    busw = soc.csr.data_width
    consts = dict(soc.constants)
    # ---------------- the handlers' own state agrees with the design parameters the constants stand for
    sem = {"CONFIG_CSR_DATA_WIDTH": soc.csr_bankarray.data_width if hasattr(soc.csr_bankarray, "data_width") else busw, "CONFIG_CSR_ALIGNMENT": soc.csr.alignment, "CONFIG_BUS_STANDARD": soc.bus.standard,
           "CONFIG_BUS_DATA_WIDTH": soc.bus.data_width, "CONFIG_BUS_ADDRESS_WIDTH": soc.bus.address_width, "CONFIG_BUS_BURSTING": int(soc.bus.bursting), "CONFIG_CLOCK_FREQUENCY": soc.sys_clk_freq}
    if cfg.get("cpu"): sem["CONFIG_CPU_RESET_ADDR"] = soc.cpu.reset_address
    for name, loc in soc.irq.locs.items(): sem[name.upper() + "_INTERRUPT"] = loc
    if soc.irq.locs: sem["CONFIG_CPU_INTERRUPTS"] = max(soc.irq.locs.values()) + 1
    for bank_name, c in soc.csr_bankarray.constants: sem[(bank_name + "_" + c.name).upper()] = c.value.value
    chk("ens.constants==design-parameters(csr/bus widths, clock, reset address, interrupt numbers, CSR constants)", all(consts.get(k, "missing") == v for k, v in sem.items()), {k: (consts.get(k, "missing"), v) for k, v in sem.items() if consts.get(k, "missing") != v})
    if soc.irq.locs:
        chk("ens.interrupt-numbers-injective-and-in-range", len(set(soc.irq.locs.values())) == len(soc.irq.locs) and all(0 <= v < 32 for v in soc.irq.locs.values()), soc.irq.locs)
    # ---------------- mem.h
    mh, listed = parse_mem_h(export.get_mem_header(soc.mem_regions))
    want = {n.upper(): v for n, v in truth_regions.items()}
    chk("ens.mem.h BASE/SIZE==bus.regions", mh == want, (mh, want))
    chk("ens.mem.h MEM_REGIONS string==bus.regions", listed == want, (listed, want))
    # ---------------- regions.ld / memory.x
    ld, _, _ = parse_linker(export.get_linker_regions(soc.mem_regions))
    chk("ens.regions.ld ORIGIN/LENGTH==bus.regions", ld == truth_regions, (ld, truth_regions))
    if "rom" in truth_regions and "sram" in truth_regions:
        mx, alias, stext = parse_linker(export.get_memory_x(soc))
        chk("ens.memory.x regions==bus.regions, aliases name published regions, _stext==cpu reset address inside rom", mx == truth_regions and set(alias.values()) <= set(mx) and stext == soc.cpu.reset_address
            and truth_regions["rom"][0] <= stext < sum(truth_regions["rom"]), (mx, alias, stext))
    # ---------------- soc.h
    defs, funcs = parse_soc_h(export.get_soc_header(soc.constants))
    chk("ens.soc.h defines==constants", defs == consts, {k: (defs.get(k, "missing"), consts.get(k, "missing")) for k in set(defs) | set(consts) if defs.get(k, "missing") != consts.get(k, "missing")})
    chk("ens.soc.h accessor functions return the defined value", funcs == {k.lower(): v for k, v in consts.items() if v is not None}, funcs)
    # ---------------- csr.h (proved against the hardware by C14_exports.py) is the reference for register addresses
    hdr = export.get_csr_header(soc.csr_regions, soc.constants, csr_base)
    haddr, hsize, hbase, hcb = parse_csr_h(hdr, csr_base)
    acc = parse_accessors(hdr, csr_base)
    chk("ens.csr.h CSR_BASE==bus.regions[csr].origin", hcb == csr_base, (hcb, csr_base))
    # every register of every bank is published by csr.h exactly once, inside the CSR region, without overlap
    names = [f"{rn}_{c.name}" for rn, r in soc.csr.regions.items() if not isinstance(r.obj, Memory) for c in r.obj]
    spans = sorted((haddr[n], haddr[n] + 4 * hsize[n], n) for n in haddr)
    ok_pub = chk("ens.csr.h publishes every bank register once, inside the csr region, pairwise disjoint", sorted(names) == sorted(haddr) and all(a1 <= b0 for (a0, a1, _), (b0, b1, _) in zip(spans, spans[1:]))
        and all(csr_base <= a0 and a1 <= csr_base + truth_regions["csr"][1] for a0, a1, _ in spans), (sorted(set(names) ^ set(haddr)), spans[:3]))
    ok_base = chk("ens.csr.h region bases==csr.regions origins", hbase == {n: r.origin for n, r in soc.csr.regions.items()}, hbase)
    if not (ok_pub and ok_base):
        # csr.h is the reference of every later comparison (fields, SVD, JSON, CSV, Builder files): with a wrong csr.h they are not stated; the violation above is the verdict
        return dict(results=out, functions=["litex.soc.integration.export.get_csr_header", "litex.soc.integration.soc.SoC.finalize (csr regions)"], samples=[dict(config=cfgname)])
    # ---------------- field accessors (csr.h with_fields_access_functions=True): the emitted C expressions, read as uint32_t arithmetic, select exactly the field's bits
    hdrf = export.get_csr_header(soc.csr_regions, soc.constants, csr_base, with_fields_access_functions=True)
    fdefs = {}
    for mm in re.finditer(r"^#define CSR_(\w+)_(OFFSET|SIZE) (\d+)$", hdrf, re.M): fdefs[(mm.group(1).lower(), mm.group(2))] = int(mm.group(3))
    EXT = re.compile(r"static inline uint32_t (\w+)_extract\(uint32_t oldword\) \{\n\tuint32_t mask = 0x([0-9a-f]+);\n\treturn \(\(oldword >> (\d+)\) & mask\);\n\}")
    REP = re.compile(r"static inline uint32_t (\w+)_replace\(uint32_t oldword, uint32_t plain_value\) \{\n\tuint32_t mask = 0x([0-9a-f]+);\n\treturn \(oldword & \(~\(mask << (\d+)\)\)\) \| \(\(mask & plain_value\) << (\d+)\);\n\}")
    RDW = re.compile(r"static inline uint32_t (\w+)_read\(void\) \{\n\tuint32_t word = (\w+)_read\(\);\n\treturn (\w+)_extract\(word\);\n\}")
    WRW = re.compile(r"static inline void (\w+)_write\(uint32_t plain_value\) \{\n\tuint32_t oldword = (\w+)_read\(\);\n\tuint32_t newword = (\w+)_replace\(oldword, plain_value\);\n\t(\w+)_write\(newword\);\n\}")
    ext_ = {mm.group(1): (int(mm.group(2), 16), int(mm.group(3))) for mm in EXT.finditer(hdrf)}
    rep_ = {mm.group(1): (int(mm.group(2), 16), int(mm.group(3)), int(mm.group(4))) for mm in REP.finditer(hdrf)}
    rdw_ = {mm.group(1): (mm.group(2), mm.group(3)) for mm in RDW.finditer(hdrf)}
    wrw_ = {mm.group(1): (mm.group(2), mm.group(3), mm.group(4)) for mm in WRW.finditer(hdrf)}
    fields = {}
    for rn, r in soc.csr.regions.items():
        if isinstance(r.obj, Memory): continue
        for c in r.obj:
            if hasattr(c, "fields") and c.size <= 32:
                for f in c.fields.fields: fields[f"{rn}_{c.name}_{f.name}".lower()] = (f"{rn}_{c.name}", f.offset, f.size, getattr(c, "read_only", False))
    w_, v_ = z3.BitVecs("oldword plain_value", 32)
    def bvproof(name, claim):
        t1 = time.time(); s_ = z3.Solver(); s_.set("timeout", 20000); s_.add(z3.Not(claim)); rr = s_.check()
        out.append(res(name, "ensures", PROVED if rr == z3.unsat else (UNKNOWN if rr == z3.unknown else NOINPUT), time.time() - t1, "z3-%s(api), uint32_t arithmetic of the emitted expression, all words" % z3.get_version_string()))
    chk("ens.field accessors emitted for exactly the fields of registers <= 32 bit; OFFSET/SIZE defines==the CSR's fields", set(ext_) == set(fields) == set(rdw_) and set(rep_) == set(wrw_) == {k for k, v in fields.items() if not v[3]}
        and all(fdefs.get((k, "OFFSET")) == v[1] and fdefs.get((k, "SIZE")) == v[2] for k, v in fields.items())
        and all(rdw_[k] == (fields[k][0], k) for k in rdw_) and all(wrw_[k] == (fields[k][0], k, fields[k][0]) for k in wrw_), (sorted(set(ext_) ^ set(fields)), ))
    for k, (reg, off, size, ro) in sorted(fields.items()):
        if k not in ext_: continue
        mask, sh = ext_[k]
        bvproof(f"ens.{k}_extract(w)==w bits {off + size - 1}..{off}", z3.LShR(w_, sh) & K(mask, 32) == z3.ZeroExt(32 - size, z3.Extract(off + size - 1, off, w_)))
        if k in rep_:
            mask, s1, s2 = rep_[k]
            r_ = (w_ & ~(K(mask, 32) << s1)) | ((K(mask, 32) & v_) << s2)
            keepmask = K(~(((1 << size) - 1) << off) & 0xffffffff, 32)
            bvproof(f"ens.{k}_replace(w,v) sets bits {off + size - 1}..{off} to v and keeps the others", z3.And(z3.Extract(off + size - 1, off, r_) == z3.Extract(size - 1, 0, v_), r_ & keepmask == w_ & keepmask))
    # ---------------- JSON
    js = json.loads(export.get_csr_json(soc.csr_regions, soc.constants, soc.mem_regions))
    chk("ens.json csr_registers addr/size==csr.h (all registers)", {n: (v["addr"], v["size"]) for n, v in js["csr_registers"].items()} == {n: (haddr[n], hsize[n]) for n in haddr}, "")
    chk("ens.json csr_bases==csr.h bases", js["csr_bases"] == hbase, (js["csr_bases"], hbase))
    chk("ens.json memories==bus.regions", {n: (v["base"], v["size"]) for n, v in js["memories"].items()} == truth_regions, js["memories"])
    lc = lambda v: v.lower() if isinstance(v, str) else v
    chk("ens.json constants==constants (names and string values lower-cased by design)", js["constants"] == {k.lower(): lc(v) for k, v in consts.items()}, js["constants"])
    # ---------------- CSV
    cv = parse_csv(export.get_csr_csv(soc.csr_regions, soc.constants, soc.mem_regions))
    chk("ens.csv csr_register rows==csr.h (all registers)", {n: v[:2] for n, v in cv["csr_register"].items()} == {n: (haddr[n], hsize[n]) for n in haddr}, "")
    chk("ens.csv csr_base rows==csr.h bases", cv["csr_base"] == hbase, cv["csr_base"])
    chk("ens.csv memory_region rows==bus.regions", {n: v[:2] for n, v in cv["memory_region"].items()} == truth_regions, cv["memory_region"])
    chk("ens.csv constant rows==constants", cv["constant"] == {k.lower(): str(lc(v)) for k, v in consts.items()}, cv["constant"])
    # ---------------- SVD
    import io, contextlib
    with contextlib.redirect_stdout(io.StringIO()): svd_txt = export.get_csr_svd(soc)
    per, smem, sconst = parse_svd(svd_txt)
    chk("ens.svd peripherals==csr regions at the csr.h bases", {n: p["base"] for n, p in per.items()} == {n.upper(): b_ for n, b_ in hbase.items()}, {n: hex(p["base"]) for n, p in per.items()})
    exp_regs = {}; exp_bits = {}; hw_names = {}
    for rn, r in soc.csr.regions.items():
        if isinstance(r.obj, Memory): exp_regs[rn.upper()] = {rn.upper(): r.origin}; continue
        e = {}; hwn = {}
        for c in r.obj:
            n = f"{rn}_{c.name}"; nw = hsize[n]
            simple = c.get_simple_csrs() if hasattr(c, "get_simple_csrs") else [c]
            for j in range(nw):
                sub = (c.name + str(nw - 1 - j) if nw > 1 else c.name).upper()            # the word csr.h's accessors place at ADDR + 4*j: bits (nw-1-j)*busw ...
                e[sub] = haddr[n] + 4 * j
                lo = (nw - 1 - j) * busw; exp_bits[(rn.upper(), sub)] = (lo, min(c.size, lo + busw) - 1) if nw > 1 else None
                hwi = simple[j].name[len(c.name):]; assert simple[j].name.startswith(c.name) and (hwi == "" or hwi.isdigit())
                hwn[haddr[n] + 4 * j] = c.name.upper() + (str(int(hwi or 0)) if nw > 1 else "")   # word index of the simple CSR the bank really decodes at that address (bank order = address order)
        exp_regs[rn.upper()] = e; hw_names[rn.upper()] = hwn
    got_regs = {pn: {r["name"]: p["base"] + r["off"] for r in p["regs"]} for pn, p in per.items()}
    chk("ens.svd register addresses==csr.h (every bus word of every register; nothing else published)", got_regs == exp_regs and all(len(p["regs"]) == len(got_regs[pn]) for pn, p in per.items()),
        {pn: sorted(set(got_regs.get(pn, {}).items()) ^ set(exp_regs.get(pn, {}).items()))[:4] for pn in set(got_regs) | set(exp_regs) if got_regs.get(pn) != exp_regs.get(pn)})
    got_bits = {(pn, r["name"]): r["bits"] for pn, p in per.items() for r in p["regs"] if (pn, r["name"]) in exp_bits and exp_bits[(pn, r["name"])] is not None}
    chk("ens.svd sub-register bit ranges==the bits csr.h's accessors move at that address", got_bits == {k: v for k, v in exp_bits.items() if v is not None}, sorted(set(got_bits.items()) ^ set((k, v) for k, v in exp_bits.items() if v is not None))[:4])
    # the name SVD gives the word at an address against the simple CSR the bank decodes there (hardware structure)
    mism = [(pn, hex(a), nm, hw_names[pn][a]) for pn in hw_names for nm, a in got_regs.get(pn, {}).items() if hw_names[pn].get(a) != nm]
    little = cfg.get("ordering", "big") == "little"
    chk("finding.svd-word-order-vs-bank" if little else "ens.svd word names==the simple CSR the bank decodes at that address", not mism, mism[:4], kind="finding-witness" if little else "ensures", what=WHAT_LITTLE if little else None)
    chk("ens.svd addressBlock covers exactly the published registers", all(p["block"] == 4 * len(p["regs"]) for p in per.values()), {n: p["block"] for n, p in per.items()})
    chk("ens.svd interrupts==irq.locs", {n.lower(): p["irq"][1] for n, p in per.items() if p["irq"]} == {n: v for n, v in soc.irq.locs.items() if n in soc.csr.regions} and all(p["irq"][0] == n.lower() for n, p in per.items() if p["irq"]),
        ({n: p["irq"] for n, p in per.items() if p["irq"]}, soc.irq.locs))
    chk("ens.svd memoryRegions==bus.regions", smem == want, smem)
    chk("ens.svd constants==constants", sconst == {k: str(v) for k, v in consts.items()}, sconst)
    # ---------------- Builder: the files written are the exporters' outputs for this SoC (csr.h with csr_base = mem_regions['csr'].origin)
    d = tempfile.mkdtemp(prefix="vf_bld_")
    try:
        bld = Builder(soc, output_dir=d, compile_software=False, compile_gateware=False, csr_json=os.path.join(d, "csr.json"), csr_csv=os.path.join(d, "csr.csv"), csr_svd=os.path.join(d, "csr.svd"),
                      memory_x=os.path.join(d, "memory.x") if "rom" in truth_regions else None)
        with contextlib.redirect_stdout(io.StringIO()):
            bld._generate_includes(with_bios=False); bld._generate_csr_map()
        def strip(t): return "\n".join(l for l in t.splitlines() if "Auto-generated by LiteX" not in l and "Litex SoC 20" not in l)
        gen = os.path.join(d, "software", "include", "generated")
        pairs = {"mem.h": (os.path.join(gen, "mem.h"), export.get_mem_header(soc.mem_regions)), "soc.h": (os.path.join(gen, "soc.h"), export.get_soc_header(soc.constants)),
                 "csr.h": (os.path.join(gen, "csr.h"), hdr), "csr.json": (os.path.join(d, "csr.json"), json.dumps(js, indent=4)),
                 "csr.csv": (os.path.join(d, "csr.csv"), export.get_csr_csv(soc.csr_regions, soc.constants, soc.mem_regions)), "csr.svd": (os.path.join(d, "csr.svd"), svd_txt)}
        if "rom" in truth_regions: pairs["memory.x"] = (os.path.join(d, "memory.x"), export.get_memory_x(soc))
        diff = [k for k, (fn, txt) in pairs.items() if not os.path.exists(fn) or strip(open(fn).read()) != strip(txt)]
        chk("ens.Builder._generate_includes/_generate_csr_map write exactly these publications", not diff, diff)
    finally:
        shutil.rmtree(d, ignore_errors=True)
    # ---------------- interrupt lines of the built hardware (E1, combinational): cpu.interrupt[n] is the irq of the peripheral published as n, all other lines are 0
    if soc.irq.locs:
        h = HwCheck(f"SoC({cfgname})", soc, [m.adr, m.dat_w, m.sel, m.cyc, m.stb, m.we, m.cti, m.bte])
        s = z3.Solver(); s.set("timeout", 60000); s.add(*h.base())
        iv = h.v(soc.cpu.interrupt)
        for name, loc in sorted(soc.irq.locs.items()):
            t1 = time.time(); irq = h.v(getattr(soc, name).ev.irq)
            s.push(); s.add(z3.Extract(loc, loc, iv) != irq); rr = s.check(); s.pop()
            out.append(res(f"ens.hw cpu.interrupt[{loc}]=={name}.ev.irq ({name.upper()}_INTERRUPT={consts.get(name.upper() + '_INTERRUPT')})", "ensures", PROVED if rr == z3.unsat and consts.get(name.upper() + "_INTERRUPT") == loc else (UNKNOWN if rr == z3.unknown else NOINPUT),
                           time.time() - t1, "z3-%s(api) on the E1 extraction (combinational, all states)" % z3.get_version_string()))
        t1 = time.time(); used = set(soc.irq.locs.values())
        s.push(); s.add(z3.Or(*[z3.Extract(i, i, iv) != K(0, 1) for i in range(32) if i not in used])); rr = s.check(); s.pop()
        out.append(res("ens.hw unpublished interrupt lines are constant 0", "ensures", PROVED if rr == z3.unsat else NOINPUT, time.time() - t1, "z3-%s(api) on the E1 extraction" % z3.get_version_string()))
        s.push(); s.add(b(h.v(soc.periph2.ev.irq))); rr = s.check(); s.pop()
        out.append(res("cover.irq-can-be-raised", "cover", OK if rr == z3.sat else VACUOUS, 0, "z3"))
    out.append(res("cover.publications-parsed", "cover", OK if len(haddr) >= 10 and len(per) >= 3 and len(defs) >= 10 and len(cv["csr_register"]) == len(haddr) else VACUOUS, time.time() - t0, "strict parsers",
                   registers=len(haddr), svd_registers=sum(len(p["regs"]) for p in per.values()), constants=len(defs), regions=len(truth_regions)))
    return dict(results=out, functions=["litex.soc.integration.export.get_mem_header", "litex.soc.integration.export.get_linker_regions", "litex.soc.integration.export.get_memory_x", "litex.soc.integration.export.get_soc_header",
                                        "litex.soc.integration.export.get_csr_svd", "litex.soc.integration.export.get_csr_csv", "litex.soc.integration.export.get_csr_json", "litex.soc.integration.export._generate_csr_region_definitions_c", "litex.soc.integration.export._generate_csr_field_accessors_c", "litex.soc.integration.export._generate_csr_field_definitions_c",
                                        "litex.soc.integration.builder.Builder._generate_includes", "litex.soc.integration.builder.Builder._generate_csr_map", "litex.soc.doc.csr.DocumentedCSRRegion.document_csr"],
                samples=[dict(configuration=cfgname, registers=len(haddr), regions=truth_regions)])

# =====================================================================================================================================
def c_csr_h_reference():
    """csr.h expresses every address as CSR_BASE + (region.origin - origin of the FIRST region handed to get_csr_header). A SoC whose banks are
    all pinned to locations >= 1 (no controller): JSON/CSV must publish the hardware addresses (proved clauses); csr.h does not (listed finding,
    native replay tools/replay_csr_h_no_loc0.py)"""
    soc = SoCCore(P(), 100e6, cpu_type=None, integrated_sram_size=0x100, with_uart=False, with_timer=False, with_ctrl=False, ident="", ident_version=False)
    elab.restore_stderr()
    soc.aaa = PinnedFirst(); soc.zzz = PinnedFirst(); soc.csr.add("aaa", n=5); soc.csr.add("zzz", n=2)
    m = wishbone.Interface(data_width=32, address_width=32, addressing="word"); soc.bus.add_master("tb", m)
    soc.finalize(); elab.restore_stderr()
    csr_base = soc.bus.regions["csr"].origin; paging = soc.csr.paging
    truth = {n: csr_base + soc.csr.locs[n] * paging for n in ("aaa", "zzz")}
    out = []
    out.append(res("ens.csr-regions==csr base + location*paging[no bank at location 0]", "ensures", OK if {n: r.origin for n, r in soc.csr_regions.items()} == truth else VIOLATED, 0, "executed", info=str({n: hex(r.origin) for n, r in soc.csr_regions.items()})))
    js = json.loads(export.get_csr_json(soc.csr_regions, soc.constants, soc.mem_regions))
    out.append(res("ens.json csr_bases==hardware[no bank at location 0]", "ensures", OK if js["csr_bases"] == truth else VIOLATED, 0, "executed", info=str(js["csr_bases"])))
    cv = {r[1]: int(r[2], 16) for r in (l.split(",") for l in export.get_csr_csv(soc.csr_regions, soc.constants, soc.mem_regions).splitlines()) if r[0] == "csr_base"}
    out.append(res("ens.csv csr_base rows==hardware[no bank at location 0]", "ensures", OK if cv == truth else VIOLATED, 0, "executed", info=str(cv)))
    hdr = export.get_csr_header(soc.csr_regions, soc.constants, csr_base)
    _, _, hbase, _ = parse_csr_h(hdr, csr_base)
    r = res("finding.csr.h region bases==hardware[no bank at location 0]", "finding-witness", PROVED if hbase == truth else VIOLATED, 0, "executed (real exporter on the elaborated SoC); native replay with bus accesses: tools/replay_csr_h_no_loc0.py",
            info=f"csr.h {({n: hex(v) for n, v in hbase.items()})} hardware {({n: hex(v) for n, v in truth.items()})}")
    r["what"] = "get_csr_header computes offsets relative to the first region's origin instead of the CSR base: with no bank at location 0 every CSR_*_BASE/_ADDR and accessor in csr.h is low by (lowest location)*paging, while JSON/CSV are right"
    r["replay"] = "tools/replay_csr_h_no_loc0.py"
    out.append(r)
    return dict(results=out, functions=["litex.soc.integration.export.get_csr_header (address reference)", "litex.soc.integration.soc.SoC.finalize (csr regions)"], samples=[dict(config="no bank at location 0", locs=dict(soc.csr.locs))])

def c_csr_pinned_at_limit():
    """banks pinned by number at the edge of the CSR address space (locations n_locs-1, n_locs, n_locs+1; default and small paging): a request is either
    refused (SoCError) or every published bank base lies inside the csr bus region - the only addresses at which the CSR bridge and the banks can answer"""
    from litex.soc.integration.soc import SoCError
    out = []; seen = dict(accepted=0, refused=0)
    for paging in (0x800, 0x400):
        probe = SoCCore(P(), 100e6, cpu_type=None, integrated_sram_size=0x100, with_uart=False, with_timer=False, with_ctrl=False, ident="", ident_version=False, csr_paging=paging); elab.restore_stderr()
        n_locs = probe.csr.n_locs
        for n in (n_locs - 1, n_locs, n_locs + 1):
            soc = SoCCore(P(), 100e6, cpu_type=None, integrated_sram_size=0x100, with_uart=False, with_timer=False, with_ctrl=False, ident="", ident_version=False, csr_paging=paging); elab.restore_stderr()
            soc.aaa = PinnedFirst(); tag = f"paging={paging:#x},location={n} of {n_locs}"
            try:
                soc.csr.add("aaa", n=n)
                soc.bus.add_master("tb", wishbone.Interface(data_width=32, address_width=32, addressing="word"))
                soc.finalize(); elab.restore_stderr()
            except SoCError:
                elab.restore_stderr(); seen["refused"] += 1
                out.append(res(f"ens.bank-pinned-at-the-edge[{tag}]:refused-or-published-inside-the-csr-region", "ensures", OK, 0, "executed", info="refused (SoCError)")); continue
            seen["accepted"] += 1
            reg = soc.bus.regions["csr"]; js = json.loads(export.get_csr_json(soc.csr_regions, soc.constants, soc.mem_regions))
            base = js["csr_bases"].get("aaa"); inside = base is not None and reg.origin <= base and base + 4 <= reg.origin + reg.size
            out.append(res(f"ens.bank-pinned-at-the-edge[{tag}]:refused-or-published-inside-the-csr-region", "ensures", OK if inside else VIOLATED, 0, "executed (real SoC, real exporter)", replayed=True,
                           witness=dict(request=f"csr.add('aaa', n={n})", published_base=hex(base) if base is not None else None, csr_region=f"{reg.origin:#x}+{reg.size:#x}"),
                           info="" if inside else "the bank is published beyond the csr bus region: neither the bus decoder nor a bank select can match there"))
    # a larger CSR address space (csr_address_width = 15: locations up to 63 with the default paging): every address line a published bank needs exists on every CSR
    # master port and on the bank array's bus - a bank published above the reach of the CSR bus is answered by the bank 2**k pages below it
    for aw in (14, 15, 16):
        soc = SoCCore(P(), 100e6, cpu_type=None, integrated_sram_size=0x100, with_uart=False, with_timer=False, with_ctrl=False, ident="", ident_version=False, csr_address_width=aw); elab.restore_stderr()
        soc.aaa = PinnedFirst(); n = soc.csr.n_locs - 1
        try:
            soc.csr.add("aaa", n=n); soc.bus.add_master("tb", wishbone.Interface(data_width=32, address_width=32, addressing="word")); soc.finalize(); elab.restore_stderr()
        except SoCError:
            elab.restore_stderr(); out.append(res(f"ens.csr-bus-reaches-every-published-bank[csr_address_width={aw}]", "ensures", VIOLATED, 0, "executed", info=f"location {n} of {soc.csr.n_locs} refused")); continue
        js = json.loads(export.get_csr_json(soc.csr_regions, soc.constants, soc.mem_regions)); reg = soc.bus.regions["csr"]
        need = (js["csr_bases"]["aaa"] - reg.origin) // 4                      # word offset of the highest published bank inside the csr region
        widths = {f"master {k}": len(mst.adr) for k, mst in soc.csr.masters.items()}
        ok = all((1 << w) > need for w in widths.values())
        out.append(res(f"ens.csr-bus-reaches-every-published-bank[csr_address_width={aw}]", "ensures", OK if ok else VIOLATED, 0, "executed (real SoC, real exporter)", replayed=True,
                       witness=dict(published_bank_word_offset=hex(need), csr_master_address_widths=widths), info="" if ok else "a CSR master port has fewer address lines than the published location needs"))
    out.append(res("cover.both-outcomes-seen", "cover", OK if seen["accepted"] and seen["refused"] else VACUOUS, 0, "executed", **seen))
    return dict(results=out, functions=["litex.soc.integration.soc.SoCCSRHandler / SoCLocHandler.add (boundary locations) -> export.get_csr_json"], samples=[dict(config="bank pinned at n_locs-1, n_locs, n_locs+1")])

def cases(tier):
    cs = [VCase("csr.h-address-reference(no bank at location 0)", c_csr_h_reference), VCase("csr-bank-pinned-at-the-edge", c_csr_pinned_at_limit), VCase("get_mem_data(dw32,little,file)", c_mem_data_proof, 32, "little"), VCase("get_mem_data(dw32,big,file)", c_mem_data_proof, 32, "big"),
          VCase("get_mem_data(dw64,little,file)", c_mem_data_proof, 64, "little"), VCase("get_mem_data(dw64,big,file)", c_mem_data_proof, 64, "big"),
          VCase("get_mem_data(dw128,little,file)", c_mem_data_proof, 128, "little"),
          VCase("get_mem_data(dw32,big,regions dict x1)", c_mem_data_proof, 32, "big", 1, True),
          VCase("get_mem_data(dw32,little,regions dict x2)", c_mem_data_proof, 32, "little", 2, True),
          VCase("get_mem_data(dw64,big,regions dict x2)", c_mem_data_proof, 64, "big", 2, True),
          VCase("get_mem_data(bounded cross-check)", c_mem_data_bounded, tier), VCase("get_mem_data(proxy models)", c_model_conformance),
          VCase("get_mem_data(wide memory read by a 32-bit master)", c_big_endian_wide_memory, tier),
          VCase("get_mem_data(region preconditions)", c_mem_data_region_findings),
          VCase("SoC-mem-init(wishbone,little,rom by filename)", c_soc_mem_init, "wishbone", "little", "filename", timeout=900),
          VCase("SoC-mem-init(wishbone,big,rom by builder)", c_soc_mem_init, "wishbone", "big", "builder", timeout=900),
          VCase("SoC-mem-init(axi-lite,little,rom by add_rom)", c_soc_mem_init, "axi-lite", "little", "add_rom", timeout=900),
          VCase("SoC-mem-init(wishbone,big,rom by filename)", c_soc_mem_init, "wishbone", "big", "filename", timeout=900),
          VCase("SoC-mem-init(wishbone,little,writable rom by builder)", c_soc_mem_init, "wishbone", "little", "builder", "rwx", timeout=900),
          VCase("exports(wishbone,csr32)", c_exports, "wishbone,csr32"),
          VCase("exports(wishbone,csr32,little)", c_exports, "wishbone,csr32,little", ordering="little"),
          VCase("exports(wishbone,csr8)", c_exports, "wishbone,csr8", csr_dw=8),
          VCase("exports(axi-lite,csr32,page0x400,mem)", c_exports, "axi-lite,csr32,page0x400,mem", bus_standard="axi-lite", paging=0x400, with_mem=True),
          VCase("exports(wishbone,csr32,page0x1000,fixed csr locations)", c_exports, "wishbone,csr32,page0x1000,fixed", fixed=True, paging=0x1000),
          VCase("exports(wishbone,csr32,cpu,irq,fixed,mem)", c_exports, "wishbone,csr32,cpu,irq,fixed,mem", cpu="vfstub", fixed=True, irq=True, with_mem=True),
          VCase("exports(axi-lite,csr8,big-endian cpu,irq)", c_exports, "axi-lite,csr8,big cpu,irq", cpu="vfstubbig", irq=True, bus_standard="axi-lite", csr_dw=8)]
    if tier == "thorough":
        cs += [VCase("get_mem_data(dw128,big,file)", c_mem_data_proof, 128, "big"), VCase("get_mem_data(dw128,little,regions dict x2)", c_mem_data_proof, 128, "little", 2, True),
               VCase("SoC-mem-init(axi-lite,big,rom by builder)", c_soc_mem_init, "axi-lite", "big", "builder", timeout=900)]
    return cs

FUNCTIONS = ["litex.soc.integration.common.get_mem_data", "litex.soc.integration.common.get_mem_regions"]
ASSUMPTIONS = [
    "get_mem_data proof (E3): the function's current source runs on proxies; what the encoding assumes of Python: ints are mathematical; x//c and x%c for a positive constant c are floor division/modulo; "
    "a/c followed by math.ceil is the exact rational ceiling (true in CPython while the size is below 2**53, c a power of two); int(format(x,'08x'),16)==x; struct.unpack('<I'/'>I') of 4 bytes is the little/big-endian "
    "unsigned value; binary file read(k) returns min(k, remaining) bytes and advances; bytes+bytes concatenates; list indexing follows CPython (negative indices count from the end, IndexError outside); | and << on "
    "non-negative ints are exact (modelled on 256-bit vectors with a tracked no-overflow bound); dict iteration is insertion order; os.path.isfile/getsize describe the same files open() reads "
    "(each model is compared with CPython on samples in the case 'get_mem_data(proxy models)', labelled bounded)",
    "get_mem_data proof: data_width in {32,64,128} and endianness are concrete per case; file length, file contents, offset, mem_size and region bases are symbolic and unbounded; widths that are not a multiple "
    "of 32 (8, 16) are rejected by the function's own assertion (checked, fail-stop); requires for a regions dict: base >= offset, (base-offset) a multiple of the word size, files do not share a word "
    "(what happens otherwise is reported under 'get_mem_data(region preconditions)'); a .json regions FILE is only covered by the bounded cross-check",
    "byte lanes: little = lane a mod bpw; big = 32-bit big-endian words stored in ascending order (lane 4*((a mod bpw) div 4) + 3 - a mod 4), which is how LiteX's 32-bit big-endian masters reach wider memories "
    "(simulated through the real wishbone.Converter, bounded); a natively 64-bit big-endian master is not modelled (none exists in LiteX)",
    "SoC memory initialisation: a stub CPU class (one Wishbone master, 32 interrupt inputs, no logic) stands for the CPU core because the cores are Verilog black boxes whose sources are not installed; "
    "ROM/RAM address->cell mapping is proved by E1 from an arbitrary idle state (control registers at reset, CSR storages/memory cells arbitrary; master holds a classic request until ack); "
    "the byte-by-byte read-back uses the real simulator on one image per configuration (bounded)",
    "exports (mem.h, regions.ld, memory.x, soc.h, JSON, CSV, SVD, Builder output): exact per-configuration comparisons (status ok, not all-input proofs) over 7 configurations; register addresses are compared with csr.h, "
    "whose hardware truth is C14_exports.py's job (so for csr_data_width=8 and multi-word registers under csr_ordering='little' the agreement inherits the listed findings); JSON/CSV lower-case string constants by design; "
    "SVD field bit ranges, reset values and descriptions other than the 'Bits a-b of' range are not judged; region `type` strings are not judged",
    "field accessors: the emitted _extract/_replace bodies are matched by strict templates and read as C uint32_t arithmetic (32-bit modular, logical shifts); they are proved for all words against the CSR object's "
    "field offset/size; that the hardware field signal is those bits of the register is CSRStorage/CSRStatus construction (property C12), not re-proved here"]
