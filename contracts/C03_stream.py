"""C03: stream elements deliver each token exactly once, in order, rightly transformed."""
from vf.core import Case
from . import stream_cases as S
from .streamlib import select

PROP = "C03"
def _c(fn, *a, **k): return select(fn(*a, **k), PROP)

def all_cases(tier):
    cs = [
        ("PipeValid", S.c_pipevalid), ("PipeValid(param)", S.c_pipevalid, S.LAYOUT_P),
        ("PipeReady", S.c_pipeready), ("PipeReady(param)", S.c_pipeready, S.LAYOUT_P),
        ("Buffer(pv,!pr)", S.c_buffer, True, False), ("Buffer(!pv,pr)", S.c_buffer, False, True),
        ("Buffer(pv,pr)", S.c_buffer, True, True), ("Buffer(!pv,!pr)", S.c_buffer, False, False),
        ("SyncFIFO(0)", S.c_syncfifo, 0), ("SyncFIFO(1)", S.c_syncfifo, 1), ("SyncFIFO(2)", S.c_syncfifo, 2), ("SyncFIFO(4)", S.c_syncfifo, 4),
        ("SyncFIFO(2,buffered)", S.c_syncfifo, 2, True), ("SyncFIFO(4,param)", S.c_syncfifo, 4, False, S.LAYOUT_P),
        ("_DownConverter(8->4)", S.c_down, 2, 4, False), ("_DownConverter(8->2,rev)", S.c_down, 4, 2, True), ("_DownConverter(6->2)", S.c_down, 3, 2, False),
        ("_UpConverter(4->8)", S.c_up, 2, 4, False), ("_UpConverter(2->8,rev)", S.c_up, 4, 2, True), ("_UpConverter(2->6)", S.c_up, 3, 2, False),
        ("Converter(4->8)", S.c_converter, 4, 8), ("Converter(8->4,rev)", S.c_converter, 8, 4, True), ("Converter(4->4)", S.c_converter, 4, 4),
        ("StrideConverter(down)", S.c_stride, True, False), ("StrideConverter(down,param)", S.c_stride, True, True),
        ("StrideConverter(up)", S.c_stride, False, False), ("StrideConverter(down,fields in another order)", S.c_stride, True, False, True), ("StrideConverter(up,param=True)", S.c_stride, False, True),
        ("Unpack(2)", S.c_unpack, 2, False, False), ("Unpack(3,rev,param)", S.c_unpack, 3, True, True),
        ("Pack(2,param)", S.c_pack, 2, False, True), ("Pack(3,rev)", S.c_pack, 3, True, False),
        ("Gate", S.c_gate), ("Gate(sink_ready_when_disabled)", S.c_gate, True), ("Multiplexer(3)", S.c_mux, 3), ("Multiplexer(2)", S.c_mux, 2), ("Demultiplexer(3)", S.c_demux, 3), ("Cast", S.c_cast), ("Cast(reverse_to)", S.c_cast, (("a", 4), ("b", 4), ("c", 4)), (("x", 6), ("y", 6)), False, True), ("Cast(reverse_from,reverse_to)", S.c_cast, (("a", 4), ("b", 4), ("c", 4)), (("x", 6), ("y", 6)), True, True),
        ("Cast(reverse_from)", S.c_cast, (("a", 2), ("b", 6)), (("x", 5), ("y", 3)), True, False),
        ("_DownConverter(6->2,rev)", S.c_down, 3, 2, True), ("_UpConverter(2->6,rev)", S.c_up, 3, 2, True), ("Converter(12->4,rev)", S.c_converter, 12, 4, True), ("Converter(4->12,rev)", S.c_converter, 4, 12, True),
        ("Unpack(3)", S.c_unpack, 3, False, False), ("Pack(3)", S.c_pack, 3, False, False),
        ("Gearbox(10->4,msb)", S.c_gearbox, 10, 4, True), ("Gearbox(10->4,lsb)", S.c_gearbox, 10, 4, False),
        ("Gearbox(2->10,lsb)", S.c_gearbox, 2, 10, False), ("Gearbox(20->32,msb)", S.c_gearbox, 20, 32, True), ("Gearbox(10->2,msb)", S.c_gearbox, 10, 2, True),
        ("Gearbox(4->8,msb)", S.c_gearbox, 4, 8, True), ("Gearbox(8->4,lsb)", S.c_gearbox, 8, 4, False),   # power-of-two storage: level wraps if one word too many is accepted
        ("Delay(2)", S.c_delay, 2), ("Delay(3)", S.c_delay, 3), ("ClockDomainCrossing(usr->usr,buffered)", S.c_cdc_same, "usr", True), ("ClockDomainCrossing(usr->usr)", S.c_cdc_same, "usr", False),
        ("Pipeline(buf+buf)", S.c_pipeline, "buf+buf"), ("Pipeline(fifo+buf)", S.c_pipeline, "fifo+buf"), ("Pipeline(buf+fifo+buf)", S.c_pipeline, "buf+fifo+buf"),
        ("BufferizeEndpoints", S.c_bufferize),
    ]
    if tier == "thorough":
        cs += [("SyncFIFO(8)", S.c_syncfifo, 8), ("SyncFIFO(4,buffered)", S.c_syncfifo, 4, True),
               ("_DownConverter(32->8)", S.c_down, 4, 8, False), ("_UpConverter(8->32)", S.c_up, 4, 8, False), ("_UpConverter(8->64,rev)", S.c_up, 8, 8, True),
               ("Multiplexer(4)", S.c_mux, 4), ("Demultiplexer(2)", S.c_demux, 2), ("Demultiplexer(4)", S.c_demux, 4),
               ("Gearbox(4->10,lsb)", S.c_gearbox, 4, 10, False), ("Gearbox(32->20,msb)", S.c_gearbox, 32, 20, True), ("Gearbox(8->16,lsb)", S.c_gearbox, 8, 16, False), ("Gearbox(16->8,msb)", S.c_gearbox, 16, 8, True), ("Gearbox(8->32,msb)", S.c_gearbox, 8, 32, True),
               ("Unpack(4)", S.c_unpack, 4, False, True), ("Pack(4,param)", S.c_pack, 4, False, True), ("Delay(4)", S.c_delay, 4)]
    return cs

def cases(tier):
    return [Case(c[0], _c, *c[1:]) for c in all_cases(tier)]

ASSUMPTIONS = [
    "M1 (paper): an element whose source is cycle by cycle the head of a ghost FIFO pushed on sink handshakes and popped on source handshakes, that never overflows and is presented within N cycles, delivers the sink token sequence exactly once and in order",
    "M4 (paper): payload bits that are only copied are verified at the declared small widths; wide configurations are run in the thorough tier",
    "parameterisations are enumerated from a grid (not all configurations)",
    "names of local signals as on a supported interpreter (harness-side tracer shim for Python 3.12; affects hint lookup only)",
    "not covered: stream.AsyncFIFO/ClockDomainCrossing (C05), Monitor outside the sys domain, Crossbar (mux+demux composition); Shifter/Monitor/PipelinedActor/Endpoint.connect are in C03_shifter_etc.py",
]
