"""C08 (AXI4 part): the AXI4 (full) interconnect of axi_full.py keeps grants and routes until every response has returned.
Real _AXIRequestCounter / AXIArbiter / AXIDecoder / AXIInterconnectShared / AXICrossbar / AXIInterconnectPointToPoint
(connect_axi, axi_layout_flat) with AXI4-legal masters (valid/payload/last stable until ready, AW before/with/after W, bursts of
any length, several outstanding) and slaves (any latency/order, one B per write burst and only after AW and the last W beat,
R beats only for a received read; a read is complete on the beat with RLAST).
Same structure as C08_axil_ic.py; a request is counted per burst (R completes on r.last)."""
import z3
from .axilib import *
from litex.soc.interconnect.axi import AXIInterface
from litex.soc.interconnect.axi.axi_full import _AXIRequestCounter, AXIArbiter, AXIDecoder, AXIInterconnectShared, AXICrossbar, AXIInterconnectPointToPoint
from litex.soc.interconnect.axi.axi_common import connect_axi, axi_layout_flat
from litex.soc.integration.soc import SoCRegion
from vf.core import Case

AW, DW, IDW = 12, 16, 2          # small address / data / id widths (addr_shift = 1)
CW = 9                           # ghost counter width (counter capacity 255)
class Bus: data_width = DW; address_width = AW
REQ = {"wr": "aw", "rd": "ar"}; RSP = {"wr": "b", "rd": "r"}; LONG = {"wr": "write", "rd": "read"}

def mkif(idw=IDW): return AXIInterface(data_width=DW, address_width=AW, id_width=idw)
def regions_for(ns): return [SoCRegion(origin=0x400 * (j + 1), size=0x40 << j) for j in range(ns)]
def match(r, addr): return z3.And(z3.UGE(addr, K(r.origin, AW)), z3.ULT(zx(addr, AW + 1), K(r.origin + r.size_pow2, AW + 1)))
def onehot(regions, addr): return cat(*[bv1(match(regions[j], addr)) for j in reversed(range(len(regions)))])

# ---- AXI4 channel helpers (axilib's are AXI-Lite: no first/last) ------------------------------------------------------------
def src_sigs(ep): return [ep.valid, ep.first, ep.last] + pay(ep)
def m_inputs(m): return src_sigs(m.aw) + src_sigs(m.w) + src_sigs(m.ar) + [m.b.ready, m.r.ready]
def s_inputs(s): return [s.aw.ready, s.w.ready, s.ar.ready] + src_sigs(s.b) + src_sigs(s.r)
def tok(h, ep, ch, noid=False):
    """what AXI4 transfers on a channel: payload and side band (id/user), plus LAST on W and R; noid: everything except the ID"""
    ps = [h.v(s) for s in pay(ep) if not (noid and s is ep.id)]
    return cat(*([h.v(ep.last)] if ch in ("w", "r") else []) + ps)
def src_env4(h, ep, ch, name):
    """AXI rule for a channel's source: valid, payload and LAST are held until ready"""
    stall = h.prev(name + "_stall", bv1(z3.And(b(h.v(ep.valid)), z3.Not(b(h.v(ep.ready))))))
    tokp = h.prev(name + "_tok", tok(h, ep, ch))
    h.assume(z3.Implies(b(stall), z3.And(b(h.v(ep.valid)), tok(h, ep, ch) == tokp)), "AXI channel source holds valid, payload and last until ready")
    return stall, tokp
def rsp_fire(h, itf, dirn):
    """completion of one request: B handshake, or the R handshake of the beat with RLAST"""
    return fire(h, itf.b) if dirn == "wr" else z3.And(fire(h, itf.r), b(h.v(itf.r.last)))
def updown(cnt, up, down):
    return z3.If(z3.And(up, z3.Not(down)), cnt + 1, z3.If(z3.And(down, z3.Not(up), cnt != K(0, CW)), cnt - 1, cnt))
NZ = lambda x: x != K(0, x.size())
bit = lambda x, j: z3.Extract(j, j, x) == K(1, 1)

# ---- _AXIRequestCounter ------------------------------------------------------------------------------------------------------
def c_counter(maxreq):
    class Top(LiteXModule):
        def __init__(self):
            self.req = Signal(); self.rsp = Signal()
            self.c = _AXIRequestCounter(self.req, self.rsp, maxreq)
    d = mk(Top); h = HwCheck(f"_AXIRequestCounter({maxreq})", d, [d.req, d.rsp])
    W = maxreq.bit_length() + 1
    g = h.ghost("out", W)
    rq, rs = b(h.v(d.req)), b(h.v(d.rsp))
    h.ghost_next(g, z3.If(z3.And(rq, z3.Not(rs)), g + 1, z3.If(z3.And(rs, z3.Not(rq)), g - 1, g)))
    h.assume(z3.Implies(rs, z3.Or(g != K(0, W), rq)), "a response only for an outstanding (or same-cycle) request")
    h.assume(z3.Implies(z3.And(rq, z3.Not(rs)), ult(g, maxreq - 1)), "the requester respects stall/full (no more than max_requests-1 outstanding)")
    h.hint("cnt", zx(h.v(d.c.counter), W) == g); h.hint("g<max", ult(g, maxreq))
    h.ensure("ens.cnt", zx(h.v(d.c.counter), W) == g)                       # exact count
    h.ensure("ens.no-overflow", ult(g, maxreq))                              # never exceeds the counter range under the stated bound
    h.ensure("ens.empty", b(h.v(d.c.empty)) == (g == K(0, W)))
    h.ensure("ens.full", b(h.v(d.c.full)) == (g == K(maxreq - 1, W)))
    h.ensure("ens.stall", b(h.v(d.c.stall)) == z3.And(rq, g == K(maxreq - 1, W)))
    h.cover("cover.two", g == K(2, W), depth=3)
    h.cover("cover.full", b(h.v(d.c.full)), depth=maxreq + 1) if maxreq <= 8 else None
    h.functions = ["litex.soc.interconnect.axi.axi_full._AXIRequestCounter.__init__"]
    return h

def c_counter_anyenv(maxreq):
    """no assumption on request/response at all: the counter never wraps (a response on empty or a request on full is ignored)"""
    class Top(LiteXModule):
        def __init__(self):
            self.req = Signal(); self.rsp = Signal()
            self.c = _AXIRequestCounter(self.req, self.rsp, maxreq)
    d = mk(Top); h = HwCheck(f"_AXIRequestCounter({maxreq},any environment)", d, [d.req, d.rsp])
    c = h.v(d.c.counter); W = c.size() + 1; cz, nz = zx(c, W), zx(h.n(d.c.counter), W)
    rq, rs = b(h.v(d.req)), b(h.v(d.rsp))
    h.hint("c<max", ult(c, maxreq))
    h.ensure("ens.range", ult(c, maxreq))
    h.ensure("ens.no-underflow", z3.Implies(c == K(0, c.size()), z3.Or(nz == cz, z3.And(rq, z3.Not(rs), nz == cz + 1))))
    h.ensure("ens.no-overflow", z3.Implies(c == K(maxreq - 1, c.size()), z3.Or(nz == cz, z3.And(rs, z3.Not(rq), nz == cz - 1))))
    h.ensure("ens.step", z3.Or(nz == cz, z3.And(rq, z3.Not(rs), nz == cz + 1), z3.And(rs, z3.Not(rq), nz == cz - 1)))
    h.ensure("ens.up", z3.Implies(z3.And(rq, z3.Not(rs), ult(c, maxreq - 1)), nz == cz + 1))
    h.ensure("ens.down", z3.Implies(z3.And(rs, z3.Not(rq), c != K(0, c.size())), nz == cz - 1))
    if maxreq <= 8: h.cover("cover.full-and-request", z3.And(c == K(maxreq - 1, c.size()), rq, z3.Not(rs)), depth=maxreq + 1)
    h.cover("cover.response-on-empty", z3.And(c == K(0, c.size()), rs, z3.Not(rq)), depth=2); h.cover("cover.down", z3.And(c == K(2, c.size()), rs, z3.Not(rq)), depth=4)
    h.functions = ["litex.soc.interconnect.axi.axi_full._AXIRequestCounter.__init__"]
    return h

# ---- AXIDecoder --------------------------------------------------------------------------------------------------------------
def decoder_ghosts(h, m, regions, locks=None, sel_reg=None, prefix=""):
    """specification state of one AXIDecoder (master side m): per direction the number of accepted and unanswered requests and the
    slave that holds them; for writes also the number of completed (WLAST accepted) and unanswered W bursts"""
    ns = len(regions); ghosts = {}
    for dirn in ("wr", "rd"):
        req_ep = getattr(m, REQ[dirn])
        cnt = h.ghost(f"{prefix}{dirn}_out", CW); tgt = h.ghost(f"{prefix}{dirn}_tgt", ns)
        rq, rs = fire(h, req_ep), rsp_fire(h, m, dirn)
        dec = onehot(regions, h.v(req_ep.addr))
        h.ghost_next(cnt, updown(cnt, rq, rs))
        h.ghost_next(tgt, z3.If(z3.And(rq, cnt == K(0, CW)), dec, tgt))
        ghosts[dirn] = (cnt, tgt, dec)
        if locks is not None:
            h.hint(f"{prefix}{dirn}.cnt", zx(h.v(locks[LONG[dirn]].counter), CW) == cnt)
            h.hint(f"{prefix}{dirn}.tgt", z3.Implies(NZ(cnt), h.v(sel_reg[LONG[dirn]]) == tgt))
            h.ensure(f"ens.{prefix}{dirn}.cnt", zx(h.v(locks[LONG[dirn]].counter), CW) == cnt)
        h.hint(f"{prefix}{dirn}.cnt<255", ult(cnt, 255))
        h.hint(f"{prefix}{dirn}.tgt-onehot", z3.AtMost(*[bit(tgt, j) for j in range(ns)], 1))
        h.assume(ult(cnt, 200), "fewer than 200 requests outstanding per direction (counter capacity 255)")
    w_out = h.ghost(f"{prefix}w_out", CW)
    h.ghost_next(w_out, updown(w_out, z3.And(fire(h, m.w), b(h.v(m.w.last))), fire(h, m.b)))
    h.assume(ult(w_out, 200))
    return ghosts, w_out

def slave_env(h, slaves, ghosts, w_out):
    (wcnt, wtgt, _), (rcnt, rtgt, _) = ghosts["wr"], ghosts["rd"]
    for j, s in enumerate(slaves):
        h.assume(z3.Implies(b(h.v(s.b.valid)), z3.And(NZ(wcnt), NZ(w_out), bit(wtgt, j))), "slave sends B only for a write burst it has received completely (AW and the last W beat) and not yet answered")
        h.assume(z3.Implies(b(h.v(s.r.valid)), z3.And(NZ(rcnt), bit(rtgt, j))), "slave sends R beats only for a read it has received and not yet completed (RLAST)")

def c_decoder(ns):
    m = mkif(); slaves = [mkif() for _ in range(ns)]; regions = regions_for(ns)
    d = mk(AXIDecoder, m, [(r.decoder(Bus), s) for r, s in zip(regions, slaves)])
    ins = m_inputs(m)
    for s in slaves: ins += s_inputs(s)
    h = HwCheck(f"AXIDecoder(1x{ns})", d, ins)
    for ch in ("aw", "w", "ar"): src_env4(h, getattr(m, ch), ch, ch)
    for j, s in enumerate(slaves): src_env4(h, s.b, "b", f"s{j}b"); src_env4(h, s.r, "r", f"s{j}r")
    lc = locals_of(d)
    ghosts, w_out = decoder_ghosts(h, m, regions, lc.get("locks"), lc.get("slave_sel_reg"))
    slave_env(h, slaves, ghosts, w_out)
    wcnt, wtgt, wdec = ghosts["wr"]; rcnt, rtgt, rdec = ghosts["rd"]
    # scenario predicates of the two listed known findings (the AXI4 decoder is written like the AXI-Lite one)
    same = {"wr": z3.Implies(z3.And(b(h.v(m.aw.valid)), NZ(wcnt)), wdec == wtgt), "rd": z3.Implies(z3.And(b(h.v(m.ar.valid)), NZ(rcnt)), rdec == rtgt)}
    # W offered together with or after its AW: an accepted AW still waits for W data, or (no W burst ahead) its AW is offered now
    w_due = z3.UGT(wcnt, w_out)
    w_after_aw = z3.Implies(b(h.v(m.w.valid)), z3.Or(w_due, z3.And(wcnt == w_out, b(h.v(m.aw.valid)))))
    for dirn in ("wr", "rd"):
        cnt, tgt, dec = ghosts[dirn]; rq_c, rs_c = REQ[dirn], RSP[dirn]
        req_ep, rsp_ep = getattr(m, rq_c), getattr(m, rs_c)
        rq = fire(h, req_ep)
        for j, s in enumerate(slaves):
            sreq, srsp = getattr(s, rq_c), getattr(s, rs_c)
            routed = z3.Implies(fire(h, sreq), z3.And(rq, match(regions[j], h.v(req_ep.addr)), tok(h, sreq, rq_c) == tok(h, req_ep, rq_c)))
            h.ensure(f"ens.{dirn}.route{j}@same-target", z3.Implies(same[dirn], routed))
            if j == 0 and ns > 1:
                h.finding(f"finding.{dirn}.route{j}@other-target-while-outstanding", routed,
                          "AXIDecoder freezes the slave select while responses are outstanding but does not stall a new AW/AR that decodes to a different slave: the locked slave accepts it")
            h.ensure(f"ens.{dirn}.resp{j}", z3.Implies(fire(h, srsp), z3.And(fire(h, rsp_ep), tok(h, rsp_ep, rs_c) == tok(h, srsp, rs_c))))
        sreqs = [fire(h, getattr(s, rq_c)) for s in slaves]; srsps = [fire(h, getattr(s, rs_c)) for s in slaves]
        h.ensure(f"ens.{dirn}.one", z3.Implies(rq, z3.And(z3.AtMost(*sreqs, 1), z3.Or(*sreqs))))
        h.ensure(f"ens.{dirn}.resp-once", z3.Implies(fire(h, rsp_ep), z3.And(z3.AtMost(*srsps, 1), z3.Or(*srsps))))
        # slave selection never changes while responses are outstanding: every transfer of this direction involves the locked slave only
        for j, s in enumerate(slaves):
            chans = ("aw", "w", "b") if dirn == "wr" else ("ar", "r")
            h.ensure(f"ens.{dirn}.lock{j}", z3.Implies(z3.And(NZ(cnt), z3.Not(bit(tgt, j))),
                     z3.And(*[z3.Not(b(h.v(getattr(s, c).valid))) if c in ("aw", "w", "ar") else z3.Not(b(h.v(getattr(s, c).ready))) for c in chans])))
    for j, s in enumerate(slaves):
        right = z3.If(w_due, bit(wtgt, j), z3.And(b(h.v(m.aw.valid)), match(regions[j], h.v(m.aw.addr))))
        wrouted = z3.Implies(fire(h, s.w), z3.And(fire(h, m.w), right, tok(h, s.w, "w") == tok(h, m.w, "w")))
        h.ensure(f"ens.w.route{j}@w-not-before-aw", z3.Implies(z3.And(w_after_aw, same["wr"]), wrouted))
        if j == 0 and ns > 1:
            h.finding(f"finding.w.route{j}@w-before-aw", z3.Implies(same["wr"], wrouted),
                      "AXIDecoder routes a W beat by the address currently on AW: a W beat that precedes its AW (legal in AXI4) is delivered to whatever slave the idle AW address decodes to")
    swf = [fire(h, s.w) for s in slaves]
    h.ensure("ens.w.one", z3.Implies(fire(h, m.w), z3.And(z3.AtMost(*swf, 1), z3.Or(*swf))))
    h.cover("cover.b", fire(h, m.b), depth=4); h.cover("cover.r-last", rsp_fire(h, m, "rd"), depth=4)
    h.cover("cover.r-burst", z3.And(fire(h, m.r), z3.Not(b(h.v(m.r.last))), rcnt == K(2, CW)), depth=5)
    h.bmc_depth = 6
    h.functions = ["litex.soc.interconnect.axi.axi_full.AXIDecoder.__init__", "litex.soc.interconnect.axi.axi_full._AXIRequestCounter.__init__",
                   "litex.soc.interconnect.axi.axi_common.axi_layout_flat", "litex.soc.integration.soc.SoCRegion.decoder"]
    return h

# ---- AXIArbiter --------------------------------------------------------------------------------------------------------------
def c_arbiter(nm):
    masters = [mkif() for _ in range(nm)]; t = mkif()
    d = mk(AXIArbiter, masters, t)
    ins = s_inputs(t)
    for m in masters: ins += m_inputs(m)
    h = HwCheck(f"AXIArbiter({nm}x1)", d, ins)
    for i, m in enumerate(masters):
        for ch in ("aw", "w", "ar"): src_env4(h, getattr(m, ch), ch, f"m{i}{ch}")
    src_env4(h, t.b, "b", "tb"); src_env4(h, t.r, "r", "tr")
    for dirn, rr, lock, chans in (("wr", d.rr_write, d.wr_lock, ("aw", "w", "b")), ("rd", d.rr_read, d.rd_lock, ("ar", "r"))):
        req_ep, rsp_ep = getattr(t, REQ[dirn]), getattr(t, RSP[dirn])
        g = h.v(rr.grant)
        cnt = h.ghost(f"{dirn}_out", CW)
        rq, rs = fire(h, req_ep), rsp_fire(h, t, dirn)           # a read is outstanding until its RLAST beat
        h.ghost_next(cnt, updown(cnt, rq, rs))
        h.assume(ult(cnt, 200), "fewer than 200 requests outstanding per direction (counter capacity 255)")
        h.hint(f"{dirn}.cnt", zx(h.v(lock.counter), CW) == cnt); h.hint(f"{dirn}.grant<n", ult(g, nm))
        h.assume(z3.Implies(b(h.v(rsp_ep.valid)), NZ(cnt)), "target sends a response only for an outstanding request")
        h.ensure(f"ens.{dirn}.cnt", zx(h.v(lock.counter), CW) == cnt)
        h.ensure(f"ens.{dirn}.grant-exists", ult(g, nm))
        # arbitration never changes while responses are outstanding or a channel of the direction is active
        busy = z3.Or(NZ(cnt), *[b(h.v(getattr(t, c).valid)) for c in chans])
        h.ensure(f"ens.{dirn}.lock", z3.Implies(busy, h.n(rr.grant) == g))
        for i, m in enumerate(masters):
            own = eqc(g, i)
            for c in chans:
                te, me = getattr(t, c), getattr(m, c)
                if c in ("aw", "w", "ar"):
                    h.ensure(f"ens.{dirn}.fwd.{c}{i}", z3.And(z3.Implies(own, z3.And(h.v(te.valid) == h.v(me.valid), tok(h, te, c) == tok(h, me, c), h.v(me.ready) == h.v(te.ready))),
                                                             z3.Implies(z3.Not(own), z3.Not(b(h.v(me.ready))))))
                else:
                    h.ensure(f"ens.{dirn}.resp.{c}{i}", z3.And(b(h.v(me.valid)) == z3.And(own, b(h.v(te.valid))), z3.Implies(b(h.v(me.valid)), tok(h, me, c) == tok(h, te, c)),
                                                              z3.Implies(own, h.v(te.ready) == h.v(me.ready))))
            # round robin progress: when the direction is idle the grant moves to the next requesting master after the current one
            def asks(k, dirn=dirn): return z3.Or(*[b(h.v(getattr(masters[k], c).valid)) for c in (("aw", "w") if dirn == "wr" else ("ar",))])
            for cur in range(nm):
                if cur == i: continue
                between = [k for k in [(cur + 1 + x) % nm for x in range(nm)] if k != cur][:[(cur + 1 + x) % nm for x in range(nm)].index(i)]
                h.ensure(f"ens.{dirn}.rr-next{i}.from{cur}", z3.Implies(z3.And(z3.Not(busy), eqc(g, cur), asks(i), *[z3.Not(asks(k)) for k in between]), h.n(rr.grant) == K(i, g.size())))
            others_idle = z3.And(*[z3.Not(z3.Or(*[b(h.v(getattr(o, c).valid)) for c in (("aw", "w") if dirn == "wr" else ("ar",))])) for j, o in enumerate(masters) if j != i])
            wants = b(h.v(getattr(m, REQ[dirn]).valid))
            h.respond(f"resp.{dirn}.serve{i}", z3.And(wants, others_idle, cnt == K(0, CW), z3.Not(b(h.v(rsp_ep.valid)))), own, 2 + nm)
    # an accepted write address/data pair stays together: arbitration does not change while a write transaction is partly transferred
    # (AW accepted and not answered - covered by ens.wr.lock - or W beats accepted whose burst is unfinished or whose AW is still missing:
    # AXI4 allows W data before its AW)
    g = h.v(d.rr_write.grant); wcnt = h.ghosts["wr_out"][0]; wlast = z3.And(fire(h, t.w), b(h.v(t.w.last)))
    w_out = h.ghost("w_out", CW); h.ghost_next(w_out, updown(w_out, wlast, fire(h, t.b))); h.assume(ult(w_out, 200))
    w_open = h.ghost("w_open", 1); h.ghost_next(w_open, z3.If(fire(h, t.w), bv1(z3.Not(b(h.v(t.w.last)))), w_open))
    h.assume(z3.Implies(b(h.v(t.b.valid)), NZ(w_out)), "target sends B only after it has received the last W beat of the burst")
    w_due = z3.UGT(wcnt, w_out)
    w_after_aw = z3.Implies(b(h.v(t.w.valid)), z3.Or(w_due, z3.And(wcnt == w_out, b(h.v(t.aw.valid)))))
    hist = h.ghost("w_never_before_aw", 1, init=1); h.ghost_next(hist, bv1(z3.And(b(hist), w_after_aw)))
    aw_stall = h.prev("t_aw_stall", bv1(z3.And(b(h.v(t.aw.valid)), z3.Not(b(h.v(t.aw.ready))))))
    h.hint("w.ahead<=1", z3.Implies(b(hist), z3.ULE(w_out, wcnt + 1)))
    h.hint("w.ahead->aw-stalled", z3.Implies(z3.And(b(hist), w_out == wcnt + 1), z3.And(b(aw_stall), z3.Not(b(w_open)))))
    h.hint("w.open->aw-stalled", z3.Implies(z3.And(b(hist), b(w_open), w_out == wcnt), b(aw_stall)))
    for i in range(nm): h.hint(f"w.aw-stall{i}", z3.Implies(z3.And(b(aw_stall), eqc(g, i)), b(h.ghosts[f"prev_m{i}aw_stall"][0])))
    txn_open = z3.Or(NZ(wcnt), NZ(w_out), b(w_open)); frozen = h.n(d.rr_write.grant) == g
    h.ensure("ens.wr.lock-txn@w-not-before-aw", z3.Implies(z3.And(b(hist), w_after_aw, txn_open), frozen))
    if nm > 1:
        h.finding("finding.wr.lock-txn@w-before-aw", z3.Implies(txn_open, frozen),
                  "AXIArbiter locks the write grant on outstanding AWs and on currently valid channels only: after W beats that were accepted before their AW (legal in AXI4) "
                  "the grant moves to another master in an idle cycle, so the target pairs that data with the other master's AW (write address/data pair split between masters)")
    h.cover("cover.w-before-aw-open", z3.And(b(w_open), wcnt == K(0, CW), z3.Not(b(h.v(t.aw.valid)))), depth=4)
    was_out = h.prev("rd_was_out", bv1(NZ(h.ghosts["rd_out"][0])))
    if nm > 1:
        h.cover("cover.switch", h.n(d.rr_write.grant) != h.v(d.rr_write.grant), depth=4)
        h.cover("cover.rd-switch-after-burst", z3.And(h.n(d.rr_read.grant) != h.v(d.rr_read.grant), b(was_out)), depth=8)
    h.cover("cover.r-beat-not-last", z3.And(fire(h, masters[-1].r), z3.Not(b(h.v(masters[-1].r.last)))), depth=6)
    h.functions = ["litex.soc.interconnect.axi.axi_full.AXIArbiter.__init__", "litex.soc.interconnect.axi.axi_full._AXIRequestCounter.__init__",
                   "litex.soc.interconnect.axi.axi_common.axi_layout_flat", "migen.genlib.roundrobin.RoundRobin (flattened)"]
    return h

ID_WHAT = ("AXIInterconnectShared/AXICrossbar create their internal AXIInterface with the default id_width=1 (and user widths 0): with ports that use "
           "id_width > 1 the AWID/ARID reaching the slave and the BID/RID returned to the master are truncated to one bit, so a response no longer "
           "carries the ID of the request it answers")
# ---- AXIInterconnectShared ---------------------------------------------------------------------------------------------------
def c_shared(nm, ns, idw=IDW):
    """AXIInterconnectShared: end to end - an accepted request (burst address, every W beat) of the granted master reaches exactly the
    slave selected by its address and the response (B, every R beat) returns to that master only"""
    masters = [mkif(idw) for _ in range(nm)]; slaves = [mkif(idw) for _ in range(ns)]; regions = regions_for(ns)
    d = mk(AXIInterconnectShared, masters, [(r.decoder(Bus), s) for r, s in zip(regions, slaves)], False, None)
    ins = []
    for m in masters: ins += m_inputs(m)
    for s in slaves: ins += s_inputs(s)
    h = HwCheck(f"AXIInterconnectShared({nm}x{ns},id={idw})", d, ins)
    for i, m in enumerate(masters):
        for ch in ("aw", "w", "ar"): src_env4(h, getattr(m, ch), ch, f"m{i}{ch}")
    for j, s in enumerate(slaves): src_env4(h, s.b, "b", f"s{j}b"); src_env4(h, s.r, "r", f"s{j}r")
    shared = L(d, "shared"); lc = locals_of(d.decoder)
    ghosts, w_out = decoder_ghosts(h, shared, regions, lc.get("locks"), lc.get("slave_sel_reg"), prefix="dec.")
    slave_env(h, slaves, ghosts, w_out)
    for dirn, lock_a in (("wr", d.arbiter.wr_lock), ("rd", d.arbiter.rd_lock)):
        h.hint(f"arb.{dirn}.cnt", zx(h.v(lock_a.counter), CW) == ghosts[dirn][0])
    for dirn, rr, chans in (("wr", d.arbiter.rr_write, ("aw", "w", "b")), ("rd", d.arbiter.rr_read, ("ar", "r"))):
        g = h.v(rr.grant); h.hint(f"{dirn}.grant<n", ult(g, nm))
        cnt, tgt, _ = ghosts[dirn]
        h.ensure(f"ens.{dirn}.grant-exists", ult(g, nm))
        # arbitration and slave selection never change while responses are outstanding
        h.ensure(f"ens.{dirn}.grant-lock", z3.Implies(NZ(cnt), h.n(rr.grant) == g))
        for c in chans:
            fwd = c in ("aw", "w", "ar")
            for j, s in enumerate(slaves):
                for i, m in enumerate(masters):
                    se, me = getattr(s, c), getattr(m, c)
                    # ports wider than the internal 1-bit-ID bus: everything but the ID is proved here, the ID is the finding below
                    noid = idw > 1 and c != "w"
                    if fwd:   # a request / W beat accepted by slave j comes from the granted master, unchanged
                        h.ensure(f"ens.{dirn}.{c}.from-owner{j}.{i}" + ("@except-id" if noid else ""), z3.Implies(z3.And(fire(h, se), eqc(g, i)), z3.And(fire(h, me), tok(h, se, c, noid) == tok(h, me, c, noid))))
                    else:     # a response beat accepted from slave j goes to the granted master, unchanged
                        h.ensure(f"ens.{dirn}.{c}.to-owner{j}.{i}" + ("@except-id" if noid else ""), z3.Implies(z3.And(fire(h, se), eqc(g, i)), z3.And(fire(h, me), tok(h, me, c, noid) == tok(h, se, c, noid))))
                    if noid and i == 0 and j == 0:
                        h.finding(f"finding.{dirn}.{c}.id-truncated", z3.Implies(z3.And(fire(h, se), eqc(g, i)), h.v(se.id) == h.v(me.id)), ID_WHAT)
            for i, m in enumerate(masters):
                me = getattr(m, c)
                h.ensure(f"ens.{dirn}.{c}.only-owner{i}", z3.Implies(z3.Not(eqc(g, i)), z3.Not(b(h.v(me.ready if fwd else me.valid)))))
                # every transfer at a master port has its counterpart at exactly one slave port
                sf = [fire(h, getattr(s, c)) for s in slaves]
                h.ensure(f"ens.{dirn}.{c}.exactly-one-slave{i}", z3.Implies(fire(h, me), z3.And(z3.AtMost(*sf, 1), z3.Or(*sf))))
            h.ensure(f"ens.{dirn}.{c}.one-slave", z3.AtMost(*[fire(h, getattr(s, c)) for s in slaves], 1))
        for j, s in enumerate(slaves):
            h.ensure(f"ens.{dirn}.sel-lock{j}", z3.Implies(z3.And(NZ(cnt), z3.Not(bit(tgt, j))),
                     z3.And(*[z3.Not(b(h.v(getattr(s, c).valid))) if c in ("aw", "w", "ar") else z3.Not(b(h.v(getattr(s, c).ready))) for c in chans])))
    # slave chosen by address (end to end, under the decoder's two listed scenario restrictions)
    for dirn in ("wr", "rd"):
        cnt, tgt, dec = ghosts[dirn]; c = REQ[dirn]
        g = h.v((d.arbiter.rr_write if dirn == "wr" else d.arbiter.rr_read).grant)
        for i, m in enumerate(masters):
            me = getattr(m, c)
            same_i = z3.Implies(NZ(cnt), onehot(regions, h.v(me.addr)) == tgt)
            for j, s in enumerate(slaves):
                h.ensure(f"ens.{dirn}.by-address{j}.{i}@same-target", z3.Implies(z3.And(fire(h, getattr(s, c)), eqc(g, i), same_i), match(regions[j], h.v(me.addr))))
    # the W beats of the pair reach the slave chosen by the address of their AW (W together with or after its AW, same target while outstanding)
    wcnt, wtgt, _ = ghosts["wr"]; w_due = z3.UGT(wcnt, w_out); gw = h.v(d.arbiter.rr_write.grant)
    for i, m in enumerate(masters):
        awv = b(h.v(m.aw.valid))
        w_after_aw = z3.Implies(b(h.v(m.w.valid)), z3.Or(w_due, z3.And(wcnt == w_out, awv)))
        same_i = z3.Implies(z3.And(awv, NZ(wcnt)), onehot(regions, h.v(m.aw.addr)) == wtgt)
        for j, s in enumerate(slaves):
            right = z3.If(w_due, bit(wtgt, j), z3.And(awv, match(regions[j], h.v(m.aw.addr))))
            h.ensure(f"ens.wr.w.by-address{j}.{i}@w-not-before-aw", z3.Implies(z3.And(fire(h, s.w), eqc(gw, i), w_after_aw, same_i), right))
    # every requesting master is eventually served (bounded: the other masters idle, nothing outstanding)
    for dirn, rr, i in (("wr", d.arbiter.rr_write, nm - 1), ("rd", d.arbiter.rr_read, 0)):
        chs = ("aw", "w") if dirn == "wr" else ("ar",)
        others_idle = z3.And(*[z3.Not(b(h.v(getattr(o, c).valid))) for k, o in enumerate(masters) if k != i for c in chs])
        no_rsp = z3.And(*[z3.Not(b(h.v(getattr(s, RSP[dirn]).valid))) for s in slaves])
        h.respond(f"resp.{dirn}.serve{i}", z3.And(b(h.v(getattr(masters[i], REQ[dirn]).valid)), others_idle, ghosts[dirn][0] == K(0, CW), no_rsp), eqc(h.v(rr.grant), i), 2)
    h.cover("cover.b", fire(h, masters[-1].b), depth=5); h.cover("cover.r-last", rsp_fire(h, masters[-1], "rd"), depth=5)
    h.cover("cover.both-dirs", z3.And(fire(h, masters[0].w), fire(h, masters[-1].r), z3.BoolVal(True) if nm == 1 else h.v(d.arbiter.rr_write.grant) != h.v(d.arbiter.rr_read.grant)), depth=5)
    h.bmc_depth = 6
    h.functions = ["litex.soc.interconnect.axi.axi_full.AXIInterconnectShared.__init__", "litex.soc.interconnect.axi.axi_full.AXIArbiter.__init__",
                   "litex.soc.interconnect.axi.axi_full.AXIDecoder.__init__", "litex.soc.interconnect.axi.axi_full.get_check_parameters"]
    return h

# ---- AXICrossbar -------------------------------------------------------------------------------------------------------------
def c_crossbar(nm, ns, idw=1, full=False):
    """AXICrossbar (one AXIDecoder per master, one AXIArbiter per slave), end to end between the master ports and the slave ports"""
    masters = [mkif(idw) for _ in range(nm)]; slaves = [mkif(idw) for _ in range(ns)]; regions = regions_for(ns)
    d = mk(AXICrossbar, masters, [(r.decoder(Bus), s) for r, s in zip(regions, slaves)], False, None)
    subs = [x for _, x in d._submodules]
    decs = [x for x in subs if isinstance(x, AXIDecoder)]; arbs = [x for x in subs if isinstance(x, AXIArbiter)]
    assert len(decs) == nm and len(arbs) == ns
    ins = []
    for m in masters: ins += m_inputs(m)
    for s in slaves: ins += s_inputs(s)
    h = HwCheck(f"AXICrossbar({nm}x{ns},id={idw})", d, ins)
    for i, m in enumerate(masters):
        for ch in ("aw", "w", "ar"): src_env4(h, getattr(m, ch), ch, f"m{i}{ch}")
    for j, s in enumerate(slaves): src_env4(h, s.b, "b", f"s{j}b"); src_env4(h, s.r, "r", f"s{j}r")
    # master-side specification state (per master: outstanding requests and the slave holding them)
    mg = []
    for i, m in enumerate(masters):
        lc = locals_of(decs[i]); mg.append(decoder_ghosts(h, m, regions, lc.get("locks"), lc.get("slave_sel_reg"), prefix=f"m{i}.")[0])
    # slave-side specification state and the AXI4 rules of each slave stated at its own port
    sg = []
    for j, s in enumerate(slaves):
        scnt = {}
        for dirn in ("wr", "rd"):
            c = h.ghost(f"s{j}.{dirn}_out", CW); h.ghost_next(c, updown(c, fire(h, getattr(s, REQ[dirn])), rsp_fire(h, s, dirn))); scnt[dirn] = c
            h.assume(ult(c, 200), "fewer than 200 requests outstanding per slave and direction (counter capacity 255)")
            h.hint(f"s{j}.{dirn}.cnt<255", ult(c, 255))
        sw = h.ghost(f"s{j}.w_out", CW); h.ghost_next(sw, updown(sw, z3.And(fire(h, s.w), b(h.v(s.w.last))), fire(h, s.b))); h.assume(ult(sw, 200))
        h.assume(z3.Implies(b(h.v(s.b.valid)), z3.And(NZ(scnt["wr"]), NZ(sw))), "slave sends B only for a write burst it has received completely (AW and the last W beat) and not yet answered")
        h.assume(z3.Implies(b(h.v(s.r.valid)), NZ(scnt["rd"])), "slave sends R beats only for a read it has received and not yet completed (RLAST)")
        sg.append(scnt)
    for dirn, chans in (("wr", ("aw", "w", "b")), ("rd", ("ar", "r"))):
        grants = [h.v((a.rr_write if dirn == "wr" else a.rr_read).grant) for a in arbs]
        for j, (s, a) in enumerate(zip(slaves, arbs)):
            g = grants[j]; sc = sg[j][dirn]; rr = a.rr_write if dirn == "wr" else a.rr_read
            h.hint(f"s{j}.{dirn}.grant<n", ult(g, nm))
            h.hint(f"s{j}.{dirn}.arbcnt", zx(h.v((a.wr_lock if dirn == "wr" else a.rd_lock).counter), CW) == sc)
            # code-derived coupling of the two views: requests held by slave j belong to the granted master, which is locked on slave j
            h.hint(f"s{j}.{dirn}.owner", z3.Implies(NZ(sc), z3.Or(*[z3.And(eqc(g, i), bit(mg[i][dirn][1], j), mg[i][dirn][0] == sc) for i in range(nm)])))
            for i in range(nm):
                cnt, tgt, _ = mg[i][dirn]
                h.hint(f"m{i}.s{j}.{dirn}.held", z3.Implies(z3.And(NZ(cnt), bit(tgt, j)), z3.And(eqc(g, i), sc == cnt)))
            h.ensure(f"ens.{dirn}.s{j}.grant-exists", ult(g, nm))
            # arbitration never changes while responses are outstanding at the slave
            h.ensure(f"ens.{dirn}.s{j}.grant-lock", z3.Implies(NZ(sc), h.n(rr.grant) == g))
        for i, m in enumerate(masters):
            cnt, tgt, dec = mg[i][dirn]
            for c in chans:
                fwd = c in ("aw", "w", "ar"); me = getattr(m, c); noid = idw > 1 and c != "w"
                pairs = []
                for j, s in enumerate(slaves):
                    se = getattr(s, c); mine = z3.And(fire(h, se), eqc(grants[j], i)); pairs.append(mine)
                    # a transfer at slave port j under grant i is the same transfer at master port i, unchanged
                    h.ensure(f"ens.{dirn}.{c}.m{i}s{j}.same-transfer" + ("@except-id" if noid else ""), z3.Implies(mine, z3.And(fire(h, me), tok(h, se, c, noid) == tok(h, me, c, noid))))
                    if noid and i == 0 and j == 0:
                        h.finding(f"finding.{dirn}.{c}.id-truncated", z3.Implies(mine, h.v(se.id) == h.v(me.id)), ID_WHAT)
                    # slave selection never changes while responses are outstanding: nothing of master i moves at any other slave
                    h.ensure(f"ens.{dirn}.{c}.m{i}s{j}.sel-lock", z3.Implies(z3.And(NZ(cnt), z3.Not(bit(tgt, j))), z3.Not(mine)))
                # every transfer at master port i has its counterpart at exactly one slave port
                h.ensure(f"ens.{dirn}.{c}.m{i}.exactly-one-slave", z3.Implies(fire(h, me), z3.And(z3.AtMost(*pairs, 1), z3.Or(*pairs))))
            # slave chosen by address (under the decoder's listed scenario restriction)
            req = getattr(m, REQ[dirn]); same_i = z3.Implies(NZ(cnt), dec == tgt)
            for j, s in enumerate(slaves):
                h.ensure(f"ens.{dirn}.m{i}s{j}.by-address@same-target", z3.Implies(z3.And(fire(h, getattr(s, REQ[dirn])), eqc(grants[j], i), same_i), match(regions[j], h.v(req.addr))))
            # masters proceed independently: master i asking for slave j is granted within a bounded time whatever the other masters do at other slaves
            j = i % ns
            def aims(k, j=j, dirn=dirn):
                kc, kt, kd = mg[k][dirn]; km = masters[k]
                act = z3.Or(b(h.v(km.aw.valid)), b(h.v(km.w.valid))) if dirn == "wr" else b(h.v(km.ar.valid))
                return z3.And(act, bit(z3.If(NZ(kc), kt, kd), j))
            coop = z3.And(b(h.v(req.valid)), match(regions[j], h.v(req.addr)), cnt == K(0, CW), sg[j][dirn] == K(0, CW), z3.Not(b(h.v(getattr(slaves[j], RSP[dirn]).valid))),
                          *[z3.Not(aims(k)) for k in range(nm) if k != i])
            # (the unrolling of this engine is slow on ~600 variables: the quick tier keeps one master per direction)
            if full or i == (nm - 1 if dirn == "wr" else 0):
                h.respond(f"resp.{dirn}.m{i}.granted-s{j}", coop, eqc(grants[j], i), 2)
    h.cover("cover.b-and-r-last", z3.And(fire(h, masters[-1].b), rsp_fire(h, masters[0], "rd")), depth=5)
    if nm > 1 and ns > 1:
        h.cover("cover.parallel-writes", z3.And(fire(h, slaves[0].w), fire(h, slaves[1].w), fire(h, masters[0].w), fire(h, masters[1].w)), depth=5)
    h.bmc_depth = 6
    h.functions = ["litex.soc.interconnect.axi.axi_full.AXICrossbar.__init__", "litex.soc.interconnect.axi.axi_full.AXIArbiter.__init__",
                   "litex.soc.interconnect.axi.axi_full.AXIDecoder.__init__", "litex.soc.interconnect.axi.axi_full.get_check_parameters"]
    return h

# ---- reads and writes proceed independently (two-copy obligations) -----------------------------------------------------------
def _two_copy(h, name, free_in, free_state, out, state):
    """two runs that agree on everything except `free_in` (inputs) and `free_state` (registers) agree on `out` now and on `state`
    in the next cycle"""
    from vf.zutil import get_vars
    cs = h.ts.comb_constraints(); allv = {}
    for c in cs:
        for x in get_vars(c): allv[str(x)] = x
    for s_ in state:
        for x in get_vars(h.n(s_)): allv[str(x)] = x
    free = {str(h.v(s)) for s in list(free_in) + list(free_state)}
    comb_names = {str(h.ts.var[t_]) for t_ in h.ts.comb_targets}
    sub = [(x, z3.Const(str(x) + "~2", x.sort())) for n_, x in allv.items() if n_ in free or n_ in comb_names]
    cs2 = [z3.substitute(c, *sub) for c in cs]
    goal = z3.And(*[h.v(s) == z3.substitute(h.v(s), *sub) for s in out] + [h.n(s) == z3.substitute(h.n(s), *sub) for s in state])
    st, _, be, t_ = h._solve(cs + cs2 + [z3.Not(goal)])
    # vacuity guard: the copies must really be able to differ on the freed side (otherwise the obligation says nothing)
    differ = z3.Or(*[h.v(s) != z3.substitute(h.v(s), *sub) for s in list(free_in) + list(free_state)])
    st2, _, be2, t2 = h._solve(cs + cs2 + [differ])
    return [res(name, "ensures", PROVED if st == "unsat" else (UNKNOWN if st == "unknown" else NOINPUT), t_, be),
            res(name.replace("ens.", "cover.") + ".copies-differ", "cover", OK if st2 == "sat" else VACUOUS, t2, be2)]

def _sides(itf_m, itf_s):
    """(write-side inputs, read-side inputs, write-side outputs, read-side outputs) of a component with master-side ports itf_m
    (we drive the request channels) and slave-side ports itf_s (we drive the response channels)"""
    wi, ri, wo, ro = [], [], [], []
    for m in itf_m:
        wi += src_sigs(m.aw) + src_sigs(m.w) + [m.b.ready]; ri += src_sigs(m.ar) + [m.r.ready]
        wo += [m.aw.ready, m.w.ready] + src_sigs(m.b); ro += [m.ar.ready] + src_sigs(m.r)
    for s in itf_s:
        wi += [s.aw.ready, s.w.ready] + src_sigs(s.b); ri += [s.ar.ready] + src_sigs(s.r)
        wo += src_sigs(s.aw) + src_sigs(s.w) + [s.b.ready]; ro += src_sigs(s.ar) + [s.r.ready]
    return wi, ri, wo, ro

def c_indep(kind, nm=2, ns=2):
    """reads and writes (of different masters or the same one) proceed independently: the read-side outputs and next read-side state
    are functions of read-side inputs/state only, and vice versa"""
    masters = [mkif() for _ in range(nm)]; slaves = [mkif() for _ in range(ns)]; regions = regions_for(ns)
    if kind == "arbiter":
        d = mk(AXIArbiter, masters, slaves[0]); slaves = slaves[:1]
        wst, rst = [d.rr_write.grant, d.wr_lock.counter], [d.rr_read.grant, d.rd_lock.counter]
        fn = ["litex.soc.interconnect.axi.axi_full.AXIArbiter.__init__ (read/write independence)"]
    elif kind == "decoder":
        masters = masters[:1]
        d = mk(AXIDecoder, masters[0], [(r.decoder(Bus), s) for r, s in zip(regions, slaves)]); lc = locals_of(d)
        wst, rst = [lc["locks"]["write"].counter, lc["slave_sel_reg"]["write"]], [lc["locks"]["read"].counter, lc["slave_sel_reg"]["read"]]
        fn = ["litex.soc.interconnect.axi.axi_full.AXIDecoder.__init__ (read/write independence)"]
    else:
        d = mk(AXIInterconnectShared, masters, [(r.decoder(Bus), s) for r, s in zip(regions, slaves)], False, None); lc = locals_of(d.decoder); a = d.arbiter
        wst = [a.rr_write.grant, a.wr_lock.counter, lc["locks"]["write"].counter, lc["slave_sel_reg"]["write"]]
        rst = [a.rr_read.grant, a.rd_lock.counter, lc["locks"]["read"].counter, lc["slave_sel_reg"]["read"]]
        fn = ["litex.soc.interconnect.axi.axi_full.AXIInterconnectShared.__init__ (read/write independence)"]
    ins = []
    for m in masters: ins += m_inputs(m)
    for s in slaves: ins += s_inputs(s)
    h = HwCheck(f"AXI {kind}({nm}x{ns}).independence", d, ins)
    wi, ri, wo, ro = _sides(masters, slaves)
    out = []
    # every register belongs to exactly one side (otherwise the partition below would hide shared state)
    regs = list(h.ts.state); part = wst + rst
    ok = len(regs) == len(part) and all(any(r is p for p in part) for r in regs)
    out.append(res("ens.indep.state-partition", "ensures", PROVED if ok else NOINPUT, 0.0, "structural", registers=len(regs)))
    out += _two_copy(h, "ens.indep.read-of-write", wi, wst, ro, rst)
    out += _two_copy(h, "ens.indep.write-of-read", ri, rst, wo, wst)
    return dict(results=out, functions=fn)

# ---- connect_axi / axi_layout_flat / AXIInterconnectPointToPoint --------------------------------------------------------------
def _spec_flat(itf):
    """independent enumeration of an AXI4 interface: (channel, field, driven by the bus master?)"""
    out = []
    for ch in ("aw", "w", "b", "ar", "r"):
        ep = getattr(itf, ch); src_is_master = ch in ("aw", "w", "ar")
        for nme in ["valid", "first", "last"] + [f[0] for f in ep.description.payload_layout] + [f[0] for f in ep.description.param_layout]:
            out.append((ch, nme, src_is_master))
        out.append((ch, "ready", not src_is_master))
    return out

def c_p2p():
    """semantic: through AXIInterconnectPointToPoint (= connect_axi) every field of every channel arrives unchanged in the right direction"""
    m = mkif(); s = mkif()
    d = mk(AXIInterconnectPointToPoint, m, s)
    h = HwCheck("AXIInterconnectPointToPoint", d, m_inputs(m) + s_inputs(s))
    for ch, nme, from_master in _spec_flat(m):
        ms, ss = getattr(getattr(m, ch), nme), getattr(getattr(s, ch), nme)
        h.ensure(f"ens.{ch}.{nme}", h.v(ss) == h.v(ms))
        # direction: the receiving side is driven by the module, the sending side stays a free input
        dst, src = (ss, ms) if from_master else (ms, ss)
        h.ensure(f"ens.{ch}.{nme}.dir", z3.BoolVal(dst in h.ts.comb_targets and src not in h.ts.comb_targets and any(src is i for i in h.ts.inputs)))
    h.cover("cover.w-last", z3.And(fire(h, s.w), b(h.v(s.w.last))), depth=1); h.cover("cover.r", fire(h, m.r), depth=1)
    h.functions = ["litex.soc.interconnect.axi.axi_full.AXIInterconnectPointToPoint.__init__", "litex.soc.interconnect.axi.axi_full.AXIInterface.connect",
                   "litex.soc.interconnect.axi.axi_common.connect_axi"]
    return h

def c_flat():
    """structural: axi_layout_flat enumerates every signal of the five channels exactly once with the right direction, and connect_axi
    generates exactly one assignment per signal, from the driving side to the receiving side (also with omit=)"""
    from migen.fhdl.structure import _Assign
    out = []
    def ob(name, ok, **info): out.append(res(name, "ensures", PROVED if ok else NOINPUT, 0.0, "structural", **info))
    for version in ("axi4", "axi3"):
        m = AXIInterface(data_width=DW, address_width=AW, id_width=IDW, version=version, aw_user_width=2, r_user_width=3)
        s = AXIInterface(data_width=DW, address_width=AW, id_width=IDW, version=version, aw_user_width=2, r_user_width=3)
        spec = _spec_flat(m)
        flat = list(axi_layout_flat(m))
        want = {(ch, nme): (DIR_M_TO_S if fm else DIR_S_TO_M) for ch, nme, fm in spec}
        ob(f"ens.flat.{version}.complete", {(c, n_) for c, n_, _ in flat} == set(want), n=len(flat))
        ob(f"ens.flat.{version}.once", len(flat) == len({(c, n_) for c, n_, _ in flat}) == len(want))
        ob(f"ens.flat.{version}.direction", all(want.get((c, n_)) == dr for c, n_, dr in flat))
        ob(f"ens.flat.{version}.channel-order", [c for c, _, _ in flat] == sorted([c for c, _, _ in flat], key=["aw", "w", "b", "ar", "r"].index))
        ob(f"ens.flat.{version}.layout_flat-method", m.layout_flat() == flat)
        # every enumerated name is a real signal of the interface with the width of the description
        ob(f"ens.flat.{version}.signals", all(isinstance(getattr(getattr(m, c), n_), Signal) for c, n_, _ in flat))
        for omit in (None, {"id", "first"}):
            stmts = connect_axi(m, s, omit=omit)
            pairs = [(st.l, st.r) for st in stmts if isinstance(st, _Assign)]
            wantp = []
            for ch, nme, fm in spec:
                if omit and nme in omit: continue
                ms, ss = getattr(getattr(m, ch), nme), getattr(getattr(s, ch), nme)
                wantp.append((ss, ms) if fm else (ms, ss))
            tag = f"{version}" + (".omit" if omit else "")
            ob(f"ens.connect.{tag}.only-assignments", len(pairs) == len(stmts))
            ob(f"ens.connect.{tag}.exact", len(pairs) == len(wantp) and all(any(l is wl and r is wr for wl, wr in wantp) for l, r in pairs)
               and all(any(l is wl and r is wr for l, r in pairs) for wl, wr in wantp), n=len(pairs))
    out.append(res("cover.flat.fields", "cover", OK if (("r", "last", DIR_S_TO_M) in flat and ("w", "strb", DIR_M_TO_S) in flat and ("b", "ready", DIR_M_TO_S) in flat) else VACUOUS, 0.0, "structural", n=len(flat)))
    return dict(results=out, functions=["litex.soc.interconnect.axi.axi_common.axi_layout_flat", "litex.soc.interconnect.axi.axi_common.connect_axi",
                                        "litex.soc.interconnect.axi.axi_full.AXIInterface.layout_flat", "litex.soc.interconnect.axi.axi_full.AXIInterface.connect"])

def cases(tier):
    cs = [Case("AXIRequestCounter(4)", c_counter, 4), Case("AXIRequestCounter(256)", c_counter, 256),
          Case("AXIRequestCounter(5,any-env)", c_counter_anyenv, 5), Case("AXIRequestCounter(256,any-env)", c_counter_anyenv, 256),
          Case("AXIDecoder(1x2)", c_decoder, 2), Case("AXIDecoder(1x3)", c_decoder, 3), Case("AXIDecoder(1x1)", c_decoder, 1),
          Case("AXIArbiter(2)", c_arbiter, 2), Case("AXIArbiter(3)", c_arbiter, 3), Case("AXIArbiter(1)", c_arbiter, 1),
          Case("AXIArbiter(2).indep", c_indep, "arbiter", 2, 1), Case("AXIDecoder(1x2).indep", c_indep, "decoder", 1, 2), Case("AXIInterconnectShared(2x2).indep", c_indep, "shared", 2, 2),
          Case("AXIP2P.connect_axi", c_p2p), Case("AXI.layout_flat+connect_axi", c_flat),
          Case("AXIInterconnectShared(2x2)", c_shared, 2, 2, 1), Case("AXIInterconnectShared(2x2,id_width=2)", c_shared, 2, 2, 2),
          Case("AXICrossbar(2x2)", c_crossbar, 2, 2, 1)]
    if tier == "thorough":
        cs += [Case("AXIInterconnectShared(3x3)", c_shared, 3, 3, 1), Case("AXIInterconnectShared(1x3)", c_shared, 1, 3, 1), Case("AXIInterconnectShared(3x1)", c_shared, 3, 1, 1),
               Case("AXICrossbar(2x2,id_width=2)", c_crossbar, 2, 2, 2), Case("AXICrossbar(2x2,all-responds)", c_crossbar, 2, 2, 1, True),
               Case("AXICrossbar(3x2)", c_crossbar, 3, 2, 1), Case("AXICrossbar(2x3)", c_crossbar, 2, 3, 1),
               Case("AXIArbiter(3).indep", c_indep, "arbiter", 3, 1), Case("AXIInterconnectShared(3x3).indep", c_indep, "shared", 3, 3)]
    return cs

ASSUMPTIONS = ["AXI4 (full) interconnect: AXI4-legal partners as stated per case (valid/payload/last stable until ready; a slave answers only requests it has received; B only after AW and the "
               "last W beat; a read is outstanding until its RLAST beat; no constraint between AxLEN and the number of beats); fewer than 200 requests outstanding per direction",
               "AXI4 decoder routing is proved under the same two scenario restrictions as the AXI-Lite decoder (no request to another slave while responses are outstanding; W not before "
               "its AW); the unrestricted clauses are findings; the arbiter's write-transaction lock is proved for W-not-before-AW histories, the unrestricted clause is a finding",
               "issue order: every transfer at a slave port is the same-cycle transfer at the owning master port (no buffering), so per-direction order is the order of the handshakes",
               "'eventually served' is decided as bounded response (other masters idle / not aiming at the same slave) plus the round-robin next-grant rule",
               "AXI4 ports with id_width > 1 on AXIInterconnectShared/AXICrossbar: everything except the ID is proved, the ID is a finding (internal bus has id_width=1)"]
