"""C05: clock-domain crossings never corrupt, drop, duplicate or reorder data.   (level: other - partial; see ASSUMPTIONS)
 * B  litex.gen.genlib.cdc.BusSynchronizer: product model of the real two-domain fragment with free scheduler inputs tick_i/tick_o
      (simultaneous edges allowed, drift bounded by ratio R), every first synchroniser flop resolving each bit to the old or the new
      value of its source when both change in the same instant; bounded model checking of 'o never holds a word the source register
      never held' - labelled bounded(depth, R), never counted as proved.
 * P  structural postconditions of the constructors (per parameterisation): stream.ClockDomainCrossing / AXILiteClockDomainCrossing put
      the FIFO write side in the source domain and the read side in the destination domain (in the common-reset variant: in the two
      internal domains, each reset from the OR of both resets); same-domain crossings are plain buffers (C03 contract).
 * A  migen's AsyncFIFO / AsyncFIFOBuffered / PulseSynchronizer / MultiReg (not in /repo) are assumed correct."""
import time, z3
from vf import elab
from vf.elab import mk, L, locals_of
from vf.fhdl2smt import TS
from vf.zutil import get_vars
from vf.hw import res, HwCheck, SidecarMismatch
from migen import *
from migen.genlib.resetsync import AsyncResetSynchronizer
from migen.genlib.cdc import MultiReg
from litex.gen import LiteXModule
from litex.gen.genlib.cdc import BusSynchronizer
from litex.soc.interconnect import stream
from vf.core import Case as VCase, PROVED, VIOLATED, NOINPUT, UNKNOWN, BOUNDED_OK, OK, VACUOUS, FAULT

def c_bussync(W, TIMEOUT, R, DEPTH, expect_violation=False):
    t0 = time.time()
    d = mk(BusSynchronizer, W, "i", "o", timeout=TIMEOUT)
    ts = TS(d, inputs=[d.i])
    doms = {cd: sorted(m.keys(), key=lambda s: s.duid) for cd, m in ts.next.items()}
    LOC = locals_of(d)
    ibuffer = LOC.get("ibuffer")
    if ibuffer is None or ibuffer not in ts.var:
        cand = [s for s in doms["i"] if s.nbits == W]; ibuffer = cand[0]
    other = {"i": set(doms["o"]), "o": set(doms["i"])}
    first_stage = {}
    for cd, m in ts.next.items():
        for s, e in m.items():
            for src in other[cd]:
                if z3.simplify(e).eq(ts.var[src]): first_stage[s] = (cd, src)
    v = ts.var
    allv = {}
    for c in ts.comb_constraints():
        for x in get_vars(c): allv[str(x)] = x
    for m in ts.next.values():
        for s, e in m.items():
            allv[str(v[s])] = v[s]
            for x in get_vars(e): allv[str(x)] = x
    allvars = [allv[k] for k in sorted(allv)]
    subc = {}
    def at(e, k):
        if k not in subc: subc[k] = [(x, z3.Const(f"{x}@{k}", x.sort())) for x in allvars]
        return z3.substitute(e, *subc[k])
    def step_constraints(k):
        ti, to = z3.Bool(f"tick_i@{k}"), z3.Bool(f"tick_o@{k}")
        tick = {"i": ti, "o": to}
        cs = [z3.Or(ti, to)]
        for cd, m in ts.next.items():
            for s, e in m.items():
                nxt = at(e, k)
                if s in first_stage:
                    _, src = first_stage[s]; scd = "i" if src in doms["i"] else "o"
                    src_new = z3.If(tick[scd], at(ts.next[scd][src], k), at(v[src], k))
                    mask = z3.BitVec(f"meta{s.duid}@{k}", s.nbits)
                    nxt = (at(v[src], k) & ~mask) | (src_new & mask)          # each bit resolves to the old or the new value of the source
                cs.append(at(v[s], k + 1) == z3.If(tick[cd], nxt, at(v[s], k)))
        return cs
    s = z3.Solver()
    for c in ts.init_constraints(): s.add(at(c, 0))
    ci = [z3.Int(f"ci@{k}") for k in range(DEPTH + 1)]; co = [z3.Int(f"co@{k}") for k in range(DEPTH + 1)]
    s.add(ci[0] == 0, co[0] == 0)
    X = z3.BitVec("X", W); seen = [z3.Bool(f"seen@{k}") for k in range(DEPTH + 2)]
    s.add(seen[0] == (at(v[ibuffer], 0) == X))
    found = None; trace = None
    comb = ts.comb_constraints()
    for c in comb: s.add(at(c, 0))
    for k in range(DEPTH):
        for c in comb: s.add(at(c, k + 1))
        s.add(*step_constraints(k))
        ti, to = z3.Bool(f"tick_i@{k}"), z3.Bool(f"tick_o@{k}")
        s.add(ci[k + 1] == z3.If(to, 0, ci[k] + 1), co[k + 1] == z3.If(ti, 0, co[k] + 1))
        s.add(ci[k + 1] <= R, co[k + 1] <= R)
        if k > 0: s.add(z3.Implies(z3.Not(z3.Bool(f"tick_i@{k-1}")), at(v[d.i], k) == at(v[d.i], k - 1)))    # i changes only at i edges
        s.add(seen[k + 1] == z3.Or(seen[k], at(v[ibuffer], k + 1) == X))
        bad = z3.And(at(v[d.o], k + 1) == X, z3.Not(seen[k + 1]), X != 0)      # o holds a word the source register never held (torn word); o's reset-less start value 0 excluded
        s.push(); s.add(bad); s.set("timeout", 120000)
        r = s.check()
        if r == z3.sat:
            found = k; m = s.model()
            trace = [dict(step=j, tick_i=z3.is_true(m.eval(z3.Bool(f"tick_i@{j}"))), tick_o=z3.is_true(m.eval(z3.Bool(f"tick_o@{j}"))), i=str(m.eval(at(v[d.i], j))), ibuffer=str(m.eval(at(v[ibuffer], j))), o=str(m.eval(at(v[d.o], j)))) for j in range(k + 2)]
            s.pop(); break
        s.pop()
        if time.time() - t0 > 500: break
    name = f"ens.no-torn-word[BusSynchronizer(W={W},timeout={TIMEOUT}); bounded depth={DEPTH}, drift R<={R}]"
    if expect_violation:
        # anti-vacuity: with a retry time-out shorter than the request/acknowledge round trip the torn word must be reachable in the model
        return dict(results=[res("cover.model-finds-torn-word[timeout shorter than the round trip]", "cover", OK if found is not None else VACUOUS, time.time() - t0, "z3(bmc)", depth=found)],
                    functions=["litex.gen.genlib.cdc.BusSynchronizer.__init__ (bounded)"])
    return dict(results=[res(name, "bounded", BOUNDED_OK if found is None else VIOLATED, time.time() - t0, "z3(bmc)", first_stage_flops=len(first_stage), witness=trace,
                             info="" if found is None else f"torn word after {found + 1} scheduler steps")],
                functions=["litex.gen.genlib.cdc.BusSynchronizer.__init__ (bounded)", "migen.genlib.cdc.PulseSynchronizer, MultiReg (flattened into the model)"],
                samples=[dict(bounded="BusSynchronizer", depth=DEPTH, R=R, timeout=TIMEOUT, first_stage_flops=len(first_stage))])

def _sync_domains(frag): return set(k for k, v in frag.sync.items() if v)
def _walk_specials(m, acc):
    f = m.get_fragment()
    return f

def c_cdc_structure(with_common_rst, buffered=False, depth=8):
    """ClockDomainCrossing('a' -> 'b'): which clock domains clock the crossing, and how they are reset"""
    out = []
    d = stream.ClockDomainCrossing([("data", 8)], cd_from="a", cd_to="b", depth=depth, buffered=buffered, with_common_rst=with_common_rst)
    f = d.get_fragment()
    doms = _sync_domains(f)
    from migen.fhdl.specials import Memory
    mems = [s for s in f.specials if isinstance(s, Memory)]
    port_doms = set()
    for mem in mems:
        for p in mem.ports: port_doms.add((p.clock.cd, p.we is not None))
    cdn = {cd.name for cd in f.clock_domains}
    if with_common_rst:
        internal = sorted(x for x in cdn if x.startswith("from") or x.startswith("to"))
        frm = [x for x in internal if x.startswith("from")]; to = [x for x in internal if x.startswith("to")]
        ok_doms = len(frm) == 1 and len(to) == 1 and doms <= set(internal) and "a" not in doms and "b" not in doms
        ok_ports = (frm[0], True) in port_doms and any(pd == to[0] and not w for pd, w in port_doms) if frm and to else False
        # both internal domains are reset from the OR of both resets, and clocked by a / b
        ars = [s for s in f.specials if isinstance(s, AsyncResetSynchronizer)]
        ok_rst = len(ars) == 2 and {a.cd.name for a in ars} == set(internal) and len({id(a.async_reset) for a in ars}) == 1
        out.append(res("ens.write-side-in-internal-from-domain,read-side-in-internal-to-domain", "ensures", PROVED if ok_doms and ok_ports else VIOLATED, 0, "structural postcondition of the real constructor", info=f"sync domains {sorted(doms)}, memory ports {sorted(port_doms)}"))
        out.append(res("ens.both-sides-reset-by-common-reset", "ensures", PROVED if ok_rst else VIOLATED, 0, "structural postcondition", info=f"{[(a.cd.name) for a in ars]}"))
    else:
        ok = doms <= {"a", "b"} and ("a", True) in port_doms and any(pd == "b" and not w for pd, w in port_doms)
        out.append(res("ens.write-side-in-cd_from,read-side-in-cd_to", "ensures", PROVED if ok else VIOLATED, 0, "structural postcondition of the real constructor", info=f"sync domains {sorted(doms)}, memory ports {sorted(port_doms)}"))
    return dict(results=out, functions=["litex.soc.interconnect.stream.ClockDomainCrossing.__init__", "litex.soc.interconnect.stream.AsyncFIFO.__init__", "litex.soc.interconnect.stream._FIFOWrapper.__init__"])

def c_common_rst_wiring():
    """the common reset is the OR of both domains' resets and each internal domain runs on its side's clock (comb wiring, all values)"""
    from vf.hw import HwCheck, b
    d = stream.ClockDomainCrossing([("data", 8)], cd_from="a", cd_to="b", depth=8, with_common_rst=True)
    f = d.get_fragment()
    cda, cdb = ClockDomain("a"), ClockDomain("b"); f.clock_domains.append(cda); f.clock_domains.append(cdb)
    ars = [s for s in f.specials if isinstance(s, AsyncResetSynchronizer)]
    frm = [a for a in ars if a.cd.name.startswith("from")][0]; to = [a for a in ars if a.cd.name.startswith("to")][0]
    h = HwCheck("cdc.common_rst", f, [cda.rst, cdb.rst, cda.clk, cdb.clk], clock=None)
    out = []
    V = h.v
    st, _, be, t = h._solve(h.ts.comb_constraints() + [z3.Not(z3.And(b(V(frm.async_reset)) == z3.Or(b(V(cda.rst)), b(V(cdb.rst))), V(frm.cd.clk) == V(cda.clk), V(to.cd.clk) == V(cdb.clk)))])
    out.append(res("ens.common-reset==rst_a|rst_b, internal clocks == a/b clocks", "ensures", PROVED if st == "unsat" else NOINPUT, t, be))
    return dict(results=out, functions=["litex.soc.interconnect.stream.ClockDomainCrossing.__init__ (common reset wiring)"])

def c_same_domain(buffered):
    from contracts.streamlib import fifo_like, select
    from contracts.stream_cases import c_comb_identity
    d = mk(stream.ClockDomainCrossing, [("data", 4)], "sys", "sys", 8, buffered)
    if buffered:
        h = fifo_like("ClockDomainCrossing(sys->sys,buffered)", d, 1, None, auto=True)
    else:
        h = c_comb_identity("ClockDomainCrossing(sys->sys)", d)
    return h

def c_cdc_write_side(buffered, depth=8):
    """ClockDomainCrossing('a' -> 'b'), the two hand-over points, stated on the stream handshakes and the FIFO memory's ports (no internal register is named):
    a word is STORED exactly when it is accepted at the sink, and it is the accepted word (otherwise words are lost or stored twice whatever the
    pointers do); combinational clauses, so they hold in every state of both domains"""
    from contracts.streamlib import tok, fire, ep_inputs
    d = mk(stream.ClockDomainCrossing, [("data", 8)], "a", "b", depth, buffered)
    h = HwCheck(f"ClockDomainCrossing(a->b{',buffered' if buffered else ''}).hand-over", d, ep_inputs(d.sink, d.source), clock="a")
    wp = [p for m in h.ts.mems for p in m.ports if p.we is not None]
    if len(wp) != 1 or any(x not in h.ts.var for x in (wp[0].we, wp[0].dat_w)): raise SidecarMismatch(f"expected one write port of the FIFO memory among the module's signals, found {len(wp)}")
    we = h.v(wp[0].we) != 0; dw = h.v(wp[0].dat_w)
    t = tok(h, d.sink)
    h.ensure("ens.stored-iff-accepted", we == fire(h, d.sink))
    h.ensure("ens.stored-word-is-the-accepted-word", z3.Implies(we, z3.Extract(7, 0, dw) == h.v(d.sink.data)))
    h.cover("cover.store", we, depth=1)
    h.skip_cosim = True; h.assumption_notes.append('two clock domains: the single-clock co-simulation of the extraction is skipped for this case (the extraction of the same classes is co-simulated in C03/C05 single-domain cases and compared with the real two-clock simulator in C01 multiclock-reference)')
    h.functions = ["litex.soc.interconnect.stream.ClockDomainCrossing.__init__ (sink hand-over)", "litex.soc.interconnect.stream.AsyncFIFO.__init__", "litex.soc.interconnect.stream._FIFOWrapper.__init__"]
    return h

def c_cdc_no_comb_path(buffered, depth=8):
    """ClockDomainCrossing('a' -> 'b') with payload AND params: nothing the producer drives in this cycle is visible at the source in the same cycle, and nothing the
    consumer drives is visible at the sink (no combinational path across the crossing: the delivered token comes out of the crossing's storage).  Two copies of
    the combinational equations with the same register / memory state, the other side's inputs free in both."""
    from contracts.streamlib import tok, ep_inputs, tok_sigs
    desc = stream.EndpointDescription([("data", 8)], [("tag", 3), ("dest", 2)])
    d = mk(stream.ClockDomainCrossing, desc, "a", "b", depth, buffered)
    h = HwCheck(f"ClockDomainCrossing(a->b{',buffered' if buffered else ''},payload+param).no-comb-path", d, ep_inputs(d.sink, d.source), clock="a")
    extra = [tok(h, d.source), h.v(d.source.valid), h.v(d.sink.ready)]
    at = h._at(h._allvars(extra)); base = h.base()
    same_state = [at(h.v(sg), 0) == at(h.v(sg), 1) for sg in h.ts.state]
    out = []
    for name, keep, outs in (("ens.source-independent-of-the-sink-inputs", [d.source.ready], [tok(h, d.source), h.v(d.source.valid)]),
                             ("ens.sink-ready-independent-of-the-source-inputs", [d.sink.valid] + tok_sigs(d.sink), [h.v(d.sink.ready)])):
        cs = [at(c, 0) for c in base] + [at(c, 1) for c in base] + same_state + [at(h.v(sg), 0) == at(h.v(sg), 1) for sg in keep]
        st, m, be, t = h._solve(cs + [z3.Or(*[at(o, 0) != at(o, 1) for o in outs])])
        out.append(res(name, "ensures", PROVED if st == "unsat" else (UNKNOWN if st == "unknown" else NOINPUT), t, be))
    st, _, be, t = h._solve(base + [h.v(d.source.valid) == 1, h.v(d.source.tag) != 0])
    out.append(res("cover.param-delivered", "cover", OK if st == "sat" else (UNKNOWN if st == "unknown" else VACUOUS), t, be))
    return dict(results=out, functions=["litex.soc.interconnect.stream.ClockDomainCrossing.__init__ (payload + param)", "litex.soc.interconnect.stream._FIFOWrapper.__init__", "litex.soc.interconnect.stream.AsyncFIFO.__init__"],
                samples=[dict(design="ClockDomainCrossing(payload+param)", clause="two-copy non-interference over the combinational equations")])

def c_axil_cdc():
    from litex.soc.interconnect.axi import AXILiteInterface, AXILiteClockDomainCrossing
    m = AXILiteInterface(data_width=32, address_width=16); s_ = AXILiteInterface(data_width=32, address_width=16)
    d = AXILiteClockDomainCrossing(m, s_, cd_from="a", cd_to="b")
    f = d.get_fragment()
    from migen.fhdl.specials import Memory
    mems = [sp for sp in f.specials if isinstance(sp, Memory)]
    dirs = {}
    for mem in mems:
        w = [p.clock.cd for p in mem.ports if p.we is not None]; r = [p.clock.cd for p in mem.ports if p.we is None]
        dirs[mem.width] = dirs.get(mem.width, []) + [(w[0], r[0])]
    fwd = sum(1 for v in dirs.values() for (w, r) in v if (w, r) == ("a", "b")); bwd = sum(1 for v in dirs.values() for (w, r) in v if (w, r) == ("b", "a"))
    ok = fwd == 3 and bwd == 2 and len(mems) == 5          # AW, W, AR cross a->b ; B, R cross b->a
    return dict(results=[res("ens.AW/W/AR cross from->to, B/R cross to->from", "ensures", PROVED if ok else VIOLATED, 0, "structural postcondition of the real constructor", info=f"{dirs}")],
                functions=["litex.soc.interconnect.axi.axi_lite.AXILiteClockDomainCrossing.__init__"])

def cases(tier):
    cs = [VCase("BusSynchronizer(W=2,timeout=24,R=2)", c_bussync, 2, 24, 2, 20 if tier == "quick" else 32, timeout=1800),
          VCase("BusSynchronizer.model-sanity", c_bussync, 2, 3, 2, 12, True, timeout=900),
          VCase("ClockDomainCrossing(a->b)", c_cdc_structure, False), VCase("ClockDomainCrossing(a->b,buffered)", c_cdc_structure, False, True),
          VCase("ClockDomainCrossing(a->b,common_rst)", c_cdc_structure, True), VCase("ClockDomainCrossing.common_rst.wiring", c_common_rst_wiring),
          VCase("ClockDomainCrossing(sys->sys)", c_same_domain, False), VCase("ClockDomainCrossing(sys->sys,buffered)", c_same_domain, True),
          VCase("AXILiteClockDomainCrossing", c_axil_cdc), VCase("ClockDomainCrossing(a->b).hand-over", c_cdc_write_side, False), VCase("ClockDomainCrossing(a->b,buffered).hand-over", c_cdc_write_side, True),
          VCase("ClockDomainCrossing(a->b,payload+param).no-comb-path", c_cdc_no_comb_path, False), VCase("ClockDomainCrossing(a->b,buffered,payload+param).no-comb-path", c_cdc_no_comb_path, True)]
    if tier == "thorough":
        cs += [VCase("BusSynchronizer(W=3,timeout=24,R=3)", c_bussync, 3, 24, 3, 40, timeout=3000)]
    return cs

ASSUMPTIONS = ["ASSUMED (not in /repo): migen's AsyncFIFO / AsyncFIFOBuffered (Gray pointers), PulseSynchronizer and MultiReg deliver words exactly once and in order for every edge interleaving; under this the structural contracts give the stream part of C05 for the LiteX wrappers",
               "BusSynchronizer: the bounded model checking of this module (depth and drift ratio stated per obligation) is kept as a cross-check beside the UNBOUNDED inductive proof over the same two-clock product model in contracts/C05_bussync_proof.py (metastability = each bit of a first synchroniser flop resolves to the old or new source value when both clocks tick in the same step)",
               "NOT decided: unbounded relative drift / per-bit metastability of the Gray-pointer FIFO itself, stream.Monitor pulse synchronisers, UART FIFOs across domains, 'after the input has been stable long enough the output reflects it' (liveness)",
               "contract-based deductive verification reaches only the constructors' structural postconditions and the same-domain crossing here; the level of this check is 'other'"]
