"""C08 / C11 / C06 (extension): interconnects that no contract instantiated so far.
 1. AXILiteCrossbar (one AXILiteDecoder per master, one AXILiteArbiter per slave) end to end between its ports, also non-square.
 2. AXILiteInterconnectShared / AXIInterconnectShared WITH their time-out: routing and response clauses of C08 plus the clauses of C11
    stated through the interconnect (SLVERR termination within the bound, error pulse, transparency, recovery of every master).
 3. wishbone.InterconnectShared WITH its time-out under the full routing clause set of C06 (route, resp, data, own, once), and the read-data
    clause of wishbone.Crossbar(register=True) (held-request ghost)."""
import z3
from .axilib import *
from .wblib import m_inputs as wb_m_inputs, s_inputs as wb_s_inputs, req as wb_req, master_holds, slave_legal, M2S, S2M
from . import C08_axil_ic as LITE
from . import C08_axi_full_ic as FULL
from . import C06_wishbone_ic as WB
from litex.soc.interconnect import wishbone
from litex.soc.interconnect.axi import AXILiteInterface, AXILiteDecoder, AXILiteArbiter, AXILiteInterconnectShared, AXILiteCrossbar
from litex.soc.interconnect.axi.axi_full import AXIInterconnectShared
from vf.core import Case
from vf.hw import SidecarMismatch

CW = LITE.CW
NZ = lambda x: x != K(0, x.size())
bit = lambda x, j: z3.Extract(j, j, x) == K(1, 1)
def updown(cnt, up, down):
    return z3.If(z3.And(up, z3.Not(down)), cnt + 1, z3.If(z3.And(down, z3.Not(up), NZ(cnt)), cnt - 1, cnt))
def geq(g, i):
    """grant register designates master i (False when the register cannot even hold i: the code under contract changed shape)"""
    return (g == K(i, g.size())) if i < (1 << g.size()) else z3.BoolVal(False)
def sel_by(grant, sigs):
    r = sigs[-1]
    for i in reversed(range(len(sigs) - 1)): r = z3.If(geq(grant, i), sigs[i], r)
    return r
def timer_regs(h, cycles):
    """the down-counters of the WaitTimers (looked up by shape: reset value = cycles)"""
    return [s for s in h.ts.state if s.reset.value == cycles and (1 << s.nbits) > cycles]

# =====================================================================================================================================
# 3a. wishbone.InterconnectShared(timeout_cycles=T) under the routing clause set of C06
# =====================================================================================================================================
def c_wb_shared_to(nm, ns, register, rset, T):
    masters = [wishbone.Interface(data_width=32, adr_width=30) for _ in range(nm)]
    slaves = [wishbone.Interface(data_width=32, adr_width=30) for _ in range(ns)]
    regions = WB.mk_regions(rset, ns); match = WB.match
    decs = [r.decoder(WB.Bus) for r in regions]
    d = mk(wishbone.InterconnectShared, masters, list(zip(decs, slaves)), register, T)
    ins = []
    for m in masters: ins += wb_m_inputs(m)
    for s in slaves: ins += wb_s_inputs(s)
    h = HwCheck(f"wishbone.InterconnectShared({nm}x{ns},register={register},regions={rset},timeout={T})", d, ins)
    V = h.v
    for s in slaves: slave_legal(h, s)
    for i, m in enumerate(masters): master_holds(h, m, name=str(i))
    arb = getattr(d, "arbiter", None); to = getattr(d, "timeout", None)
    grant_sig = arb.rr.grant if (arb is not None and nm > 1) else None
    grant = V(grant_sig) if grant_sig is not None else K(0, 1)
    g = lambda nme: sel_by(grant, [V(getattr(m, nme)) for m in masters])
    gcyc, gstb, gadr = g("cyc"), g("stb"), g("adr")
    greq = z3.And(b(gcyc), b(gstb))
    gack = sel_by(grant, [V(m.ack) for m in masters]); gerr = sel_by(grant, [V(m.err) for m in masters])
    anyack = z3.Or(*[b(V(s.ack)) for s in slaves]); anyerr = z3.Or(*[b(V(s.err)) for s in slaves])
    ones = K(2**32 - 1, 32)
    error = b(V(to.error)) if to is not None else z3.BoolVal(False)
    # ---- specification state (from the property): cycles the request of the bus owner has been pending without a termination
    GW = max(2, (T + 1).bit_length() + 1)
    w = h.ghost("waited", GW)
    pending = z3.And(greq, z3.Not(b(gack)), z3.Not(b(gerr)))
    h.ghost_next(w, z3.If(pending, z3.If(uge(w, T), w, w + 1), K(0, GW)))
    expired = uge(w, T)
    # scenario of the finding below: a request terminated by ERR while the timer runs (the timer looks at ack only, it is not reloaded)
    tainted = h.ghost("after_err", 1)
    h.ghost_next(tainted, bv1(z3.And(greq, z3.Not(b(gack)), z3.Or(b(gerr), b(tainted)))))
    clean = z3.Not(b(tainted))
    h.hint("w<=T", ule(w, T))
    for s in timer_regs(h, T): h.hint(f"cnt:{s.duid}", z3.Implies(clean, zx(V(s), GW) + w == K(T, GW))); h.hint(f"cnt<=T:{s.duid}", ule(V(s), T))
    if grant_sig is not None: h.hint("grant<n", ult(grant, nm)); h.ensure("ens.grant-exists", ult(grant, nm))
    a = h.const("a", 30)
    h.ensure("ens.decode-disjoint", z3.And(*[z3.Not(z3.And(match(regions[x], a), match(regions[y], a))) for x in range(ns) for y in range(x + 1, ns)]))
    # ---- C06: route / fwd / mutex are untouched by the time-out (incl. "no match => no slave sees the cycle")
    h.ensure("ens.mutex", z3.AtMost(*[b(V(s.cyc)) for s in slaves], 1))
    h.ensure("ens.route", z3.And(*[b(V(slaves[j].cyc)) == z3.And(b(gcyc), match(regions[j], gadr)) for j in range(ns)]))
    h.ensure("ens.fwd", z3.And(*[V(getattr(slaves[j], nme)) == g(nme) for j in range(ns) for nme in M2S if nme != "cyc"]))
    S = "@no-err-while-timer-runs"
    for i, m in enumerate(masters):
        owner = geq(grant, i) if grant_sig is not None else z3.BoolVal(True)
        # C06 resp + C11: the owner (and no other master) sees the slaves' ack/err, or the forced termination exactly when its request has waited T cycles
        h.ensure(f"ens.resp{i}" + S, z3.Implies(clean, z3.And(b(V(m.ack)) == z3.And(owner, z3.Or(anyack, expired)), b(V(m.err)) == z3.And(owner, anyerr))))
        h.ensure(f"ens.resp-only-owner{i}", z3.Implies(z3.Not(owner), z3.And(z3.Not(b(V(m.ack))), z3.Not(b(V(m.err))))))
        # exactly one termination, only for a pending request of this master
        h.ensure(f"ens.once{i}" + S, z3.Implies(z3.And(clean, z3.Or(b(V(m.ack)), b(V(m.err)))), wb_req(h, m)))
        if grant_sig is not None: h.ensure(f"ens.own{i}", z3.Implies(z3.And(owner, b(V(m.cyc))), geq(h.n(grant_sig), i)))
        # C11: forced termination = ack + all-ones data + error pulse, within T cycles after the grant; never earlier
        h.ensure(f"ens.term{i}" + S, z3.Implies(z3.And(clean, owner, expired), z3.And(b(V(m.ack)), V(m.dat_r) == ones, error)))
        h.ensure(f"ens.undisturbed{i}" + S, z3.Implies(z3.And(clean, owner, z3.Not(expired)), z3.And(b(V(m.ack)) == anyack, b(V(m.err)) == anyerr, z3.Not(error))))
        h.respond(f"resp.term{i}", z3.And(owner, wb_req(h, m)), z3.Or(b(V(m.ack)), b(V(m.err))), T + 1)
    h.ensure("ens.error-only-on-expiry" + S, z3.Implies(clean, error == expired))
    h.ensure_seq("ens.recover" + S, lambda at: z3.Implies(z3.And(at(clean, 0), at(expired, 0)), z3.And(at(w == K(0, GW), 1), at(clean, 1))))
    # ---- C06 data: read data of the answering slave (register=True: for a request that was already pending in the previous cycle)
    p_cont = h.prev("cont", bv1(greq)); p_adr = h.prev("gadr", gadr); p_grant = h.prev("grant", grant)
    continuing = z3.And(b(p_cont), p_adr == gadr, p_grant == grant)
    ssr = L(d.decoder, "slave_sel_r") if hasattr(d, "decoder") else None
    if register and ssr is not None and ssr in h.ts.var and V(ssr).size() == ns:
        for j in range(ns): h.hint(f"selr{j}", z3.Implies(b(p_cont), bit(V(ssr), j) == match(regions[j], p_adr)))
    for i, m in enumerate(masters):
        for j, s in enumerate(slaves):
            clause = lambda extra: z3.Implies(z3.And(clean, b(V(m.ack)), b(V(s.ack)), z3.Not(expired), *extra), V(m.dat_r) == V(s.dat_r))
            if not register: h.ensure(f"ens.data{i}.{j}" + S, clause([]))
            else:
                h.ensure(f"ens.data{i}.{j}@later-cycles" + S, clause([continuing]))
                if i == 0 and j == ns - 1 and ns > 1:
                    h.finding(f"finding.data{i}.{j}@first-cycle-ack", clause([]),
                              "wishbone.Decoder(register=True) muxes dat_r with a one-cycle-old slave select while ack is combinational: a slave that acknowledges in the first cycle of a request returns another slave's (or no) read data")
    # ---- finding: the Timeout watches ack only
    WHAT = ("wishbone.Timeout arms its WaitTimer with stb&cyc&~ack: a request terminated by ERR does not reload the timer. If the owner (or the next owner) "
            "continues with a new request in the next cycle, that request is timed out early (forced ack, all-ones data, error pulse although its slave would answer in time); "
            "if the ERR arrives in the last waiting cycle, the forced ack/error pulse is produced in the following cycle for a request that no longer exists")
    i0 = nm - 1; m0 = masters[i0]; own0 = geq(grant, i0) if grant_sig is not None else z3.BoolVal(True)
    h.finding(f"finding.once{i0}@after-err-termination", z3.Implies(z3.Or(b(V(m0.ack)), b(V(m0.err))), wb_req(h, m0)), WHAT)
    h.finding(f"finding.undisturbed{i0}@after-err-termination", z3.Implies(z3.And(own0, z3.Not(expired)), z3.And(b(V(m0.ack)) == anyack, z3.Not(error))), WHAT)
    h.cover("cover.ack", z3.And(b(V(masters[-1].ack)), b(V(slaves[-1].ack))), depth=4)
    h.cover("cover.timeout", z3.And(error, clean, b(V(masters[-1].ack))), depth=T + 4)
    seen = h.ghost("seen_timeout", 1); h.ghost_next(seen, bv1(z3.Or(b(seen), error)))
    h.cover("cover.ack-after-timeout", z3.And(b(seen), b(V(slaves[-1].ack)), b(V(masters[0].ack)), z3.Not(error), clean), depth=T + 6)
    h.bmc_depth = T + 6
    h.use_auto = False
    h.functions = ["litex.soc.interconnect.wishbone.InterconnectShared.__init__ (timeout_cycles given)", "litex.soc.interconnect.wishbone.Timeout.__init__", "litex.soc.interconnect.wishbone.Arbiter.__init__",
                   "litex.soc.interconnect.wishbone.Decoder.__init__", "litex.gen.genlib.misc.WaitTimer.__init__", "litex.soc.integration.soc.SoCRegion.decoder"]
    return h

# =====================================================================================================================================
# 3b. wishbone.Crossbar(register=True): read data of the answering slave (C06 "read data reach the issuing master")
# =====================================================================================================================================
def c_wb_xbar_data(nm, ns, register, rset):
    """one Decoder per master (its dat_r mux uses the REGISTERED select of that master's address), one Arbiter per slave; the read-data clause
    is stated for a request that was already pending, with the same address, in the previous cycle (held-request ghost); the first-cycle
    acknowledge is the listed finding of Decoder(register=True)"""
    masters = [wishbone.Interface(data_width=32, adr_width=30) for _ in range(nm)]
    slaves = [wishbone.Interface(data_width=32, adr_width=30) for _ in range(ns)]
    regions = WB.mk_regions(rset, ns); match = WB.match
    d = mk(wishbone.Crossbar, masters, list(zip([r.decoder(WB.Bus) for r in regions], slaves)), register, None)
    ins = []
    for m in masters: ins += wb_m_inputs(m)
    for s in slaves: ins += wb_s_inputs(s)
    h = HwCheck(f"wishbone.Crossbar({nm}x{ns},register={register},regions={rset}).data", d, ins)
    V = h.v
    for s in slaves: slave_legal(h, s)
    for i, m in enumerate(masters): master_holds(h, m, name=str(i))
    subs = [x for _, x in d._submodules]
    arbs = [x for x in subs if isinstance(x, wishbone.Arbiter)]; decs = [x for x in subs if isinstance(x, wishbone.Decoder)]
    if len(arbs) != ns or len(decs) != nm: raise SidecarMismatch("Crossbar is no longer one Decoder per master + one Arbiter per slave")
    grants = [V(a.rr.grant) if nm > 1 else K(0, 1) for a in arbs]
    for j in range(ns):
        if nm > 1: h.hint(f"grant{j}<n", ult(grants[j], nm))
    for i, m in enumerate(masters):
        gr = [geq(grants[j], i) if nm > 1 else z3.BoolVal(True) for j in range(ns)]
        # the acknowledge of slave j reaches master i iff arbiter j designates i (context of the data clause)
        h.ensure(f"ens.resp{i}", z3.And(b(V(m.ack)) == z3.Or(*[z3.And(gr[j], b(V(slaves[j].ack))) for j in range(ns)]),
                                        b(V(m.err)) == z3.Or(*[z3.And(gr[j], b(V(slaves[j].err))) for j in range(ns)])))
        h.ensure(f"ens.once{i}", z3.Implies(z3.Or(b(V(m.ack)), b(V(m.err))), wb_req(h, m)))
        p_req = h.prev(f"req{i}", bv1(wb_req(h, m))); p_adr = h.prev(f"adr{i}", V(m.adr))
        continuing = z3.And(b(p_req), p_adr == V(m.adr))
        ssr = L(decs[i], "slave_sel_r")
        if register and ssr is not None and ssr in h.ts.var and V(ssr).size() == ns:
            for j in range(ns): h.hint(f"m{i}.selr{j}", z3.Implies(b(p_req), bit(V(ssr), j) == match(regions[j], p_adr)))
        for j, s in enumerate(slaves):
            clause = lambda extra: z3.Implies(z3.And(b(V(m.ack)), gr[j], b(V(s.ack)), *extra), V(m.dat_r) == V(s.dat_r))
            if not register: h.ensure(f"ens.data{i}.{j}", clause([]))
            else:
                h.ensure(f"ens.data{i}.{j}@later-cycles", clause([continuing]))
                if i == 0 and j == ns - 1 and ns > 1:
                    h.finding(f"finding.data{i}.{j}@first-cycle-ack", clause([]),
                              "wishbone.Decoder(register=True) muxes dat_r with a one-cycle-old slave select while ack is combinational: a slave that acknowledges in the first cycle of a request returns another slave's (or no) read data")
    mi, sj = masters[-1], slaves[-1]
    h.cover("cover.ack-later-cycle", z3.And(b(V(mi.ack)), b(V(sj.ack)), b(h.ghosts[f"prev_req{nm - 1}"][0]), h.ghosts[f"prev_adr{nm - 1}"][0] == V(mi.adr)), depth=4)
    if nm > 1 and ns > 1:
        h.cover("cover.two-masters-two-slaves", z3.And(b(V(masters[0].ack)), b(V(masters[1].ack)), b(V(slaves[0].ack)), b(V(slaves[1].ack))), depth=4)
    h.use_auto = False
    h.functions = ["litex.soc.interconnect.wishbone.Crossbar.__init__", "litex.soc.interconnect.wishbone.Decoder.__init__ (register=True data mux)", "litex.soc.interconnect.wishbone.Arbiter.__init__"]
    return h

# =====================================================================================================================================
# 1. AXILiteCrossbar
# =====================================================================================================================================
REQ = {"wr": "aw", "rd": "ar"}; RSP = {"wr": "b", "rd": "r"}
def mkl(): return AXILiteInterface(data_width=32, address_width=32)

def c_axil_xbar(nm, ns, all_responds=True):
    """AXILiteCrossbar (one AXILiteDecoder per master = row, one AXILiteArbiter per slave = column), end to end between the master ports and the
    slave ports.  Master-side specification state = the ghosts of C08_axil_ic.decoder_contract (requests outstanding per master and the slave
    holding them); slave-side specification state = requests received and unanswered per slave port."""
    masters = [mkl() for _ in range(nm)]; slaves = [mkl() for _ in range(ns)]; regions = LITE.regions_for(ns); match = LITE.match
    d = mk(AXILiteCrossbar, masters, [(r.decoder(LITE.Bus), s) for r, s in zip(regions, slaves)], False, None)
    subs = [x for _, x in d._submodules]
    decs = [x for x in subs if isinstance(x, AXILiteDecoder)]; arbs = [x for x in subs if isinstance(x, AXILiteArbiter)]
    ins = []
    for m in masters: ins += master_side_inputs(m)
    for s in slaves: ins += slave_side_inputs(s)
    h = HwCheck(f"AXILiteCrossbar({nm}x{ns})", d, ins)
    for i, m in enumerate(masters):
        for ch in ("aw", "w", "ar"): src_env(h, getattr(m, ch), f"m{i}{ch}")
    for j, s in enumerate(slaves): src_env(h, s.b, f"s{j}b"); src_env(h, s.r, f"s{j}r")
    shape_ok = len(decs) == nm and len(arbs) == ns
    # master-side specification state
    mg = []; mw = []
    for i, m in enumerate(masters):
        lc = locals_of(decs[i]) if shape_ok else {}
        locks, sreg = lc.get("locks"), lc.get("slave_sel_reg")
        if not (isinstance(locks, dict) and isinstance(sreg, dict) and all(k in locks and k in sreg for k in ("write", "read"))): locks = sreg = None
        gh, w_out = LITE.decoder_contract(h, m, slaves, regions, locks, sreg, prefix=f"m{i}.")
        mg.append(gh); mw.append(w_out)
    # slave-side specification state and the AXI4-Lite rules of each slave stated at its own port
    sg = []
    for j, s in enumerate(slaves):
        scnt = {}
        for dirn in ("wr", "rd"):
            c = h.ghost(f"s{j}.{dirn}_out", CW); h.ghost_next(c, updown(c, fire(h, getattr(s, REQ[dirn])), fire(h, getattr(s, RSP[dirn])))); scnt[dirn] = c
            h.assume(ult(c, 200), "fewer than 200 requests outstanding per slave and direction (counter capacity 255)")
            h.hint(f"s{j}.{dirn}.cnt<255", ult(c, 255))
        sw = h.ghost(f"s{j}.w_out", CW); h.ghost_next(sw, updown(sw, fire(h, s.w), fire(h, s.b))); h.assume(ult(sw, 200))
        h.assume(z3.Implies(b(h.v(s.b.valid)), z3.And(NZ(scnt["wr"]), NZ(sw))), "slave sends B only for a write it has received (AW and W) and not yet answered")
        h.assume(z3.Implies(b(h.v(s.r.valid)), NZ(scnt["rd"])), "slave sends R only for a read it has received and not yet answered")
        scnt["w"] = sw; sg.append(scnt)
    if not shape_ok:
        # the crossbar is no longer rows of decoders and columns of arbiters: no grant register to state ownership with; the port-level clauses below decide
        h.use_auto = True
    def grant_of(j, dirn):
        if not shape_ok: return None
        return (arbs[j].rr_write if dirn == "wr" else arbs[j].rr_read).grant
    for dirn, chans in (("wr", ("aw", "w", "b")), ("rd", ("ar", "r"))):
        if not shape_ok: break
        grants = [h.v(grant_of(j, dirn)) for j in range(ns)]
        for j, (s, a) in enumerate(zip(slaves, arbs)):
            g = grants[j]; sc = sg[j][dirn]
            h.hint(f"s{j}.{dirn}.grant<n", ult(g, nm))
            h.hint(f"s{j}.{dirn}.arbcnt", zx(h.v((a.wr_lock if dirn == "wr" else a.rd_lock).counter), CW) == sc)
            # code-derived coupling of the two views: requests held by slave j belong to the granted master, which is locked on slave j
            h.hint(f"s{j}.{dirn}.owner", z3.Implies(NZ(sc), z3.Or(*[z3.And(geq(g, i), bit(mg[i][dirn][1], j), mg[i][dirn][0] == sc) for i in range(nm)])))
            for i in range(nm):
                cnt, tgt, _ = mg[i][dirn]
                h.hint(f"m{i}.s{j}.{dirn}.held", z3.Implies(z3.And(NZ(cnt), bit(tgt, j)), z3.And(geq(g, i), sc == cnt)))
            h.ensure(f"ens.{dirn}.s{j}.grant-exists", ult(g, nm))
            # arbitration never changes while responses are outstanding at the slave: a slave never serves two masters at once
            h.ensure(f"ens.{dirn}.s{j}.grant-lock", z3.Implies(NZ(sc), h.n(grant_of(j, dirn)) == g))
            # the response of slave j goes to a master that has unanswered requests at slave j (the issuing master)
            for i in range(nm):
                cnt, tgt, _ = mg[i][dirn]
                h.ensure(f"ens.{dirn}.s{j}.resp-to-issuer{i}", z3.Implies(z3.And(fire(h, getattr(s, RSP[dirn])), geq(g, i)), z3.And(NZ(cnt), bit(tgt, j), cnt == sc)))
        for i, m in enumerate(masters):
            cnt, tgt, dec = mg[i][dirn]
            for c in chans:
                me = getattr(m, c); pairs = []
                for j, s in enumerate(slaves):
                    se = getattr(s, c); mine = z3.And(fire(h, se), geq(grants[j], i)); pairs.append(mine)
                    # a transfer at slave port j under grant i is the same transfer at master port i, unchanged (requests forward, responses back: once)
                    h.ensure(f"ens.{dirn}.{c}.m{i}s{j}.same-transfer", z3.Implies(mine, z3.And(fire(h, me), paytok(h, se) == paytok(h, me))))
                    # slave selection never changes while responses are outstanding: nothing of master i moves at any other slave
                    h.ensure(f"ens.{dirn}.{c}.m{i}s{j}.sel-lock", z3.Implies(z3.And(NZ(cnt), z3.Not(bit(tgt, j))), z3.Not(mine)))
                # every transfer at master port i has its counterpart at exactly one slave port
                h.ensure(f"ens.{dirn}.{c}.m{i}.exactly-one-slave", z3.Implies(fire(h, me), z3.And(z3.AtMost(*pairs, 1), z3.Or(*pairs))))
            # slave chosen by address (under the decoder's listed scenario restriction)
            req = getattr(m, REQ[dirn]); same_i = z3.Implies(NZ(cnt), dec == tgt)
            for j, s in enumerate(slaves):
                h.ensure(f"ens.{dirn}.m{i}s{j}.by-address@same-target", z3.Implies(z3.And(fire(h, getattr(s, REQ[dirn])), geq(grants[j], i), same_i), match(regions[j], h.v(req.addr))))
            if i == 0 and ns > 1:
                j = 0
                h.finding(f"finding.{dirn}.m{i}s{j}.by-address@other-target-while-outstanding", z3.Implies(z3.And(fire(h, getattr(slaves[j], REQ[dirn])), geq(grants[j], i)), match(regions[j], h.v(req.addr))),
                          "AXILiteDecoder (row of the crossbar) freezes the slave select while responses are outstanding but does not stall a new AW/AR that decodes to a different slave: the locked slave accepts it")
    # port-level statements (no internal register named) -------------------------------------------------------------------------------
    for dirn, chans in (("wr", ("aw", "w", "b")), ("rd", ("ar", "r"))):
        for c in chans:
            for j, s in enumerate(slaves):
                # every transfer at slave port j is the transfer of (exactly) one master port, unchanged
                h.ensure(f"ens.{dirn}.{c}.s{j}.from-one-master", z3.Implies(fire(h, getattr(s, c)), z3.Or(*[z3.And(fire(h, getattr(m, c)), paytok(h, getattr(m, c)) == paytok(h, getattr(s, c))) for m in masters])))
            # transfers are neither duplicated nor dropped: as many at the slave ports as at the master ports
            cntw = max(nm, ns).bit_length() + 1
            h.ensure(f"ens.{dirn}.{c}.conserved", z3.Sum(*[zx(bv1(fire(h, getattr(s, c))), cntw) for s in slaves]) == z3.Sum(*[zx(bv1(fire(h, getattr(m, c))), cntw) for m in masters]))
        # a slave never sees two masters at once: at most one master per cycle hands a request to slave j
        for j, s in enumerate(slaves):
            reqs = []
            for i, m in enumerate(masters):
                cnt, tgt, dec = mg[i][dirn]; me = getattr(m, REQ[dirn])
                reqs.append(z3.And(fire(h, me), z3.If(NZ(cnt), bit(tgt, j), match(regions[j], h.v(me.addr)))))
            h.ensure(f"ens.{dirn}.s{j}.one-master-at-a-time", z3.AtMost(*reqs, 1))
            # exactly the requests aimed at slave j arrive there (with by-address: no other slave gets them)
            h.ensure(f"ens.{dirn}.s{j}.arrives", fire(h, getattr(s, REQ[dirn])) == z3.Or(*reqs))
    # the W beat of the pair reaches the slave chosen by the address of its AW (W together with or after its AW, same target while outstanding)
    for i, m in enumerate(masters):
        wcnt, wtgt, wdec = mg[i]["wr"]; w_out = mw[i]; awv = b(h.v(m.aw.valid))
        w_due = z3.UGT(wcnt, w_out)
        w_after_aw = z3.Implies(b(h.v(m.w.valid)), z3.Or(awv, w_due))
        same_i = z3.Implies(z3.And(awv, NZ(wcnt)), wdec == wtgt)
        for j, s in enumerate(slaves):
            right = z3.If(w_due, bit(wtgt, j), z3.And(awv, match(regions[j], h.v(m.aw.addr))))
            if shape_ok:
                h.ensure(f"ens.wr.w.m{i}s{j}.by-address@w-not-before-aw", z3.Implies(z3.And(fire(h, s.w), geq(h.v(grant_of(j, "wr")), i), w_after_aw, same_i), right))
                if i == 0 and j == 0 and ns > 1:
                    h.finding("finding.wr.w.m0s0.by-address@w-before-aw", z3.Implies(z3.And(fire(h, s.w), geq(h.v(grant_of(j, "wr")), i), same_i), right),
                              "AXILiteDecoder (row of the crossbar) routes a W beat by the address currently on AW: a W beat that precedes its AW (legal in AXI4-Lite) is delivered to whatever slave the idle AW address decodes to")
    # every requesting master is served: master i asking for slave j is granted and can hand over its request within a bounded time, whatever the
    # other masters do at other slaves (nothing outstanding at slave j, nobody else aiming at slave j)
    for dirn in ("wr", "rd"):
        for i, m in enumerate(masters):
            if not shape_ok: break
            if not (all_responds or i == (nm - 1 if dirn == "wr" else 0)): continue
            cnt, tgt, dec = mg[i][dirn]; req = getattr(m, REQ[dirn]); j = (i + 1) % ns
            def aims(k, j=j, dirn=dirn):
                kc, kt, kd = mg[k][dirn]; km = masters[k]
                act = z3.Or(b(h.v(km.aw.valid)), b(h.v(km.w.valid))) if dirn == "wr" else b(h.v(km.ar.valid))
                return z3.And(act, bit(z3.If(NZ(kc), kt, kd), j))
            coop = z3.And(b(h.v(req.valid)), match(regions[j], h.v(req.addr)), cnt == K(0, CW), sg[j][dirn] == K(0, CW), z3.Not(b(h.v(getattr(slaves[j], RSP[dirn]).valid))),
                          *[z3.Not(aims(k)) for k in range(nm) if k != i])
            sreq = getattr(slaves[j], REQ[dirn])
            h.respond(f"resp.{dirn}.m{i}.offered-to-s{j}", coop, z3.And(geq(h.v(grant_of(j, dirn)), i), b(h.v(sreq.valid)), paytok(h, sreq) == paytok(h, req)), 2)
    h.cover("cover.b-and-r", z3.And(fire(h, masters[-1].b), fire(h, masters[0].r)), depth=5)
    if nm > 1 and ns > 1:
        h.cover("cover.parallel-writes", z3.And(fire(h, slaves[0].w), fire(h, slaves[1].w), fire(h, masters[0].w), fire(h, masters[1].w)), depth=5)
        h.cover("cover.last-master-last-slave", z3.And(fire(h, slaves[-1].b), fire(h, masters[-1].b), fire(h, slaves[0].r), fire(h, masters[-1].r) if nm > 2 else fire(h, masters[0].r)), depth=6)
    h.bmc_depth = 6
    h.functions = ["litex.soc.interconnect.axi.axi_lite.AXILiteCrossbar.__init__", "litex.soc.interconnect.axi.axi_lite.AXILiteArbiter.__init__",
                   "litex.soc.interconnect.axi.axi_lite.AXILiteDecoder.__init__", "litex.soc.interconnect.axi.axi_lite.get_check_parameters"]
    return h

# =====================================================================================================================================
# 2. AXILiteInterconnectShared / AXIInterconnectShared WITH their time-out
# =====================================================================================================================================
class _Lite:
    name = "AXILiteInterconnectShared"; Cls = AXILiteInterconnectShared; Bus = LITE.Bus; mod = "axi_lite"; TO = "AXILiteTimeout"
    mkif = staticmethod(lambda idw: mkl())
    m_in = staticmethod(master_side_inputs); s_in = staticmethod(slave_side_inputs)
    tok = staticmethod(lambda h, ep, ch, noid=False: paytok(h, ep))
    env = staticmethod(lambda h, ep, ch, name: src_env(h, ep, name))
    wlast = staticmethod(lambda h, m: z3.BoolVal(True)); rlast = staticmethod(lambda h, m: z3.BoolVal(True))
    regions_for = staticmethod(LITE.regions_for); match = staticmethod(LITE.match)
    onehot = staticmethod(lambda regions, addr: LITE.onehot(None, regions, addr))
    ghosts = staticmethod(lambda h, shared, slaves, regions, locks, sreg: LITE.decoder_contract(h, shared, slaves, regions, locks, sreg, prefix="dec."))
class _Full:
    name = "AXIInterconnectShared"; Cls = AXIInterconnectShared; Bus = FULL.Bus; mod = "axi_full"; TO = "AXITimeout"
    mkif = staticmethod(lambda idw: FULL.mkif(idw))
    m_in = staticmethod(FULL.m_inputs); s_in = staticmethod(FULL.s_inputs)
    tok = staticmethod(FULL.tok); env = staticmethod(FULL.src_env4)
    wlast = staticmethod(lambda h, m: b(h.v(m.w.last))); rlast = staticmethod(lambda h, m: b(h.v(m.r.last)))
    regions_for = staticmethod(FULL.regions_for); match = staticmethod(FULL.match); onehot = staticmethod(FULL.onehot)
    ghosts = staticmethod(lambda h, shared, slaves, regions, locks, sreg: FULL.decoder_ghosts(h, shared, regions, locks, sreg, prefix="dec."))

SCEN = ("scenario S of the time-out clauses: (S1) every master has at most one request outstanding per direction (no new AW/W before the B, no new AR before the last R); "
        "(S2a) a W beat is offered together with or after its AW, (S2b) while the time-out absorbs a write the master hands over the rest of it without a pause; "
        "(S3) a slave whose write (read) side has let a request time out stays silent on that side")

def c_axi_shared_to(kind, nm, ns, T, idw=1, findings=True):
    """shared AXI-Lite / AXI4 interconnect built WITH timeout_cycles=T.  C08: routing and response clauses as in C08_axil_ic.c_shared /
    C08_axi_full_ic.c_shared.  C11 through the interconnect, at the master ports: a request of the bus owner that stalls T cycles (silent slave,
    unmapped address) raises the error pulse and is answered with SLVERR; before that nothing is disturbed; afterwards every master is served."""
    A = _Full if kind == "full" else _Lite; full = kind == "full"
    masters = [A.mkif(idw) for _ in range(nm)]; slaves = [A.mkif(idw) for _ in range(ns)]; regions = A.regions_for(ns); match = A.match
    d = mk(A.Cls, masters, [(r.decoder(A.Bus), s) for r, s in zip(regions, slaves)], False, T)
    ins = []
    for m in masters: ins += A.m_in(m)
    for s in slaves: ins += A.s_in(s)
    h = HwCheck(f"{A.name}({nm}x{ns},id_width={idw},timeout={T})", d, ins)
    V = lambda sig: b(h.v(sig))
    shared = L(d, "shared"); arb = getattr(d, "arbiter", None); dec = getattr(d, "decoder", None); to = getattr(d, "timeout", None)
    if shared is None or arb is None or to is None or not all(hasattr(arb, a) for a in ("rr_write", "rr_read")) or not hasattr(to, "error"):
        raise SidecarMismatch("shared interconnect is no longer arbiter (rr_write/rr_read) + decoder + timeout (error) around a `shared` interface")
    stall = {}; held = {}
    for i, m in enumerate(masters):
        for ch in ("aw", "w", "ar"): stall[i, ch], held[i, ch] = A.env(h, getattr(m, ch), ch, f"m{i}{ch}")
    for j, s in enumerate(slaves): A.env(h, s.b, "b", f"s{j}b"); A.env(h, s.r, "r", f"s{j}r")
    lc = locals_of(dec) if dec is not None else {}
    locks, sreg = lc.get("locks"), lc.get("slave_sel_reg")
    if not (isinstance(locks, dict) and isinstance(sreg, dict) and all(k in locks and k in sreg for k in ("write", "read"))): locks = sreg = None
    ghosts, w_out = A.ghosts(h, shared, slaves, regions, locks, sreg)
    GRANT = {"wr": arb.rr_write.grant, "rd": arb.rr_read.grant}
    grant = {k: h.v(v) for k, v in GRANT.items()}
    own = lambda dirn, i: geq(grant[dirn], i)
    for dirn, lk in (("wr", "wr_lock"), ("rd", "rd_lock")):
        if hasattr(arb, lk) and hasattr(getattr(arb, lk), "counter"): h.hint(f"arb.{dirn}.cnt", zx(h.v(getattr(arb, lk).counter), CW) == ghosts[dirn][0])
        h.hint(f"{dirn}.grant<n", ult(grant[dirn], nm))
    rspf = lambda itf, dirn: fire(h, itf.b) if dirn == "wr" else z3.And(fire(h, itf.r), A.rlast(h, itf))
    # ---- slave ports: what each slave has received and not answered; AXI rules of the slaves stated at their own ports
    sg = []
    for j, s in enumerate(slaves):
        sc = {}
        for dirn in ("wr", "rd"):
            c = h.ghost(f"s{j}.{dirn}_out", CW); h.ghost_next(c, updown(c, fire(h, getattr(s, REQ[dirn])), rspf(s, dirn))); sc[dirn] = c
            h.assume(ult(c, 200), "fewer than 200 requests outstanding per slave and direction"); h.hint(f"s{j}.{dirn}.cnt<255", ult(c, 255))
        sw = h.ghost(f"s{j}.w_out", CW); h.ghost_next(sw, updown(sw, z3.And(fire(h, s.w), A.wlast(h, s)), fire(h, s.b))); h.assume(ult(sw, 200)); sc["w"] = sw
        h.assume(z3.Implies(V(s.b.valid), z3.And(NZ(sc["wr"]), NZ(sw))), "slave sends B only for a write it has received completely (AW and the last W beat) and not yet answered")
        h.assume(z3.Implies(V(s.r.valid), NZ(sc["rd"])), "slave sends R only for a read it has received and not yet completed")
        sg.append(sc)
    # ---- master ports: one transaction per direction in flight (specification state of scenario S1)
    done = {}
    for i, m in enumerate(masters):
        bf = fire(h, m.b); rf = rspf(m, "rd")
        for nme, setc, clr in (("aw", fire(h, m.aw), bf), ("w", z3.And(fire(h, m.w), A.wlast(h, m)), bf), ("ar", fire(h, m.ar), rf)):
            g = h.ghost(f"m{i}.{nme}_done", 1); h.ghost_next(g, z3.If(clr, K(0, 1), z3.If(setc, K(1, 1), g))); done[i, nme] = g
    # ---- time-out specification state (as in C11_timeout.c_axil_timeout), over the ports of the bus owner
    GW = max(2, (T + 1).bit_length() + 1)
    def o(dirn, f): return sel_by(grant[dirn], [f(m) for m in masters])        # value at the owner's port
    wcond = z3.Or(z3.And(o("wr", lambda m: V(m.aw.valid)), z3.Not(o("wr", lambda m: V(m.aw.ready)))), z3.And(o("wr", lambda m: V(m.w.valid)), z3.Not(o("wr", lambda m: V(m.w.ready)))))
    rcond = z3.And(o("rd", lambda m: V(m.ar.valid)), z3.Not(o("rd", lambda m: V(m.ar.ready))))
    resp = {"wr": h.ghost("resp_w", 1), "rd": h.ghost("resp_r", 1)}; wt = {"wr": h.ghost("waited_w", GW), "rd": h.ghost("waited_r", GW)}
    cond = {"wr": wcond, "rd": rcond}; det = {}
    for dirn in ("wr", "rd"):
        R, W_ = resp[dirn], wt[dirn]
        det[dirn] = z3.And(z3.Not(b(R)), uge(W_, T), cond[dirn])
        ofire = o(dirn, lambda m: rspf(m, dirn) if dirn == "rd" else fire(h, m.b))
        h.ghost_next(R, z3.If(det[dirn], K(1, 1), z3.If(z3.And(b(R), ofire), K(0, 1), R)))
        h.ghost_next(W_, z3.If(z3.And(z3.Not(b(R)), cond[dirn]), z3.If(uge(W_, T), W_, W_ + 1), K(0, GW)))
        h.hint(f"{dirn}.waited<=T", ule(W_, T))
        for sgn in timer_regs(h, T): h.hint(f"{dirn}.timer:{sgn.duid}", zx(h.v(sgn), GW) + W_ == K(T, GW))
    for fsm_name, R in (("wr_fsm", resp["wr"]), ("rd_fsm", resp["rd"])):
        fsm = getattr(to, fsm_name, None)
        if fsm is not None and hasattr(fsm, "state") and fsm.state in h.ts.var: h.hint(f"{fsm_name}.state", zx(h.v(fsm.state), 2) == zx(R, 2))
    # ---- scenario S (history ghosts): S1 single outstanding, S2a W not before AW, S2b no pause while absorbed, S3 a timed-out slave side stays silent
    tgt_now = {dirn: z3.If(NZ(ghosts[dirn][0]), ghosts[dirn][1], A.onehot(regions, o(dirn, lambda m: h.v(getattr(m, REQ[dirn]).addr)))) for dirn in ("wr", "rd")}
    dead = {}
    for j in range(ns):
        for dirn in ("wr", "rd"):
            g = h.ghost(f"s{j}.{dirn}_timed_out", 1); h.ghost_next(g, bv1(z3.Or(b(g), z3.And(det[dirn], bit(tgt_now[dirn], j))))); dead[j, dirn] = g
    S1 = z3.And(*[z3.Implies(b(done[i, c]), z3.Not(V(getattr(m, c).valid))) for i, m in enumerate(masters) for c in ("aw", "w", "ar")])
    S2a = z3.And(*[z3.Implies(V(m.w.valid), z3.Or(V(m.aw.valid), b(done[i, "aw"]))) for i, m in enumerate(masters)])
    S2b = z3.Implies(b(resp["wr"]), o("wr", lambda m: z3.And(z3.Or(V(m.aw.valid), b(done[masters.index(m), "aw"])), z3.Or(V(m.w.valid), b(done[masters.index(m), "w"])))))
    S3 = z3.And(*[z3.Implies(b(dead[j, "wr"]), z3.And(z3.Not(V(s.aw.ready)), z3.Not(V(s.w.ready)), z3.Not(V(s.b.valid)))) for j, s in enumerate(slaves)],
                *[z3.Implies(b(dead[j, "rd"]), z3.And(z3.Not(V(s.ar.ready)), z3.Not(V(s.r.valid)))) for j, s in enumerate(slaves)])
    hist = {}
    for nme, now in (("S1", S1), ("S2a", S2a), ("S2b", S2b), ("S3", S3)):
        g = h.ghost("hist_" + nme, 1, init=1); h.ghost_next(g, bv1(z3.And(b(g), now))); hist[nme] = (g, now)
    def scen(*names): return z3.And(*[z3.And(b(hist[n][0]), hist[n][1]) for n in names])
    SC = scen("S1", "S2a", "S2b", "S3"); CALM = z3.And(*[b(hist[n][0]) for n in ("S1", "S2a", "S2b", "S3")])
    def ens_s(name, clause): h.ensure(name + "@S", z3.Implies(SC, clause))
    # ---- helper invariants (code + scenario derived)
    one = lambda g: zx(g, CW)
    cnt_w, tgt_w, _ = ghosts["wr"]; cnt_r, tgt_r, _ = ghosts["rd"]
    h.hint("S.wr.cnt", z3.Implies(CALM, cnt_w == z3.Sum(*[one(done[i, "aw"]) for i in range(nm)]) if nm > 1 else cnt_w == one(done[0, "aw"])))
    h.hint("S.rd.cnt", z3.Implies(CALM, cnt_r == z3.Sum(*[one(done[i, "ar"]) for i in range(nm)]) if nm > 1 else cnt_r == one(done[0, "ar"])))
    h.hint("S.w.cnt", z3.Implies(CALM, w_out == z3.Sum(*[one(done[i, "w"]) for i in range(nm)]) if nm > 1 else w_out == one(done[0, "w"])))
    for i in range(nm):
        h.hint(f"S.m{i}.aw-owner", z3.Implies(z3.And(CALM, b(done[i, "aw"])), own("wr", i)))
        h.hint(f"S.m{i}.ar-owner", z3.Implies(z3.And(CALM, b(done[i, "ar"])), own("rd", i)))
        h.hint(f"S.m{i}.w-owner", z3.Implies(z3.And(CALM, b(done[i, "w"])), z3.And(own("wr", i), z3.Or(b(done[i, "aw"]), b(stall[i, "aw"])))))
        h.hint(f"S.m{i}.resp-w", z3.Implies(z3.And(CALM, b(resp["wr"]), own("wr", i)), z3.Or(b(done[i, "aw"]), b(stall[i, "aw"]))))
        h.hint(f"S.m{i}.resp-r", z3.Implies(z3.And(CALM, b(resp["rd"]), own("rd", i)), z3.Or(b(done[i, "ar"]), b(stall[i, "ar"]))))
    ADW = h.v(masters[0].aw.addr).size()
    addr_first = all(pay(getattr(m, c))[0] is getattr(m, c).addr for m in masters for c in ("aw", "ar"))
    def held_addr(i, ch):      # address inside the held payload token of the source environment (the address is the first payload field; otherwise the hints below are useless and get dropped)
        t = held[i, ch]; return z3.Extract(t.size() - 1, t.size() - ADW, t) if addr_first and t.size() >= ADW else K(0, ADW)
    for j in range(ns):
        for dirn, c in (("wr", "aw"), ("rd", "ar")):
            cnt, tgt, _ = ghosts[dirn]; live = z3.Not(b(dead[j, dirn]))
            # the slave side selected while the time-out responds is the one that timed out
            h.hint(f"S.s{j}.{dirn}.resp-target", z3.Implies(z3.And(CALM, b(resp[dirn]), NZ(cnt), bit(tgt, j)), b(dead[j, dirn])))
            for i in range(nm):
                h.hint(f"S.s{j}.{dirn}.resp-target.m{i}", z3.Implies(z3.And(CALM, b(resp[dirn]), cnt == K(0, CW), own(dirn, i), b(stall[i, c]), match(regions[j], held_addr(i, c))), b(dead[j, dirn])))
            # a live slave side holds exactly the request the shared bus has outstanding at it
            h.hint(f"S.s{j}.{dirn}.live", z3.Implies(z3.And(CALM, live), sg[j][dirn] == z3.If(z3.And(NZ(cnt), bit(tgt, j)), K(1, CW), K(0, CW))))
        live = z3.Not(b(dead[j, "wr"]))
        h.hint(f"S.s{j}.w.live", z3.Implies(z3.And(CALM, live), z3.And(ule(sg[j]["w"], 1), z3.Implies(NZ(sg[j]["w"]), z3.And(NZ(w_out),
               z3.Or(z3.And(NZ(cnt_w), bit(tgt_w, j)), z3.And(cnt_w == K(0, CW), *[z3.Implies(own("wr", i), z3.And(b(stall[i, "aw"]), match(regions[j], held_addr(i, "aw")))) for i in range(nm)])))))))
    # ================================================ C08: routing and responses ===================================================
    SLVERR = K(0b10, 2)
    for dirn, chans in (("wr", ("aw", "w", "b")), ("rd", ("ar", "r"))):
        cnt, tgt, _ = ghosts[dirn]; g = grant[dirn]; R = b(resp[dirn])
        h.ensure(f"ens.{dirn}.grant-exists", ult(g, nm))
        # arbitration and slave selection never change while responses are outstanding
        h.ensure(f"ens.{dirn}.grant-lock", z3.Implies(NZ(cnt), h.n(GRANT[dirn]) == g))
        for c in chans:
            fwd = c in ("aw", "w", "ar"); noid = idw > 1 and c != "w" and full
            for j, s in enumerate(slaves):
                for i, m in enumerate(masters):
                    se, me = getattr(s, c), getattr(m, c)
                    if fwd:   # a request / W beat accepted by slave j comes from the bus owner, unchanged
                        h.ensure(f"ens.{dirn}.{c}.from-owner{j}.{i}" + ("@except-id" if noid else ""), z3.Implies(z3.And(fire(h, se), own(dirn, i)), z3.And(fire(h, me), A.tok(h, se, c, noid) == A.tok(h, me, c, noid))))
                    else:     # a response accepted from slave j goes to the bus owner, unchanged - the time-out never replaces or swallows a slave's response
                        ens_s(f"ens.{dirn}.{c}.to-owner{j}.{i}" + ("@except-id" if noid else ""), z3.Implies(z3.And(fire(h, se), own(dirn, i)), z3.And(fire(h, me), A.tok(h, me, c, noid) == A.tok(h, se, c, noid))))
                    if noid and i == 0 and j == 0 and fwd:
                        h.finding(f"finding.{dirn}.{c}.id-truncated", z3.Implies(z3.And(fire(h, se), own(dirn, i)), h.v(se.id) == h.v(me.id)), FULL.ID_WHAT)
            for i, m in enumerate(masters):
                me = getattr(m, c)
                h.ensure(f"ens.{dirn}.{c}.only-owner{i}", z3.Implies(z3.Not(own(dirn, i)), z3.Not(V(me.ready if fwd else me.valid))))
                # C11 "requests answered in time are not disturbed": unless the time-out is responding, every transfer at a master port is the transfer of exactly one slave port
                sf = [fire(h, getattr(s, c)) for s in slaves]
                h.ensure(f"ens.{dirn}.{c}.exactly-one-slave{i}@not-timed-out", z3.Implies(z3.And(fire(h, me), z3.Not(R)), z3.And(z3.AtMost(*sf, 1), z3.Or(*sf))))
            h.ensure(f"ens.{dirn}.{c}.one-slave", z3.AtMost(*[fire(h, getattr(s, c)) for s in slaves], 1))
        for j, s in enumerate(slaves):
            h.ensure(f"ens.{dirn}.sel-lock{j}", z3.Implies(z3.And(NZ(cnt), z3.Not(bit(tgt, j))),
                     z3.And(*[z3.Not(V(getattr(s, c).valid)) if c in ("aw", "w", "ar") else z3.Not(V(getattr(s, c).ready)) for c in chans])))
        # slave chosen by address (S1: nothing else of the owner is outstanding, so no scenario restriction on the target is needed)
        c = REQ[dirn]
        for i, m in enumerate(masters):
            for j, s in enumerate(slaves):
                ens_s(f"ens.{dirn}.by-address{j}.{i}", z3.Implies(z3.And(fire(h, getattr(s, c)), own(dirn, i)), match(regions[j], h.v(getattr(m, c).addr))))
    for i, m in enumerate(masters):
        for j, s in enumerate(slaves):     # the W beats of the pair reach the slave chosen by the address of their AW
            right = z3.If(b(done[i, "aw"]), bit(tgt_w, j), z3.And(V(m.aw.valid), match(regions[j], h.v(m.aw.addr))))
            ens_s(f"ens.wr.w.by-address{j}.{i}", z3.Implies(z3.And(fire(h, s.w), own("wr", i)), right))
    # ================================================ C11 through the interconnect ==================================================
    error = V(to.error)
    h.ensure("ens.error-pulse", error == z3.Or(det["wr"], det["rd"]))       # the pulse that feeds the SoC bus-error counter: exactly at a detection
    for dirn in ("wr", "rd"):
        R = b(resp[dirn]); c = REQ[dirn]
        for i, m in enumerate(masters):
            # while the time-out responds, the owner's request is absorbed and answered with SLVERR (all-ones data, last beat)
            if dirn == "wr":
                h.ensure(f"ens.wr.respond{i}", z3.Implies(z3.And(R, own("wr", i)), z3.And(h.v(m.aw.ready) == h.v(m.aw.valid), h.v(m.w.ready) == h.v(m.w.valid),
                         V(m.b.valid) == z3.And(z3.Not(V(m.aw.valid)), z3.Not(V(m.w.valid))), z3.Implies(V(m.b.valid), h.v(m.b.resp) == SLVERR))))
            else:
                h.ensure(f"ens.rd.respond{i}", z3.Implies(z3.And(R, own("rd", i)), z3.And(h.v(m.ar.ready) == h.v(m.ar.valid), V(m.r.valid) == z3.Not(V(m.ar.valid)),
                         z3.Implies(V(m.r.valid), z3.And(h.v(m.r.resp) == SLVERR, h.v(m.r.data) == K(2**h.v(m.r.data).size() - 1, h.v(m.r.data).size()), A.rlast(h, m))))))
            # the request that is absorbed reaches no slave (S3: the slave side that timed out is the one selected)
            ens_s(f"ens.{dirn}.absorbed-not-delivered{i}", z3.Implies(z3.And(R, own(dirn, i)), z3.And(*[z3.Not(fire(h, getattr(s, cc))) for s in slaves for cc in (("aw", "w", "b") if dirn == "wr" else ("ar", "r"))])))
            # exactly one response per request: a response at a master port answers a request this master has handed over completely
            if dirn == "wr": ens_s(f"ens.wr.b-answers-request{i}", z3.Implies(fire(h, m.b), z3.And(b(done[i, "aw"]), b(done[i, "w"]))))
            else: ens_s(f"ens.rd.r-answers-request{i}", z3.Implies(V(m.r.valid), b(done[i, "ar"])))
        # a stalled request of the owner is detected within T+1 cycles, whatever the slaves do; then answered within 3 cycles of a ready owner
        h.respond(f"resp.{dirn}.detect", z3.And(cond[dirn], z3.Not(R)), det[dirn], T + 1)
    # (AXI4: the rest of the burst being absorbed is its last beat - a burst of any length is absorbed beat by beat first)
    h.respond("resp.wr.term", z3.And(SC, o("wr", lambda m: z3.And(V(m.b.ready), z3.Or(b(done[masters.index(m), "w"]), z3.And(V(m.w.valid), A.wlast(h, m)))))), o("wr", lambda m: z3.And(fire(h, m.b), h.v(m.b.resp) == SLVERR)), 3, start=z3.And(CALM, b(resp["wr"])))
    h.respond("resp.rd.term", z3.And(SC, o("rd", lambda m: V(m.r.ready))), o("rd", lambda m: z3.And(fire(h, m.r), h.v(m.r.resp) == SLVERR)), 3, start=z3.And(CALM, b(resp["rd"])))
    # an unmapped address reaches no slave and is not accepted: it stalls, so the clauses above terminate it
    for dirn in ("wr", "rd"):
        c = REQ[dirn]; cnt = ghosts[dirn][0]
        for i, m in enumerate(masters):
            me = getattr(m, c); unm = z3.And(V(me.valid), own(dirn, i), cnt == K(0, CW), z3.Not(b(resp[dirn])), *[z3.Not(match(r, h.v(me.addr))) for r in regions])
            h.ensure(f"ens.{dirn}.unmapped-stalls{i}", z3.Implies(unm, z3.And(z3.Not(V(me.ready)), *[z3.Not(V(getattr(s, c).valid)) for s in slaves])))
    # after a time-out every master completes further requests normally: request counters / locks are released exactly when no master waits for a response ...
    for dirn, lk, c in (("wr", "wr_lock", "aw"), ("rd", "rd_lock", "ar")):
        idle = z3.And(*[z3.Not(b(done[i, c])) for i in range(nm)])
        regs = [getattr(arb, lk).counter] if hasattr(arb, lk) and hasattr(getattr(arb, lk), "counter") else []
        if locks is not None: regs.append(locks[{"wr": "write", "rd": "read"}[dirn]].counter)
        ens_s(f"ens.{dirn}.locks-released", z3.Implies(idle, z3.And(ghosts[dirn][0] == K(0, CW), *[h.v(r) == K(0, h.v(r).size()) for r in regs])))
        # ... and every master is then granted within 2 cycles (from ANY reachable state, in particular after any number of time-outs)
        chs = ("aw", "w") if dirn == "wr" else ("ar",)
        for i, m in enumerate(masters):
            others_idle = z3.And(*[z3.Not(V(getattr(om, cc).valid)) for k, om in enumerate(masters) if k != i for cc in chs])
            no_rsp = z3.And(*[z3.Not(V(getattr(s, RSP[dirn]).valid)) for s in slaves])
            h.respond(f"resp.{dirn}.serve{i}", z3.And(SC, V(getattr(m, c).valid), others_idle, idle, z3.Not(b(resp[dirn])), no_rsp), own(dirn, i), 2, start=CALM)
    # ================================================ findings (scenario S is not a convenience) ====================================
    il = nm - 1; ml = masters[il]
    if findings:
        h.finding("finding.wr.b-to-owner@several-outstanding", z3.Implies(scen("S2a", "S2b", "S3"), z3.And(*[z3.Implies(z3.And(fire(h, s.b), own("wr", il)), z3.And(fire(h, ml.b), h.v(ml.b.resp) == h.v(s.b.resp))) for s in slaves])),
                  f"{A.TO} on the shared bus with several requests outstanding (legal): a later AW that stalls is timed out while the slave still owes B for an earlier write; while the time-out responds the slave's B is "
                  "swallowed or replaced by the synthesised SLVERR (b.valid/b.resp are overridden, b.ready still reaches the slave): one response is lost, the request counters of arbiter and decoder never return to 0 and the write grant stays locked")
    if findings: h.finding("finding.wr.b-answers-request@w-after-aw-pause", z3.Implies(scen("S1", "S2a", "S3"), z3.Implies(fire(h, ml.b), z3.And(b(done[il, "aw"]), b(done[il, "w"])))),
              f"{A.TO} sends the synthesised B as soon as neither AW nor W is offered (b.valid = ~aw.valid & ~w.valid), not after both were received: a master whose W follows its AW by a cycle (or whose W precedes its AW, or that pauses "
              "inside a burst) gets the SLVERR B before it has handed over the write; the rest then stalls again and is timed out a second time (two B for one write)")
    if findings: h.finding("finding.rd.r-answers-request@slave-accepts-while-absorbed", z3.Implies(scen("S1", "S2a", "S2b"), z3.Implies(V(ml.r.valid), b(done[il, "ar"]))),
              f"{A.TO} overrides ar.ready/r.valid of the shared bus but the decoder still presents ar.valid to the selected slave: a slow slave that accepts the AR in the cycle it is absorbed answers it later, "
              "and that R is delivered as an unsolicited (or, for the next read, wrong) response")
    # ================================================ covers ========================================================================
    seen = h.ghost("seen_error", 1); h.ghost_next(seen, bv1(z3.Or(b(seen), error)))
    h.cover("cover.wr.time-out.answered", z3.And(SC, b(resp["wr"]), fire(h, ml.b), h.v(ml.b.resp) == SLVERR), depth=T + 5)
    h.cover("cover.rd.time-out.unmapped", z3.And(SC, det["rd"], *[z3.Not(match(r, o("rd", lambda m: h.v(m.ar.addr)))) for r in regions]), depth=T + 3)
    h.cover("cover.recovered.other-master-write", z3.And(SC, b(seen), fire(h, masters[0].b), fire(h, slaves[-1].b), z3.Not(b(resp["wr"]))), depth=T + 8)
    h.bmc_depth = T + 8; h.bmc_time = 30
    # the clauses that come with a short witness when the time-out / lock machinery is broken are decided first (a broken variant must be rejected with a
    # VIOLATION within the case's time limit, not leave the case undecided after many fruitless witness searches)
    first = [k for k in h.ensures if any(t in k for t in ("locks-released", ".respond", "error-pulse", "answers-request", "unmapped-stalls", "only-owner"))]
    h.ensures = {**{k: h.ensures[k] for k in first}, **{k: v for k, v in h.ensures.items() if k not in first}}
    h.use_auto = False
    h.functions = [f"litex.soc.interconnect.axi.{A.mod}.{A.name}.__init__ (timeout_cycles given)", f"litex.soc.interconnect.axi.{A.mod}.{A.TO}.__init__",
                   f"litex.soc.interconnect.axi.{A.mod}.{'AXIArbiter' if full else 'AXILiteArbiter'}.__init__", f"litex.soc.interconnect.axi.{A.mod}.{'AXIDecoder' if full else 'AXILiteDecoder'}.__init__",
                   "litex.gen.genlib.misc.WaitTimer.__init__"]
    return h

def c_axil_xbar_timeout(nm, ns, T):
    """C11 on the crossbar: AXILiteCrossbar takes timeout_cycles but builds no time-out (as wishbone.Crossbar, listed): a read of a silent slave is never answered"""
    masters = [mkl() for _ in range(nm)]; slaves = [mkl() for _ in range(ns)]; regions = LITE.regions_for(ns)
    d = mk(AXILiteCrossbar, masters, [(r.decoder(LITE.Bus), s) for r, s in zip(regions, slaves)], False, T)
    ins = []
    for m in masters: ins += master_side_inputs(m)
    for s in slaves: ins += slave_side_inputs(s)
    h = HwCheck(f"AXILiteCrossbar({nm}x{ns},timeout={T})", d, ins)
    for i, m in enumerate(masters):
        for ch in ("aw", "w", "ar"): src_env(h, getattr(m, ch), f"m{i}{ch}")
    m = masters[0]; LIM = T + 4 + 2 * nm; GW = LIM.bit_length() + 1
    w = h.ghost("ar_waiting", GW); stalled = z3.And(b(h.v(m.ar.valid)), z3.Not(b(h.v(m.ar.ready))))
    h.ghost_next(w, z3.If(stalled, z3.If(uge(w, LIM), w, w + 1), K(0, GW)))
    h.finding("finding.crossbar-no-timeout", ult(w, LIM), "AXILiteCrossbar accepts timeout_cycles but instantiates no AXILiteTimeout: a request to a silent slave (or an unmapped address) waits for ever")
    h.cover("cover.ar-stalled", stalled, depth=2)
    h.bmc_depth = LIM + 2
    h.functions = ["litex.soc.interconnect.axi.axi_lite.AXILiteCrossbar.__init__ (timeout_cycles ignored)"]
    return h

def cases_for(prop, tier):
    """C08: AXILiteCrossbar (routing / exactly-once / served);  C11: every interconnect built WITH a time-out (AXI-Lite / AXI4 shared, AXILiteCrossbar with
    timeout_cycles, wishbone shared);  C06: wishbone Crossbar(register=True) read data"""
    cs = []
    LIM = 1500     # wall-clock limit of a case: < 60 s on the unchanged tree; a broken variant needs one witness search per failing clause
    if prop == "C08":
        cs += [Case(f"AXILiteCrossbar({nm}x{ns})", c_axil_xbar, nm, ns) for nm, ns in ((2, 2), (2, 3), (3, 2))]
        if tier == "thorough": cs += [Case(f"AXILiteCrossbar({nm}x{ns})", c_axil_xbar, nm, ns) for nm, ns in ((3, 3), (1, 3), (3, 1))]
        # the shared interconnects in their time-out configuration are C08 objects too (routing, locking, exactly-once, every master served): the two
        # cases without finding clauses are registered under both properties
        cs += [Case("AXILiteInterconnectShared(3x2,timeout=8,no-finding-clauses)", c_axi_shared_to, "lite", 3, 2, 8, 1, False, timeout=LIM),
               Case("AXIInterconnectShared(2x3,timeout=8,id_width=1,no-finding-clauses)", c_axi_shared_to, "full", 2, 3, 8, 1, False, timeout=LIM)]
    if prop == "C11":
        cs.append(Case("AXILiteCrossbar(2x2,timeout=4)", c_axil_xbar_timeout, 2, 2, 4))
        cs += [Case("AXILiteInterconnectShared(2x2,timeout=4)", c_axi_shared_to, "lite", 2, 2, 4, timeout=LIM),
               Case("AXILiteInterconnectShared(3x2,timeout=8,no-finding-clauses)", c_axi_shared_to, "lite", 3, 2, 8, 1, False, timeout=LIM),
               Case("AXIInterconnectShared(2x2,timeout=4,id_width=2)", c_axi_shared_to, "full", 2, 2, 4, 2, timeout=LIM),
               Case("AXIInterconnectShared(2x3,timeout=8,id_width=1,no-finding-clauses)", c_axi_shared_to, "full", 2, 3, 8, 1, False, timeout=LIM)]
        for nm, ns, register, rset, T in ((2, 2, False, "A", 4), (2, 3, True, "B", 3), (3, 2, False, "C", 8), (1, 2, True, "A", 1), (3, 3, True, "C", 4)):
            cs.append(Case(f"wishbone.shared({nm}x{ns},register={register},regions={rset},timeout={T})", c_wb_shared_to, nm, ns, register, rset, T))
        if tier == "thorough":
            cs += [Case("AXILiteInterconnectShared(3x3,timeout=8)", c_axi_shared_to, "lite", 3, 3, 8, timeout=LIM), Case("AXILiteInterconnectShared(1x2,timeout=1)", c_axi_shared_to, "lite", 1, 2, 1, timeout=LIM),
                   Case("AXIInterconnectShared(2x2,timeout=8,id_width=2)", c_axi_shared_to, "full", 2, 2, 8, 2, timeout=LIM), Case("AXIInterconnectShared(3x2,timeout=4,id_width=1)", c_axi_shared_to, "full", 3, 2, 4, 1, timeout=LIM),
                   Case("wishbone.shared(3x3,register=False,regions=B,timeout=16)", c_wb_shared_to, 3, 3, False, "B", 16)]
    if prop == "C06":
        for k, (nm, ns) in enumerate(((2, 2), (2, 3), (3, 2), (1, 3), (3, 3))):
            cs.append(Case(f"crossbar({nm}x{ns},register=True,regions={'ABC'[k % 3]}).data", c_wb_xbar_data, nm, ns, True, "ABC"[k % 3]))
        if tier == "thorough": cs.append(Case("crossbar(2x3,register=False,regions=B).data", c_wb_xbar_data, 2, 3, False, "B"))
    return cs

def cases(tier):
    import os
    if os.environ.get("VERIF_MODULE"): return cases_for("C08", tier) + cases_for("C11", tier) + cases_for("C06", tier)      # dev mode: everything
    return cases_for("C08", tier)

ASSUMPTIONS = ["AXI4-Lite / AXI4-legal partners as stated per case (valid/payload/last stable until ready; a slave answers only requests it has received at its own port; B only after AW and the last W beat); "
               "fewer than 200 requests outstanding per direction",
               "AXILiteCrossbar: slave chosen by address under the decoder's two listed scenario restrictions (no request to another slave while responses are outstanding; W not before its AW); "
               "'every master is served' is decided as bounded response (nothing outstanding at the slave, nobody else aiming at it)",
               "shared AXI(-Lite) interconnect with time-out: the response, by-address, exactly-once and recovery clauses carry the " + SCEN + "; each part is shown necessary by a finding clause with a natively "
               "replayed witness (tools/replay_axi_shared_timeout.py); the clauses without @S hold for every legal schedule",
               "AXI4 cases use the geometry of C08_axi_full_ic.py (12-bit addresses, 16-bit data; id_width 1 or 2) so that its ghosts/clauses are reused unchanged; with id_width=2 everything except the ID is proved (listed finding)",
               "wishbone shared interconnect with time-out: Wishbone-classic masters (request held until ack or err) and slaves that answer only a presented cyc&stb; the termination/transparency clauses carry the scenario "
               "'no ERR termination while the timer runs' (finding: wishbone.Timeout ignores err, tools/replay_wb_timeout_err.py); register=True read data for requests pending since the previous cycle (first-cycle ack = listed finding)"]
