"""C18: ECC SECDED corrects every single-bit error and flags every double-bit error.
The real ECCEncoder(k)/ECCDecoder(k) are elaborated (this runs the real compute_m_n/compute_*_positions), composed with a
symbolic error vector; obligations are discharged for all data words and all (symbolic) flip positions."""
import z3
from vf.elab import L, locals_of, mk
from vf.hw import *
from migen import *
from litex.gen import LiteXModule
from litex.soc.cores import ecc
from vf.core import Case

def c_ecc(k):
    class Top(LiteXModule):
        def __init__(self):
            self.enc = ecc.ECCEncoder(k); self.dec = ecc.ECCDecoder(k)
            self.err = Signal(len(self.enc.o))
            self.comb += self.dec.i.eq(self.enc.o ^ self.err)
    d = mk(Top); n1 = len(d.enc.o)
    h = HwCheck(f"ECC(k={k})", d, [d.enc.i, d.err, d.dec.enable])
    h.solver_order = ("z3old", "api", "cvc5") if k > 8 else ("api", "z3old", "cvc5")
    h.timeout_ms = 120000 if k > 40 else 40000
    h.cosim_cycles = 8
    err = h.v(d.err); en = b(h.v(d.dec.enable)); data = h.v(d.enc.i); out = h.v(d.dec.o); sec = b(h.v(d.dec.sec)); ded = b(h.v(d.dec.ded))
    PW = max(2, n1.bit_length() + 1)
    p = h.const("p", PW); q = h.const("q", PW)
    one = z3.BitVecVal(1, n1)
    def bit(x): return one << (zx(x, n1) if PW <= n1 else z3.Extract(n1 - 1, 0, x))
    h.ensure("ens.noerror", z3.Implies(z3.And(en, err == 0), z3.And(out == data, z3.Not(sec), z3.Not(ded))))
    h.ensure("ens.single", z3.Implies(z3.And(en, ult(p, n1), err == bit(p)), z3.And(out == data, z3.Not(ded), sec == (p != 0))))
    h.ensure("ens.double", z3.Implies(z3.And(en, z3.ULT(p, q), ult(q, n1), err == (bit(p) | bit(q))), z3.And(ded, z3.Not(sec))))
    h.cover("cover.single", z3.And(en, ult(p, n1), p != 0, err == bit(p), sec), depth=0)
    h.cover("cover.double", z3.And(en, z3.ULT(p, q), ult(q, n1), err == (bit(p) | bit(q)), ded), depth=0)
    # checking disabled: the data bits of the received word pass through unchanged, no flags
    m, n = ecc.compute_m_n(k)
    dpos = ecc.compute_data_positions(n)                     # real geometry function
    rx = h.v(d.dec.i)
    passthrough = cat(*[z3.Extract(pz, pz, rx) for pz in reversed(dpos)])       # codeword bit at position d is input bit d (bit 0 = overall parity)
    h.ensure("ens.disabled", z3.Implies(z3.Not(en), z3.And(out == passthrough, z3.Not(sec), z3.Not(ded))))
    # encoder places the data bits (systematic) - ties `passthrough` to the encoder's data
    tx = h.v(d.enc.o)
    h.ensure("ens.systematic", cat(*[z3.Extract(pz, pz, tx) for pz in reversed(dpos)]) == data)
    h.functions = ["litex.soc.cores.ecc.ECCEncoder.__init__", "litex.soc.cores.ecc.ECCDecoder.__init__", "litex.soc.cores.ecc.SECDED.place_data/extract_data/compute_syndrome/place_syndrome/compute_parity",
                   "litex.soc.cores.ecc.compute_m_n", "litex.soc.cores.ecc.compute_syndrome_positions", "litex.soc.cores.ecc.compute_data_positions", "litex.soc.cores.ecc.compute_cover_positions"]
    return h

def c_geometry(kmax):
    """compute_m_n returns the minimal m with 2^m >= m+k+1 (finite domain, evaluated exhaustively on the real function);
    positions are a partition of 1..n into powers of two and the rest"""
    out = []
    bad = []
    for k in range(1, kmax + 1):
        m, n = ecc.compute_m_n(k)
        ok = n == m + k and 2**m >= m + k + 1 and (m == 1 or 2**(m - 1) < (m - 1) + k + 1)
        sp = ecc.compute_syndrome_positions(n); dp = ecc.compute_data_positions(n)
        ok = ok and sorted(sp + dp) == list(range(1, n + 1)) and all(x & (x - 1) == 0 for x in sp) and len(dp) == k and len(sp) == m
        for i, pz in enumerate(sp):
            cov = ecc.compute_cover_positions(n, pz)
            ok = ok and cov == [x for x in range(1, n + 1) if x & pz]
        if not ok: bad.append(k)
    out.append(res(f"ens.geometry[k=1..{kmax}]", "ensures", PROVED if not bad else VIOLATED, 0, "exhaustive evaluation of the real functions over the finite domain", info=f"bad k: {bad}" if bad else ""))
    return dict(results=out, functions=["litex.soc.cores.ecc.compute_m_n", "litex.soc.cores.ecc.compute_cover_positions"])

def cases(tier):
    ks = list(range(1, 17)) + [26, 32, 57, 64, 120, 128] if tier == "quick" else list(range(1, 129))
    cs = [Case(f"ECC(k={k})", c_ecc, k, timeout=1200) for k in ks]
    cs.append(Case("geometry", c_geometry, 128))
    return cs

ASSUMPTIONS = ["data widths from the grid (quick: 1-16, 26, 32, 57, 64, 120, 128; thorough: 1-128); all data words and all flip positions symbolic"]
