"""C19 (UART class): data path and status registers of litex.soc.cores.uart.UART composed with the real RS232 PHY, behind a real csr_bus.CSRBank.
TX  : ghost queue of the bytes software wrote to rxtx while txfull was 0; the frames on the tx pad are exactly the queue's bytes in order, one well-formed
      frame per byte (start, d0..d7 LSB first, stop; one bit per accumulator carry, stated as exact accumulator arithmetic), the byte leaves the queue
      exactly at the end of its stop bit; a write while txfull is 1 is not accepted; status registers == occupancy facts; bounded response.
RX  : ghost queue of the bytes delivered by the real RS232PHYRX (arbitrary line); software reads them from rxtx in order, each exactly once (pop on the
      rx event acknowledge, or on the rxtx read when rx_fifo_rx_we); a byte delivered while the RX FIFO is full is dropped (silent overrun) and nothing else changes.
LOOP: tx pad wired to rx pad: every frame sent is received exactly once with the byte written (=> byte written is the byte read), bounded response."""
import z3
from vf.elab import L, locals_of, mk
from vf.hw import *
from migen import *
from litex.gen import LiteXModule
from litex.soc.cores.uart import UART, RS232PHY, RS232PHYTX
from litex.soc.interconnect import stream
from litex.soc.interconnect import csr_bus
from contracts.C15_periph_events import ghost_queue, buffered_fifo_hints, _sel, _bus_inputs
from vf.core import Case

BIT = 1 << 32

class _Pads:
    def __init__(self): self.tx = Signal(name="pad_tx"); self.rx = Signal(name="pad_rx")

class _StubRXPHY(LiteXModule):
    """real transmitter, receiver replaced by a free stream source (valid/data are environment inputs; ready is ignored like RS232PHYRX does)"""
    def __init__(self, pads, tw):
        self.tx = RS232PHYTX(pads, tw); self.sink = self.tx.sink
        self.source = stream.Endpoint([("data", 8)])

def _top(tw, tx_depth, rx_depth, rx_we, loop=False, stub_rx=False, dynamic=False):
    """UART + RS232PHY (constant tuning word `tw`: clk_freq = 2^32, baudrate = tw; dynamic: tuning word in a CSRStorage with reset value tw) + CSRBank at page 0"""
    pads = _Pads()
    class Top(LiteXModule):
        def __init__(self):
            self.phy = _StubRXPHY(pads, tw) if stub_rx else RS232PHY(pads, float(BIT), float(tw), with_dynamic_baudrate=dynamic)
            self.c = UART(self.phy, tx_fifo_depth=tx_depth, rx_fifo_depth=rx_depth, rx_fifo_rx_we=rx_we)
            self.bus = csr_bus.Interface(data_width=32, address_width=14)
            self.bank = csr_bus.CSRBank(self.c.get_csrs() + (self.phy.get_csrs() if dynamic else []), address=0, bus=self.bus)
            if loop: self.comb += pads.rx.eq(pads.tx)
    d = mk(Top)
    assert int((float(tw) / float(BIT)) * 2**32) == tw
    return d, pads

def _period(tw):
    """longest distance between two accumulator carries, in cycles"""
    return -(-BIT // tw)

def _fifo_regs(sf):
    lf = locals_of(sf.fifo.fifo)
    return sf.fifo.readable, sf.fifo.fifo.level, lf.get("produce"), lf.get("consume"), lf.get("storage")

def _status_clauses(h, d, u, nm, fifo, depth, qlen, p_push, full_csr, empty_csr):
    """status registers == occupancy facts of the ghost queue (capacity of the buffered FIFO = depth + 1), and their read-back over the bus"""
    X = h.v; cap = depth + 1
    rd, level, produce, consume, storage = _fifo_regs(fifo)
    LW = qlen.size()
    h.hint(f"{nm}.lat", z3.Implies(z3.And(z3.Not(b(X(rd))), X(level) != K(0, X(level).size())), z3.And(eqc(X(level), 1), b(p_push))))   # a word waits in the RAM behind an empty output register only in the cycle after its push
    h.hint(f"{nm}.rd0", z3.Implies(z3.Not(b(X(rd))), ule(X(level), 1)))
    h.hint(f"{nm}.pushed", z3.Implies(b(p_push), X(level) != K(0, X(level).size())))
    full = b(X(full_csr.status)); empty = b(X(empty_csr.status))
    h.ensure(f"ens.{nm}full",  full == (qlen == K(cap, LW)))                                         # full <=> depth+1 bytes queued
    h.ensure(f"ens.{nm}empty", empty == z3.Or(qlen == K(0, LW), z3.And(qlen == K(1, LW), b(p_push))))  # empty <=> nothing queued; exception: the single cycle after a byte entered the empty FIFO (output register latency)
    h.ensure(f"ens.{nm}empty.sound", z3.Implies(qlen == K(0, LW), empty))
    for csr in (full_csr, empty_csr):
        h.ensure(f"ens.swread.{csr.name}", z3.Implies(_sel(h, d, csr, d.bus.re), h.n(d.bus.dat_r) == zx(X(csr.status), 32)))
    return full, empty

# ------------------------------------------------------------------------------------------------ TX direction
def _tx_contract(h, d, pads, tw, tx_depth, respond=True, tw_sig=None):
    """tw: the constant tuning word (or the reset value of the tuning word register tw_sig when the baud rate is programmable)"""
    X = h.v; u = d.c; tx = d.phy.tx; txf = u.tx_fifo
    TW32 = K(tw, 32) if tw_sig is None else X(tw_sig); TW40 = zx(TW32, 40)
    st, enc = tx.fsm.state, tx.fsm.encoding
    idle = eqc(X(st), enc["IDLE"]); run = eqc(X(st), enc["RUN"]); n_run = eqc(h.n(st), enc["RUN"]); n_idle = eqc(h.n(st), enc["IDLE"])
    count, data = L(tx, "count"), L(tx, "data"); tick = tx.clk_phase_accum.tick; phase = L(tx.clk_phase_accum, "phase")
    tk = b(X(tick)); one, zero = K(1, 1), K(0, 1)
    cap = tx_depth + 1
    # ---- specification state: queue of the bytes software wrote while txfull was 0; popped when the PHY acknowledges (end of the stop bit)
    wr_rxtx = _sel(h, d, u._rxtx, d.bus.we)
    txfull = b(X(u._txfull.status))
    sw_push = z3.And(wr_rxtx, z3.Not(txfull))
    tx_pop = z3.And(b(X(tx.sink.valid)), b(X(tx.sink.ready)))
    ql, q, plen = ghost_queue(h, "tx", sw_push, z3.Extract(7, 0, X(d.bus.dat_w)), tx_pop, cap)
    buffered_fifo_hints(h, "tx", txf, tx_depth, ql, q)
    LW = ql.size()
    p_push = h.prev("txpush", bv1(sw_push))
    _status_clauses(h, d, u, "tx", txf, tx_depth, ql, p_push, u._txfull, u._txempty)
    # ---- frame position: number of accumulator carries seen in this frame; elapsed phase (exact arithmetic of the bit clock)
    nt = h.ghost("nticks", 4); acc = h.ghost("acc", 40, init=tw)
    h.ghost_next(nt, z3.If(idle, K(0, 4), z3.If(z3.And(run, tk), nt + 1, nt)))
    h.ghost_next(acc, z3.If(run, acc + TW40, TW40))                  # tuning word * (cycles spent in RUN + 1); programmable: sum of the tuning words of those cycles
    frame = z3.Concat(one, q[0], zero)                                # bit 0 = start, 1..8 = data LSB first, 9 = stop: of the HEAD of the queue
    def fbit(i): return z3.Extract(i, i, frame)
    spec_tx = fbit(9)
    for i in reversed(range(9)): spec_tx = z3.If(nt == K(i, 4), fbit(i), spec_tx)
    h.hint("tx.st", ult(X(st), 2)); h.hint("tx.nt<=9", z3.Implies(run, ule(nt, 9)))
    h.hint("tx.cnt", z3.Implies(run, X(count) == nt))
    h.hint("tx.run.q", z3.Implies(run, z3.And(ql != K(0, LW), b(X(txf.fifo.readable)))))
    h.hint("tx.shift", z3.Implies(run, X(data) == z3.Extract(7, 0, z3.LShR(z3.Concat(K(0x3FF, 10), q[0]), zx(nt, 18)))))
    h.hint("tx.line", z3.Implies(run, X(pads.tx) == spec_tx))
    h.hint("tx.line_idle", z3.Implies(idle, X(pads.tx) == one))
    h.hint("tx.acc", z3.Implies(run, z3.And(z3.Extract(31, 0, acc) == X(phase), z3.Extract(39, 32, acc) == zx(nt, 8) + zx(X(tick), 8))))
    if tw_sig is None: h.hint("tx.tickphase", z3.Implies(z3.And(run, tk), z3.ULT(X(phase), K(tw, 32))))
    # ---- postconditions
    # software side: a write to rxtx is accepted exactly when txfull is 0 (one byte enters the FIFO: the low 8 bits written); while txfull is 1 it has no effect
    fifo_push = z3.And(b(X(txf.sink.valid)), b(X(txf.sink.ready)))
    h.ensure("ens.tx.accept", z3.And(fifo_push == sw_push, z3.Implies(fifo_push, X(txf.sink.data) == z3.Extract(7, 0, X(d.bus.dat_w)))))
    rd, level, produce, consume, storage = _fifo_regs(txf)
    mem = h.ts.mems[storage]
    h.ensure("ens.tx.write-while-full-ignored", z3.Implies(z3.And(wr_rxtx, txfull), z3.And(h.n(produce) == X(produce), *[h.n(c) == X(c) for c in mem])))   # the FIFO does not accept it: write pointer and every stored word unchanged
    h.ensure("ens.tx.nodrop", z3.Implies(sw_push, ule(plen, cap - 1)))                                   # accepted only when there is room (the ghost has one slack slot)
    # wire side: frames are exactly the queue's bytes in order, one frame per byte
    h.ensure("ens.tx.frame-start", z3.Implies(idle, z3.And(n_run == z3.And(ql != K(0, LW), z3.Not(b(X(u._txempty.status)))), z3.Implies(n_run, X(tx.sink.data) == q[0]))))   # a frame starts only for the head of a non-empty queue
    h.ensure("ens.tx.line", z3.Implies(run, z3.And(ql != K(0, LW), X(pads.tx) == spec_tx)))             # during the frame: start, d0..d7 LSB first, stop of the queue head - one bit per accumulator carry
    h.ensure("ens.tx.idle-high", z3.Implies(idle, X(pads.tx) == one))
    h.ensure("ens.tx.pop", tx_pop == z3.And(run, tk, nt == K(9, 4)))                                      # the head leaves the queue exactly once, at the end of its stop bit ...
    h.ensure("ens.tx.done", z3.Implies(run, n_idle == z3.And(tk, nt == K(9, 4))))                        # ... when the transmitter returns to idle, and not earlier
    h.ensure("ens.tx.head-stable", z3.Implies(z3.And(run, z3.Not(tx_pop)), h.primed(q[0]) == q[0]))      # writes during a frame never alter the byte in flight
    # bit period: the number of bit boundaries passed (including the one of this cycle) is floor(tw * (cycles in RUN + 1) / 2^32)
    h.ensure("ens.tx.bit-period", z3.Implies(run, z3.Extract(39, 32, acc) == zx(nt, 8) + zx(X(tick), 8)))
    h.ensure("ens.tx.accum-enabled", b(X(tx.clk_phase_accum.enable)) == run)
    h.ensure("ens.tx.idle-phase", z3.Implies(idle, z3.And(h.n(phase) == TW32, h.n(tick) == zero)))       # every frame starts with the same phase (one tuning word)
    # never stuck: elapsed phase grows by tw per RUN cycle and the frame ends when it reaches 10 bit periods
    h.ensure("ens.tx.progress", z3.Implies(run, z3.And(h.primed(acc) == acc + TW40, z3.ULT(acc, K(10 * BIT + tw if tw_sig is None else 11 * BIT, 40)))))
    h.ensure("ens.tx.bound", z3.Implies(z3.And(run, z3.UGE(acc, K(10 * BIT, 40))), tx_pop))
    if respond:
        T = _period(tw); assert tw_sig is None
        h.respond("resp.tx.start", z3.BoolVal(True), run, 3, start=ql != K(0, LW))                        # a queued byte's frame is on the wire within 3 cycles (FIFO latency 2 + PHY 1)
        h.respond("resp.tx.complete", z3.BoolVal(True), tx_pop, 10 * T + 1, start=run)                    # and completes within 10 bit periods
    return dict(ql=ql, q=q, nt=nt, run=run, idle=idle, tx_pop=tx_pop, sw_push=sw_push, wr_rxtx=wr_rxtx, txfull=txfull, tk=tk, acc=acc)

def c_uart_tx(tw=BIT // 4, tx_depth=2, respond=True, deep="frame"):
    """deep: False | "frame" (covers: complete frame, start of the second frame) | "b2b" (also: the second frame completes)"""
    d, pads = _top(tw, tx_depth, 2, False)
    h = HwCheck(f"UART+RS232PHY.tx(tw=2^32/{BIT / tw:.2f},tx{tx_depth})", d, _bus_inputs(d) + [pads.rx])
    g = _tx_contract(h, d, pads, tw, tx_depth, respond)
    X = h.v; ql, q, nt, run, idle = g["ql"], g["q"], g["nt"], g["run"], g["idle"]
    LW = ql.size(); T = _period(tw)
    h.cover("cover.tx.full-write", z3.And(g["wr_rxtx"], g["txfull"]), depth=tx_depth + 6)                     # a write while txfull
    h.cover("cover.tx.data-bit", z3.And(run, nt == K(2, 4), q[0] == K(0xA6, 8), X(pads.tx) == K(1, 1)), depth=3 * T + 6)
    if deep:
        # pinned schedule (write 0xA5 then 0x3C in the first two cycles) so that the deep search is propagation only
        w0 = h.ghost("w0", 1); w1 = h.ghost("w1", 1); age = h.ghost("age", 2)
        h.ghost_next(age, z3.If(age == K(3, 2), age, age + 1))
        wr = lambda val: bv1(z3.And(g["wr_rxtx"], z3.Extract(7, 0, X(d.bus.dat_w)) == K(val, 8)))
        h.ghost_next(w0, z3.If(age == K(0, 2), wr(0xA5), w0)); h.ghost_next(w1, z3.If(age == K(1, 2), wr(0x3C), w1))
        nw = h.ghost("nowrite", 1, init=1); h.ghost_next(nw, z3.If(z3.And(uge(age, 2), g["wr_rxtx"]), K(0, 1), nw))
        pinned = z3.And(b(w0), b(w1), b(nw))
        h.cover("cover.tx.frame", z3.And(g["tx_pop"], q[0] == K(0xA5, 8), pinned), depth=10 * T + 8)
        h.cover("cover.tx.second-frame", z3.And(run, nt == K(1, 4), q[0] == K(0x3C, 8), ql == K(1, LW), pinned), depth=12 * T + 10)   # the second byte follows after one idle cycle
        if deep == "b2b": h.cover("cover.tx.back-to-back", z3.And(g["tx_pop"], q[0] == K(0x3C, 8), pinned), depth=20 * T + 12)
        h.bmc_time = 600
    h.bmc_depth = 10 * T + 8
    h.cosim_cycles = 20
    h.functions = ["litex.soc.cores.uart.UART.__init__ (TX path, txfull/txempty)", "litex.soc.cores.uart.RS232PHY.__init__", "litex.soc.cores.uart.RS232PHYTX.__init__",
                   "litex.soc.cores.uart.RS232ClkPhaseAccum.__init__", "litex.soc.cores.uart._get_uart_fifo", "litex.soc.interconnect.stream.SyncFIFO.__init__ (buffered)",
                   "litex.soc.interconnect.csr_bus.CSRBank (flattened)"]
    return h

def c_uart_tx_dynamic(tx_depth=2):
    """RS232PHY(with_dynamic_baudrate=True): the tuning word is a 32-bit CSRStorage in the same bank that software may rewrite at any time, also in the
    middle of a frame.  Same TX contract with the bit clock stated over the register: the number of bit boundaries passed is the carry count of the sum of the
    tuning words of the RUN cycles; every 32-bit value (including 0: the bit clock stops) is covered."""
    tw0 = BIT // 4
    d, pads = _top(tw0, tx_depth, 2, False, dynamic=True)
    twr = d.phy._tuning_word
    h = HwCheck(f"UART+RS232PHY.tx(programmable tuning word,tx{tx_depth})", d, _bus_inputs(d) + [pads.rx])
    g = _tx_contract(h, d, pads, tw0, tx_depth, respond=False, tw_sig=twr.storage)
    X = h.v; ql, q, nt, run = g["ql"], g["q"], g["nt"], g["run"]
    h.ensure("ens.tw.program", z3.Implies(_sel(h, d, twr, d.bus.we), h.n(twr.storage) == X(d.bus.dat_w)))                 # software programs the bit period
    h.ensure("ens.tw.hold", z3.Implies(z3.Not(_sel(h, d, twr, d.bus.we)), h.n(twr.storage) == X(twr.storage)))
    h.respond("resp.tx.start", z3.BoolVal(True), run, 3, start=ql != K(0, ql.size()))
    chg = h.ghost("tw_changed_in_frame", 1); h.ghost_next(chg, z3.If(run, z3.If(h.n(twr.storage) != X(twr.storage), K(1, 1), chg), K(0, 1)))
    h.cover("cover.tx.retune-mid-frame", z3.And(run, b(chg), nt == K(3, 4), X(twr.storage) == K(BIT // 2, 32)), depth=16)
    h.cover("cover.tx.full-write", z3.And(g["wr_rxtx"], g["txfull"]), depth=tx_depth + 6)
    h.bmc_depth = 48; h.cosim_cycles = 20
    h.functions = ["litex.soc.cores.uart.UART.__init__ (TX path, txfull/txempty)", "litex.soc.cores.uart.RS232PHY.__init__ (with_dynamic_baudrate)", "litex.soc.cores.uart.RS232PHYTX.__init__",
                   "litex.soc.cores.uart.RS232ClkPhaseAccum.__init__", "litex.soc.cores.uart._get_uart_fifo", "litex.soc.interconnect.stream.SyncFIFO.__init__ (buffered)",
                   "litex.soc.interconnect.csr_bus.CSRBank (flattened)"]
    return h

# ------------------------------------------------------------------------------------------------ RX direction
def _rx_contract(h, d, src, rx_depth, rx_we):
    """src: the PHY's source endpoint (RS232PHYRX.source: one-cycle valid pulses, ready ignored)"""
    X = h.v; u = d.c; rxf = u.rx_fifo; ev = u.ev
    cap = rx_depth + 1
    phy_valid = b(X(src.valid))
    rxfull = b(X(u._rxfull.status)); rxempty = b(X(u._rxempty.status))
    # ---- specification state: queue of the bytes the PHY delivered while the FIFO had room; popped by software
    accept = z3.And(phy_valid, z3.Not(rxfull))
    rx_pop = z3.And(b(X(rxf.source.valid)), b(X(rxf.source.ready)))
    ql, q, plen = ghost_queue(h, "rx", accept, X(src.data), rx_pop, cap)
    buffered_fifo_hints(h, "rx", rxf, rx_depth, ql, q)
    LW = ql.size()
    p_push = h.prev("rxpush", bv1(accept))
    _status_clauses(h, d, u, "rx", rxf, rx_depth, ql, p_push, u._rxfull, u._rxempty)
    # software's pop commands: acknowledge of the rx event (write of 1 to bit 1 of ev_pending, effective one cycle after the bus write) and,
    # with rx_fifo_rx_we, a bus read of rxtx (effective in the cycle of the read)
    wr_ack = z3.And(_sel(h, d, ev.pending, d.bus.we), z3.Extract(1, 1, X(d.bus.dat_w)) == K(1, 1))
    p_ack = h.prev("rxack", bv1(wr_ack))
    h.hint("rx.ack", (X(ev.pending.re) & z3.Extract(1, 1, X(ev.pending.r))) == p_ack)
    rd_rxtx = _sel(h, d, u._rxtx, d.bus.re)
    pop_cmd = z3.Or(b(p_ack), rd_rxtx) if rx_we else b(p_ack)
    # ---- postconditions
    fifo_push = z3.And(b(X(rxf.sink.valid)), b(X(rxf.sink.ready)))
    h.ensure("ens.rx.accept", z3.And(fifo_push == accept, z3.Implies(fifo_push, X(rxf.sink.data) == X(src.data))))     # a delivered byte enters the FIFO iff rxfull is 0
    rd, level, produce, consume, storage = _fifo_regs(rxf)
    mem = h.ts.mems[storage]
    overrun = z3.And(phy_valid, rxfull)
    # overrun: the byte delivered while rxfull is 1 is dropped - even when software pops in the same cycle - and no stored byte is touched; nothing records the loss
    h.ensure("ens.rx.overrun-drops-only-new", z3.Implies(overrun, z3.And(h.n(produce) == X(produce), *[h.n(c) == X(c) for c in mem])))
    h.ensure("ens.rx.overrun-queue", z3.Implies(overrun, z3.And(h.primed(ql) == plen, *[z3.Implies(z3.ULT(K(i, LW), plen), h.primed(q[i]) == (z3.If(rx_pop, q[i + 1], q[i]))) for i in range(cap)])))
    h.ensure("ens.rx.nodrop", z3.Implies(accept, ule(plen, cap - 1)))
    h.ensure("ens.rx.head", z3.Implies(z3.Not(rxempty), z3.And(ql != K(0, LW), X(u._rxtx.w) == q[0])))               # the CSR shows the oldest unread byte
    h.ensure("ens.rx.swread", z3.Implies(z3.And(_sel(h, d, u._rxtx, d.bus.re), z3.Not(rxempty)), h.n(d.bus.dat_r) == zx(q[0], 32)))
    h.ensure("ens.rx.pop", rx_pop == z3.And(pop_cmd, z3.Not(rxempty)))                                                  # each pop command removes exactly the byte shown; nothing else pops
    h.ensure("ens.rx.pop-empty", z3.Implies(z3.And(pop_cmd, rxempty), z3.And(h.primed(ql) == z3.If(accept, ql + 1, ql), z3.Implies(ql != K(0, LW), h.primed(q[0]) == q[0]))))   # a pop command while rxempty is 1 has no effect (also in the latency cycle of a byte that just arrived: it is kept)
    h.respond("resp.rx.present", z3.BoolVal(True), z3.Not(rxempty), 2, start=ql != K(0, LW))                           # a queued byte is shown within 2 cycles
    return dict(ql=ql, q=q, accept=accept, overrun=overrun, rx_pop=rx_pop, rxempty=rxempty, rxfull=rxfull, phy_valid=phy_valid, rd_rxtx=rd_rxtx, pop_cmd=pop_cmd)

_RX_FUNCS = ["litex.soc.cores.uart.UART.__init__ (RX path, rxempty/rxfull, pop on ev.rx clear / rxtx read)", "litex.soc.cores.uart._get_uart_fifo",
             "litex.soc.interconnect.stream.SyncFIFO.__init__ (buffered)", "litex.soc.interconnect.csr_eventmanager.EventManager.do_finalize", "litex.soc.interconnect.csr_bus.CSRBank (flattened)"]

def c_uart_rx_stub(rx_depth=2, rx_we=False):
    """receiver side of the PHY abstracted: source.valid / source.data are free in every cycle (superset of what RS232PHYRX does: pulses >= 10 bit periods apart)"""
    tw = BIT // 4
    d, pads = _top(tw, 2, rx_depth, rx_we, stub_rx=True)
    src = d.phy.source
    h = HwCheck(f"UART.rx(abstract PHY source,rx{rx_depth},rx_we={rx_we})", d, _bus_inputs(d) + [src.valid, src.data, src.first, src.last])
    g = _rx_contract(h, d, src, rx_depth, rx_we)
    X = h.v; ql, q = g["ql"], g["q"]; LW = ql.size()
    h.cover("cover.rx.overrun", g["overrun"], depth=rx_depth + 6)
    h.cover("cover.rx.overrun+pop", z3.And(g["overrun"], g["rx_pop"]), depth=rx_depth + 8)                             # dropped although a slot is being freed in the same cycle
    h.cover("cover.rx.order", z3.And(g["rx_pop"], ql == K(2, LW), q[0] == K(0x11, 8), q[1] == K(0x22, 8)), depth=10)
    h.cover("cover.rx.pop-empty", z3.And(g["pop_cmd"], g["rxempty"], ql != K(0, LW)), depth=8)
    h.bmc_depth = 12; h.cosim_cycles = 16
    h.functions = list(_RX_FUNCS)
    return h

def c_uart_rx(tw=BIT // 4, rx_depth=2, rx_we=False, deep=False):
    """real RS232PHYRX on an arbitrary line"""
    d, pads = _top(tw, 2, rx_depth, rx_we)
    rx = d.phy.rx; src = rx.source
    h = HwCheck(f"UART+RS232PHY.rx(tw=2^32/{BIT / tw:.2f},rx{rx_depth},rx_we={rx_we})", d, _bus_inputs(d) + [pads.rx])
    g = _rx_contract(h, d, src, rx_depth, rx_we)
    X = h.v; ql, q = g["ql"], g["q"]; LW = ql.size(); T = _period(tw)
    # link to the per-bit contract of RS232PHYRX (C19_serial_ext): a byte is delivered exactly at the 10th sample when the stop bit is high
    st, enc = rx.fsm.state, rx.fsm.encoding
    run = eqc(X(st), enc["RUN"]); count = L(rx, "count"); rxs = L(rx, "rx")
    h.ensure("ens.rx.delivery", g["phy_valid"] == z3.And(run, b(X(rx.clk_phase_accum.tick)), eqc(X(count), 9), X(rxs) == K(1, 1)))
    h.ensure("ens.rx.ready-ignored", z3.Implies(g["phy_valid"], eqc(h.n(st), enc["IDLE"])))                          # the PHY does not wait for the FIFO (no back-pressure on a serial line)
    h.cover("cover.rx.read", z3.And(g["rd_rxtx"], z3.Not(g["rxempty"]), q[0] == K(0xA5, 8)), depth=11 * T + 10)
    h.bmc_depth = 11 * T + 10; h.bmc_time = 300; h.cosim_cycles = 20
    h.functions = list(_RX_FUNCS) + ["litex.soc.cores.uart.RS232PHY.__init__", "litex.soc.cores.uart.RS232PHYRX.__init__ (delivery pulse, ready ignored)"]
    return h

# ------------------------------------------------------------------------------------------------ loopback: tx pad wired to rx pad
def c_uart_loop(k=3, tx_depth=2, rx_depth=2, rx_we=True, deep=False, light=False):
    """bit period T = 2^k >= 8 cycles (tuning word 2^(32-k)), pads.rx = pads.tx in the harness, the only inputs are the CSR bus.
    TX contract + RX contract + link: the receiver delivers every frame exactly once, before the transmitter has finished the stop bit, with the byte
    at the head of the TX queue - so the bytes software reads from rxtx are the bytes it wrote, in order (as long as it pops before the RX FIFO overruns)."""
    assert k >= 3
    Tc = 1 << k; tw = 1 << (32 - k)
    d, pads = _top(tw, tx_depth, rx_depth, rx_we, loop=True)
    tx, rx = d.phy.tx, d.phy.rx; src = rx.source
    h = HwCheck(f"UART+RS232PHY.loopback(T={Tc},tx{tx_depth},rx{rx_depth},rx_we={rx_we})", d, _bus_inputs(d))
    X = h.v
    gt = _tx_contract(h, d, pads, tw, tx_depth, respond=not light)
    gr = _rx_contract(h, d, src, rx_depth, rx_we)
    one, zero = K(1, 1), K(0, 1)
    tq, tql = gt["q"], gt["ql"]; t_run, t_idle, tx_pop = gt["run"], gt["idle"], gt["tx_pop"]
    NW = k + 6
    # transmitter position
    t_cnt = L(tx, "count"); t_phase = L(tx.clk_phase_accum, "phase"); t_tick = tx.clk_phase_accum.tick
    t_ptop = z3.Extract(31, 32 - k, X(t_phase))
    t_cyc = t_ptop - K(1, k)                                               # cycle within the bit (the accumulator starts a frame at tw: top bits == 1)
    t_n = zx(z3.Concat(X(t_cnt), t_cyc), NW)                               # cycles since the line went low for this frame
    # receiver registers
    sync = sorted([s_ for s_ in h.ts.state if s_ not in h.ts.orig_signals and s_.nbits == 1], key=lambda s_: s_.duid)
    assert len(sync) == 2, sync
    r0, r1 = sync; rxs, rx_d, r_cnt, r_data = L(rx, "rx"), L(rx, "rx_d"), L(rx, "count"), L(rx, "data")
    r_phase = L(rx.clk_phase_accum, "phase"); r_tick = rx.clk_phase_accum.tick
    st, enc = rx.fsm.state, rx.fsm.encoding
    r_idle = eqc(X(st), enc["IDLE"]); r_run = eqc(X(st), enc["RUN"])
    r_ptop = z3.Extract(31, 32 - k, X(r_phase))
    n_rx = zx(z3.Concat(X(r_cnt) + zx(X(r_tick), 4), r_ptop), NW) - K(Tc // 2, NW)
    valid = gr["phy_valid"]
    # specification state: has the frame on the wire been delivered?
    boot = h.ghost("boot", 2); h.ghost_next(boot, z3.If(boot == K(3, 2), boot, boot + 1)); full = boot == K(3, 2)
    begin = z3.And(t_idle, eqc(h.n(tx.fsm.state), tx.fsm.encoding["RUN"]))
    dlv = h.ghost("delivered", 1); h.ghost_next(dlv, z3.If(begin, zero, z3.If(valid, one, dlv)))
    frame = z3.Concat(one, tq[0], zero)
    def fbit(idx4): return z3.Extract(0, 0, z3.LShR(frame, zx(idx4, 10)))
    def line_ago(j):
        same = z3.UGE(t_cyc, K(j, k))
        return z3.If(same, fbit(X(t_cnt)), z3.If(X(t_cnt) == K(0, 4), one, fbit(X(t_cnt) - 1)))
    def pipe(a, b_, c): return z3.And(X(r0) == a, X(r1) == b_, X(rx_d) == c)
    h.hint("lp.rst", ult(X(st), 2))
    h.hint("lp.boot0", z3.Implies(boot == K(0, 2), z3.And(pipe(zero, zero, zero), r_idle, t_idle, dlv == zero, tql == K(0, tql.size()))))
    h.hint("lp.boot1", z3.Implies(boot == K(1, 2), z3.And(pipe(one, zero, zero), r_idle, t_idle, dlv == zero, z3.Not(b(X(d.c.tx_fifo.fifo.readable))))))
    h.hint("lp.boot2", z3.Implies(boot == K(2, 2), z3.And(pipe(one, one, zero), r_idle, t_idle, dlv == zero)))
    h.hint("lp.tphase", z3.And(z3.Extract(31 - k, 0, X(t_phase)) == K(0, 32 - k), z3.Extract(31 - k, 0, X(r_phase)) == K(0, 32 - k)))
    h.hint("lp.ttick", z3.Implies(t_run, b(X(t_tick)) == (t_ptop == K(0, k))))
    h.hint("lp.tidle", z3.Implies(z3.And(t_idle, full), z3.And(r_idle, pipe(one, one, one))))
    h.hint("lp.pipe", z3.Implies(z3.And(t_run, full), pipe(line_ago(1), line_ago(2), line_ago(3))))
    h.hint("lp.trun", z3.Implies(t_run, full))
    h.hint("lp.pre", z3.Implies(z3.And(t_run, dlv == zero, r_idle), ult(t_n, 3)))
    h.hint("lp.pre2", z3.Implies(z3.And(t_run, ult(t_n, 3)), z3.And(r_idle, dlv == zero)))
    h.hint("lp.run", z3.Implies(r_run, z3.And(t_run, dlv == zero, ule(X(r_cnt), 9))))
    h.hint("lp.link", z3.Implies(r_run, t_n == n_rx + 3))
    h.hint("lp.rtick", z3.Implies(z3.And(r_run, b(X(r_tick))), r_ptop == K(0, k)))
    h.hint("lp.post", z3.Implies(z3.And(t_run, dlv == one), z3.And(r_idle, eqc(X(t_cnt), 9), z3.UGE(t_cyc, K(3, k)))))
    for n in range(2, 10):
        h.hint(f"lp.asm{n}", z3.Implies(z3.And(r_run, eqc(X(r_cnt), n)), z3.Extract(7, 9 - n, X(r_data)) == z3.Extract(n - 2, 0, tq[0])))
    # ---- postconditions
    sample = z3.And(r_run, b(X(r_tick)))
    h.ensure("ens.loop.sample-in-bit", z3.Implies(sample, z3.And(X(rxs) == fbit(X(r_cnt)), X(t_cnt) == X(r_cnt))))       # the k-th sample is taken while the transmitter is in bit k and is the level of that bit
    h.ensure("ens.loop.recover", z3.Implies(valid, z3.And(t_run, X(src.data) == tq[0], dlv == zero)))                      # the byte received is the byte being sent (head of the TX queue), once per frame
    h.ensure("ens.loop.all-delivered", z3.Implies(tx_pop, z3.Or(dlv == one, valid)))                                       # every frame has been received when its stop bit ends
    h.ensure("ens.loop.rx-idle-at-end", z3.Implies(tx_pop, z3.And(h.primed(r_idle), X(rxs) == one, X(rx_d) == one)))       # receiver ready for a frame that follows immediately
    h.ensure("ens.loop.quiet", z3.Implies(z3.And(t_idle, full), z3.And(r_idle, z3.Not(valid))))
    h.ensure("ens.loop.byte-through", z3.Implies(gr["accept"], z3.And(tql != K(0, tql.size()), X(d.c.rx_fifo.sink.data) == tq[0])))   # what enters the RX FIFO is the head of the TX queue
    T = Tc
    if not light and k == 3:
        # end to end, symbolic byte: a byte that is alone in the TX queue while the RX queue is empty is shown in rxtx (rxempty low) within
        # 3 (TX FIFO + PHY start) + 10 bit periods + 1 + 2 (RX FIFO) cycles, whatever software does on the bus meanwhile
        c = h.const("byte", 8); rql = gr["ql"]
        h.respond("resp.loop.readable", z3.BoolVal(True), z3.And(z3.Not(gr["rxempty"]), X(d.c._rxtx.w) == c), 10 * T + 7,
                  start=z3.And(tql == K(1, tql.size()), tq[0] == c, rql == K(0, rql.size()), z3.Or(t_idle, dlv == zero)))   # (not yet delivered: at T >= 16 a frame is received - and may be popped - before its stop bit ends)
    # covers on a pinned schedule (0xA5 written to rxtx in the first cycle, no bus write afterwards): the deep search is propagation only
    w0 = h.ghost("w0", 1); age = h.ghost("age", 1); h.ghost_next(age, one)
    h.ghost_next(w0, z3.If(age == zero, bv1(z3.And(gt["wr_rxtx"], z3.Extract(7, 0, X(d.bus.dat_w)) == K(0xA5, 8))), w0))
    nw = h.ghost("nowrite", 1, init=1); h.ghost_next(nw, z3.If(z3.And(age == one, b(X(d.bus.we))), zero, nw))
    pinned = z3.And(b(w0), b(nw))
    h.cover("cover.loop.sample", z3.And(sample, eqc(X(r_cnt), 3), X(rxs) == one, tq[0] == K(0xA5, 8), pinned), depth=4 * T + 10)
    if deep:
        h.cover("cover.loop.read", z3.And(gr["rd_rxtx"], z3.Not(gr["rxempty"]), gr["q"][0] == K(0xA5, 8), pinned), depth=10 * T + 10)
        h.bmc_time = 900
    h.bmc_depth = 10 * T + 12; h.cosim_cycles = 20
    h.functions = ["litex.soc.cores.uart.UART.__init__", "litex.soc.cores.uart.RS232PHY.__init__", "litex.soc.cores.uart.RS232PHYTX.__init__", "litex.soc.cores.uart.RS232PHYRX.__init__",
                   "litex.soc.cores.uart.RS232ClkPhaseAccum.__init__", "litex.soc.cores.uart._get_uart_fifo", "litex.soc.interconnect.stream.SyncFIFO.__init__ (buffered)", "litex.soc.interconnect.csr_bus.CSRBank (flattened)"]
    return h

def cases(tier):
    cs = [Case("UART+RS232PHY.tx(T=4,tx2)", c_uart_tx, BIT // 4, 2, True, "frame"),
          Case("UART+RS232PHY.tx(T=5.33,tx2)", c_uart_tx, 0x30000000, 2, True, False),
          Case("UART+RS232PHY.tx(programmable tuning word,tx2)", c_uart_tx_dynamic, 2),
          Case("UART.rx(abstract PHY source,rx2)", c_uart_rx_stub, 2, False), Case("UART.rx(abstract PHY source,rx2,rx_we)", c_uart_rx_stub, 2, True),
          Case("UART+RS232PHY.rx(T=4,rx2,rx_we)", c_uart_rx, BIT // 4, 2, True),
          Case("UART+RS232PHY.loopback(T=8,rx_we)", c_uart_loop, 3, 2, 2, True, True, False),
          Case("UART+RS232PHY.loopback(T=16)", c_uart_loop, 4, 2, 2, False, False, True)]
    if tier == "thorough":
        cs += [Case("UART+RS232PHY.tx(T=4,tx4,b2b)", c_uart_tx, BIT // 4, 4, True, "b2b"), Case("UART+RS232PHY.tx(T=10.7,tx2)", c_uart_tx, 0x18000000, 2, True, "frame"),
               Case("UART+RS232PHY.tx(programmable tuning word,tx4)", c_uart_tx_dynamic, 4),
               Case("UART.rx(abstract PHY source,rx4)", c_uart_rx_stub, 4, False), Case("UART.rx(abstract PHY source,rx4,rx_we)", c_uart_rx_stub, 4, True),
               Case("UART+RS232PHY.rx(T=5.33,rx4)", c_uart_rx, 0x30000000, 4, False),
               Case("UART+RS232PHY.loopback(T=16,deep)", c_uart_loop, 4, 2, 2, False, True, False, timeout=3000),
               Case("UART+RS232PHY.loopback(T=8,tx4,rx4)", c_uart_loop, 3, 4, 4, False, True, False, timeout=3000)]
    return cs

ASSUMPTIONS = [
    "UART class cases: UART + RS232PHY elaborated behind a real csr_bus.CSRBank at page 0 (32-bit CSR bus), unconstrained bus master (any access in any cycle, back-to-back and overlapping); both FIFOs in the sys domain (stream.SyncFIFO buffered: a FIFO of depth d holds d+1 bytes), depths 2 (quick) / 4 (thorough); phy_cd != sys (AsyncFIFO), add_auto_tx_flush, UARTCrossover, UARTBone, RS232PHYMultiplexer not covered",
    "TX: constant tuning words 2^30 (4 cycles/bit), 0x30000000 (5.33), (0x18000000: 10.67) with bounded response (frame on the wire <= 3 cycles after a byte is queued behind an idle transmitter, complete within 10 bit periods + 1), and the programmable tuning word register (with_dynamic_baudrate) for every 32-bit value, rewritten at any time: there the bit clock is stated as the carry count of the sum of the register over the RUN cycles; a tuning word of 0 stops the bit clock (frame resumes when software programs a non-zero value) - termination is stated as a ranking clause (ens.tx.progress / ens.tx.bound), not as a cycle bound",
    "status registers: txfull/rxfull <=> depth+1 bytes queued; txempty/rxempty <=> nothing queued, EXCEPT the single cycle after a byte entered an empty FIFO (output-register latency of the buffered FIFO: the byte is queued but the flag still reads 'empty'; stated exactly in ens.txempty / ens.rxempty; only a bus master that reads the status in the cycle right after the write can observe it)",
    "RX: the ghost queue is pushed by the delivery pulses of the PHY source (real RS232PHYRX on an arbitrary line, or a free valid/data source = superset); RS232PHYRX ignores ready, so a byte delivered while rxfull is 1 is dropped (also when software pops in that very cycle), the stored bytes are untouched and NO status bit records the loss: silent overrun, judged as normal UART behaviour (C19 asks for recovery of the frame by the receiver, which RS232PHYRX.link cases prove; the FIFO capacity is a software deadline)",
    "loopback cases: pads.rx = pads.tx in the harness, bit periods of 8 and 16 cycles (tuning words 2^29, 2^28); at a bit period of 4 cycles the receiver finishes two cycles after the transmitter has left its stop bit (not covered by the link invariant; the TX and RX cases at T=4 do not depend on it)",
]
